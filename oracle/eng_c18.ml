(* C18 engine (concurrent): runs FrimModel.full_run on a case line.
   Case grammar (items separated by ';', any order, any subset is a valid case):
     i K V        initial entry (inserted before the threads start)
     p T <op>     append <op> to the program of thread T
     s T          one scheduler step of thread T (no effect once T has finished);
                  after the last 's' every thread runs to completion, thread 0 first
   <op> ::= I k v | R k | T <pred> n | P k v k v ... | G k | H k | L | E | Z | N k v
            insert   remove  retain       replace         get contains len iterate is_empty entry(k).or_insert_with(|| v)
   (N takes up to three steps: the lookup - done if occupied -, then parked in the default function; insert's load, parked
    in insert's rcu closure; the compare-and-swap)
   <pred> ::= kle | kgt | kne | vle | vgt      (keep entries with key<=n, key>n, key<>n, value<=n, value>n)
   Observation: "T<t> <ret>..." per thread, "F <final contents sorted>", "x<failed CAS attempts>".
   Shared with eng_c18seq.ml: parse_op, show_ret, show_vec. *)
open Conv
open FrimModel

let num s = n_of_int (int_of_string s)

let pred kind c : BinNums.coq_N -> BinNums.coq_N -> bool =
  let c = int_of_string c in
  match kind with
  | "kle" -> (fun k _ -> int_of_n k <= c)
  | "kgt" -> (fun k _ -> int_of_n k > c)
  | "kne" -> (fun k _ -> int_of_n k <> c)
  | "vle" -> (fun _ v -> int_of_n v <= c)
  | "vgt" -> (fun _ v -> int_of_n v > c)
  | _ -> failwith ("bad predicate " ^ kind)

let rec pairs = function
  | [] -> []
  | k :: v :: r -> (num k, num v) :: pairs r
  | _ -> failwith "replace: odd number of fields"

let parse_op toks =
  match toks with
  | ["I"; k; v] -> FIns (num k, num v)
  | ["R"; k] -> FRem (num k)
  | ["T"; kind; c] -> FRetain (pred kind c)
  | "P" :: kvs -> FRepl (fv_build (pairs kvs))
  | ["G"; k] -> FGet (num k)
  | ["H"; k] -> FHas (num k)
  | ["L"] -> FLen
  | ["E"] -> FIter
  | ["Z"] -> FEmpty
  | ["N"; k; v] -> FEntry (num k, num v)
  | _ -> failwith ("bad op: " ^ join " " toks)

let show_vec (l : fvec) =
  let l = Stdlib.List.sort compare (Stdlib.List.map (fun (k, v) -> (int_of_n k, int_of_n v)) l) in
  "[" ^ join "," (Stdlib.List.map (fun (k, v) -> Printf.sprintf "%d:%d" k v) l) ^ "]"

let show_ret = function
  | RUnit -> "u"
  | ROpt None -> "n"
  | ROpt (Some v) -> "s" ^ string_of_int (int_of_n v)
  | RBool b -> if b then "b1" else "b0"
  | RNum n -> "l" ^ string_of_int (int_of_n n)
  | RList l -> show_vec l
  | RVal v -> "v" ^ string_of_int (int_of_n v)

(* Which remove() the rotonda tree has: [true] = the result variable is reset
   inside the rcu closure (the repair, see known_findings/C18.json); [false] =
   the code as it was. With [false] the oracle prints `model ||| spec` wherever
   the faithful model of the old code departs from the linearizable behaviour. *)
let code_is_fixed = true

let observe nthreads (s : gstate) =
  let per_thread t =
    let rets = thread_rets (nat_of_int t) s.g_log in
    let stuck = if thread_done s (nat_of_int t) then [] else ["STUCK"] in
    join " " (("T" ^ string_of_int t) :: Stdlib.List.map show_ret rets @ stuck) in
  join " " (Stdlib.List.init nthreads per_thread
            @ ["F"; show_vec s.g_cur; "x" ^ string_of_int (int_of_n s.g_fail)])

let parse_case line =
  let init = ref [] and progs = Hashtbl.create 7 and sched = ref [] and maxt = ref (-1) in
  let touch t = if t > !maxt then maxt := t in
  Stdlib.List.iter (fun item ->
    match words item with
    | ["i"; k; v] -> init := (num k, num v) :: !init
    | "p" :: t :: op ->
        let t = int_of_string t in
        touch t;
        let old = try Hashtbl.find progs t with Not_found -> [] in
        Hashtbl.replace progs t (parse_op op :: old)
    | ["s"; t] -> let t = int_of_string t in touch t; sched := t :: !sched
    | [] -> ()
    | _ -> failwith ("bad item: " ^ item)) (split_on ';' line);
  let n = !maxt + 1 in
  let prog t = Stdlib.List.rev (try Hashtbl.find progs t with Not_found -> []) in
  (fv_build (Stdlib.List.rev !init), Stdlib.List.init n prog, Stdlib.List.rev !sched, n)

(* model ||| spec: the number of failed compare-and-swap attempts (last token)
   ties the model's stamps to ArcSwap's ptr_eq, but the property does not speak
   about it: the spec side leaves it open. *)
let open_retries obs =
  match Stdlib.List.rev (words obs) with
  | _ :: r -> join " " (Stdlib.List.rev ("*" :: r))
  | [] -> obs

let run_case (line : string) : string =
  let (init, progs, sched, n) = parse_case line in
  let obs cv = observe n (full_run cv init progs (Stdlib.List.map nat_of_int sched)) in
  let spec = obs VFixed in
  let model = if code_is_fixed then spec else obs VAsWas in
  model ^ " ||| " ^ open_retries spec
