(* confdef engine (C13): field-level configuration defaults of bmp-tcp-in, rib and
   mqtt-out, ConfDefaultsModel.cd_effective on one case line.  A case is a history
   of loads separated by ';'; one load names, per component, what the file gives to
   each key of the schema (in schema order):
     b <http_api_path> <router_id_template> , r <http_api_path> , m <qos> <topic_template> <connect_retry_secs> <publish_max_secs> <queue_size>
   value: - unset | i<int> | s<text> | o (a boolean).
   Observation per load: E (the file is refused) or
     ok b:<settings> r:<settings> m:<settings>    settings = k=<i..|s..>,...  in schema order. *)
open Conv
open ConfDefaultsModel

let z_of_int i = if i = 0 then BinNums.Z0 else if i > 0 then BinNums.Zpos (pos_of_int i) else BinNums.Zneg (pos_of_int (-i))
let rec int_of_z = function BinNums.Z0 -> 0 | BinNums.Zpos p -> int_of_pos p | BinNums.Zneg p -> - (int_of_pos p)
let bytes_of_string (s : string) = Stdlib.List.init (String.length s) (fun i -> n_of_int (Char.code s.[i]))
let string_of_bytes l = String.concat "" (Stdlib.List.map (fun b -> String.make 1 (Char.chr (int_of_n b))) l)

let val_of_tok (t : string) : cd_val option =
  if t = "-" then None
  else match t.[0] with
    | 'i' -> Some (DInt (z_of_int (int_of_string (String.sub t 1 (String.length t - 1)))))
    | 's' -> Some (DStr (bytes_of_string (String.sub t 1 (String.length t - 1))))
    | _ -> Some DOther

let show_val = function
  | DInt z -> "i" ^ string_of_int (int_of_z z)
  | DStr s -> "s" ^ string_of_bytes s
  | DOther -> "o"

let settings (schema : cd_field list) (toks : string list) : string option =
  let vals = Stdlib.List.map val_of_tok toks in
  let table (k : BinNums.coq_N) = try Stdlib.List.nth vals (int_of_n k) with _ -> None in
  match cd_effective table schema with
  | None -> None
  | Some e -> Some (join "," (Stdlib.List.map (fun (k, v) -> string_of_int (int_of_n k) ^ "=" ^ show_val v) e))

let run_load (op : string) : string =
  let comps = Stdlib.List.map words (split_on ',' op) in
  let find c = match Stdlib.List.find_opt (fun w -> Stdlib.List.hd w = c) comps with Some w -> Stdlib.List.tl w | None -> failwith ("missing component " ^ c) in
  match settings cd_bmp_schema (find "b"), settings cd_rib_schema (find "r"), settings cd_mqtt_schema (find "m") with
  | Some b, Some r, Some m -> "ok b:" ^ b ^ " r:" ^ r ^ " m:" ^ m
  | _ -> "E"

let run_case (line : string) : string =
  join " " (Stdlib.List.map run_load (split_on ';' line))
