(* Conversions between OCaml ints / text and the extracted Coq datatypes.
   Trusted glue (see DESIGN.md, trusted base). *)
open BinNums

let rec pos_of_int i =
  if i <= 1 then Coq_xH
  else if i land 1 = 0 then Coq_xO (pos_of_int (i lsr 1))
  else Coq_xI (pos_of_int (i lsr 1))
let n_of_int i = if i <= 0 then N0 else Npos (pos_of_int i)
let rec int_of_pos = function
  | Coq_xH -> 1
  | Coq_xO p -> 2 * int_of_pos p
  | Coq_xI p -> 2 * int_of_pos p + 1
let int_of_n = function N0 -> 0 | Npos p -> int_of_pos p
let rec nat_of_int i = if i <= 0 then Datatypes.O else Datatypes.S (nat_of_int (i - 1))
let rec int_of_nat = function Datatypes.O -> 0 | Datatypes.S n -> 1 + int_of_nat n

let split_on c s = Stdlib.List.filter (fun x -> x <> "") (String.split_on_char c s)
let words s = split_on ' ' (String.trim s)
let opt_of_tok f t = if t = "-" then None else Some (f t)
let join sep l = String.concat sep l
let sort_ints l = Stdlib.List.sort compare l
