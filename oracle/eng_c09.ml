(* C09 engine: T writer threads on one RIB, RibConc.step (ser = true: the tree
   with the repair) under the schedule of the case. Prints the model's
   observation (= the property's: see Props_C09 C09_interleaving_equals_sequential).
   Case grammar (items separated by ';'):
     p T B id:fam:pfx:a,...   thread T: Update::Bulk   (a = attribute number, or w = withdrawal)
     p T S id:fam:pfx:a       thread T: Update::Single
     p T W id f|-             thread T: Update::Withdraw(id, Some family | None); family 0..3 = IPv4/IPv6
                              unicast, IPv4/IPv6 multicast; 4.. = a family Rib::withdraw_for_ingress has no arm
                              for (4 IPv4 MPLS unicast ... 9 IPv4 FlowSpec, 10 IPv6 FlowSpec, 11 VPLS, 12 EVPN,
                              13.. AfiSafiType::Unsupported): that call panics, observation `panic`
     p T X id,id,...          thread T: Update::WithdrawBulk
     p T E id                 thread T: UpstreamStatusChange(EndOfStream)  (RIB untouched)
     s T                      schedule: thread T executes its next Update (all its store-level steps):
                              `ok`, `panic` (the call did not return: RibConc.c_panics grew), `-` (nothing left)
     q af pfx                 a reader queries (af 0 = v4, 1 = v6) at this point
   After the last item every thread runs to completion (thread 0 first; one
   `panic` per Update that panics), then every (af, prefix) mentioned in the
   case is queried. *)
open Conv
open RibModel
open RibConc

let n = n_of_int

let payload_of tok =
  match String.split_on_char ':' tok with
  | [id; fam; pfx; a] ->
      let key = ((n (int_of_string fam), n (int_of_string pfx)), n (int_of_string id)) in
      if a = "w" then { p_key = key; p_active = false; p_attrs = n 0 }
      else { p_key = key; p_active = true; p_attrs = n (int_of_string a) }
  | _ -> failwith ("bad payload " ^ tok)

let update_of toks : update =
  match toks with
  | ["B"; l] -> UBulk (Stdlib.List.map payload_of (split_on ',' l))
  | ["S"; p] -> UBulk [payload_of p]
  | ["W"; id; f] -> UWithdraw (n (int_of_string id), opt_of_tok (fun x -> n (int_of_string x)) f)
  | ["X"; l] -> UWithdrawBulk (Stdlib.List.map (fun x -> n (int_of_string x)) (split_on ',' l))
  | ["E"; _] -> UPass
  | _ -> failwith ("bad update: " ^ join " " toks)

let prefixes_of (u : update) : int list =
  match u with
  | UBulk ps -> Stdlib.List.map (fun p -> let ((_, pfx), _) = p.p_key in int_of_n pfx) ps
  | _ -> []

let show_query (r : rib) af pfx : string =
  let es = rib_query r (n af) (n pfx) in
  let toks = Stdlib.List.map (fun ((id, s), a) -> (int_of_n id, Printf.sprintf "%d=%s%d" (int_of_n id) (if s then "A" else "W") (int_of_n a))) es in
  let toks = Stdlib.List.map snd (Stdlib.List.sort compare toks) in
  Printf.sprintf "q:%d/%d:%s" af pfx (join "," toks)

let run_case (line : string) : string =
  let items = Stdlib.List.map words (split_on ';' line) in
  (* pass 1: programs *)
  let nthreads = Stdlib.List.fold_left (fun acc it -> match it with
      | "p" :: t :: _ | ["s"; t] -> max acc (int_of_string t + 1) | _ -> acc) 0 items in
  let progs = Array.make (max nthreads 1) [] in
  let pfxs = ref [] in
  Stdlib.List.iter (fun it -> match it with
      | "p" :: t :: rest ->
          let u = update_of rest in
          pfxs := prefixes_of u @ !pfxs;
          let t = int_of_string t in progs.(t) <- u :: progs.(t)
      | ["q"; _; p] -> pfxs := int_of_string p :: !pfxs
      | _ -> ()) items;
  let progs = Array.map Stdlib.List.rev progs in
  let c = ref (init (Array.to_list progs)) in
  let remaining = Array.copy progs in
  let out = ref [] in
  let emit s = out := s :: !out in
  let exec t =
    match remaining.(t) with
    | [] -> None
    | u :: us ->
        remaining.(t) <- us;
        let before = Stdlib.List.length !c.c_panics in
        c := steps true (upd_cost u) !c (nat_of_int t);
        Some (if Stdlib.List.length !c.c_panics > before then "panic" else "ok") in
  (* pass 2: schedule *)
  Stdlib.List.iter (fun it -> match it with
      | ["s"; t] -> emit (match exec (int_of_string t) with Some o -> o | None -> "-")
      | ["q"; af; p] -> emit (show_query !c.c_rib (int_of_string af) (int_of_string p))
      | "p" :: _ -> ()
      | _ -> failwith ("bad item: " ^ join " " it)) items;
  Array.iteri (fun t _ ->
      let go = ref true in
      while !go do
        match exec t with Some "panic" -> emit "panic" | Some _ -> () | None -> go := false
      done) remaining;
  if not (all_done !c) then failwith "model: some thread did not finish";
  emit "F";
  let ps = Stdlib.List.sort_uniq compare !pfxs in
  Stdlib.List.iter (fun af -> Stdlib.List.iter (fun p -> emit (show_query !c.c_rib af p)) ps) [0; 1];
  join " " (Stdlib.List.rev !out)
