(* bstream engine: BmpStreamModel.run_from (the repaired code) over one case line.
   Case grammar and observation: see harness/src/engines/bstream.rs.
   The parser argument of the model is the table of the case (full mode: the
   frames the generator rendered with the repository's encoders, every other
   frame does not parse) or the parser that rejects everything (shape mode: the
   observation is then restricted to what C06_end_independent_of_content and
   C07_cleanup_once show to be independent of the parser). *)
open Conv
open BmpModel
open BmpStreamModel

let n = n_of_int
let pool = [|
  (0,0,0,0,1,65001,1); (0,0,0,0,1,65001,2); (0,1,0,0,1,65001,1); (0,0,1,0,1,65001,1);
  (1,0,0,7,1,65001,1); (0,0,0,0,2,65001,1); (0,0,0,0,1,65002,1); (3,0,0,0,1,65001,1);
  (0,0,0,0,3,65003,3); (1,0,0,8,1,65001,1) |]
let pph_of i =
  let (t,l,o,d,a,s,b) = pool.(i) in
  ((((((n t, n l), n o), n d), n a), n s), n b)

let kinds = [
  "timedout", KTimedOut; "interrupted", KInterrupted; "notfound", KNotFound; "permissiondenied", KPermissionDenied;
  "connectionrefused", KConnectionRefused; "connectionreset", KConnectionReset; "connectionaborted", KConnectionAborted;
  "notconnected", KNotConnected; "addrinuse", KAddrInUse; "addrnotavailable", KAddrNotAvailable; "brokenpipe", KBrokenPipe;
  "alreadyexists", KAlreadyExists; "wouldblock", KWouldBlock; "invalidinput", KInvalidInput; "invaliddata", KInvalidData;
  "writezero", KWriteZero; "unsupported", KUnsupported; "unexpectedeof", KUnexpectedEof; "outofmemory", KOutOfMemory;
  "other", KOther; "unlisted", KUnlisted ]
let kind_name k = fst (Stdlib.List.find (fun (_, x) -> x = k) kinds)

let unhex s = Stdlib.List.init (String.length s / 2) (fun i -> int_of_string ("0x" ^ String.sub s (2 * i) 2))
let hex_of (l : BinNums.coq_N list) = String.concat "" (Stdlib.List.map (fun b -> Printf.sprintf "%02x" (int_of_n b)) l)

let plist tok = if tok = "-" then [] else Stdlib.List.map (fun t -> n (int_of_string t)) (split_on '+' tok)

let msg_of_descr (d : string) : msg =
  let f = Array.of_list (String.split_on_char '.' d) in
  let i k = int_of_string f.(k) in
  match f.(0) with
  | "I" -> MInit
  | "X" -> MTerm
  | "S" -> MStats (pph_of (i 1))
  (* Route Mirroring (type 6): the state machine treats it exactly as a Statistics Report (BmpStreamModel.msg_type_code) *)
  | "M" -> MStats (pph_of (i 1))
  | "U" -> MPeerUp (pph_of (i 1), i 2 = 1)
  | "D" -> MPeerDown (pph_of (i 1))
  | "R" -> MRoute (pph_of (i 1), Some (URoutes (n (i 2), plist f.(4), n (i 3), n (i 5), plist f.(6))))
  | "E" -> MRoute (pph_of (i 1), Some (UEor (n (i 2))))
  | "N" -> MRoute (pph_of (i 1), None)
  (* the octets of an UPDATE, read by C04's decoder as in the pipeline model (Pipe/PipeRaw.v) *)
  | "RB" -> MRoute (pph_of (i 1), PipeRaw.raw_upd (C04_util.ns_of_hex f.(2)))
  | s -> failwith ("bad descriptor " ^ s)

let cap = 1 lsl 20

(* the same safety guard as the harness: a declared length above the cap is not executed *)
let declares_huge (flat : int option array) : bool =
  let len = Array.length flat in
  let i = ref 0 and huge = ref false and stop = ref false in
  while not !stop && !i < len do
    (* read 5 header bytes *)
    let h = ref [] and restart = ref false in
    while not !stop && not !restart && Stdlib.List.length !h < 5 do
      if !i >= len then stop := true
      else (match flat.(!i) with None -> incr i; restart := true | Some b -> h := !h @ [b]; incr i)
    done;
    if not !stop && not !restart then begin
      let l = match !h with [_; a; b; c; d] -> (((a * 256 + b) * 256 + c) * 256 + d) | _ -> 0 in
      if l > cap then (huge := true; stop := true)
      else begin
        let need = ref (max 0 (l - 5)) in
        while not !stop && not !restart && !need > 0 do
          if !i >= len then stop := true
          else (match flat.(!i) with None -> incr i; restart := true | Some _ -> incr i; decr need)
        done
      end
    end
  done;
  !huge

let kind_char = function
  | GUpd (RibModel.UBulk _) -> "u" | GUpd (RibModel.UWithdraw _) -> "w" | GUpd (RibModel.UWithdrawBulk _) -> "W"
  | GUpd RibModel.UPass -> "o" | GEos _ -> "eos"

let run_case (line : string) : string =
  let evs = ref [] and hang = ref false and table = ref [] and full = ref false and wire = ref false in
  Stdlib.List.iter (fun s ->
      match words s with
      (* T * : no parse table - the frames come from the PROVED BMP encoder (oracle bmpenc) and the parser of the model is
         the decoder of that codec followed by the state machine's reading of the frame (BmpWireAbs.wire_msg; C06_wire_*,
         C07_wire_cleanup_once) *)
      | ["T"; "*"] -> full := true; wire := true
      | "T" :: rest ->
          full := true;
          Stdlib.List.iter (fun t ->
              Stdlib.List.iter (fun kv ->
                  match String.split_on_char '=' kv with
                  | [k; v] -> table := (k, v) :: !table
                  | _ -> ()) (split_on ',' t)) rest
      | ["B"] -> ()
      | ["B"; h] -> evs := !evs @ [`B (unhex h)]
      | ["E"; k] -> evs := !evs @ [`E (Stdlib.List.assoc k kinds)]
      | ["Z"; t] -> hang := (t = "hang")
      | ["G"] -> evs := !evs @ [`G]
      | ["H"; k] -> evs := !evs @ [`H (int_of_string k)]
      | ["L"] -> evs := !evs @ [`L]
      | [] -> ()
      | _ -> failwith ("bad op: " ^ s)) (split_on ';' line);
  let flat = Array.of_list (Stdlib.List.concat_map (function `B l -> Stdlib.List.map (fun b -> Some b) l | `E _ -> [None] | `G | `H _ | `L -> []) !evs) in
  if declares_huge flat then "HUGE" else begin
    let mevs = Stdlib.List.concat_map (function `B l -> Stdlib.List.map (fun b -> EByte (n b)) l | `E k -> [EErr k] | `G | `H _ | `L -> []) !evs in
    (* where the HTTP client asks: after how many read events *)
    let gets =
      let k = ref 0 and acc = ref [] in
      Stdlib.List.iter (function `B l -> k := !k + Stdlib.List.length l | `E _ -> incr k | `G -> acc := !k :: !acc | `H _ | `L -> ()) !evs;
      Stdlib.List.rev !acc in
    (* `H m` / `L` placed after k read events: (k, m) / k *)
    let holds, locks =
      let k = ref 0 and hs = ref [] and ls = ref [] in
      Stdlib.List.iter (function `B l -> k := !k + Stdlib.List.length l | `E _ -> incr k | `G -> ()
                                | `H m -> hs := (!k, m) :: !hs | `L -> ls := !k :: !ls) !evs;
      Stdlib.List.rev !hs, Stdlib.List.rev !ls in
    if Stdlib.List.length holds > 1 || Stdlib.List.length locks > 1 then failwith "at most one H and one L per case";
    if (holds <> [] || locks <> []) && gets <> [] then failwith "G is not combined with H or L";
    if holds <> [] && locks <> [] then failwith "H and L are not combined";
    let parse fr = if !wire then BmpWireAbs.wire_msg fr else if !full then (match Stdlib.List.assoc_opt (hex_of fr) !table with
                                  | Some d when d <> "y" ->
                                      (* BmpStreamModel.parse_types_ok: what routecore's from_octets guarantees, and what every
                                         frame of a parse table satisfies (they come from the encoders) *)
                                      if int_of_n (frame_type fr) > 6 then failwith "parse table holds a frame with a type octet above 6";
                                      Some (msg_of_descr d)
                                  | _ -> None) else None in
    let (rid, s0) = conn_init (n 1) in
    let (uid, _) = IngressModel.reg_register IngressModel.reg_new in
    let total = Stdlib.List.length mevs in
    (* the loop with the unit level counters; BmpUnitProofs.loopm_fst: its first component is run_from *)
    let (res, ures) = run_from_m parse (if !hang then THang else TEof) rid mevs s0 um_init in
    (* the unit level counters as /metrics shows them for this router *)
    let unit_token (s : sess) (u : umetrics) =
      let unproc = int_of_n s.s_sm.sm_metrics.m_unprocessable in
      match u.um_router with
      | None -> Printf.sprintf "k:-,l%d,s%d" (int_of_n u.um_lost) unproc
      | Some _ ->
          let r = router_metrics u in
          Printf.sprintf "k:%s,p%d,i%d,e%d,l%d,s%d" (join "." (Stdlib.List.map (fun x -> string_of_int (int_of_n x)) r.rm_recv))
            (int_of_n r.rm_processed) (int_of_n r.rm_invalid) (int_of_n r.rm_ioerr) (int_of_n u.um_lost) unproc in
    (* after the session: connection_lost_count, the router's series gone, bmp_num_connected_routers back to 0 *)
    let final_token res =
      let u = unit_final (res, ures) in
      Printf.sprintf "K:%d,l%d,c0" (match u.um_router with None -> 0 | Some _ -> 1) (int_of_n u.um_lost) in
    let shape_tokens out =
      let l = Stdlib.List.length out in
      let tail = Stdlib.List.filteri (fun i _ -> i >= l - 2) out in
      let tail_s = if tail = [] then "-" else join "," (Stdlib.List.map kind_char tail) in
      let eos = Stdlib.List.length (Stdlib.List.filter (function GEos _ -> true | _ -> false) out) in
      let cover = if cleanup_ok rid out then "ok" else if tail_s = "W,eos" then "MISSING" else "-" in
      [ "tail:" ^ tail_s; Printf.sprintf "eos:%d" eos; "cover:" ^ cover ] in
    let name_of reg id =
      if id = rid then "router" else if id = uid then "unit" else
      match IngressModel.reg_get reg id with
      | None -> "?" ^ string_of_int (int_of_n id)
      | Some i ->
          let o = function None -> "-" | Some x -> string_of_int (int_of_n x) in
          (* wire mode: BmpWireAbs.abs_addr = 2 * PipeRaw.bytes_code (the four octets of an IPv4 address) + V; shown as the
             harness shows an address outside 192.0.2.0/24 *)
          let oa = function
            | Some x when !wire ->
                let c = int_of_n x / 2 in
                if int_of_n x mod 2 = 0 && c lsr 32 = 1 then Printf.sprintf "[%d.%d.%d.%d]" (c land 255) ((c lsr 8) land 255) ((c lsr 16) land 255) ((c lsr 24) land 255)
                else "[v6]"
            | x -> o x in
          Printf.sprintf "p%s.%s.%s%s" (oa i.IngressModel.i_addr) (o i.IngressModel.i_asn) (o i.IngressModel.i_rib)
            (if i.IngressModel.i_parent = Some rid then "" else "!parent") in
    let show reg = function
      | GUpd (RibModel.UBulk ps) ->
          let na = Stdlib.List.length (Stdlib.List.filter (fun p -> p.RibModel.p_active) ps) in
          let nw = Stdlib.List.length ps - na in
          let ids = Stdlib.List.sort_uniq compare (Stdlib.List.map (fun p -> let (_, m) = p.RibModel.p_key in int_of_n m) ps) in
          Printf.sprintf "u:%da%dw:%s" na nw (join "|" (Stdlib.List.map (fun i -> name_of reg (n i)) ids))
      | GUpd (RibModel.UWithdraw (id, None)) -> "w:" ^ name_of reg id
      | GUpd (RibModel.UWithdraw (id, Some _)) -> "wf:" ^ name_of reg id
      | GUpd (RibModel.UWithdrawBulk l) -> "W:[" ^ join "," (Stdlib.List.sort compare (Stdlib.List.map (name_of reg) l)) ^ "]"
      | GUpd RibModel.UPass -> "o"
      | GEos id -> "eos:" ^ name_of reg id in
    let full_tokens s out =
      if !full then ["|"; Printf.sprintf "phase:%d" (int_of_n (phase_idx s.s_sm.sm_phase))] @ Stdlib.List.map (show s.s_reg) out else [] in
    (* the pages: BmpPageModel.page_at. The reader gets to a `G` placed after k events iff it is asked for more
       at that point: more events were consumed, or exactly k and the session ended on the tail of the script *)
    let get_tokens e pos =
      Stdlib.List.concat_map (fun k ->
          let reached = k < pos || (k = pos && (e = EndEof || e = EndTerm)) in
          let ktok =
            if not !full then [] else
            match conn_at parse rid mevs (nat_of_int k) s0 um_init with
            | None -> ["k:-"]
            | Some (s, u) -> [unit_token s (page_visit u)] in      (* the client read the router's page first *)
          (fun g -> g :: ktok)
          (match BmpPageModel.page_at parse rid mevs (nat_of_int k) s0 with
          | None -> if reached then failwith "page_at: session over, but the reader is asked again" else "g:-"
          | Some _ when not reached -> failwith "page_at: session alive, but the reader is not asked again"
          | Some None -> "g:L200,Ipanic,m1"
          | Some (Some l) ->
              if !full then begin
                let ids = Stdlib.List.map int_of_n l in
                let rec asc = function a :: (b :: _ as r) -> a < b && asc r | _ -> true in
                Printf.sprintf "g:L200,I200,m1,e%d,o%d" (Stdlib.List.length ids) (if asc ids then 1 else 0)
              end else "g:L200,I200,m1")) gets in
    (* the receiving end holds for an hour (BmpStreamModel.hold_index / waits_of / received): what it has got once the
       task has returned, and which update it sat on. The reader gets to an `H` / `L` as it gets to a `G`. *)
    let hour = n 3600000 in
    let reached e pos k = k < pos || (k = pos && (e = EndEof || e = EndTerm)) in
    let hold_idx e pos =
      match holds with
      | [] -> None
      | (k, m) :: _ ->
          let idx = hold_index parse rid mevs { h_pos = nat_of_int k; h_more = nat_of_int m; h_for = hour } s0 in
          (match idx, reached e pos k with
           | None, true -> failwith "hold_index: session over, but the reader is asked again"
           | Some _, false -> failwith "hold_index: session alive, but the reader is not asked again"
           | _ -> ());
          idx in
    let hold_tokens idx out =
      match holds with
      | [] -> []
      (* shape mode: which update is held depends on what the frames say, which the rejecting parser does not know *)
      | _ when not !full -> ["*"]
      | _ ->
          let held = match idx with None -> None | Some i -> Stdlib.List.nth_opt out (int_of_nat i) in
          (match held with
           | Some g ->
               if int_of_n (finished_at (waits_of idx hour) out) <> 3600000 then failwith "finished_at: the task returned before the hour was over";
               ["h:" ^ kind_char g]
           | None -> ["h:-"]) in
    let lock_tokens e pos = Stdlib.List.map (fun k -> if reached e pos k then "lk:1" else "lk:0") locks in
    match res with
    | Done (e, rest, s, out0) ->
        let pos0 = total - Stdlib.List.length rest in
        let idx = hold_idx e pos0 in
        let out = received (waits_of idx hour) out0 in
        let en = match e with EndEof -> "eof" | EndErr k -> "e-" ^ kind_name k | EndShort -> "bytes" | EndTerm -> "hang" in
        let pos = total - Stdlib.List.length rest in
        join " " ([ "end:" ^ en; Printf.sprintf "pos:%d" pos ] @ shape_tokens out @ [final_token res] @ get_tokens e pos @ hold_tokens idx out0 @ lock_tokens e pos @ full_tokens s out)
    | Panic (_, rest, s) ->
        join " " ([ "PANIC"; "end:bytes"; Printf.sprintf "pos:%d" (total - Stdlib.List.length rest) ] @ shape_tokens s.s_out @ [final_token res] @ full_tokens s s.s_out)
    | OutOfFuel -> "WEDGE"
  end
