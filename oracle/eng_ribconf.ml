(* ribconf engine (C11 / C13): the rib unit's configuration surface,
   RibConfModel.rc_step on one case line: a history of configuration loads
   (the first accepted one starts the unit, later ones are reloads) and GET
   requests.  Case grammar: see harness/src/engines/ribconf.rs.
     C <style> <ql> <path>    ql: - | e | m/<v4>/<v6>[/x];  v: - | <int> | s<int> | b | f;  path: - | text
     Q <af> <len> <inc> <base>
   The style of a C op (how the table is written down) does not exist in the
   model.  Observation: C -> ok | E;  Q -> down | 404 | 400 | 200[l][m]. *)
open Conv
open RibQueryModel
open RibConfModel

let n = n_of_int
let z_of_int i = if i = 0 then BinNums.Z0 else if i > 0 then BinNums.Zpos (pos_of_int i) else BinNums.Zneg (pos_of_int (-i))
let bytes_of_string (s : string) = Stdlib.List.init (String.length s) (fun i -> n (Char.code s.[i]))

let val_of_tok (t : string) : rc_val option =
  if t = "-" then None
  else match t.[0] with
    | 's' | 'b' | 'f' -> Some VOther
    | _ -> Some (VInt (z_of_int (int_of_string t)))

let ql_of_tok (t : string) : rc_ql =
  if t = "-" then QlAbsent
  else if t = "e" then QlEmpty
  else match String.split_on_char '/' t with
    | "m" :: v4 :: v6 :: rest -> QlMore { ms_v4 = val_of_tok v4; ms_v6 = val_of_tok v6; ms_unknown = (rest = ["x"]) }
    | _ -> failwith ("bad query_limits token " ^ t)

let run_case (line : string) : string =
  let st : rc_state option ref = ref None in
  let tbl _ = { pa_path = []; pa_cattrs = [] } in
  let reg _ = None in
  let out = ref [] in
  let do_op toks =
    let t k = Stdlib.List.nth toks k in
    match Stdlib.List.hd toks with
    | "C" ->
        let u = { u_ql = ql_of_tok (t 2); u_path = (if t 3 = "-" then None else Some (bytes_of_string (t 3))) } in
        (* accepted or refused: the deserialiser's verdict; the new state: the extracted step *)
        let ok = (match rc_limits u.u_ql with Some _ -> true | None -> false) in
        st := fst (rc_step tbl reg !st (KLoad u));
        out := (if ok then "ok" else "E") :: !out
    | "Q" ->
        let v6 = t 1 = "6" in
        let len = int_of_string (t 2) in
        let raw = match t 3 with
          | "m" -> Some "include=moreSpecifics" | "l" -> Some "include=lessSpecifics"
          | "lm" -> Some "include=lessSpecifics,moreSpecifics" | "-" -> None
          | x -> failwith ("bad include token " ^ x) in
        let rq = { rq_v6 = v6; rq_addr = Stdlib.List.init (if v6 then 128 else 32) (fun _ -> false); rq_plen = n len;
                   rq_raw = (match raw with None -> None | Some s -> Some (bytes_of_string s)) } in
        let (s', r) = rc_step tbl reg !st (KRequest (bytes_of_string (t 4), rq)) in
        st := s';
        let tok = match r with
          | None -> failwith "request without response"
          | Some KDown -> "down"
          | Some KNoUnit -> "404"
          | Some (KResp RBad) -> "400"
          | Some (KResp RNotMine) -> "none"
          | Some (KResp RDump) -> "200dump"
          | Some (KResp (RJson a)) ->
              "200" ^ (match a.a_less with Some _ -> "l" | None -> "") ^ (match a.a_more with Some _ -> "m" | None -> "") in
        out := tok :: !out
    | _ -> failwith ("bad op: " ^ join " " toks) in
  Stdlib.List.iter (fun s -> do_op (words s)) (split_on ';' line);
  join " " (Stdlib.List.rev !out)
