(* C19 engine: renders the model's status pages / label lines for a case line
   and prints the canonical observation (see lib/props/c19.py for the grammar).
     C <api> <tpl>            configuration: http_api_path, router id template
     R <addr> <names> <descs> <extras>   router + its Initiation message (TLV lists: f,f,.. or -)
     N <addr>                 router that has not sent its Initiation message yet
     E <r> <s|h> <f>          parse error text (soft / hard) reported for router r
     P <r> <a.b.c.d> <asn>    Peer Up for router r
     L                        GET <api>
     I <r> <f>                GET <api><f> answered by router r's info endpoint
     Q <n> <v> <n> <v> ..     GET <api>?n=v&n=v.. (decoded query pairs as fields) answered by the router list
     M                        GET /metrics (router labels)
     W <f>                    label writer probe
   field f: u<cp.cp...> (valid text) or b<hexbytes>:<cp.cp...> (bytes : their lossy decoding)
   With C19_LEGACY=1 in the environment the model is the code as found
   (raw interpolation, byte slicing) and the observation is `model ||| spec`. *)
open Conv
open EscapeModel
open ResponseModel

let legacy = match Sys.getenv_opt "C19_LEGACY" with Some "1" -> true | _ -> false

let cps_of_tok (t : string) : int list =
  if t = "" then [] else Stdlib.List.map (fun h -> int_of_string ("0x" ^ h)) (String.split_on_char '.' t)
let field (t : string) : int list =
  if t = "" then failwith "empty field" else
  match t.[0] with
  | 'u' -> cps_of_tok (String.sub t 1 (String.length t - 1))
  | 'b' -> (match String.index_opt t ':' with
            | Some i -> cps_of_tok (String.sub t (i + 1) (String.length t - i - 1))
            | None -> failwith "b field without ':'")
  | _ -> failwith ("bad field " ^ t)
let str_of (l : int list) = Stdlib.List.map n_of_int l
let ints_of (s : BinNums.coq_N list) = Stdlib.List.map int_of_n s
let str_of_ascii (s : string) = str_of (Stdlib.List.init (String.length s) (fun i -> Char.code s.[i]))
let fields (t : string) : BinNums.coq_N list list =
  if t = "-" then [] else Stdlib.List.map (fun f -> str_of (field f)) (String.split_on_char ',' t)
let addr (t : string) =
  if t = "-" then None else
  match Stdlib.List.map (fun x -> n_of_int (int_of_string x)) (String.split_on_char '.' t) with
  | [a; b; c; d] -> Some (((a, b), c), d)
  | _ -> failwith "addr"

(* one token for a string: alphanumerics and -_./:= literally, the rest %hex; *)
let enc (l : int list) : string =
  let b = Buffer.create 16 in
  Stdlib.List.iter (fun c ->
    if (c >= 48 && c <= 57) || (c >= 65 && c <= 90) || (c >= 97 && c <= 122)
       || c = 45 || c = 95 || c = 46 || c = 47 || c = 58 || c = 61
    then Buffer.add_char b (Char.chr c) else Buffer.add_string b (Printf.sprintf "%%%x;" c)) l;
  if Buffer.length b = 0 then "~" else Buffer.contents b

(* canonical form of a token stream: head, rows (sorted), tail *)
let chunk_str (evs : ev list) : string =
  let tags = Stdlib.List.filter_map (function
    | ETag (nm, attrs) ->
        let an = Stdlib.List.map (fun (a, _) -> enc (ints_of a)) attrs in
        Some (enc (ints_of nm) ^ (if an = [] then "" else "[" ^ Conv.join "+" an ^ "]"))
    | EText _ -> None) evs in
  let vals = Stdlib.List.concat_map (function
    | ETag (_, attrs) -> Stdlib.List.map (fun (_, v) -> enc (ints_of (unescape v))) attrs
    | EText _ -> []) evs in
  "T=" ^ Conv.join "," tags ^ ";A=" ^ Conv.join "," vals

let is_tag name = function ETag (nm, _) -> ints_of nm = ints_of (str_of_ascii name) | EText _ -> false

let canon (evs : ev list) : string list =
  (* tail: from the last </table> on *)
  let n = Stdlib.List.length evs in
  let last = ref (-1) in
  Stdlib.List.iteri (fun i e -> if is_tag "/table" e then last := i) evs;
  let cut = if !last < 0 then n else !last in
  let body = Stdlib.List.filteri (fun i _ -> i < cut) evs in
  let tail = Stdlib.List.filteri (fun i _ -> i >= cut) evs in
  let chunks = ref [] and cur = ref [] in
  Stdlib.List.iter (fun e ->
    if is_tag "tr" e then (chunks := Stdlib.List.rev !cur :: !chunks; cur := [e]) else cur := e :: !cur) body;
  chunks := Stdlib.List.rev !cur :: !chunks;
  let chunks = Stdlib.List.rev !chunks in
  match chunks with
  | [] -> [chunk_str tail]
  | head :: rows ->
      chunk_str head :: (Stdlib.List.sort compare (Stdlib.List.map chunk_str rows)) @ [chunk_str tail]

let bits l = "H=" ^ String.concat "" (Stdlib.List.map (fun b -> if b then "1" else "0") l)

let show_page (prefix : string) (t : template) (needles : BinNums.coq_N list list) : string =
  let page = render t in
  let evs = tokenise page in
  let text = unescape (text_of evs) in
  Conv.join " " ((prefix :: canon evs) @ [bits (Stdlib.List.map (fun v -> contains v text) needles)])

type rt = { id : int; ad : ((( BinNums.coq_N * BinNums.coq_N) * BinNums.coq_N) * BinNums.coq_N) option;
            mutable tlvs : ((BinNums.coq_N list list * BinNums.coq_N list list) * BinNums.coq_N list list) option;
            mutable errs : (bool * BinNums.coq_N list) list; mutable peers : int list list;
            mutable metered : bool (* a metrics entry exists: created by the state machine's first transition, or by rendering the router's info page *) }

(* parse errors live in the metrics entry of the router's LABEL (router id):
   routers whose configured template gives them the same label share them *)
let shared_errs : (int list * (bool * BinNums.coq_N list) list ref) list ref = ref []
let errs_of (label : int list) =
  match Stdlib.List.assoc_opt label !shared_errs with
  | Some l -> l
  | None -> let l = ref [] in shared_errs := (label, l) :: !shared_errs; l

let to_router (tpl : BinNums.coq_N list) (r : rt) : router =
  let label = ints_of (format_source_id tpl [] (n_of_int r.id)) in
  { r_id = n_of_int r.id; r_addr = r.ad; r_tlvs = r.tlvs; r_errs = !(errs_of label);
    r_peers = Stdlib.List.map (function
      | [a; b; c; d; asn] -> ((((n_of_int a, n_of_int b), n_of_int c), n_of_int d), n_of_int asn)
      | _ -> failwith "peer") r.peers }

let run_case (line : string) : string =
  let api = ref (str_of_ascii "/routers/") and tpl = ref (str_of_ascii "{sys_name}") in
  shared_errs := [];
  let to_router r = to_router !tpl r in
  let routers : rt list ref = ref [] in
  let next_id = ref 1 in
  let out = ref [] and spec = ref [] in
  let emit2 m s = out := m :: !out; spec := s :: !spec in
  let emit m = emit2 m m in
  let get k = match Stdlib.List.nth_opt !routers k with Some r -> r | None -> failwith "no such router" in
  let list_needles rs =
    Stdlib.List.concat_map (fun r ->
      let r = to_router r in
      match r.r_tlvs with Some _ -> [truncate_tlv (sys_name r); truncate_tlv (sys_desc r)] | None -> []) rs in
  let info_needles r = [sys_name r; sys_desc r; sys_extra r] @ Stdlib.List.map snd (recent_errs r) in
  let do_op toks =
    match toks with
    | ["C"; a; t] -> api := str_of (field a); tpl := str_of (field t)
    | ["R"; a; ns; ds; es] ->
        let r = { id = !next_id; ad = addr a; tlvs = Some ((fields ns, fields ds), fields es); errs = []; peers = []; metered = true } in
        incr next_id; routers := !routers @ [r]
    | ["N"; a] ->
        let r = { id = !next_id; ad = addr a; tlvs = None; errs = []; peers = []; metered = false } in
        incr next_id; routers := !routers @ [r]
    | ["E"; k; sh; f] ->
        let r = get (int_of_string k) in
        let l = errs_of (ints_of (format_source_id !tpl [] (n_of_int r.id))) in
        l := !l @ [(sh = "s", str_of (field f))]
    | ["P"; k; a; asn] ->
        let r = get (int_of_string k) in
        (match r.tlvs with
         | Some _ ->
             let p = Stdlib.List.map int_of_string (String.split_on_char '.' a) @ [int_of_string asn] in
             if not (Stdlib.List.mem p r.peers) then r.peers <- r.peers @ [p]
         | None -> ())
    | ["L"] ->
        let rs = Stdlib.List.map to_router !routers in
        let s = show_page "L200:html" (list_page !api rs) (list_needles !routers) in
        if legacy then
          (match list_page_legacy !api rs with
           | Some t -> emit2 (show_page "L200:html" t (list_needles !routers)) s
           | None -> emit2 "Lpanic" s)
        else emit s
    | ["I"; k; f] ->
        let r0 = get (int_of_string k) in
        let r = to_router r0 in
        let req = !api @ str_of (field f) in
        let s = match info_request !api !tpl req r with
          | Some t -> r0.metered <- true; show_page "I200:html" t (info_needles r) | None -> "I-" in
        if legacy then
          emit2 (match info_request_legacy !api !tpl req r with
                 | Some t -> show_page "I200:html" t (info_needles r) | None -> "I-") s
        else emit s
    | "Q" :: kv ->
        let rec pairs = function
          | n :: v :: t -> (str_of (field n), str_of (field v)) :: pairs t
          | [] -> []
          | _ -> failwith "Q: odd number of fields" in
        let params = pairs kv in
        let rs = Stdlib.List.map to_router !routers in
        (match list_response !api rs !api params with
         | None -> emit "Q-"
         | Some r ->
             let st = string_of_int (int_of_n r.rs_status) in
             let needles = Stdlib.List.map snd (reflected r) in
             let ct_name = (match r.rs_ctype with CtHtml -> "html" | CtPlain -> "plain" | CtAbsent -> "none" | CtOther -> "other") in
             (match r.rs_ctype with
              | _ when st = "200" ->
                  emit (show_page ("Q200:" ^ ct_name) (untag r.rs_body) (list_needles !routers))
              | ct ->
                  (* what the property accepts: text/plain, or markup in which the reflected text is escaped *)
                  let esc = untag (escape_reflected r.rs_body) in
                  let markup = "markup[" ^ chunk_str (tokenise (render esc)) ^ "]" in
                  let plain_ok = (match ct with CtPlain -> true | _ -> false) in
                  let tok = if plain_ok then "Q" ^ st ^ ":<plain|" ^ markup ^ ">" else "Q" ^ st ^ ":" ^ markup in
                  emit (tok ^ " " ^ bits (Stdlib.List.map (fun v -> contains v (body_text r)) needles))))
    | ["M"] ->
        let labels = Stdlib.List.map (fun r -> enc (ints_of (format_source_id !tpl [] (n_of_int r.id))))
                       (Stdlib.List.filter (fun r -> r.metered) !routers) in
        emit ("M:" ^ Conv.join "," (Stdlib.List.sort_uniq compare labels) ^ ";bad=0")
    | ["W"; f] ->
        let l = prom_sample (str_of_ascii "rotonda_verif_probe_total")
                  [(str_of_ascii "component", str_of_ascii "u"); (str_of_ascii "router", str_of (field f))]
                  (str_of_ascii "0") in
        emit ("W:" ^ enc (ints_of l))
    | _ -> failwith ("bad op: " ^ Conv.join " " toks) in
  Stdlib.List.iter (fun s -> do_op (words s)) (split_on ';' line);
  let m = Conv.join " " (Stdlib.List.rev !out) and s = Conv.join " " (Stdlib.List.rev !spec) in
  if m = s then m else m ^ " ||| " ^ s
