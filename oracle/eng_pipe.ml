(* pipe engine: PipeModel.wstep (model of the code) and PipeModel.sstep (the
   property's reading) over one case line; prints  model ||| spec ||| classes.
   Case grammar: see harness/src/engines/pipe.rs. *)
open Conv
open BmpModel
open PipeModel

let pool = [|
  (0,0,0,0,1,65001,1); (0,0,0,0,1,65001,2); (0,1,0,0,1,65001,1); (0,0,1,0,1,65001,1);
  (1,0,0,7,1,65001,1); (0,0,0,0,2,65001,1); (0,0,0,0,1,65002,1); (3,0,0,0,1,65001,1);
  (0,0,0,0,3,65003,3); (1,0,0,8,1,65001,1) |]

let n = n_of_int
let pph_of i =
  let (t,l,o,d,a,s,b) = pool.(i) in
  ((((((n t, n l), n o), n d), n a), n s), n b)
let idx_of_pph (p : pph) : int =
  let ((((((t,l),o),d),a),s),b) = p in
  let key = (int_of_n t, int_of_n l, int_of_n o, int_of_n d, int_of_n a, int_of_n s, int_of_n b) in
  let r = ref (-1) in
  Array.iteri (fun i x -> if x = key then r := i) pool; !r

(* per-peer headers that came in BMP frames (op WB): named by the FNV-1a of what routecore's PartialEq compares
   (type, flags, distinguisher, address as read, AS, BGP id), as harness/src/engines/pipe.rs wire_name has it *)
let wire_names : (pph, string) Hashtbl.t = Hashtbl.create 16
let be32 (x : BinNums.coq_N) : int list = let v = int_of_n x in [(v lsr 24) land 255; (v lsr 16) land 255; (v lsr 8) land 255; v land 255]
let note_wire_pph (p : BmpWire.wpph) : unit =
  let (((((ty, fl), dist), addr), asn), id) = BmpWireAbs.ident p in
  let ints l = Stdlib.List.map int_of_n l in
  let octets = [int_of_n ty; int_of_n fl] @ ints dist @ ints addr @ be32 asn @ ints id in
  Hashtbl.replace wire_names (BmpWireAbs.abs_pph p) (Printf.sprintf "x%08x" (C04_util.fnv octets))
let wire_pph_of (m : BmpWire.wmsg) : BmpWire.wpph option =
  match m with
  | BmpWire.WRoute (p, _) | BmpWire.WStats (p, _, _) | BmpWire.WPeerDown (p, _, _) | BmpWire.WMirror (p, _) -> Some p
  | BmpWire.WPeerUp (p, _, _, _, _, _, _) -> Some p
  | BmpWire.WInit _ | BmpWire.WTerm _ -> None

let wid_name ((k, p) : wid) : string =
  let k = int_of_n k in
  if k < 1000 && Hashtbl.mem wire_names p then Printf.sprintf "k%d%s" k (Hashtbl.find wire_names p) else
  if k >= 1000 then
    let ((((((c,_),_),_),_),_),_) = p in Printf.sprintf "b%dc%d" (k - 1000) (int_of_n c)
  else Printf.sprintf "k%dp%d" k (idx_of_pph p)

(* prefix ids: the injective numbering of wire prefixes (PipeRaw.pfx_code). The small ids of the
   abstract ops stand for 10.<p>.0.0/16 (even families) and 2001:db8:<p>::/48 (odd families),
   as harness/src/engines/pipe.rs prefix_str has it. *)
let pfx_of_small fam p : BgpModel.pfx =
  if fam mod 2 = 0 then { BgpModel.p_len = n 16; p_bytes = [n 10; n p] }
  else { BgpModel.p_len = n 48; p_bytes = [n 0x20; n 0x01; n 0x0d; n 0xb8; n (p lsr 8); n (p land 255)] }
let pid fam p = PipeRaw.pfx_code (pfx_of_small fam p)
let plist fam tok = if tok = "-" then [] else Stdlib.List.map (fun t -> pid fam (int_of_string t)) (split_on ',' tok)
let raw_pfx tok : BgpModel.pfx =
  match String.split_on_char '/' tok with
  | [l; h] -> { BgpModel.p_len = n (int_of_string l); p_bytes = C04_util.ns_of_hex h }
  | _ -> failwith "prefix: <len>/<hex|->"

(* attribute sets: the small numbers of the abstract ops as they are; the numbering of an attribute
   list from the wire (PipeRaw.attrs_code) as length + FNV-1a of its octets, like engine c04 *)
let bits_of_n (x : BinNums.coq_N) : bool list =
  let rec go = function BinNums.Coq_xH -> [true] | BinNums.Coq_xO p -> false :: go p | BinNums.Coq_xI p -> true :: go p in
  match x with BinNums.N0 -> [] | BinNums.Npos p -> go p
let bytes_of_code (x : BinNums.coq_N) : int list =
  let rec take8 acc k v l = if k = 8 then (acc, l) else match l with
      | b :: r -> take8 (acc + (if b then v else 0)) (k + 1) (2 * v) r
      | [] -> (acc, []) in
  let rec go l = match l with
    | [true] | [] -> []
    | _ -> let (b, r) = take8 0 0 1 l in b :: go r in
  go (bits_of_n x)
let small_n (x : BinNums.coq_N) = Stdlib.List.length (bits_of_n x) <= 30
let attr_tok (a : BinNums.coq_N) : string =
  if small_n a then string_of_int (int_of_n a)
  else let raw = bytes_of_code a in Printf.sprintf "n%dh%08x" (Stdlib.List.length raw) (C04_util.fnv raw)

let group ids id : string =
  let ws = Stdlib.List.filter (fun (_, i) -> i = id) ids in
  let names = Stdlib.List.sort compare (Stdlib.List.map (fun (w, _) -> wid_name w) ws) in
  if names = [] then "?" ^ string_of_int (int_of_n id) else join "+" names

let uniq l = Stdlib.List.sort_uniq compare l

let show_update ids (u : RibModel.update) : string =
  match u with
  | RibModel.UBulk ps ->
      let na = Stdlib.List.length (Stdlib.List.filter (fun p -> p.RibModel.p_active) ps) in
      let nw = Stdlib.List.length ps - na in
      let idl = Stdlib.List.fold_left (fun acc p -> let (_, m) = p.RibModel.p_key in if Stdlib.List.mem m acc then acc else acc @ [m]) [] ps in
      Printf.sprintf "u:%da%dw:%s" na nw (join "|" (Stdlib.List.map (group ids) idl))
  | RibModel.UWithdraw (id, _) -> "w:" ^ group ids id
  | RibModel.UWithdrawBulk l -> "W:[" ^ join "," (uniq (Stdlib.List.map (group ids) l)) ^ "]"
  | RibModel.UPass -> "other-update"

let entry_tok ((w, s), a) = Printf.sprintf "%s=%s%s" (wid_name w) (if s then "A" else "W") (attr_tok a)

let run_case (line : string) : string =
  let w = ref world_init and sw = ref sworld_init in
  let hist : RibModel.update list ref = ref [] in
  let mo = ref [] and so = ref [] and cl = ref [] in
  let emit a b c = mo := a :: !mo; so := b :: !so; cl := c :: !cl in
  let rec do_op toks =
    let i k = int_of_string (Stdlib.List.nth toks k) in
    let t k = Stdlib.List.nth toks k in
    if Stdlib.List.hd toks = "WB" then wire_op (n (i 1)) (C04_util.ns_of_hex (t 2)) else
    if Stdlib.List.hd toks = "MR" then rib_metrics false else
    if Stdlib.List.hd toks = "MRS" then rib_metrics true else
    let upd off = URoutes (n (i off), plist (i off) (t (off + 2)), n (i (off + 1)), n (i (off + 3)), plist (i (off + 3)) (t (off + 4))) in
    let op : wop = match Stdlib.List.hd toks with
      | "C" -> WConnect (n (i 1))
      | "I" -> WMsg (n (i 1), MInit)
      | "T" -> WMsg (n (i 1), MTerm)
      | "S" -> WMsg (n (i 1), MStats (pph_of (i 2)))
      | "U" -> WMsg (n (i 1), MPeerUp (pph_of (i 2), i 3 = 1))
      | "D" -> WMsg (n (i 1), MPeerDown (pph_of (i 2)))
      | "R" -> WMsg (n (i 1), MRoute (pph_of (i 2), Some (upd 3)))
      | "E" -> WMsg (n (i 1), MRoute (pph_of (i 2), Some (UEor (n (i 3)))))
      | "B" -> WMsg (n (i 1), MRoute (pph_of (i 2), None))
      | "X" -> WDisconnect (n (i 1))
      | "O" -> WBgpOpen (n (i 1))
      | "A" -> WBgpUpdate (n (i 1), Some (upd 2))
      | "Z" -> WBgpClose (n (i 1))
      | "Q" -> WQuery (n (i 1), pid (i 1) (i 2))
      (* from the wire: RB k i <hex> = the octets of an UPDATE in a Route Monitoring message of peer i;
         AB b <hex> = the same on BGP session b; QX af <len>/<hex> = query for a prefix in wire form *)
      | "RB" -> PipeRaw.raw_bmp (n (i 1)) (pph_of (i 2)) (C04_util.ns_of_hex (t 3))
      | "AB" -> PipeRaw.raw_bgp (n (i 1)) (C04_util.ns_of_hex (t 2))
      | "QX" -> WQuery (n (i 1), PipeRaw.pfx_code (raw_pfx (t 2)))
      | "M" -> WMetrics (n (i 1))
      | s -> failwith ("bad op " ^ s) in
    step_op (n (i 1)) op
  and step_op af op =
    let (w', out) = wstep !w op in
    let (sw', sout) = sstep !sw op in
    w := w'; sw := sw';
    let ids = w'.w_ids in
    (match out with
     | WoNone -> emit "-" "-" "."
     | WoStep (o, ph) ->
         let base = match o with
           | OInvalid -> "i" | OOther -> "o" | OTransition -> "t"
           | OUpdate u -> hist := !hist @ [u]; show_update ids u in
         let tok = if int_of_n ph = 9 then base else Printf.sprintf "%s/%d" base (int_of_n ph) in
         emit tok tok "."
     | WoMetrics None -> emit "-" "-" "."
     | WoMetrics (Some m) ->
         let tok = Printf.sprintf "m:x,%d,%d,%d,%d,%d,%d,%d,%d" (int_of_n m.m_prefixes) (int_of_n m.m_unknown_peer)
             (int_of_n m.m_unprocessable) (int_of_n m.m_ann) (int_of_n m.m_wd) (int_of_n m.m_up) (int_of_n m.m_eorcap) (int_of_n m.m_dumping) in
         emit tok tok "."
     | WoEntries l ->
         let ml = Stdlib.List.sort compare (Stdlib.List.map entry_tok (expand ids l)) in
         let sl = match sout with SoEntries l -> Stdlib.List.sort compare (Stdlib.List.map entry_tok l) | SoNone -> [] in
         let mt = "q:" ^ join "," ml and st = "q:" ^ join "," sl in
         if mt = st then emit mt st "."
         else begin
           (* which wire identities differ, and is each difference explained by a recorded finding? *)
           let wid_of_tok s = Stdlib.List.hd (String.split_on_char '=' s) in
           let diff = uniq (Stdlib.List.map wid_of_tok
                              (Stdlib.List.filter (fun x -> not (Stdlib.List.mem x sl)) ml
                               @ Stdlib.List.filter (fun x -> not (Stdlib.List.mem x ml)) sl)) in
           let pfx = (match op with WQuery (_, x) -> x | _ -> n 0) in
           let evs = RibModel.evs_of !hist in
           let k2 = ref false and k3 = ref false and unk = ref false in
           Stdlib.List.iter (fun name ->
               let wd = Stdlib.List.find_opt (fun (x, _) -> wid_name x = name) ids in
               match wd with
               | None -> unk := true
               | Some (x, id) ->
                   if shares_id ids x then k2 := true
                   else if RibModel.known_c03 evs ((af, pfx), id) || RibModel.known_c03 evs ((BinNat.N.add af (n 2), pfx), id) then k3 := true
                   else unk := true) diff;
           let c = if !unk then "?" else (if !k2 then "K2" else "") ^ (if !k3 then "K3" else "") in
           emit mt st c
         end)
  (* MR / MRS: the RIB unit's own counters after the updates applied so far (RibModel.ribm_run over the history of updates the
     RIB got); MRS: ||| what the descriptions of the metrics ask for (RibModel.rmet_spec), class KR where the two differ (finding
     C15-6). MR holds the code against the model only: a case made of MR reads cannot be shrunk into the finding, so a changed
     bump is reported as such.
     Third field: num_insert_retries follows the store's contention count, not modelled: 0 without concurrent writers. *)
  and rib_metrics with_spec =
    let int_of_z = function BinNums.Z0 -> 0 | BinNums.Zpos p -> int_of_pos p | BinNums.Zneg p -> - (int_of_pos p) in
    let show (m : RibModel.rmet) =
      Printf.sprintf "r:%d,%d,0,%d,%d,%d,%d,%d" (int_of_n m.RibModel.rm_unique) (int_of_n m.RibModel.rm_items) (int_of_n m.RibModel.rm_hard)
        (int_of_z m.RibModel.rm_announced) (int_of_n m.RibModel.rm_modified) (int_of_n m.RibModel.rm_withdrawn) (int_of_n m.RibModel.rm_wd_noann) in
    let (_, m) = RibModel.ribm_run !hist in
    let a = show m and b = show (RibModel.rmet_spec !hist) in
    if with_spec then emit a b (if a = b then "." else "KR") else emit a a "."
  (* WB k <hex>: octets arriving on router k's connection - cut into frames as io.rs bmp_read does, each frame through
     the codec (BmpWire.decode) and the state machine's reading of it (BmpWireAbs.abstract). One token for the whole op:
     the tokens of the frames joined by '~'; a refused frame is `unparsable/<phase>`; `short` = the length field is below
     5 (the connection is given up), `cut` = the octets end inside a message. An accepted Initiation in the initiating
     phase also shows what went to the ingress register: :n=<sysName hex>,d=<sysDescr hex>. *)
  and wire_op k octets =
    match BmpWireAbs.router_phase !w k with
    | None -> emit "-" "-" "."
    | Some _ ->
        let (items, fin) = BmpWire.stream octets in
        let saved = (!mo, !so, !cl) in
        mo := []; so := []; cl := [];
        Stdlib.List.iter (fun it ->
            match it with
            | BmpWire.SBad _ ->
                let ph = match BmpWireAbs.router_phase !w k with Some p -> int_of_n p | None -> -1 in
                let tok = Printf.sprintf "unparsable/%d" ph in emit tok tok "."
            | BmpWire.SMsg m ->
                (match wire_pph_of m with Some p -> note_wire_pph p | None -> ());
                let before = BmpWireAbs.router_phase !w k in
                step_op k (WMsg (k, BmpWireAbs.abstract m));
                (match m, before, !mo with
                 | BmpWire.WInit _, Some ph, tok :: rest when int_of_n ph = 0 ->
                     let str o dflt = match o with Some v -> Stdlib.List.map int_of_n v | None -> Stdlib.List.init (String.length dflt) (fun j -> Char.code dflt.[j]) in
                     let hx l = if Stdlib.List.exists (fun b -> b >= 128) l then "nonascii" else C04_util.hex_of_ints l in
                     let sfx = Printf.sprintf ":n=%s,d=%s" (hx (str (BmpWire.sys_name m) "no-sysname")) (hx (str (BmpWire.sys_descr m) "no-sysdesc")) in
                     mo := (tok ^ sfx) :: rest;
                     (match !so with t2 :: r2 -> so := (t2 ^ sfx) :: r2 | [] -> ())
                 | _ -> ())) items;
        (match fin with
         | BmpWire.SEnd -> ()
         | BmpWire.SShort -> emit "short" "short" "."
         | BmpWire.SCut -> emit "cut" "cut" ".");
        let j l = if l = [] then "nothing" else join "~" (Stdlib.List.rev l) in
        let (a, b, c) = (j !mo, j !so, (if Stdlib.List.for_all (fun x -> x = ".") !cl then "." else join "" (Stdlib.List.filter (fun x -> x <> ".") !cl))) in
        let (m0, s0, c0) = saved in
        mo := a :: m0; so := b :: s0; cl := c :: c0
  in
  Stdlib.List.iter (fun s -> do_op (words s)) (split_on ';' line);
  let r l = join " " (Stdlib.List.rev l) in
  r !mo ^ " ||| " ^ r !so ^ " ||| " ^ r !cl
