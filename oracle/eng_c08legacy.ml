(* The gate model with cf_follow = true: the code as it was at the pinned commit (clones
   replaying FollowSubscribe / FollowUnsubscribe mutate the `updates` map they share with
   the root). Not part of the check; `oracle c08legacy` documents that the legacy model
   reproduces the pre-repair behaviour (design-notes/C08.md). *)
let run_case = Eng_c08.run_with true true
