(* C12 engine c12rl: the BMP unit's router list over a population of monitored routers.
   Case = ops separated by `;` (the Rust side feeds the same messages to REAL BmpState machines):
     N            a router connects (no Initiation yet)
     R [n d]      a router connects and sends its Initiation (sysName n, sysDesc d: alphanumeric; default r, d)
     I k [n d]    Initiation of router k
     U k i e      Peer Up of peer i (index into the per-peer-header pool) on router k, e = 1: EoR capable
     A k i        Route Monitoring of peer i with two announcements
     E k i        End-of-RIB of peer i (IPv4 unicast)
     D k i        Peer Down of peer i
     S k / H k    a soft / hard BGP UPDATE parse failure reported for router k
     Q hexquery|- GET /routers/?<query>  (raw bytes of the query; `-` = no query)
   Observation per Q: `200 rows=<n> r<k>=<up>/<eor>(<pc>)/<dumping>(<pc>)|-` ... (by router), then one token per judged
   column (sys_name sys_desc peers_up peers_up_eor_capable peers_up_dumping peers_up_eor_capable_pc peers_up_dumping_pc
   soft_parse_errors hard_parse_errors): the values of that column DOWN THE PAGE `c<j>=v,v,..` - demanded for the column
   the request sorts on (the sorted key sequence: exact up to the order of rows with equal keys), `*` for the others;
   or `400`, `PANIC`, `none`, `rejected`. *)
open Conv
open RouterListModel

let unhex s =
  if s = "-" || s = "_" then []
  else Stdlib.List.init (Stdlib.String.length s / 2) (fun i -> n_of_int (int_of_string ("0x" ^ Stdlib.String.sub s (2 * i) 2)))
let bytes_of_string s = Stdlib.List.init (Stdlib.String.length s) (fun i -> n_of_int (Char.code s.[i]))
let base = bytes_of_string "/routers/"

let string_of_bytes l = Stdlib.String.concat "" (Stdlib.List.map (fun b -> Stdlib.String.make 1 (Char.chr (int_of_n b))) l)

let run_case (line : string) : string =
  let routers : rstate array ref = ref [||] in
  let names : (string * string) array ref = ref [||] in
  let set_name k n d = let k = int_of_string k in if k < Array.length !names then !names.(k) <- (n, d) in
  let out = ref [] in
  let ev k e =
    let k = int_of_string k in
    if k < Array.length !routers then !routers.(k) <- rl_apply !routers.(k) e in
  let peer i = n_of_int (int_of_string i) in
  let do_op toks =
    match toks with
    | ["N"] -> routers := Array.append !routers [| RInitiating |]; names := Array.append !names [| ("r", "d") |]
    | ["R"] -> routers := Array.append !routers [| rl_apply RInitiating EvInit |]; names := Array.append !names [| ("r", "d") |]
    | ["R"; n; d] -> routers := Array.append !routers [| rl_apply RInitiating EvInit |]; names := Array.append !names [| (n, d) |]
    | ["I"; k] -> ev k EvInit
    | ["I"; k; n; d] ->
        (* a second Initiation does not change the strings the list shows *)
        let ki = int_of_string k in
        if ki < Array.length !routers && !routers.(ki) = RInitiating then set_name k n d;
        ev k EvInit
    | ["U"; k; i; e] -> ev k (EvPeerUp (peer i, e = "1"))
    | ["A"; k; i] -> ev k (EvAnnounce (peer i))
    | ["E"; k; i] -> ev k (EvEor (peer i))
    | ["D"; k; i] -> ev k (EvPeerDown (peer i))
    | ["S"; k] -> ev k EvSoft
    | ["H"; k] -> ev k EvHard
    | ["Q"; q] ->
        let r = { DispatchModel.rq_method = N0; rq_path = base;
                  rq_query = (if q = "-" then None else Some (unhex q)); rq_headers = [] } in
        if not (DispatchModel.request_ok r) then out := "rejected" :: !out
        else begin
          let rs = Array.to_list !routers in
          match routers_request_st true base rs r with
          | None -> out := "none" :: !out
          | Some RLPanic -> out := "PANIC" :: !out
          | Some (RLErr _) -> out := "400" :: !out
          | Some (RLRows n) ->
              let cells = Stdlib.List.mapi (fun k st ->
                match rl_cell st with
                | None -> Printf.sprintf "r%d=-" k
                | Some ((((up, eor), epc), dmp), dpc) ->
                    Printf.sprintf "r%d=%d/%d(%d)/%d(%d)" k (int_of_n up) (int_of_n eor) (int_of_n epc) (int_of_n dmp) (int_of_n dpc)) rs in
              let rrs = Stdlib.List.mapi (fun k st ->
                let (nm, ds) = !names.(k) in { rr_state = st; rr_name = bytes_of_string nm; rr_desc = bytes_of_string ds }) rs in
              let (sb, so) = request_sort_params r in
              let cols = Stdlib.List.mapi (fun j key ->
                if sb = Some key then
                  match page_rows true sb so rrs with
                  | Some rows ->
                      let vs = Stdlib.List.map (fun (k, _) -> match k with
                        | SNum v -> string_of_int (int_of_n v)
                        | SStr b -> string_of_bytes b) rows in
                      Printf.sprintf "c%d=%s" j (if vs = [] then "~" else join "," vs)
                  | None -> "PANIC"
                else "*") judged_keys in
              out := join " " ((("200 rows=" ^ string_of_int (int_of_n n)) :: cells) @ cols) :: !out
        end
    | _ -> failwith ("bad op: " ^ join " " toks) in
  Stdlib.List.iter (fun s -> do_op (words s)) (split_on ';' line);
  join " " (Stdlib.List.rev !out)
