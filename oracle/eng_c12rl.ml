(* C12 engine c12rl: the BMP unit's router list over a population of monitored routers.
   Case = ops separated by `;` (the Rust side feeds the same messages to REAL BmpState machines):
     N            a router connects (no Initiation yet)
     R            a router connects and sends its Initiation
     I k          Initiation of router k
     U k i e      Peer Up of peer i (index into the per-peer-header pool) on router k, e = 1: EoR capable
     A k i        Route Monitoring of peer i with two announcements
     E k i        End-of-RIB of peer i (IPv4 unicast)
     D k i        Peer Down of peer i
     S k / H k    a soft / hard BGP UPDATE parse failure reported for router k
     Q hexquery|- GET /routers/?<query>  (raw bytes of the query; `-` = no query)
   Observation per Q: `200 rows=<n> r<k>=<up>/<eor>(<pc>)/<dumping>(<pc>)|-` ..., `400`, `PANIC`, `none`, `rejected`. *)
open Conv
open RouterListModel

let unhex s =
  if s = "-" || s = "_" then []
  else Stdlib.List.init (Stdlib.String.length s / 2) (fun i -> n_of_int (int_of_string ("0x" ^ Stdlib.String.sub s (2 * i) 2)))
let bytes_of_string s = Stdlib.List.init (Stdlib.String.length s) (fun i -> n_of_int (Char.code s.[i]))
let base = bytes_of_string "/routers/"

let run_case (line : string) : string =
  let routers : rstate array ref = ref [||] in
  let out = ref [] in
  let ev k e =
    let k = int_of_string k in
    if k < Array.length !routers then !routers.(k) <- rl_apply !routers.(k) e in
  let peer i = n_of_int (int_of_string i) in
  let do_op toks =
    match toks with
    | ["N"] -> routers := Array.append !routers [| RInitiating |]
    | ["R"] -> routers := Array.append !routers [| rl_apply RInitiating EvInit |]
    | ["I"; k] -> ev k EvInit
    | ["U"; k; i; e] -> ev k (EvPeerUp (peer i, e = "1"))
    | ["A"; k; i] -> ev k (EvAnnounce (peer i))
    | ["E"; k; i] -> ev k (EvEor (peer i))
    | ["D"; k; i] -> ev k (EvPeerDown (peer i))
    | ["S"; k] -> ev k EvSoft
    | ["H"; k] -> ev k EvHard
    | ["Q"; q] ->
        let r = { DispatchModel.rq_method = N0; rq_path = base;
                  rq_query = (if q = "-" then None else Some (unhex q)); rq_headers = [] } in
        if not (DispatchModel.request_ok r) then out := "rejected" :: !out
        else begin
          let rs = Array.to_list !routers in
          match routers_request_st true base rs r with
          | None -> out := "none" :: !out
          | Some RLPanic -> out := "PANIC" :: !out
          | Some (RLErr _) -> out := "400" :: !out
          | Some (RLRows n) ->
              let cells = Stdlib.List.mapi (fun k st ->
                match rl_cell st with
                | None -> Printf.sprintf "r%d=-" k
                | Some ((((up, eor), epc), dmp), dpc) ->
                    Printf.sprintf "r%d=%d/%d(%d)/%d(%d)" k (int_of_n up) (int_of_n eor) (int_of_n epc) (int_of_n dmp) (int_of_n dpc)) rs in
              out := join " " (("200 rows=" ^ string_of_int (int_of_n n)) :: cells) :: !out
        end
    | _ -> failwith ("bad op: " ^ join " " toks) in
  Stdlib.List.iter (fun s -> do_op (words s)) (split_on ';' line);
  join " " (Stdlib.List.rev !out)
