(* C04, the rendered form of a route's attributes: expected abstract shape of the JSON that
   serde makes of the attribute map of the routes an UPDATE announces (BgpModel.json_of_update).
   Case grammar and modes as engine c04 (harness/src/engines/c04json.rs has the observation format):
   per PDU `| ERR`, `| ok -` (nothing announced) or `| ok k:<kinds in order> c:<sorted communities>`. *)
open Conv
open BgpModel
open C04_util

let comm_tok ((ty, bs) : BinNums.coq_N * BinNums.coq_N list) : string =
  let tag = match int_of_n ty with 8 -> "s" | 16 -> "e" | 32 -> "l" | 25 -> "x" | n -> "?" ^ string_of_int n in
  tag ^ hex_of_ns bs

let show_shape (s : jshape) : string list =
  let ks = Stdlib.List.map (fun k -> string_of_int (int_of_n k)) s.j_kinds in
  let cs = Stdlib.List.sort compare (Stdlib.List.map comm_tok s.j_comms) in
  [ "k:" ^ (if ks = [] then "-" else join "," ks); "c:" ^ (if cs = [] then "-" else join "," cs) ]

let obs (m : mode) (bytes : BinNums.coq_N list) : string =
  match decode m bytes with
  | None -> "| ERR"
  | Some u ->
      (match json_of_update u with
       | None -> "| ok -"
       | Some s -> "| " ^ join " " ("ok" :: show_shape s))

let run_case (line : string) : string =
  let pdus = Stdlib.List.map words (split_on ';' line) in
  let one m = function
    | _ :: hex :: _ -> obs m (ns_of_hex hex)
    | _ -> failwith "pdu: <cfg> <hex> expected" in
  let model = join " " (Stdlib.List.map (one Code) pdus) in
  let spec = join " " (Stdlib.List.map (one Rfc) pdus) in
  if model = spec then model else model ^ " ||| " ^ spec
