(* C19 cross-check: input line = what `vh c19raw` printed for a case (hex
   pages and markers); output = the canonical chunks of every page, computed
   with the tokenizer and the character-reference decoder extracted from Coq. *)
open Conv

let utf8_decode (s : string) : int list =
  let n = String.length s in
  let rec go i acc =
    if i >= n then Stdlib.List.rev acc else
    let c = Char.code s.[i] in
    let cont k = Char.code s.[i + k] land 0x3f in
    if c < 0x80 then go (i + 1) (c :: acc)
    else if c < 0xe0 then go (i + 2) ((((c land 0x1f) lsl 6) lor cont 1) :: acc)
    else if c < 0xf0 then go (i + 3) ((((c land 0x0f) lsl 12) lor (cont 1 lsl 6) lor cont 2) :: acc)
    else go (i + 4) ((((c land 0x07) lsl 18) lor (cont 1 lsl 12) lor (cont 2 lsl 6) lor cont 3) :: acc) in
  go 0 []

let unhex (h : string) : string =
  String.init (String.length h / 2) (fun i -> Char.chr (int_of_string ("0x" ^ String.sub h (2 * i) 2)))

let is_hex (t : string) =
  t <> "" && String.length t mod 2 = 0 &&
  (let ok = ref true in String.iter (fun c -> if not ((c >= '0' && c <= '9') || (c >= 'a' && c <= 'f')) then ok := false) t; !ok)

let run_case (line : string) : string =
  Conv.join " " (Stdlib.List.concat_map (fun t ->
    if is_hex t then
      let page = Stdlib.List.map n_of_int (utf8_decode (unhex t)) in
      Eng_c19.canon (EscapeModel.tokenise page)
    else [t]) (words line))
