(* mrtrx engine (C06, MRT reader): a hostile file is, for process_file, either unreadable
   (MrtModel.FBad) or a file whose parser gets through the first r records and stops there
   (MrtModel.file_of_hfile: FGood name (take r recs)) - C06_mrt_file_is_local says what that means
   for the queue and the RIB. The case line is rewritten into the c16 case that holds exactly
   those files, and the MODEL part of engine c16 (MrtModel.process_file, queue order, RibModel)
   is the expectation; the property C06 demands nothing of the records behind the damage, so
   there is no separate spec here.
   Grammar: harness/src/engines/mrtrx.rs. How the damage maps to (unreadable | stop at r | intact):
     HT r k                      stop at r (k > 0 or r < number of records)
     HM r (typ|sub|len|alen) v   stop at r when the generator marked the file exact (no HK): v is then an unsupported
                                 type / subtype or a length beyond the file (CommonHeader::parse fails: UpdateIterator
                                 fuses, RibEntryIterator panics inside the per-file task)
     HC n / HX n x               gzip / bzip2: read_to_end fails: unreadable
     HA hex                      gzip / bzip2: ignored by the single-stream decoders; plain: octets that are no record
                                 header (the generator appends ff..): intact
     HR hex                      no record at all
     HK n (shape mode)           the damage is arbitrary (HF, small HM values): the batch is compared up to its first n
                                 updates - those of the records in front of the damage, which the model takes from the
                                 undamaged file (they are the same by C06_mrt_file_is_local) - then `~`. *)
open Conv

type fstate = { comp : string; mutable recs : string list; mutable stop : int option; mutable unreadable : bool;
                mutable raw : bool; mutable keep : int option }

let run_case (line : string) : string =
  let out = ref [] in                     (* ops of the c16 case, reversed *)
  let cur : fstate option ref = ref None in
  let batch = ref 0 in                    (* barriers so far *)
  let keeps = ref [] in                   (* (batch index, n) *)
  let emit s = out := s :: !out in
  let close () =
    match !cur with
    | None -> ()
    | Some f ->
        (match f.keep with Some k -> keeps := (!batch, k) :: !keeps | None -> ());
        if f.unreadable then emit ("X " ^ (if f.comp = "b" then "b" else "g"))
        else begin
          emit ("F " ^ f.comp);
          let recs = Stdlib.List.rev f.recs in
          let recs = if f.raw then [] else
              match f.stop, f.keep with
              | Some r, None -> Stdlib.List.filteri (fun i _ -> i < r) recs
              | _ -> recs in
          Stdlib.List.iter emit recs
        end;
        cur := None in
  let file () = match !cur with
    | Some f -> f
    | None -> let f = { comp = "p"; recs = []; stop = None; unreadable = false; raw = false; keep = None } in cur := Some f; f in
  let stop_at r = let f = file () in f.stop <- Some (match f.stop with Some s -> min s r | None -> r) in
  Stdlib.List.iter (fun op ->
      match words op with
      | [] -> ()
      | "F" :: c :: _ -> close (); cur := Some { comp = c; recs = []; stop = None; unreadable = false; raw = false; keep = None }
      | "X" :: _ -> close (); emit op
      | ("I" | "T" | "M" | "K" | "S" | "N") :: _ -> let f = file () in f.recs <- String.trim op :: f.recs
      | ["HT"; r; k] ->
          let f = file () in
          let r = int_of_string r and k = int_of_string k in
          if k > 0 || r < Stdlib.List.length f.recs then stop_at r
      | ["HM"; r; _; _] -> stop_at (int_of_string r)
      | ["HF"; _; _] -> ()
      | ["HA"; _] -> ignore (file ())
      | ["HC"; k] -> let f = file () in
          if f.comp = "p" then failwith "HC on a plain file" else if int_of_string k > 0 then f.unreadable <- true
      | ["HX"; _; x] -> let f = file () in
          if f.comp = "p" then failwith "HX on a plain file" else if int_of_string x <> 0 then f.unreadable <- true
      | ["HR"; _] -> (file ()).raw <- true
      | ["HK"; k] -> (file ()).keep <- Some (int_of_string k)
      | "W" :: _ -> close (); emit "W"; incr batch
      | "Q" :: _ -> close (); emit (String.trim op); incr batch
      | _ -> failwith ("bad op: " ^ op)) (split_on ';' line);
  let open_file = !cur <> None in
  close ();
  ignore open_file;
  let c16_case = join ";" (Stdlib.List.rev !out) in
  let full = Eng_c16.run_case c16_case in
  let model = match Str.split (Str.regexp_string "|||") full with m :: _ -> String.trim m | [] -> "" in
  (* shape mode: a batch is compared up to its first n updates *)
  let toks = words model in
  let res = ref [] and b = ref (-1) and seen = ref 0 and limit = ref None in
  Stdlib.List.iter (fun t ->
      if t = "[" then begin
        incr b; seen := 0;
        limit := (try Some (Stdlib.List.assoc !b !keeps) with Not_found -> None);
        res := t :: !res
      end else if String.length t > 0 && t.[0] = ']' then begin
        (match !limit with Some _ -> res := "~" :: !res | None -> ());
        limit := None;
        res := t :: !res
      end else begin
        match !limit with
        | Some k when String.length t > 1 && t.[1] = ':' && t.[0] <> 'q' ->
            if !seen < k then res := t :: !res;
            incr seen
        | _ -> res := t :: !res
      end) toks;
  join " " (Stdlib.List.rev !res) ^ " alive:1"
