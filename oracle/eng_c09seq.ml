(* C09, judge of the free-running soak: the final answers of
   RibModel.rib_run (RibConc.effective (concat progs)) - the writers one after
   the other, requests for an unsupported family being no-ops - which by
   Props_C09.C09_interleaving_equals_sequential is what EVERY interleaving of
   the same writers must end with. Case = the `p` items of engine c09 (schedule
   items are ignored); prints `F` and the final answers like eng_c09. *)
open Conv
open RibModel

let run_case (line : string) : string =
  let items = Stdlib.List.rev (Stdlib.List.rev_map words (split_on ';' line)) in
  let nthreads = Stdlib.List.fold_left (fun acc it -> match it with
      | "p" :: t :: _ -> max acc (int_of_string t + 1) | _ -> acc) 1 items in
  let progs = Array.make nthreads [] in
  let pfxs = ref [] in
  Stdlib.List.iter (fun it -> match it with
      | "p" :: t :: rest ->
          (* RibConc.effective = map eff_update, applied here item by item (the extracted map is not tail-recursive; logs have 10^5..10^6 Updates) *)
          let u = RibConc.eff_update (Eng_c09.update_of rest) in
          pfxs := Stdlib.List.rev_append (Eng_c09.prefixes_of u) !pfxs;
          let t = int_of_string t in progs.(t) <- u :: progs.(t)
      | ["q"; _; p] -> pfxs := int_of_string p :: !pfxs
      | _ -> ()) items;
  (* progs.(t) is reversed; build thread 0's updates first, tail-recursively *)
  let all = Array.fold_right (fun p acc -> Stdlib.List.rev_append p acc) progs [] in
  let r = rib_run all in
  let ps = Stdlib.List.sort_uniq compare !pfxs in
  let out = ref ["F"] in
  Stdlib.List.iter (fun af -> Stdlib.List.iter (fun p -> out := Eng_c09.show_query r af p :: !out) ps) [0; 1];
  join " " (Stdlib.List.rev !out)
