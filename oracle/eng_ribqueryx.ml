(* ribqueryx (C11, bulk): as ribquery, but a token whose departure from the
   property is explained by a recorded finding class (MC, MS) is expected as the
   model gives it, so that every other disagreement surfaces first. *)
let run_case = Eng_ribquery.run_case_with true
