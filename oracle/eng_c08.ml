(* C08 engine: drives GateModel.step over a case line (a schedule).
   Grammar and macro-step semantics: see harness/src/engines/c08.rs. Every op
   is a fixed sequence of model actions followed by "settling": the root
   drains its command queue, blocked publishers retry in the order in which
   they blocked (tokio's mpsc hands freed capacity to waiters first-come
   first-served). The scheduling policy lives here (trusted glue); the
   theorems hold for every action list. *)
open Conv
open GateModel

let nlinks = 6
let maxclones = 6
let lag_limit = 12

let run_with (follow : bool) (line : string) : string =
  let ops = Stdlib.List.map words (split_on ';' line) in
  let cap = match ops with ("Q" :: k :: _) :: _ -> max 1 (int_of_string k) | _ -> 2 in
  let cf = { cf_cap = n_of_int cap; cf_follow = follow } in
  let s = ref init in
  let act a = s := step cf !s a in
  let blocked = ref [] (* publishers inside update_data, oldest block first *) in
  let lag = Array.make (maxclones + 2) 0 in
  let conn = Array.make nlinks false and susp = Array.make nlinks false and gone = Array.make nlinks false in
  let nclone () = int_of_n !s.nclone in
  let root_alive () = not (!s.root_term || !s.root_dropped) in
  let zombie () = !s.root_term && not !s.root_dropped in
  let calive c = (!s.clones (n_of_int c)).c_alive in
  let cterm c = (!s.clones (n_of_int c)).c_term in
  let idle p = pub_idle !s (n_of_int p) in
  let rest_len p = match !s.pubs (n_of_int p) with PSending (_, _, r, _) -> Stdlib.List.length r | PIdle _ -> -1 in
  (* run publisher p as far as it gets; true if it finished *)
  let run_pub p =
    let progress = ref false in
    let continue = ref true in
    while !continue do
      let before = rest_len p in
      if before = 0 then (act (AEnd (n_of_int p)); continue := false)
      else begin
        act (ADeliver (n_of_int p));
        if rest_len p = before then continue := false else progress := true
      end
    done;
    (idle p, !progress) in
  let pubs_settle () =
    let order = !blocked in
    Stdlib.List.iter (fun p ->
      let (fin, progress) = run_pub p in
      if fin then blocked := Stdlib.List.filter (fun q -> q <> p) !blocked
      else if progress then blocked := Stdlib.List.filter (fun q -> q <> p) !blocked @ [p]) order in
  let root_drain () =
    while root_alive () && !s.rootq <> [] do act ARoot done;
    pubs_settle () in
  (* ONE process() call of clone c, or (all) until its queue is empty *)
  let clone_process c all =
    if not (calive c) || cterm c then "skip" else begin
      let res = ref "" in
      while !res = "" do
        let status0 = gate_dormant !s in
        let inner = ref "" in
        while !inner = "" do
          match (!s.clones (n_of_int c)).c_q with
          | [] -> if !s.root_dropped then (act (ACloneStep (n_of_int c)); inner := "term") else inner := "idle"
          | x :: _ ->
              act (ACloneStep (n_of_int c));
              if x = FTerm then inner := "term"
              else if gate_dormant !s <> status0 then inner := "ok"
        done;
        if !inner = "idle" then (if all then lag.(c) <- 0; res := "idle")
        else if !inner = "term" then res := "term"
        else if not all then res := "ok"
      done;
      !res
    end in
  let lag_guard () =
    for c = 1 to nclone () - 1 do
      if calive c && not (cterm c) && lag.(c) >= lag_limit then ignore (clone_process c true)
    done in
  let notified () =
    if root_alive () then for c = 1 to nclone () - 1 do if calive c then lag.(c) <- lag.(c) + 1 done in
  let connect l =
    if conn.(l) || zombie () then "skip" else if gone.(l) then "gone" else begin
      lag_guard ();
      if !s.root_dropped then (gone.(l) <- true; "gone") else begin
        notified ();
        act (ASendSub (n_of_int l)); root_drain ();
        match !s.links (n_of_int l) with
        | LConn _ -> conn.(l) <- true; susp.(l) <- false; "ok"
        | _ -> "hang"
      end
    end in
  let link_cmd l what =
    if not conn.(l) || zombie () then "skip"
    else if what = "s" && susp.(l) then "skip"
    else if what = "r" && not susp.(l) then "skip"
    else begin
      lag_guard ();
      (match what with
       | "d" -> notified (); act (ASendUnsub (n_of_int l)); conn.(l) <- false; susp.(l) <- false
       | "s" -> act (ASendSusp (n_of_int l, true)); susp.(l) <- true
       | _ -> act (ASendSusp (n_of_int l, false)); susp.(l) <- false);
      root_drain (); "ok"
    end in
  let query l =
    if not conn.(l) || gone.(l) || l mod 2 = 1 then "skip" else begin
      let r = match !s.links (n_of_int l) with
        | LConn (x, _) ->
            if (!s.chans x).ch_q <> [] then (act (ARecv (n_of_int l)); "item")
            else if all_gone !s then (gone.(l) <- true; "gone") else "-"
        | _ -> "?" in
      pubs_settle (); r
    end in
  let update p =
    if p >= nclone () || not (pub_alive !s (n_of_int p)) || not (idle p) then "skip" else begin
      act (ABegin (n_of_int p));
      let (fin, _) = run_pub p in
      if fin then "done" else (blocked := !blocked @ [p]; "blk")
    end in
  let stop_root terminate drop_gate =
    if terminate then (lag_guard (); notified (); act ASendTerm; root_drain ());
    if drop_gate then act ARootDrop;
    pubs_settle (); "ok" in
  let num o = match o with _ :: k :: _ -> (try int_of_string k with _ -> 0) | _ -> 0 in
  let out = ref [] in
  let emit t = out := t :: !out in
  Stdlib.List.iter (fun o ->
    let k = num o in
    match o with
    | "Q" :: _ -> emit "Q"
    | "c" :: _ when k < nlinks -> emit ("c:" ^ connect k)
    | ("d" | "s" | "r" as w) :: _ when k < nlinks -> emit (w ^ ":" ^ link_cmd k w)
    | "q" :: _ when k < nlinks -> emit ("q:" ^ query k)
    | "u" :: _ -> emit ("u:" ^ update k)
    | "k" :: _ ->
        if not (root_alive ()) || nclone () > maxclones then emit "k:skip"
        else (act AClone; root_drain (); emit ("k:" ^ string_of_int (nclone () - 1)))
    | "x" :: _ ->
        if k = 0 || k >= nclone () || not (calive k) || not (idle k) then emit "x:skip"
        else (act (ACloneDrop (n_of_int k)); root_drain (); emit "x:ok")
    | ("F" | "D" as w) :: _ ->
        if k = 0 || k >= nclone () then emit (w ^ ":skip") else emit (w ^ ":" ^ clone_process k (w = "D"))
    | ("T" | "Z" as w) :: _ ->
        if not (root_alive ()) || not (idle 0) then emit (w ^ ":skip") else emit (w ^ ":" ^ stop_root true (w = "T"))
    | "X" :: _ ->
        if !s.root_dropped || not (idle 0) then emit "X:skip" else emit ("X:" ^ stop_root false true)
    | _ -> emit "?") ops;
  (* final phase *)
  let progress = ref true in
  while !progress do
    progress := false;
    Stdlib.List.iter (fun l -> while query l = "item" do progress := true done) [0; 2; 4]
  done;
  let busy = Stdlib.List.filter (fun p -> not (idle p)) (Stdlib.List.init (nclone ()) (fun p -> p)) in
  if root_alive () && busy = [] then ignore (stop_root true true);
  let terms = ref [] in
  for c = 1 to nclone () - 1 do
    if calive c && busy = [] then begin
      let r = if cterm c then "term" else clone_process c true in
      terms := !terms @ [string_of_int c ^ ":" ^ (if r = "term" then "1" else "0")];
      act (ACloneDrop (n_of_int c))
    end
  done;
  if not !s.root_dropped && busy = [] then ignore (stop_root false true);
  let gones = ref [] in
  Stdlib.List.iter (fun l ->
    if conn.(l) && busy = [] then begin
      while query l = "item" do () done;
      gones := !gones @ [string_of_int l ^ ":" ^ (if gone.(l) then "1" else "0")]
    end) [0; 2; 4];
  let recv = Stdlib.List.rev_map (fun ((l, p), n) -> (int_of_n l, int_of_n p, int_of_n n)) !s.received in
  let show_log l =
    let mine = Stdlib.List.filter (fun (l', _, _) -> l' = l) recv in
    let ps = Stdlib.List.sort_uniq compare (Stdlib.List.map (fun (_, p, _) -> p) mine) in
    if ps = [] then "-" else
      join "/" (Stdlib.List.map (fun p ->
        string_of_int p ^ ":" ^ join "," (Stdlib.List.filter_map (fun (_, p', n) -> if p' = p then Some (string_of_int n) else None) mine)) ps) in
  let fin = ref [] in
  for l = 0 to nlinks - 1 do fin := !fin @ ["L" ^ string_of_int l ^ "=" ^ show_log l] done;
  let nupd = Stdlib.List.length !s.completed in
  let ndrop = Stdlib.List.length (Stdlib.List.filter (fun (_, sent) -> not sent) !s.completed) in
  let lst l = if l = [] then "-" else join "," l in
  fin := !fin @ [Printf.sprintf "m=%d/%d" nupd ndrop; "busy=" ^ lst (Stdlib.List.map string_of_int busy);
                 "t=" ^ lst !terms; "g=" ^ lst !gones];
  join " " (Stdlib.List.rev !out @ ["|"] @ !fin)

let run_case = run_with false
