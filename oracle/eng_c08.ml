(* C08 engine: drives GateModel.step over a case line (a schedule).
   Grammar and macro-step semantics: see harness/src/engines/c08.rs. Every op
   is a fixed sequence of model actions followed by "settling": the root
   works on its command queue until it is empty or until it has to WAIT
   inside notify_clones for room in a clone's command queue (capacity 16);
   blocked publishers retry in the order in which they blocked (tokio's mpsc
   hands freed capacity to waiters first-come first-served). The scheduling
   policy lives here (trusted glue); the theorems hold for every action list.
   The state is the BOUNDED gate (GateModel.bst / bstep): the root's command channel has 16 places, a
   sender that finds it full waits and lands (BLand) as soon as a place is free. Ops H / R: the unit is
   busy elsewhere, its process() is not polled (no ARoot) / it gets back to its gate; op `o l`: the
   connected link l is dropped (BDropLink), its component keeps the target and may link again. *)
open Conv
open GateModel

let nlinks = 6
let maxclones = 6

let run_with (follow : bool) (guard : bool) (line : string) : string =
  let ops = Stdlib.List.map words (split_on ';' line) in
  let cap = match ops with ("Q" :: k :: _) :: _ -> max 1 (int_of_string k) | _ -> 2 in
  let cf = { cf_cap = n_of_int cap; cf_follow = follow; cf_guard = guard } in
  let qlen = int_of_n cmd_queue_len in
  let b = ref binit in
  let s = ref init in
  let nat_int = int_of_nat in
  (* waiting senders are tasks: polled at every settling, they take the places that are free *)
  let senders_land () =
    let go = ref true in
    while !go do
      let k = nat_int !b.b_in in
      b := bstep cf !b BLand;
      if nat_int !b.b_in = k then go := false
    done in
  let bact a = b := bstep cf !b a; senders_land (); s := !b.b_st in
  let act a = bact (BAct a) in
  let hold = ref false         (* op H: the unit does not poll process() of the root gate *) in
  let blocked = ref [] (* publishers inside update_data, oldest block first *) in
  let gone = Array.make nlinks false in
  let tgt_alive = Array.make nlinks false and slots = Array.make nlinks [] in
  let held = ref (-1)          (* op `b`: the connect() future of this link is held by the harness and not polled *) in
  let root_handle = ref true   (* the harness still holds the root Gate object *) in
  let term_req = ref false     (* T / Z was issued *) in
  let drop_pending = ref false (* T while the root was still inside process(): the gate goes when process() returns *) in
  let nclone () = int_of_n !s.nclone in
  let calive c = (!s.clones (n_of_int c)).c_alive in
  let cterm c = (!s.clones (n_of_int c)).c_term in
  let cq c = (!s.clones (n_of_int c)).c_q in
  let idle p = pub_idle !s (n_of_int p) in
  let lstate l = !s.links (n_of_int l) in
  let conn l = (match lstate l with LConn _ -> true | _ -> false) in
  let pending l = (match lstate l with LPending -> not gone.(l) | _ -> false) in
  let susp l = (match lstate l with LConn (_, b) -> b | _ -> false) in
  let rest_len p = match !s.pubs (n_of_int p) with PSending (_, _, r, _) -> Stdlib.List.length r | PIdle _ -> -1 in
  (* run publisher p as far as it gets; true if it finished *)
  let run_pub p =
    let progress = ref false in
    let continue = ref true in
    while !continue do
      let before = rest_len p in
      if before = 0 then (act (AEnd (n_of_int p)); continue := false)
      else begin
        act (ADeliver (n_of_int p));
        if rest_len p = before then continue := false else progress := true
      end
    done;
    (idle p, !progress) in
  let pubs_settle () =
    let order = !blocked in
    Stdlib.List.iter (fun p ->
      let (fin, progress) = run_pub p in
      if fin then blocked := Stdlib.List.filter (fun q -> q <> p) !blocked
      else if progress then blocked := Stdlib.List.filter (fun q -> q <> p) !blocked @ [p]) order in
  let root_running () = not (!s.root_term || !s.root_dropped) in
  (* the root waits inside notify_clones: the next send goes to a live clone whose queue is full *)
  let root_waits () = match !s.rnote with
    | NSend (c, _) :: _ -> let k = !s.clones c in k.c_alive && Stdlib.List.length k.c_q >= qlen
    | _ -> false in
  let root_drain () =
    while not !hold && root_running () && (!s.rnote <> [] || !s.rootq <> []) && not (root_waits ()) do act ARoot done;
    if !drop_pending && !s.root_term && not !s.root_dropped then (act ARootDrop; drop_pending := false);
    (* a connect() in flight ends in Gone when the gate goes away; a new slot of a direct link; a
       connect() that has its answer returns (its task is polled) unless the harness holds the future *)
    for l = 0 to nlinks - 1 do
      (match lstate l with
       | LPending -> if !s.root_dropped then gone.(l) <- true
       | LConn (x, _) -> if l mod 2 = 1 && not (Stdlib.List.mem x slots.(l)) then slots.(l) <- x :: slots.(l)
       | LAnsw x ->
           if l mod 2 = 1 && not (Stdlib.List.mem x slots.(l)) then slots.(l) <- x :: slots.(l);
           if !held <> l then act (APick (n_of_int l))
       | LIdle -> ())
    done;
    pubs_settle () in
  (* commands the root has not got to (it is waiting, or has terminated while the gate object lives) *)
  let stuck () = not !hold && not !s.root_dropped && !s.rootq <> [] in
  (* the unit is busy elsewhere and the 16 places of the command channel are taken: a sender would wait *)
  let full () = !hold && nat_int !b.b_in >= qlen in
  let closing () = !term_req && not !s.root_dropped in
  (* ONE process() call of clone c, or (all) until its queue is empty; the root only runs while the
     clone waits on an empty queue *)
  let clone_process c all =
    if not (calive c) || cterm c then "skip" else begin
      let res = ref "" in
      while !res = "" do
        let status0 = gate_dormant !s in
        let inner = ref "" in
        while !inner = "" do
          if cq c = [] then root_drain ();
          match cq c with
          | [] -> if !s.root_dropped then (act (ACloneStep (n_of_int c)); inner := "term") else inner := "idle"
          | x :: _ ->
              act (ACloneStep (n_of_int c));
              if x = FTerm then inner := "term"
              else if gate_dormant !s <> status0 then inner := "ok"
        done;
        if !inner = "idle" then res := "idle"
        else if !inner = "term" then res := "term"
        else if not all then res := "ok"
      done;
      root_drain ();
      !res
    end in
  let connect l =
    if conn l || pending l || closing () || stuck () then "skip" else if gone.(l) then "gone" else begin
      (* a direct link hands the gate a (new, if the old one was dropped) direct-update target *)
      if l mod 2 = 1 && not tgt_alive.(l) then (tgt_alive.(l) <- true; slots.(l) <- []);
      if !s.root_dropped then (gone.(l) <- true; "gone") else begin
        act (ASendSub (n_of_int l)); root_drain ();
        match lstate l with
        | LConn _ -> "ok"
        | _ -> if gone.(l) then "gone" else "blk"
      end
    end in
  (* an abandoned connect: the future is polled once (Subscribe queued) and dropped - before the gate
     runs (early), or after it has run and answered (late). A connect() in flight (c:blk) is cancelled. *)
  let abandon l late =
    if conn l || closing () then "skip"
    else if pending l then begin
      if late then "skip" else (act (AAbandon (n_of_int l)); root_drain (); "cut")
    end
    else if stuck () || (late && !hold) then "skip" else if gone.(l) then "gone" else begin
      if l mod 2 = 1 && not tgt_alive.(l) then (tgt_alive.(l) <- true; slots.(l) <- []);
      if !s.root_dropped then (gone.(l) <- true; "gone")
      else if full () then "ok"   (* the send waits for room and is cancelled with the future: no command was ever sent *)
      else begin
        act (ASendSub (n_of_int l));
        if late then (held := l; root_drain (); held := -1);
        act (AAbandon (n_of_int l)); root_drain (); "ok"
      end
    end in
  let link_cmd l what =
    if not (conn l) || closing () || stuck () || full () then "skip"
    else if what = "s" && susp l then "skip"
    else if what = "r" && not (susp l) then "skip"
    else begin
      (match what with
       | "d" -> act (ASendUnsub (n_of_int l))
       | "s" -> act (ASendSusp (n_of_int l, true))
       | _ -> act (ASendSusp (n_of_int l, false)));
      root_drain (); "ok"
    end in
  (* Drop for Link: the connected link object goes (a queue link's receiver with it), its Unsubscribe is sent
     by a task that waits for room; the component keeps its direct-update target and gets a new link *)
  let drop_link l =
    if not (conn l) || closing () || stuck () then "skip"
    else (bact (BDropLink (n_of_int l)); root_drain (); "ok") in
  let hold_root () =
    if !hold || not !root_handle || !term_req || stuck () || not (root_running ()) then "skip"
    else (hold := true; "ok") in
  let release_root () =
    if not !hold then "skip" else (hold := false; root_drain (); "ok") in
  (* the component behind direct link l drops its direct-update target; the link stays subscribed *)
  let target_drop l =
    if l mod 2 = 0 || not tgt_alive.(l) || pending l then "skip" else begin
      Stdlib.List.iter (fun x -> act (ARxDrop x)) slots.(l);
      tgt_alive.(l) <- false; slots.(l) <- [];
      pubs_settle (); "ok"
    end in
  let query l =
    if not (conn l) || gone.(l) || l mod 2 = 1 then "skip" else begin
      let r = match lstate l with
        | LConn (x, _) ->
            if (!s.chans x).ch_q <> [] then (act (ARecv (n_of_int l)); "item")
            else if all_gone !s then (gone.(l) <- true; "gone") else "-"
        | _ -> "?" in
      pubs_settle (); r
    end in
  let update p =
    if p >= nclone () || (p = 0 && not !root_handle) || not (pub_alive !s (n_of_int p)) || not (idle p) then "skip" else begin
      act (ABegin (n_of_int p));
      let (fin, _) = run_pub p in
      if fin then "done" else (blocked := !blocked @ [p]; "blk")
    end in
  (* T: terminate and let go of the gate; Z: terminate, the gate object stays; X: the unit's task is
     cancelled and the gate dropped *)
  let terminate drop_gate =
    term_req := true;
    act ASendTerm; root_drain ();
    let seen = !s.root_term in
    if drop_gate then begin
      root_handle := false;
      if seen then act ARootDrop else drop_pending := true;
      root_drain ()
    end;
    if seen then "ok" else "blk" in
  let drop_root () =
    root_handle := false; drop_pending := false;
    act ARootDrop; root_drain (); "ok" in
  let num o = match o with _ :: k :: _ -> (try int_of_string k with _ -> 0) | _ -> 0 in
  let out = ref [] in
  let emit t = out := t :: !out in
  Stdlib.List.iter (fun o ->
    let k = num o in
    match o with
    | "Q" :: _ -> emit "Q"
    | "c" :: _ when k < nlinks -> emit ("c:" ^ connect k)
    | ("d" | "s" | "r" as w) :: _ when k < nlinks -> emit (w ^ ":" ^ link_cmd k w)
    | "t" :: _ when k < nlinks -> emit ("t:" ^ target_drop k)
    | "o" :: _ when k < nlinks -> emit ("o:" ^ drop_link k)
    | "H" :: _ -> emit ("H:" ^ hold_root ())
    | "R" :: _ -> emit ("R:" ^ release_root ())
    | ("a" | "b" as w) :: _ when k < nlinks -> emit (w ^ ":" ^ abandon k (w = "b"))
    | "q" :: _ when k < nlinks -> emit ("q:" ^ query k)
    | "u" :: _ -> emit ("u:" ^ update k)
    | "M" :: _ -> emit (Printf.sprintf "M:%d/%d" (int_of_n !s.m_upd) (int_of_n !s.m_drop))
    | "k" :: _ ->
        if not !root_handle || !term_req || stuck () || !hold || nclone () > maxclones then emit "k:skip"
        else (act AClone; root_drain (); emit ("k:" ^ string_of_int (nclone () - 1)))
    | "x" :: _ ->
        if k = 0 || k >= nclone () || not (calive k) || not (idle k) || !hold then emit "x:skip"
        else (act (ACloneDrop (n_of_int k)); root_drain (); emit "x:ok")
    | ("F" | "D" as w) :: _ ->
        if k = 0 || k >= nclone () then emit (w ^ ":skip") else emit (w ^ ":" ^ clone_process k (w = "D"))
    | ("T" | "Z" as w) :: _ ->
        if not !root_handle || !term_req || not (idle 0) || !hold then emit (w ^ ":skip") else emit (w ^ ":" ^ terminate (w = "T"))
    | "X" :: _ ->
        if not !root_handle || not (idle 0) || !hold then emit "X:skip" else emit ("X:" ^ drop_root ())
    | _ -> emit "?") ops;
  (* final phase *)
  ignore (release_root ());
  let progress = ref true in
  while !progress do
    progress := false;
    Stdlib.List.iter (fun l -> while query l = "item" do progress := true done) [0; 2; 4]
  done;
  let busy = Stdlib.List.filter (fun p -> not (idle p)) (Stdlib.List.init (nclone ()) (fun p -> p)) in
  if busy = [] then begin
    if !root_handle && not !term_req then ignore (terminate true);
    (* every clone runs its process() until nothing moves any more *)
    for _ = 1 to nclone () do
      for c = 1 to nclone () - 1 do ignore (clone_process c true) done
    done
  end;
  let terms = ref [] in
  for c = 1 to nclone () - 1 do
    if calive c && busy = [] then begin
      terms := !terms @ [string_of_int c ^ ":" ^ (if cterm c then "1" else "0")];
      act (ACloneDrop (n_of_int c)); root_drain ()
    end
  done;
  (* did the root's process() return Err(Terminated)? (never after X) *)
  let rterm = if !s.root_term then "1" else "0" in
  if !root_handle && busy = [] then ignore (drop_root ());
  let gones = ref [] in
  Stdlib.List.iter (fun l ->
    if conn l && busy = [] then begin
      while query l = "item" do () done;
      gones := !gones @ [string_of_int l ^ ":" ^ (if gone.(l) then "1" else "0")]
    end) [0; 2; 4];
  let recv = Stdlib.List.rev_map (fun ((l, p), n) -> (int_of_n l, int_of_n p, int_of_n n)) !s.received in
  let show_log l =
    let mine = Stdlib.List.filter (fun (l', _, _) -> l' = l) recv in
    let ps = Stdlib.List.sort_uniq compare (Stdlib.List.map (fun (_, p, _) -> p) mine) in
    if ps = [] then "-" else
      join "/" (Stdlib.List.map (fun p ->
        string_of_int p ^ ":" ^ join "," (Stdlib.List.filter_map (fun (_, p', n) -> if p' = p then Some (string_of_int n) else None) mine)) ps) in
  let fin = ref [] in
  for l = 0 to nlinks - 1 do fin := !fin @ ["L" ^ string_of_int l ^ "=" ^ show_log l] done;
  let lst l = if l = [] then "-" else join "," l in
  fin := !fin @ [Printf.sprintf "m=%d/%d" (int_of_n !s.m_upd) (int_of_n !s.m_drop); "busy=" ^ lst (Stdlib.List.map string_of_int busy);
                 "t=" ^ lst !terms; "r=" ^ rterm; "g=" ^ lst !gones];
  let model = Stdlib.List.rev !out @ ["|"] @ !fin in
  (* the PROPERTY does not say how long the root may take: where the model says that a connect() /
     a Terminate had to wait for room in a clone's command queue, an implementation that does not
     wait is a correspondence matter, not a violation of C08 - what Terminate and the updates reach
     (t= r= g= L..=) is demanded as is *)
  let relax t = match t with
    | "c:blk" -> "c:<ok|blk>" | "T:blk" -> "T:<ok|blk>" | "Z:blk" -> "Z:<ok|blk>" | _ -> t in
  let spec = Stdlib.List.map relax model in
  if spec = model then join " " model else join " " model ^ " ||| " ^ join " " spec

let run_case = run_with false true
