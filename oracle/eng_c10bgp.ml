(* c10bgp engine: FilterUnits.bgp_unit (the bgp-in call site in front of the
   explosion of the UPDATE) over a scripted session; one token for the whole
   sequence of updates sent to the gate. Prints  model ||| spec ||| classes. *)
open Conv
open FilterLang
open FilterUnits
open C10lib

let run_case (line : string) : string =
  match Stdlib.List.map words (split_on ';' line) with
  | [] -> ""
  | f :: ops ->
      let (_, prog) = parse_filter f in
      (match prog with Some p when not (returns p) -> failwith "ill-formed filter body" | _ -> ());
      (* `A <asn> <four>`: a real session with a peer of that AS; else the scripted session's dummy peer, AS12345 *)
      let (real_peer, legacy, ops) = match ops with
        | ["A"; asn; four] :: rest -> (Some (i_of asn), four = "0", rest)
        | _ -> (None, false, ops) in
      let id = n 7 and peer_asn = n (match real_peer with Some a -> a | None -> 12345) in
      let show_pay (p : RibModel.payload) =
        let ((_, pfx), i) = p.RibModel.p_key in
        if p.RibModel.p_active then Printf.sprintf "+%s#%s/%s" (pn pfx) (pn i) (pn p.RibModel.p_attrs)
        else Printf.sprintf "-%s#%s" (pn pfx) (pn i) in
      let show_down (d : (RibModel.update, FilterGlue.osm) FilterGlue.down) = match d with
        | FilterGlue.DOut ms -> "O[" ^ join "," (Stdlib.List.map (show_osm_with pn) ms) ^ "]"
        | FilterGlue.DUpd (RibModel.UBulk ps) -> "U[" ^ join "," (Stdlib.List.map show_pay ps) ^ "]"
        | FilterGlue.DUpd _ -> "other" in
      let run lb render =
        Stdlib.List.concat (Stdlib.List.map (fun op ->
          match op with
          | ["G"; tag; a; ann; wd] ->
              let u = BmpModel.URoutes (n 0, plist ann, n (i_of tag), n 0, plist wd) in
              Stdlib.List.map show_down (bgp_unit lb render prog id (u, bgp_view (sess_prov id (n 0) peer_asn) u (parse_attrs a) legacy))
          | _ -> failwith ("bad op: " ^ join " " op)) ops) in
      (* Processor::process after the loop: the session's routes are withdrawn *)
      let fin l = (match real_peer with Some a -> "peer:" ^ string_of_int a ^ " " | None -> "")
                  ^ "seq:" ^ join ";" (l @ ["w#" ^ pn id]) in
      let m = fin (run true FilterGlue.render_bgp) and s = fin (run false FilterGlue.render_msg_spec) in
      (* predicates as the code has them, every entry sent: differs from the model only by finding K1, from the
         property only by finding K3 (AS-path predicates on a session without the 4-octet capability) *)
      let k = fin (run true FilterGlue.render_msg_spec) in
      if m = s then m
      else
        let c = if k = s then "K1" else if k = m then "K3" else "K1K3" in
        m ^ " ||| " ^ s ^ " ||| " ^ (match real_peer with Some _ -> ". " ^ c | None -> c)
