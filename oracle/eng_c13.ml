(* C13 engine: runs ReloadModel.reload over a history of abstract documents.
   Case grammar (loads separated by ';'):
     D <syntax-ok> <top-ok> , u <name> <ty> <src> <ok> <vribs> <cfg> , t <name> <ty> <src> <ok> <cfg> , ...
     <src>: '-' | S:<n> | A[:<n>|:x]* | B
   Prints `model ||| spec`: model = variant Fixed (or Legacy when the
   environment variable C13_VARIANT=legacy, i.e. the code before the fix:
   commits), spec = variant Ideal. *)
open Conv
open ReloadModel

let unit_types = [| "bgp-tcp-in"; "bmp-tcp-in"; "filter"; "rib"; "mrt-file-in" |]
let target_types = [| "file-out"; "mqtt-out"; "null-out" |]

let nm k : name = (n_of_int (int_of_string k), None)
let show_name ((k, v) : name) =
  match v with
  | None -> Printf.sprintf "n%02d" (int_of_n k)
  | Some i -> Printf.sprintf "n%02d-vRIB-%d" (int_of_n k) (int_of_n i)

let parse_src s =
  if s = "-" then SNone
  else if s = "B" then SBad
  else if String.length s >= 2 && String.sub s 0 2 = "S:" then SOne (nm (String.sub s 2 (String.length s - 2)))
  else if s.[0] = 'A' then
    SMany (Stdlib.List.map (fun x -> if x = "x" then None else Some (nm x))
             (split_on ':' (String.sub s 1 (String.length s - 1))))
  else failwith ("bad src " ^ s)

let parse_doc (op : string) : doc =
  match Stdlib.List.map words (String.split_on_char ',' op) with
  | ["D"; syn; top] :: comps ->
      let units = ref [] and targets = ref [] in
      Stdlib.List.iter (fun c ->
        match c with
        | [] -> ()
        | ["u"; n; ty; src; ok; vr; cfg] ->
            units := !units @ [ (nm n, { c_ty = n_of_int (int_of_string ty); c_src = parse_src src; c_ok = (ok = "1");
                                         c_vribs = n_of_int (int_of_string vr); c_cfg = n_of_int (int_of_string cfg); c_up = None }) ]
        | ["t"; n; ty; src; ok; cfg] ->
            targets := !targets @ [ (nm n, { c_ty = n_of_int (int_of_string ty); c_src = parse_src src; c_ok = (ok = "1");
                                             c_vribs = N0; c_cfg = n_of_int (int_of_string cfg); c_up = None }) ]
        | _ -> failwith ("bad component: " ^ join " " c)) comps;
      { d_syntax = (syn = "1"); d_top = (top = "1"); d_units = !units; d_targets = !targets }
  | _ -> failwith ("bad load: " ^ op)

let show_action = function
  | ASpawn (KUnit, n) -> "+u:" ^ show_name n
  | ASpawn (KTarget, n) -> "+t:" ^ show_name n
  | AReconf (KUnit, n) -> "~u:" ^ show_name n
  | AReconf (KTarget, n) -> "~t:" ^ show_name n
  | ATerm (KUnit, n) -> "-u:" ^ show_name n
  | ATerm (KTarget, n) -> "-t:" ^ show_name n

let sort_strings l = Stdlib.List.sort_uniq compare l

let state_tokens (m : mgr) =
  let tok kind types (n, r) =
    let ty = int_of_n r.r_ty in
    let tyname = if ty < Array.length types then types.(ty) else "?" in
    let cfg = if kind = "t" && ty = 2 then "-" else "cfg" ^ string_of_int (int_of_n r.r_cfg) in
    let ups = sort_strings (Stdlib.List.map (function Some s -> show_name s | None -> "?") (wiring m r)) in
    (show_name n, Printf.sprintf "%s:%s:%s:%s<-%s" kind (show_name n) tyname cfg (join "," ups)) in
  let sorted l = Stdlib.List.map snd (Stdlib.List.sort compare l) in
  sorted (Stdlib.List.map (tok "u" unit_types) m.m_units) @ sorted (Stdlib.List.map (tok "t" target_types) m.m_targets)

let run_variant (v : variant) (docs : doc list) : string =
  let out = ref [] in
  let emit s = out := s :: !out in
  let rec go k m = function
    | [] -> ()
    | d :: rest ->
        emit (Printf.sprintf "[%d" k);
        let (res, m') = reload v m d in
        (match res with
         | RPanic -> emit "PANIC"; emit "]"
         | RErr -> emit "E"; emit "|"; Stdlib.List.iter emit (state_tokens m'); emit "]"; go (k + 1) m' rest
         | ROk acts ->
             emit "ok";
             Stdlib.List.iter emit (Stdlib.List.sort compare (Stdlib.List.map show_action acts));
             emit "|"; Stdlib.List.iter emit (state_tokens m'); emit "]"; go (k + 1) m' rest) in
  go 0 mgr_new docs;
  join " " (Stdlib.List.rev !out)

let run_case (line : string) : string =
  let docs = Stdlib.List.map parse_doc (Stdlib.List.filter (fun s -> String.trim s <> "") (String.split_on_char ';' line)) in
  let v = match Sys.getenv_opt "C13_VARIANT" with Some "legacy" -> Legacy | _ -> Fixed in
  let model = run_variant v docs in
  let spec = run_variant Ideal docs in
  if model = spec then model else model ^ " ||| " ^ spec
