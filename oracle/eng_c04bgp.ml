(* C04 over the BGP session ingress path: the expected observation is the one of engine c04. *)
let run_case = Eng_c04.run_case
