(* C04 over the BGP session ingress path: as c04bmp (Update::Bulk order: withdrawals first). *)
let run_case (line : string) : string = Eng_c04bmp.bulk_order (Eng_c04.run_case line)
