(* C12, engine c12tcp: raw request bytes on a TCP connection (grammar in
   harness/src/engines/c12tcp.rs).
     K <piece> ...   one connection; piece = hex[+hex..] ('+' = the bytes arrive in separate segments),
                     '~' in front of the last piece = the client stops there and closes its sending half
     B               a BMP router has connected: its router-info endpoint shadows /routers/<name>
     T <tags>        a label (ignored)
   The bytes of a connection are handed to the extracted wire model (WireModel.wire_conn: httparse + hyper's
   Server::parse + http::Uri, request by request); every request it says is delivered is answered by the
   dispatch model (Eng_c12.eval_request: DispatchModel.handle over the configuration a running pipeline has:
   compression on, /status/graph, /status/traces, the bmp-tcp-in unit's router list at /routers/, the rib
   unit's API at /prefixes/), every request it says hyper refuses is answered by hyper's own status.
   Prints `model ||| spec`: the property leaves open HOW a malformed request is turned down
   (<400|414|431|505|closed>), the model says which of them hyper 0.14 picks. *)
open Conv
open DispatchModel
open WireModel

(* The extracted model walks byte lists recursively and a connection may carry half a megabyte (hyper's read buffer
   is 417792 bytes): run with a stack that allows it. Done before any input is read (module initialisation);
   if the limit cannot be raised the oversized cases fail loudly (MODEL-ERROR Stack overflow). *)
let () =
  if Array.length Sys.argv > 1 && Sys.argv.(1) = "c12tcp" && Sys.getenv_opt "C12TCP_STACK" = None then begin
    let cmd = Printf.sprintf "ulimit -s 4000000 2>/dev/null || ulimit -s unlimited 2>/dev/null; C12TCP_STACK=1 exec %s c12tcp"
        (Filename.quote Sys.executable_name) in
    exit (Sys.command cmd)
  end

let unhex = Eng_c12.unhex
let bytes_of_string = Eng_c12.bytes_of_string

let refused = "<400,-,e|414,-,e|431,-,e|505,-,e|closed>"

(* the configuration of the pipeline the harness starts (harness/src/engines/e2e.rs config_text) *)
let base_config =
  let ops = [ OCompress true; OGraph (n_of_int 3);
              OReg (n_of_int 10, PRouters (bytes_of_string "/routers/"), false);
              OReg (n_of_int 11, PRib (bytes_of_string "/prefixes/"), false) ] in
  Stdlib.List.fold_left (fun c o -> fst (step (fun _ -> true) c o)) cfg_init ops

(* a silent router from 127.0.0.10: the info page answers to its address and (no sysName yet) to the empty name;
   its ingress id and router id are numbers the unit picks: the generator asks for no numeric names *)
let with_router c =
  fst (step (fun _ -> true) c (OReg (n_of_int 12, PInfo (bytes_of_string "/routers/", [bytes_of_string "127.0.0.10"; []]), true)))

type piece = { segs : string list; cut : bool }

let parse_piece t =
  let cut = Stdlib.String.length t > 0 && t.[0] = '~' in
  let t = if cut then Stdlib.String.sub t 1 (Stdlib.String.length t - 1) else t in
  { segs = Stdlib.String.split_on_char '+' t; cut }

let alt l = match Stdlib.List.sort_uniq compare l with [a] -> a | l -> "<" ^ join "|" l ^ ">"

(* tokens (model alternatives, spec alternatives) of one connection *)
let conn_tokens cfg (pieces : piece list) : (string list * string list) list =
  let n = Stdlib.List.length pieces in
  let stream = Stdlib.List.concat_map (fun p -> Stdlib.List.concat_map unhex p.segs) pieces in
  let split = Stdlib.List.exists (fun p -> Stdlib.List.length p.segs > 1) pieces in
  let cut = (match Stdlib.List.rev pieces with p :: _ -> p.cut | [] -> false) in
  let total = Stdlib.List.length stream in
  let events = wire_conn stream in
  (* a refusal that hyper can only see by parsing a head whose end has not arrived (ERefuse _ false): when the bytes come in
     more than one read, hyper does not parse again before it has seen the end of the head (role.rs is_complete_fast) *)
  let one_read = (not split) && total <= 8192 in
  let deliver (d : delivered) =
    let (m, s) = Eng_c12.eval_request_alts cfg d.dl_req in
    if d.dl_method = k_head then
      (* the answer to a HEAD has no body: nothing says whether a reason was there *)
      let strip t = match Stdlib.String.split_on_char ',' t with [a; b; _] -> a ^ "," ^ b | _ -> t in
      (Stdlib.List.map strip m, Stdlib.List.map strip s)
    else (m, s) in
  (* hyper's own error response can get lost: the connection is dropped right after it was written; if request bytes are
     still unread in the kernel then, the close is a reset, and a response that was held back (Nagle: an earlier
     response on the connection is not acknowledged yet) is discarded with it *)
  let may_lose k = k > 0 && (split || total > 8192) in
  let extra l = Stdlib.List.concat_map (fun t -> [t; t ^ "+extra-bytes"]) l in
  (* a request the client did not count as one (a line feed inside a header value ends the head early ...): the answer
     to what follows may or may not be there when the client stops reading *)
  let more evs = (match evs with (EDeliver _ | EBig _ | ERefuse _ | EBigRefuse _ | EOpaque) :: _ -> true | _ -> false) in
  let finish evs acc =
    match acc with
    | (m, s) :: t when more evs && not (Stdlib.List.mem "*" m) -> Stdlib.List.rev ((extra m, extra s) :: t)
    | _ -> Stdlib.List.rev acc in
  let rec go evs k acc =
    if k >= n then finish evs acc
    else match evs with
      | [] -> go [] (k + 1) ((["closed"], ["closed"]) :: acc)
      | EDeliver d :: rest -> go rest (k + 1) (deliver d :: acc)
      | EBig d :: rest ->
          let (m, s) = deliver d in
          go rest (k + 1) ((m @ ["431,-,e"], s @ ["431,-,e"]) :: acc)
      | ERefuse (code, sure) :: _ ->
          let t = string_of_int (int_of_n code) ^ ",-,e" in
          let m = if sure || one_read then [t] else [t; (if cut then "closed" else "no-response")] in
          let m = if may_lose k then m @ ["closed"] else m in
          go [] (k + 1) ((m, [refused]) :: acc)
      | EBigRefuse code :: _ ->
          let m = [string_of_int (int_of_n code) ^ ",-,e"; "431,-,e"] in
          go [] (k + 1) (((if may_lose k then m @ ["closed"] else m), [refused]) :: acc)
      | EClosed :: _ -> go [] (k + 1) ((["closed"], ["closed"]) :: acc)
      | EWait :: _ ->
          (* the server waits for the rest of a head: it closes when the client closes, and says nothing before *)
          let t = if cut then "closed" else "no-response" in
          go [] (k + 1) (([t], [t]) :: acc)
      | EOpaque :: _ -> Stdlib.List.rev_append acc (Stdlib.List.init (n - k) (fun _ -> (["*"], ["*"]))) in
  go events 0 []

let run_case (line : string) : string =
  let cfg = ref base_config in
  let mo = ref [] and sp = ref [] in
  Stdlib.List.iter (fun s ->
      match words s with
      | "K" :: ps ->
          Stdlib.List.iter (fun (m, s) ->
              (* `*` swallows the alternatives: nothing is claimed *)
              let r l = if Stdlib.List.mem "*" l then "*"
                else if Stdlib.List.mem refused l then (if Stdlib.List.length l = 1 then refused
                                                       else "<400,-,e|414,-,e|431,-,e|505,-,e|closed|400,-,e+extra-bytes|414,-,e+extra-bytes|431,-,e+extra-bytes|505,-,e+extra-bytes>")
                else alt l in
              mo := r m :: !mo; sp := r s :: !sp)
            (conn_tokens !cfg (Stdlib.List.map parse_piece ps))
      | ["B"] -> cfg := with_router !cfg
      | "T" :: _ -> ()
      | _ -> failwith ("bad op: " ^ s))
    (split_on ';' line);
  mo := "alive" :: !mo; sp := "alive" :: !sp;
  let m = join " " (Stdlib.List.rev !mo) and s = join " " (Stdlib.List.rev !sp) in
  if m = s then m else m ^ " ||| " ^ s
