(* C18 engine (sequential): one thread, FrimModel.fv_run on the op sequence.
   Case grammar: <op>;<op>;...  with <op> as in eng_c18.ml.
   Observation: one token per call, then "F <final contents sorted>". *)
open Conv
open FrimModel

let run_case (line : string) : string =
  let ops = Stdlib.List.filter (fun w -> w <> []) (Stdlib.List.map words (split_on ';' line)) in
  let ops = Stdlib.List.map Eng_c18.parse_op ops in
  let (final, rets) = fv_run ops [] in
  join " " (Stdlib.List.map Eng_c18.show_ret rets @ ["F"; Eng_c18.show_vec final])
