(* bgpend engine: BgpSessionModel.bs_process (the select! loop of bgp_tcp_in
   Processor::process and the block after it) and bs_process_spec (the property's
   reading) over one case line; the trace is applied to RibModel after the routes of
   another source and every prefix of the case is queried.
   Prints  model ||| spec ||| classes  when they differ (class KW = the recorded
   window finding, BgpSessionModel.bs_known_window).
   Op M (C15 profile): the counters of the unit's status reporter after the session
   (BgpSessionModel.bsm_process), token met:lost=<n>,disc=<n>.
   Case grammar: see harness/src/engines/bgpend.rs. *)
open Conv
open BgpSessionModel

let n = n_of_int
let other_id = 900
let peer_key = 5 and other_key = 6

let plist tok = if tok = "-" then [] else Stdlib.List.map (fun t -> n (int_of_string t)) (split_on ',' tok)
let ints tok = if tok = "-" then [] else Stdlib.List.map int_of_string (split_on ',' tok)

let run_case (line : string) : string =
  let id = ref 7 and dup = ref false and other = ref true and metrics = ref false in
  let pre = ref [] and evs = ref [] and queried = ref [] in
  let routes a ps ws =
    queried := ints ps @ ints ws @ !queried;
    BmpModel.URoutes (n 0, plist ps, n (int_of_string a), n 0, plist ws) in
  Stdlib.List.iter (fun op ->
      match words op with
      | [] -> ()
      | ["S"; i; d; o] -> id := int_of_string i; dup := (d = "1"); other := (o = "1")
      | ["P"; a; ps; ws] -> pre := !pre @ [routes a ps ws]
      | ["t"] -> evs := !evs @ [BTick]
      | ["g"] -> evs := !evs @ [BNegotiate]
      | ["e"; k] -> evs := !evs @ [BTickErr (n (int_of_string k))]
      | ["n"] -> evs := !evs @ [BMsgNegotiated]
      | ["u"; a; ps; ws] -> evs := !evs @ [BMsgUpdate (Some (routes a ps ws))]
      | ["k"] -> evs := !evs @ [BMsgNotification]
      | ["l"; s] -> evs := !evs @ [BMsgLost (s = "1")]
      | ["x"] -> evs := !evs @ [BClosed]
      | ["T"] -> evs := !evs @ [BTerminate]
      | ["r"; "unit"] -> evs := !evs @ [BReconf BRUnit]
      | ["r"; "same"] -> evs := !evs @ [BReconf BRSame]
      | ["r"; "peer"] -> evs := !evs @ [BReconf BRPeer]
      | ["r"; "gone"] -> evs := !evs @ [BReconf BRGone]
      | ["r"; "other"] -> evs := !evs @ [BReconf BROthers]
      | ["M"] -> metrics := true
      | _ -> failwith ("bad op: " ^ op)) (split_on ';' line);
  let idn = n !id in
  let live0 = bs_live_of ((if !dup then [n peer_key] else []) @ (if !other then [n other_key] else [])) in
  let who i = let i = int_of_n i in if i = !id then "s" else if i = other_id then "o" else "?" ^ string_of_int i in
  let show_pay (p : RibModel.payload) =
    let ((_, pfx), i) = p.RibModel.p_key in
    if p.RibModel.p_active then Printf.sprintf "+%d#%s/%d" (int_of_n pfx) (who i) (int_of_n p.RibModel.p_attrs)
    else Printf.sprintf "-%d#%s" (int_of_n pfx) (who i) in
  let show_update (u : RibModel.update) = match u with
    | RibModel.UBulk ps -> "u:[" ^ join "," (Stdlib.List.map show_pay ps) ^ "]"
    | RibModel.UWithdraw (i, None) -> "w:" ^ who i
    | RibModel.UWithdraw (i, Some f) -> Printf.sprintf "w:%s:%d" (who i) (int_of_n f)
    | RibModel.UWithdrawBulk l -> "W:[" ^ join "," (Stdlib.List.map who l) ^ "]"
    | RibModel.UPass -> "other" in
  let r0 = Stdlib.List.fold_left (fun r u -> RibModel.rib_apply r (RibModel.UBulk (BmpModel.payloads_of (n other_id) u)))
      RibModel.rib_empty !pre in
  let qs = Stdlib.List.sort_uniq compare !queried in
  let nevs = Stdlib.List.length !evs in
  let render ((s, rest) : bs_st * bs_ev list) : string list * string * string list =
    let head = ["end:1"; Printf.sprintf "used:%d" (nevs - Stdlib.List.length rest)] @ Stdlib.List.map show_update s.bs_out in
    let names = Stdlib.List.sort compare (Stdlib.List.map (fun k ->
        let k = int_of_n k in if k = peer_key then "peer" else if k = other_key then "other" else "?" ^ string_of_int k) (bs_live_list s)) in
    let live = "live:" ^ (if names = [] then "-" else join "," names) in
    let cmd = function BCRejected -> "rejected" | BCShutdown -> "shutdown" | BCReconfiguration -> "reconfiguration" | BCDeconfigured -> "deconfigured" in
    let cmds = "cmds:" ^ (if s.bs_cmds = [] then "-" else join "," (Stdlib.List.map cmd s.bs_cmds)) in
    let rib = bs_rib_after r0 s.bs_out in
    let q p =
      let es = Stdlib.List.sort compare (Stdlib.List.map (fun ((i, act), a) ->
          Printf.sprintf "%s=%s%d" (who i) (if act then "A" else "W") (int_of_n a)) (RibModel.rib_query rib (n 0) (n p))) in
      Printf.sprintf "q%d:%s" p (if es = [] then "-" else join "," es) in
    (head, live, cmds :: Stdlib.List.map q qs) in
  let (mh, ml, mt) = render (bs_process idn (n peer_key) live0 !evs) in
  let (sh, sl, st) = render (bs_process_spec idn (n peer_key) live0 !evs) in
  (* op M (C15): the unit's own counters after the session, bsm_process from zeroed counters; the property
     demands what the model does (C15_bgp_counters_count) *)
  let met = if not !metrics then [] else begin
      let ((_, m), _) = bsm_process idn (n peer_key) live0 { bm_lost = n 0; bm_disc = n 0 } !evs in
      [Printf.sprintf "met:lost=%d,disc=%d" (int_of_n m.bm_lost) (int_of_n m.bm_disc)] end in
  let mt = mt @ met and st = st @ met in
  let m = join " " (mh @ [ml] @ mt) and s = join " " (sh @ [sl] @ st) in
  if m = s then m
  else begin
    let known = bs_known_window idn (n peer_key) live0 !evs in
    let cls = if mh = sh && mt = st && known
      then Stdlib.List.map (fun _ -> ".") mh @ ["KW"] @ Stdlib.List.map (fun _ -> ".") mt
      else Stdlib.List.map (fun _ -> "?") (mh @ [ml] @ mt) in
    m ^ " ||| " ^ s ^ " ||| " ^ join " " cls
  end
