(* bgprx engine: BgpRxModel.rx_run_drained (the repaired code) over one case line: the octets of
   a BGP connection through routecore's framing as modelled, the reference description of
   routecore 0.5.1's FSM (BgpRxModel.rc_ref; C04's decoder answers "is this UPDATE accepted",
   the OPENs the generator tagged o / O are the acceptable ones), the select! loop of
   BgpSessionModel and the block after it.
   Case grammar and observation: see harness/src/engines/bgprx.rs.
   Full mode (T): the whole trace is printed; where routecore panics (a second OPEN) the model
   says so and the spec is the run with an FSM that refuses the frame instead:
   `model ||| spec ||| classes` (class KO). Shape mode: what the theorems show to be independent of
   the parser and the FSM: no panic, ended, live_sessions as found, the trace is empty or ends with the
   session's Withdraw. *)
open Conv
open BgpSessionModel
open BgpRxModel

let n = n_of_int
let session_id = 7
let peer_key = 5

(* ---- back from the numbering of Pipe/PipeRaw.v (bytes_code: little endian, closed by a 1) ---- *)
let rec bits_of_pos (p : BinNums.positive) : int list =      (* least significant first, without the leading 1 *)
  match p with
  | BinNums.Coq_xH -> []
  | BinNums.Coq_xO q -> 0 :: bits_of_pos q
  | BinNums.Coq_xI q -> 1 :: bits_of_pos q
(* the bits of a number, least significant first, the leading 1 included *)
let bits_of_n = function BinNums.N0 -> [] | BinNums.Npos p -> bits_of_pos p @ [1]
let rec take8 l k acc = if k = 8 then (acc, l) else match l with
  | [] -> (acc, [])
  | b :: r -> take8 r (k + 1) (acc lor (b lsl k))
(* digits in base 256, least significant first *)
let rec digits (bits : int list) : int list =
  match bits with [] -> [] | _ -> let (d, rest) = take8 bits 0 0 in d :: digits rest
let bytes_of_code (c : BinNums.coq_N) : int list =
  match Stdlib.List.rev (digits (bits_of_n c)) with
  | 1 :: r -> Stdlib.List.rev r
  | _ -> failwith "not a bytes_code"
let pfx_of_code (c : BinNums.coq_N) : int * int list =
  match digits (bits_of_n c) with
  | [] -> failwith "not a pfx_code"
  | len :: rest ->
      (* rest are the digits of bytes_code *)
      (match Stdlib.List.rev rest with 1 :: r -> (len, Stdlib.List.rev r) | _ -> failwith "not a pfx_code")
let fam_name c = match int_of_n c with 0 -> "4u" | 1 -> "6u" | 2 -> "4m" | 3 -> "6m" | k -> "?" ^ string_of_int k

let show_pay (p : RibModel.payload) : string =
  let ((fam, pfx), id) = p.RibModel.p_key in
  let (len, bs) = pfx_of_code pfx in
  let pf = (if bs = [] then "-" else C04_util.hex_of_ints bs) ^ "/" ^ string_of_int len in
  let own = if int_of_n id = session_id then "" else "!id" in
  if p.RibModel.p_active then begin
    let raw = bytes_of_code p.RibModel.p_attrs in
    Printf.sprintf "A%s:%s:n%dh%08x%s" (fam_name fam) pf (Stdlib.List.length raw) (C04_util.fnv raw) own
  end else Printf.sprintf "W%s:%s:n0h%08x%s" (fam_name fam) pf (C04_util.fnv []) own

let show_update (u : RibModel.update) : string * bool =
  match u with
  | RibModel.UBulk ps -> ("u:[" ^ join "," (Stdlib.List.map show_pay ps) ^ "]",
                          Stdlib.List.for_all (fun (p : RibModel.payload) -> int_of_n (snd p.RibModel.p_key) = session_id) ps)
  | RibModel.UWithdraw (i, None) -> ((if int_of_n i = session_id then "w:s" else "w:?" ^ string_of_int (int_of_n i)), false)
  | RibModel.UWithdraw (i, Some f) -> (Printf.sprintf "w:%d:%d" (int_of_n i) (int_of_n f), false)
  | RibModel.UWithdrawBulk _ -> ("W:[..]", false)
  | RibModel.UPass -> ("other", false)

type end_op = Close | Reset | Silent

let run_case (line : string) : string =
  let full = ref false and asn = ref None and dup = ref false in
  let bytes = ref [] and opens = ref [] and fin = ref Close and early = ref false in
  Stdlib.List.iter (fun op ->
      match words op with
      | [] -> ()
      | ["T"] -> full := true
      | ["A"; a; _; d] -> asn := (if a = "-" then None else Some (int_of_string a)); dup := (d = "1")
      | ["S"; _] | ["P"; _] | ["L"] -> ()
      | ["R0"] -> early := true
      | ["C"] -> fin := Close
      | ["R"] -> fin := Reset
      | ["Z"; _] -> fin := Silent
      | [tag; hex] when String.length tag = 1 ->
          let bs = C04_util.ns_of_hex hex in
          if tag = "o" || tag = "O" then opens := bs :: !opens;
          bytes := !bytes @ bs
      | _ -> failwith ("bad op: " ^ op)) (split_on ';' line);
  let delay_open = (!asn = None) in
  (* the OPEN of the generator announces AS 65001: an exact configuration for another AS refuses it *)
  let open_ok f = Stdlib.List.mem f !opens && (match !asn with None -> true | Some a -> a = 65001) in
  let upd_ok f = (BgpModel.decode BgpModel.Code f <> None) in
  let live0 = bs_live_of (if !dup then [n peer_key] else []) in
  let handle panics s f =
    match rc_ref delay_open open_ok upd_ok s f with
    | HPanic when not panics -> HErr (n 0)
    | r -> r in
  let run panics e = rx_run_drained true (handle panics) RcWait (n session_id) (n peer_key) live0 !bytes e in
  let final_end = match !fin with Reset -> ERst | _ -> EFin in
  (* which todo!() of routecore: by the state the FSM is in - the glue does not know, both are allowed *)
  let render panics : string list * string list =
    let r = run panics final_end in
    let (p, ended, st) = match r with
      | REnded st -> ("P:-", "end:1", st)
      | RDead st -> ("P:routecore-0.5.1/src/bgp/fsm/session.rs:<1504|1679>", "end:0", st)
      | RWaiting st -> ("P:-", "end:WAITING", st)
      | RWedged st -> ("P:-", "end:0", st)
      | RPanicOwn -> ("P:rotonda/src/units/bgp_tcp_in/router_handler.rs", "end:0", bs_init live0)
      | RImpossible -> failwith "RImpossible: the model ran out of events" in
    let names = Stdlib.List.sort compare (Stdlib.List.map (fun k ->
        let k = int_of_n k in if k = peer_key then "peer" else "?" ^ string_of_int k) (bs_live_list st)) in
    let live = "live:" ^ (if names = [] then "-" else join "," names) in
    let toks = Stdlib.List.map show_update st.bs_out in
    let nt = Stdlib.List.length toks in
    let all_own l = Stdlib.List.for_all snd l in
    let fin_tok =
      if nt = 0 then "fin:-"
      else begin
        let rev = Stdlib.List.rev toks in
        let last = Stdlib.List.hd rev and before = Stdlib.List.rev (Stdlib.List.tl rev) in
        if fst last = "w:s" && all_own before then "fin:w"
        else if all_own toks then "fin:BAD:no-withdraw"
        else "fin:BAD"
      end in
    let z = match !fin with
      | Silent -> (match run panics ESilent with RWaiting _ -> ["z:1"] | _ -> ["z:0"])
      | _ -> [] in
    ([p; ended; live; fin_tok] @ z, Stdlib.List.map fst toks) in
  if !early then
    (* the peer resets before the connection task has started: routecore's Session::new unwraps peer_addr() (session.rs
       1874) - before rotonda's loop exists; outside the model, recorded finding bgp-early-reset-panic *)
    "P:routecore-0.5.1/src/bgp/fsm/session.rs:1874 end:0 live:- fin:-" ^ (if !full then " |" else "")
    ^ " ||| P:- end:1 live:- fin:-" ^ (if !full then " |" else "") ^ " ||| KR KR . ." ^ (if !full then " ." else "")
  else if not !full then begin
    (* shape mode: independent of the FSM (C06_bgp_every_run_ends_in_cleanup) *)
    let z = match !fin with Silent -> ["z:*"] | _ -> [] in
    join " " (["P:-"; "end:1"; (if !dup then "live:peer" else "live:-"); "fin:<w|->"] @ z)
  end else begin
    let (mh, mt) = render true and (sh, st) = render false in
    let m = join " " (mh @ ["|"] @ mt) and s = join " " (sh @ ["|"] @ st) in
    if m = s then m
    else if Stdlib.List.length mt = Stdlib.List.length st then begin
      let cls = Stdlib.List.map2 (fun a b -> if a = b then "." else "KO") (mh @ ["|"] @ mt) (sh @ ["|"] @ st) in
      m ^ " ||| " ^ s ^ " ||| " ^ join " " cls
    end else
      (* the task died before the Withdraw: the spec has one token more; no per-token classes *)
      m ^ " ||| " ^ s ^ " ||| " ^ join " " (Stdlib.List.map (fun _ -> "KO") (mh @ ["|"] @ mt))
  end
