(* BMP generator back-end: a BMP message AST (text) -> "<wf 0|1> <tidy 0|1> <hex>" using the PROVED encoder
   (Bmp/BmpWire.v, C05_wire_roundtrip).
   msg   := I tlvs | T tlvs | S pph tlvs <trail hex|-> | D pph <reason> <data hex|-> | R pph <data hex|-> | M pph <data hex|->
          | U pph <local address hex16> <local port> <remote port> open open <info hex|->
   pph   := P <type> <flags> <distinguisher hex8> <address hex16> <as> <bgp id hex4> <seconds> <microseconds>
   tlvs  := <n> (<type>:<hex|->)*
   open  := O <bgp type> <version> <as> <hold> <bgp id hex4> <nparams> param*
   param := C <ncaps> (<code>:<hex|->)* | X <type> <hex|->                                *)
open Conv
open BmpWire
open C04_util

let parse_msg (line : string) : wmsg =
  let toks = ref (words line) in
  let next () = match !toks with t :: r -> toks := r; t | [] -> failwith "unexpected end of AST" in
  let num () = int_of_string (next ()) in
  let nn () = n_of_int (num ()) in
  let hx () = ns_of_hex (next ()) in
  let rec times n f = if n <= 0 then [] else let x = f () in x :: times (n - 1) f in
  let pair () = match String.split_on_char ':' (next ()) with
    | [a; b] -> (n_of_int (int_of_string a), ns_of_hex b) | _ -> failwith "code:hex" in
  let tlvs () = let n = num () in times n (fun () -> let (t, v) = pair () in { t_type = t; t_val = v }) in
  let pph () =
    if next () <> "P" then failwith "P expected";
    let ty = nn () in let fl = nn () in let d = hx () in let a = hx () in let asn = nn () in let id = hx () in
    let s = nn () in let u = nn () in
    { wp_type = ty; wp_flags = fl; wp_dist = d; wp_addr = a; wp_as = asn; wp_id = id; wp_sec = s; wp_usec = u } in
  let param () = match next () with
    | "C" -> let n = num () in OCaps (times n (fun () -> let (c, v) = pair () in { c_code = c; c_val = v }))
    | "X" -> let ty = nn () in ORaw (ty, hx ())
    | _ -> failwith "param" in
  let opn () =
    if next () <> "O" then failwith "O expected";
    let ty = nn () in let ver = nn () in let asn = nn () in let hold = nn () in let id = hx () in
    let n = num () in
    { o_type = ty; o_ver = ver; o_as = asn; o_hold = hold; o_id = id; o_params = times n param } in
  match next () with
  | "I" -> WInit (tlvs ())
  | "T" -> WTerm (tlvs ())
  | "S" -> let p = pph () in let st = tlvs () in WStats (p, st, hx ())
  | "D" -> let p = pph () in let r = nn () in WPeerDown (p, r, hx ())
  | "R" -> let p = pph () in WRoute (p, hx ())
  | "M" -> let p = pph () in WMirror (p, hx ())
  | "U" -> let p = pph () in let la = hx () in let lp = nn () in let rp = nn () in
           let s = opn () in let r = opn () in WPeerUp (p, la, lp, rp, s, r, hx ())
  | s -> failwith ("bad message kind " ^ s)

let run_case (line : string) : string =
  let m = parse_msg line in
  let b2s b = if b then "1" else "0" in
  (* the encoder is only asked for octets when every field is an octet / fits its width: wf says so *)
  b2s (wf m) ^ " " ^ b2s (tidy m) ^ " " ^ (if wf m then hex_of_ns (encode m) else "-")
