(* C12 engine: runs DispatchModel.step over a case line (grammar in
   harness/src/engines/c12.rs). Prints `model ||| spec` when the property's
   reading of Accept-Encoding differs from the code's (gzip;q=0 and friends).
   Community::from_str is not re-stated in the model: outside the vocabulary
   [comm_vocab] the model is evaluated under both verdicts and differing
   statuses are printed as an alternation. *)
open Conv
open DispatchModel

let unhex s =
  if s = "-" || s = "_" then []
  else Stdlib.List.init (Stdlib.String.length s / 2) (fun i -> n_of_int (int_of_string ("0x" ^ Stdlib.String.sub s (2 * i) 2)))

let bytes_of_string s = Stdlib.List.init (Stdlib.String.length s) (fun i -> n_of_int (Char.code s.[i]))

let info_names = Stdlib.List.map bytes_of_string ["1"; "rtr-a"; ""; "10.0.0.1"]

let parse_proc k =
  match Stdlib.String.split_on_char ':' k with
  | ["rib"; b] -> PRib (unhex b)
  | ["routers"; b] -> PRouters (unhex b)
  | ["mrt"; b] -> PMrt (unhex b)
  | ["info"; b] -> PInfo (unhex b, info_names)
  | ["stub"; b; c] -> PStub (unhex b, n_of_int (int_of_string c))
  | _ -> failwith ("bad kind " ^ k)

let parse_headers h =
  if h = "-" then []
  else Stdlib.List.map (fun nv ->
      match Stdlib.String.index_opt nv ':' with
      | Some i -> (bytes_of_string (Stdlib.String.sub nv 0 i), unhex (Stdlib.String.sub nv (i + 1) (Stdlib.String.length nv - i - 1)))
      | None -> failwith "header") (Stdlib.String.split_on_char ',' h)

let show = function
  | Resp (c, gz) ->
      let c = int_of_n c in
      string_of_int c ^ "," ^ (if gz then "gzip" else "-") ^ (if c >= 400 && c < 500 then ",r" else "")
  | Panic -> "PANIC"
  | Rejected -> "rejected"

(* one request against a configuration: the model's token and the property's token. Outside the community
   vocabulary the model is evaluated under both verdicts of Community::from_str; differing results are printed
   as an alternation of whole tokens *)
let eval_request_alts (c : config) (r : request) : string list * string list =
  let unknown = ref false in
  let leaf dflt v = match comm_vocab v with Some b -> b | None -> (unknown := true; dflt) in
  let out = match snd (step (leaf true) c (OReq r)) with Some o -> o | None -> failwith "no outcome" in
  let outs = if !unknown then [out; (match snd (step (leaf false) c (OReq r)) with Some y -> y | None -> out)] else [out] in
  let alts f = Stdlib.List.sort_uniq compare (Stdlib.List.map (fun o -> show (f o)) outs) in
  (alts (fun o -> o), alts (fun o -> spec_of r o))

let render_alts = function
  | [a] -> a
  | l -> "<" ^ join "|" l ^ ">"     (* "<200|400>,gzip..." is not a token form, so whole tokens are listed *)

let eval_request (c : config) (r : request) : string * string =
  let (m, s) = eval_request_alts c r in (render_alts m, render_alts s)

let run_case (line : string) : string =
  let ids = Hashtbl.create 8 in
  let next = ref 2 in
  let id_of s = match Hashtbl.find_opt ids s with Some i -> i | None -> (let i = !next in incr next; Hashtbl.replace ids s i; i) in
  let c = ref cfg_init in
  let mo = ref [] and sp = ref [] in
  let do_op toks =
    let o = match toks with
      | ["C"; b] -> OCompress (b = "1")
      | ["G"; n] -> OGraph (n_of_int (int_of_string n))
      | ["R"; id; k; sub] -> OReg (n_of_int (id_of id), parse_proc k, sub = "1")
      | ["D"; id] -> ODrop (n_of_int (id_of id))
      | "Q" :: m :: p :: q :: rest ->
          let h = match rest with [h] -> h | _ -> "-" in
          OReq { rq_method = n_of_int (int_of_string m); rq_path = unhex p;
                 rq_query = (if q = "-" then None else Some (unhex q)); rq_headers = parse_headers h }
      | _ -> failwith ("bad op: " ^ join " " toks) in
    (match o with
     | OReq r -> let (m, s) = eval_request !c r in mo := m :: !mo; sp := s :: !sp
     | _ -> ());
    c := fst (step (fun _ -> true) !c o) in
  Stdlib.List.iter (fun s -> do_op (words s)) (split_on ';' line);
  let m = join " " (Stdlib.List.rev !mo) and s = join " " (Stdlib.List.rev !sp) in
  if m = s then m else m ^ " ||| " ^ s
