(* helpers shared by eng_c04.ml and eng_c04enc.ml (trusted glue) *)
open Conv
open BgpModel

let hex_of_ints (l : int list) : string =
  String.concat "" (Stdlib.List.map (fun b -> if b < 0 || b > 255 then failwith "byte out of range" else Printf.sprintf "%02x" b) l)
let hex_of_ns (l : BinNums.coq_N list) : string = hex_of_ints (Stdlib.List.map int_of_n l)
let ints_of_hex (s : string) : int list =
  if s = "-" then [] else begin
    if String.length s mod 2 <> 0 then failwith "odd hex";
    Stdlib.List.init (String.length s / 2) (fun i -> int_of_string ("0x" ^ String.sub s (2 * i) 2))
  end
let ns_of_hex s = Stdlib.List.map n_of_int (ints_of_hex s)

let fnv (l : int list) : int =
  Stdlib.List.fold_left (fun h b -> ((h lxor b) * 16777619) land 0xFFFFFFFF) 0x811c9dc5 l

let fam_name = function F4U -> "4u" | F4M -> "4m" | F6U -> "6u" | F6M -> "6m"
let show_pfx (p : pfx) : string =
  let bs = Stdlib.List.map int_of_n p.p_bytes in
  (if bs = [] then "-" else hex_of_ints bs) ^ "/" ^ string_of_int (int_of_n p.p_len)
let show_attrs (l : attr list) : string =
  let raw = Stdlib.List.map int_of_n (enc_attrs l) in
  Printf.sprintf "n%dh%08x" (Stdlib.List.length raw) (fnv raw)
let show_ev = function
  | EvA (f, p, a) -> "A" ^ fam_name f ^ ":" ^ show_pfx p ^ ":" ^ show_attrs a
  | EvW (f, p) -> "W" ^ fam_name f ^ ":" ^ show_pfx p ^ ":" ^ show_attrs []
