(* C04 over the BMP ingress path: the expected observation is the one of engine c04,
   in the order of the emitted Update::Bulk: withdrawals first, then announcements
   (fix "apply an UPDATE's withdrawals before its announcements", RFC 4271 4.3).
   One segment per PDU, introduced by a "|" token; a segment is either
   `ok ev ev ..` or the single comma-joined token `ok,ev,ev,..`. *)
let is p t = String.length t > 0 && t.[0] = p
let reorder_list (l : string list) : string list =
  let head = Stdlib.List.filter (fun t -> not (is 'A' t) && not (is 'W' t)) l in
  head @ Stdlib.List.filter (is 'W') l @ Stdlib.List.filter (is 'A') l

let reorder_segment (seg : string list) : string list =
  match seg with
  | [t] when String.contains t ',' -> [Conv.join "," (reorder_list (String.split_on_char ',' t))]
  | _ -> reorder_list seg

let reorder (part : string) : string =
  let toks = Conv.words part in
  (* split at "|" tokens *)
  let rec go acc cur = function
    | [] -> Stdlib.List.rev (Stdlib.List.rev cur :: acc)
    | "|" :: r -> go (Stdlib.List.rev cur :: acc) [] r
    | t :: r -> go acc (t :: cur) r in
  match go [] [] toks with
  | [] -> part
  | first :: segs ->
      Conv.join " " (first @ Stdlib.List.concat_map (fun s -> "|" :: reorder_segment s) segs)

let bulk_order (line : string) : string =
  let parts = Str.split (Str.regexp_string "|||") line in
  Conv.join " ||| " (Stdlib.List.map (fun p -> reorder (String.trim p)) parts)

let run_case (line : string) : string = bulk_order (Eng_c04.run_case line)
