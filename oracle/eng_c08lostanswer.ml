(* The gate model with cf_guard = false: Link::connect as it was before the repair (an answer of
   the gate that sits in the oneshot when the connect() future is dropped is lost; the slot it
   names stays in the gate). Not part of the check; `oracle c08lostanswer` documents that this
   model reproduced the pre-repair behaviour of the code (design-notes/C08.md, strengthening
   round 2). *)
let run_case = Eng_c08.run_with false false
