(* c10 engine (predicate level): FilterLang.eval (the code) and eval_spec (as
   documented) on routes / BGP UPDATEs / BMP messages. Prints verdict + output
   entries per input:  model ||| spec ||| classes. *)
open Conv
open FilterLang
open C10lib

let bmp_kind = function
  | "rm" -> coq_K_RM | "stats" -> coq_K_STATS | "pd" -> coq_K_PEERDOWN | "pu" -> coq_K_PEERUP
  | "init" -> coq_K_INIT | "term" -> coq_K_TERM | "mirror" -> coq_K_MIRROR | s -> failwith ("bad bmp kind " ^ s)

let run_case (line : string) : string =
  match Stdlib.List.map words (split_on ';' line) with
  | [] -> ""
  | f :: ops ->
      let (kind, prog) = parse_filter f in
      let mo = ref [] and so = ref [] in
      let call (i : input) =
        match prog with
        | None -> mo := "nofilter" :: !mo; so := "nofilter" :: !so
        | Some p ->
            if not (returns p) then failwith "ill-formed filter body (a path without verdict)";
            mo := show_call (eval kind p i) :: !mo;
            so := show_call (eval_spec kind p i) :: !so in
      Stdlib.List.iter (fun op ->
        match op with
        | ["R"; pfx; a] ->
            call (FilterUnits.rib_view ((n 0, n (i_of pfx)), n 7) (Some (parse_attrs a)))
        | ["G"; asn; a; na; nw] ->
            let na = i_of na and nw = i_of nw in
            let pfxs k base = Stdlib.List.init k (fun j -> n (base + j)) in
            (* the UPDATE is described by its counts; the prefixes themselves do not matter to a bgp-in filter *)
            call (FilterUnits.bgp_view (FilterUnits.sess_prov (n 7) (n 0) (n (i_of asn)))
                    (BmpModel.URoutes (n 0, pfxs na 0, n 1, n 0, pfxs nw 100)) (parse_attrs a) false)
        | ["M"; k; asn; as2; a; na; nw] ->
            let na = i_of na and nw = i_of nw in
            let pfxs c base = Stdlib.List.init c (fun j -> n (base + j)) in
            let pph : BmpModel.pph = ((((((n 0, n 0), n 0), n 0), n 1), n (i_of asn)), n 1) in
            let b : FilterUnits.bmsg = match k with
              | "rm" -> FilterUnits.BMsg (BmpModel.MRoute (pph, Some (BmpModel.URoutes (n 0, pfxs na 0, n 1, n 0, pfxs nw 100))))
              | "stats" -> FilterUnits.BMsg (BmpModel.MStats pph)
              | "pd" -> FilterUnits.BMsg (BmpModel.MPeerDown pph)
              | "pu" -> FilterUnits.BMsg (BmpModel.MPeerUp (pph, false))
              | "init" -> FilterUnits.BMsg BmpModel.MInit
              | "term" -> FilterUnits.BMsg BmpModel.MTerm
              | "mirror" -> FilterUnits.BMirror pph
              | s -> failwith ("bad bmp kind " ^ s) in
            (* the input as the call site builds it: message kind, per-peer header, bmp_prov of the connection *)
            let i = FilterUnits.bmp_view (FilterUnits.conn_prov (n 7) (n 0)) b (parse_attrs a) (as2 = "1") in
            if i.in_kind <> bmp_kind k then failwith "kind";
            call i
        | _ -> failwith ("bad op: " ^ join " " op)) ops;
      finish !mo !so (fun a b -> if a = b then "." else "K2")
