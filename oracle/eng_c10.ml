(* c10 engine (predicate level): FilterLang.eval (the code) and eval_spec (as
   documented) on routes / BGP UPDATEs / BMP messages. Prints verdict + output
   entries per input:  model ||| spec ||| classes. *)
open Conv
open FilterLang
open C10lib

let bmp_kind = function
  | "rm" -> coq_K_RM | "stats" -> coq_K_STATS | "pd" -> coq_K_PEERDOWN | "pu" -> coq_K_PEERUP
  | "init" -> coq_K_INIT | "term" -> coq_K_TERM | s -> failwith ("bad bmp kind " ^ s)

let run_case (line : string) : string =
  match Stdlib.List.map words (split_on ';' line) with
  | [] -> ""
  | f :: ops ->
      let (kind, prog) = parse_filter f in
      let mo = ref [] and so = ref [] in
      let call (i : input) =
        match prog with
        | None -> mo := "nofilter" :: !mo; so := "nofilter" :: !so
        | Some p ->
            if not (returns p) then failwith "ill-formed filter body (a path without verdict)";
            mo := show_call (eval kind p i) :: !mo;
            so := show_call (eval_spec kind p i) :: !so in
      Stdlib.List.iter (fun op ->
        match op with
        | ["R"; pfx; a] ->
            call (FilterUnits.rib_view ((n 0, n (i_of pfx)), n 7) (Some (parse_attrs a)))
        | ["G"; asn; a; na; nw] ->
            let na = i_of na and nw = i_of nw in
            call { in_kind = coq_K_RM; in_pfx = n 0; in_attrs = (if na > 0 then Some (parse_attrs a) else None);
                   in_nann = n na; in_nwd = n nw; in_pph_asn = None; in_peer_asn = n (i_of asn); in_ingress = n 7;
                   in_legacy_as = false }
        | ["M"; k; asn; as2; a; na; nw] ->
            let na = i_of na and nw = i_of nw in
            let has_pph = not (k = "init" || k = "term") in
            let rm = (k = "rm") in
            call { in_kind = bmp_kind k; in_pfx = n 0;
                   in_attrs = (if rm && na > 0 then Some (parse_attrs a) else None);
                   in_nann = n (if rm then na else 0); in_nwd = n (if rm then nw else 0);
                   in_pph_asn = (if has_pph then Some (n (i_of asn)) else None);
                   in_peer_asn = n (if has_pph then i_of asn else 0); in_ingress = n 7;
                   in_legacy_as = (as2 = "1") }
        | _ -> failwith ("bad op: " ^ join " " op)) ops;
      finish !mo !so (fun a b -> if a = b then "." else "K2")
