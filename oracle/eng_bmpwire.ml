(* bmpwire: the pipe engine fed with BMP frames from the proved encoder (op WB); same model, own generator (lib/gens/bmpwiregen.py) *)
let run_case (line : string) : string = Eng_pipe.run_case line
