(* C20 engine: runs PathConfModel.pc_handle over a case line. Case grammar (ops
   separated by ';'), identical to harness/src/engines/c20.rs:
     R <abs>  |  D <p>  |  F <p>  |  L <p> <target>  |  U <dir>|-  |  Q <method> <rawpath> <rawquery|-> <mode>
   The model's file system is the chain of directories leading to R (so that
   ".." above R and absolute names behave as on the real disk) with the tree of
   the case below it. Tree ops with a missing/non-directory parent, an existing
   name or an empty/./.. component are ignored (same rule as the harness).
   Observation per Q: `<status|none> <entries|-> why`, each entry
   `<where the enqueued text resolves>:<c|n>` (c = the text is its own
   canonicalisation). *)
open Conv
open PathConfModel

type t = D of (string * t) list ref | F | L of string

let hexval c = match c with
  | '0'..'9' -> Some (Char.code c - 48) | 'a'..'f' -> Some (Char.code c - 87)
  | 'A'..'F' -> Some (Char.code c - 55) | _ -> None

(* %XX decoding of case-line text (glue) *)
let unpct (s : string) : string =
  let b = Buffer.create (String.length s) in
  let n = String.length s in
  let i = ref 0 in
  while !i < n do
    (if s.[!i] = '%' && !i + 2 < n then
       match hexval s.[!i + 1], hexval s.[!i + 2] with
       | Some h, Some l -> Buffer.add_char b (Char.chr (h * 16 + l)); i := !i + 3
       | _ -> Buffer.add_char b s.[!i]; incr i
     else (Buffer.add_char b s.[!i]; incr i))
  done;
  Buffer.contents b

let enc (s : string) : string =
  let b = Buffer.create (String.length s) in
  String.iter (fun c ->
    match c with
    | 'a'..'z' | 'A'..'Z' | '0'..'9' | '.' | '_' | '-' | '/' -> Buffer.add_char b c
    | _ -> Buffer.add_string b (Printf.sprintf "%%%02X" (Char.code c))) s;
  Buffer.contents b

let bytes_of_string (s : string) = Stdlib.List.init (String.length s) (fun i -> n_of_int (Char.code s.[i]))
let string_of_bytes l = String.concat "" (Stdlib.List.map (fun n -> String.make 1 (Char.chr ((int_of_n n) land 255))) l)

let subst_root (s : string) (root : string) : string =
  String.concat root (String.split_on_char '@' s)

let tree_comps (p : string) : string list option =
  let cs = Stdlib.List.map unpct (String.split_on_char '/' p) in
  if Stdlib.List.exists (fun c -> c = "" || c = "." || c = ".." || String.contains c '\000' || String.contains c '/') cs
  then None else Some cs

let add (root : t) (p : string) (node : t) : unit =
  match tree_comps p with
  | None -> ()
  | Some cs ->
    let rec go cur = function
      | [] -> ()
      | [c] -> (match cur with
                | D es -> if Stdlib.List.mem_assoc c !es then () else es := !es @ [(c, node)]
                | _ -> ())
      | c :: r -> (match cur with
                   | D es -> (match Stdlib.List.assoc_opt c !es with Some n -> go n r | None -> ())
                   | _ -> ()) in
    go root cs

let rec conv (n : t) : pc_node = match n with
  | F -> PFile
  | L s -> PLink (bytes_of_string s)
  | D es -> PDir (Stdlib.List.map (fun (k, n) -> (bytes_of_string k, conv n)) !es)

let safe_root r =
  String.length r > 0 && r.[0] = '/' && r.[String.length r - 1] <> '/' &&
  (let re = Str.regexp_string "/.cache/c20fs/" in try ignore (Str.search_forward re r 0); true with Not_found -> false) &&
  not (Stdlib.List.exists (fun c -> c = "." || c = "..") (String.split_on_char '/' r))

let run_case (line : string) : string =
  let ops = Stdlib.List.map words (split_on ';' line) in
  let ops = Stdlib.List.filter (fun o -> o <> []) ops in
  match Stdlib.List.find_opt (function ["R"; _] -> true | _ -> false) ops with
  | None -> "BADCASE"
  | Some o ->
    let root = Stdlib.List.nth o 1 in
    if not (safe_root root) then "BADCASE" else begin
      let rcomps = split_on '/' root in
      let tree = D (ref []) in
      let full_fs () =
        Stdlib.List.fold_right (fun c acc -> PDir [(bytes_of_string c, acc)]) rcomps (conv tree) in
      let cwd = Stdlib.List.map bytes_of_string rcomps in
      let api = bytes_of_string "/mrt/u/" in
      let update = ref None in
      let out = ref [] in
      let emit s = out := s :: !out in
      let show_path (p : BinNums.coq_N list list) =
        let ps = Stdlib.List.map string_of_bytes p in
        let rec strip a b = match a, b with
          | [], rest -> Some rest
          | x :: a', y :: b' when x = y -> strip a' b'
          | _ -> None in
        match strip rcomps ps with
        | Some [] -> "."
        | Some rest -> enc (String.concat "/" rest)
        | None -> "OUT:" ^ enc ("/" ^ String.concat "/" ps) in
      Stdlib.List.iter (fun op ->
        match op with
        | ["R"; _] -> ()
        | ["D"; p] -> add tree p (D (ref []))
        | ["F"; p] -> add tree p F
        | ["L"; p; t] ->
            let t = unpct (subst_root t root) in
            if t = "" || String.contains t '\000' then () else add tree p (L t)
        | ["U"; "-"] -> update := None
        | ["U"; d] -> update := Some (bytes_of_string (unpct (subst_root d root)))
        | ["Q"; m; rawpath; rawquery; mode] ->
            let q = if rawquery = "-" then None else Some (bytes_of_string (subst_root rawquery root)) in
            let md = match mode with "e" -> MErr | "d" -> MDrop | "s" -> MSilent | _ -> MOk in
            let rq = { rq_get = (m = "GET"); rq_path = bytes_of_string rawpath; rq_query = q; rq_mode = md } in
            let fs = full_fs () in
            (match pc_handle fs cwd api !update rq with
             | None -> emit "none - why"
             | Some (st, enq) ->
                 (* per entry: where its TEXT resolves and whether that text is canonical
                    (pc_observe; by C20_enqueued_text_is_canonical always the checked path and true) *)
                 let show_entry p =
                   let (where, canonical) = pc_observe fs cwd p in
                   (match where with
                    | Datatypes.Coq_inr q -> show_path q
                    | Datatypes.Coq_inl _ -> "UNRES:" ^ enc ("/" ^ String.concat "/" (Stdlib.List.map string_of_bytes p)))
                   ^ (if canonical then ":c" else ":n") in
                 let e = match enq with [] -> "-" | l -> join "," (Stdlib.List.map show_entry l) in
                 let w = int_of_n (pc_why fs cwd !update rq) in
                 emit (Printf.sprintf "%d %s why<|:%d>" (int_of_n st) e w))
        | _ -> emit "BADOP") ops;
      join " " (Stdlib.List.rev !out)
    end
