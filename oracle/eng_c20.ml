(* C20 engine: runs the history model of PathConfModel (pc_step: tree change /
   processor (re)build / request) over a case line. Case grammar (ops separated
   by ';'), identical to harness/src/engines/c20.rs:
     R <abs>  |  D <p>  |  F <p>  |  L <p> <target>  |  P <p> <target>  |  X <p>  |  M <p> <q>
     |  U <dir>|-  |  Q <method> <rawpath> <rawquery|-> <mode>
   Every op is ONE event of the model's history, applied in order to one state
   (tree, configured update_path): D/F/L = OCreate, P = ORepoint (re-point a
   symbolic link), X = ORemove, M = ORename, U = ENew (the processor is built
   with that update_path), Q = EReq. Tree ops may stand anywhere, also between
   requests. The model's file system is the chain of directories leading to R
   (so that ".." above R and absolute names behave as on the real disk) with the
   tree of the case below it; a tree op the file system would refuse leaves the
   tree as it is (pc_apply; the harness has the same rule), so any subsequence
   of a case is a case.
   Observation per Q: `<status|none> <entries|-> why`, each entry
   `<where the enqueued text resolves>:<c|n>` (c = the text is its own
   canonicalisation), in the tree as it is at that request. *)
open Conv
open PathConfModel

let hexval c = match c with
  | '0'..'9' -> Some (Char.code c - 48) | 'a'..'f' -> Some (Char.code c - 87)
  | 'A'..'F' -> Some (Char.code c - 55) | _ -> None

(* %XX decoding of case-line text (glue) *)
let unpct (s : string) : string =
  let b = Buffer.create (String.length s) in
  let n = String.length s in
  let i = ref 0 in
  while !i < n do
    (if s.[!i] = '%' && !i + 2 < n then
       match hexval s.[!i + 1], hexval s.[!i + 2] with
       | Some h, Some l -> Buffer.add_char b (Char.chr (h * 16 + l)); i := !i + 3
       | _ -> Buffer.add_char b s.[!i]; incr i
     else (Buffer.add_char b s.[!i]; incr i))
  done;
  Buffer.contents b

let enc (s : string) : string =
  let b = Buffer.create (String.length s) in
  String.iter (fun c ->
    match c with
    | 'a'..'z' | 'A'..'Z' | '0'..'9' | '.' | '_' | '-' | '/' -> Buffer.add_char b c
    | _ -> Buffer.add_string b (Printf.sprintf "%%%02X" (Char.code c))) s;
  Buffer.contents b

let bytes_of_string (s : string) = Stdlib.List.init (String.length s) (fun i -> n_of_int (Char.code s.[i]))
let string_of_bytes l = String.concat "" (Stdlib.List.map (fun n -> String.make 1 (Char.chr ((int_of_n n) land 255))) l)

let subst_root (s : string) (root : string) : string =
  String.concat root (String.split_on_char '@' s)

(* the physical path of a tree op: components between '/', %XX-decoded; whether
   they are acceptable names is the model's business (pc_path_valid) *)
let tree_path (rcomps : string list) (p : string) =
  Stdlib.List.map bytes_of_string (rcomps @ Stdlib.List.map unpct (String.split_on_char '/' p))

let safe_root r =
  String.length r > 0 && r.[0] = '/' && r.[String.length r - 1] <> '/' &&
  (let re = Str.regexp_string "/.cache/c20fs/" in try ignore (Str.search_forward re r 0); true with Not_found -> false) &&
  not (Stdlib.List.exists (fun c -> c = "." || c = "..") (String.split_on_char '/' r))

let run_case (line : string) : string =
  let ops = Stdlib.List.map words (split_on ';' line) in
  let ops = Stdlib.List.filter (fun o -> o <> []) ops in
  match Stdlib.List.find_opt (function ["R"; _] -> true | _ -> false) ops with
  | None -> "BADCASE"
  | Some o ->
    let root = Stdlib.List.nth o 1 in
    if not (safe_root root) then "BADCASE" else begin
      let rcomps = split_on '/' root in
      (* the chain of directories leading to R, R empty *)
      let fs0 = Stdlib.List.fold_right (fun c acc -> PDir [(bytes_of_string c, acc)]) rcomps (PDir []) in
      let cwd = Stdlib.List.map bytes_of_string rcomps in
      let api = bytes_of_string "/mrt/u/" in
      let state = ref (fs0, None) in
      let out = ref [] in
      let emit s = out := s :: !out in
      let event e = let (s', _) = pc_step cwd api !state e in state := s' in
      let tp = tree_path rcomps in
      let target t = bytes_of_string (unpct (subst_root t root)) in
      let show_path (p : BinNums.coq_N list list) =
        let ps = Stdlib.List.map string_of_bytes p in
        let rec strip a b = match a, b with
          | [], rest -> Some rest
          | x :: a', y :: b' when x = y -> strip a' b'
          | _ -> None in
        match strip rcomps ps with
        | Some [] -> "."
        | Some rest -> enc (String.concat "/" rest)
        | None -> "OUT:" ^ enc ("/" ^ String.concat "/" ps) in
      Stdlib.List.iter (fun op ->
        match op with
        | ["R"; _] -> ()
        | ["D"; p] -> event (EFs (OCreate (tp p, KDir)))
        | ["F"; p] -> event (EFs (OCreate (tp p, KFile)))
        | ["L"; p; t] -> event (EFs (OCreate (tp p, KLink (target t))))
        | ["P"; p; t] -> event (EFs (ORepoint (tp p, target t)))
        | ["X"; p] -> event (EFs (ORemove (tp p)))
        | ["M"; p; q] -> event (EFs (ORename (tp p, tp q)))
        | ["U"; "-"] -> event (ENew None)
        | ["U"; d] -> event (ENew (Some (target d)))
        | ["Q"; m; rawpath; rawquery; mode] ->
            let q = if rawquery = "-" then None else Some (bytes_of_string (subst_root rawquery root)) in
            let md = match mode with "e" -> MErr | "d" -> MDrop | "s" -> MSilent | _ -> MOk in
            let rq = { rq_get = (m = "GET"); rq_path = bytes_of_string rawpath; rq_query = q; rq_mode = md } in
            let (fs, update) = !state in
            (* the answer is the model's step on the state the history has led to *)
            (match snd (pc_step cwd api !state (EReq rq)) with
             | None -> emit "BADSTEP"
             | Some None -> emit "none - why"
             | Some (Some (st, enq)) ->
                 (* per entry: where its TEXT resolves and whether that text is canonical
                    (pc_observe; by C20_enqueued_text_is_canonical always the checked path and true) *)
                 let show_entry p =
                   let (where, canonical) = pc_observe fs cwd p in
                   (match where with
                    | Datatypes.Coq_inr q -> show_path q
                    | Datatypes.Coq_inl _ -> "UNRES:" ^ enc ("/" ^ String.concat "/" (Stdlib.List.map string_of_bytes p)))
                   ^ (if canonical then ":c" else ":n") in
                 let e = match enq with [] -> "-" | l -> join "," (Stdlib.List.map show_entry l) in
                 let w = int_of_n (pc_why fs cwd update rq) in
                 emit (Printf.sprintf "%d %s why<|:%d>" (int_of_n st) e w))
        | _ -> emit "BADOP") ops;
      join " " (Stdlib.List.rev !out)
    end
