(* C10: shared parsing / printing for the engines c10, c10rib, c10bmp.
   Case grammar: see harness/src/engines/c10.rs. Trusted glue. *)
open Conv
open FilterLang

let n = n_of_int
let i_of = int_of_string

(* ---- program text (prefix notation) ---- *)
let parse_prog (toks : string list) : prog * string list =
  let rest = ref toks in
  let next () = match !rest with t :: r -> rest := r; t | [] -> failwith "program text ends early" in
  let arg () =
    let t = next () in
    let v = String.sub t 1 (String.length t - 1) in
    if t.[0] = '#' then ALit (n (i_of v)) else if t.[0] = '$' then AVar (nat_of_int (i_of v)) else failwith ("bad arg " ^ t) in
  let cmp () = match next () with
    | "eq" -> CEq | "ne" -> CNe | "lt" -> CLt | "le" -> CLe | "gt" -> CGt | "ge" -> CGe | s -> failwith ("bad cmp " ^ s) in
  let rec cond () = match next () with
    | "t" -> CTrue | "f" -> CFalse
    | "not" -> CNot (cond ())
    | "and" -> let a = cond () in let b = cond () in CAnd (a, b)
    | "or" -> let a = cond () in let b = cond () in COr (a, b)
    | "asc" -> CPred (PAspathContains (arg ()))
    | "aso" -> CPred (PAspathOrigin (arg ()))
    | "com" -> CPred (PCommunity (arg ()))
    | "att" -> CPred (PHasAttr (arg ()))
    | "pfx" -> CPred (PPrefixIs (arg ()))
    | "ibgp" -> CPred (PIsIbgp (arg ()))
    | "rm" -> CPred PIsRouteMon
    | "pd" -> CPred PIsPeerDown
    | "pasn" -> CPred (PPeerAsn (arg ()))
    | "nann" -> let c = cmp () in let k = n (i_of (next ())) in CPred (PAnnCount (c, k))
    | "nwd" -> let c = cmp () in let k = n (i_of (next ())) in CPred (PWdCount (c, k))
    | s -> failwith ("bad cond " ^ s) in
  let ocall () = match next () with
    | "prefix" -> OPrefix (arg ())
    | "asn" -> OAsn (arg ())
    | "origin" -> OOrigin (arg ())
    | "comm" -> OCommunity (arg ())
    | "peerdown" -> OPeerDown
    | "custom" -> let a = arg () in let b = arg () in OCustom (a, b)
    | s -> failwith ("bad output call " ^ s) in
  let ty = function "u8" -> 0 | "asn" -> 1 | "com" -> 2 | "u32" -> 3 | "pfx" -> 4 | s -> failwith ("bad type " ^ s) in
  let rec prog () = match next () with
    | "end" -> PEnd
    | "out" -> let o = ocall () in POut (o, prog ())
    | "let" -> let t = ty (next ()) in let v = n (i_of (next ())) in PLet (n t, v, prog ())
    | "if" -> let c = cond () in let a = prog () in let b = prog () in let k = prog () in PIf (c, a, b, k)
    | "ret" -> PRet (next () = "A")
    | s -> failwith ("bad prog " ^ s) in
  let p = prog () in
  (p, !rest)

(* "F <kind> <prog>" / "F <kind> none" *)
let parse_filter (toks : string list) : fkind * prog option =
  match toks with
  | "F" :: k :: rest ->
      let kind = (match k with "rib" -> FRib | "bgp" -> FBgp | "bmp" -> FBmp | s -> failwith ("bad kind " ^ s)) in
      (match rest with
       | ["none"] -> (kind, None)
       | _ -> let (p, r) = parse_prog rest in
              if r <> [] then failwith "trailing program text";
              (kind, Some p))
  | _ -> failwith "first op must be F <kind> <prog>"

(* ---- attributes: path/comms/lcomms/extra ---- *)
let parse_attrs (t : string) : fattrs =
  match String.split_on_char '/' t with
  | [p; c; l; x] ->
      let nums s = if s = "-" then [] else Stdlib.List.map (fun v -> n (i_of v)) (split_on '.' s) in
      let path = if p = "-" then None else
        Some (Stdlib.List.map (fun seg ->
                let set = seg.[0] = 't' in
                (set, Stdlib.List.map (fun v -> n (i_of v)) (split_on '.' (String.sub seg 1 (String.length seg - 1)))))
              (split_on '+' p)) in
      let lc = if l = "-" then [] else
        Stdlib.List.map (fun v -> match Stdlib.List.map i_of (String.split_on_char ':' v) with
                                   | [a; b; c] -> ((n a, n b), n c) | _ -> failwith "bad large community")
          (split_on '.' l) in
      { fa_path = path; fa_comms = nums c; fa_lcomms = lc; fa_extra = nums x }
  | _ -> failwith "attrs: path/comms/lcomms/extra"

let plist tok = if tok = "-" then [] else Stdlib.List.map (fun t -> n (i_of t)) (split_on ',' tok)

(* ---- printing ---- *)
let pn x = string_of_int (int_of_n x)
let show_out (o : out) : string = match o with
  | EPrefix p -> "prefix:" ^ pn p
  | EAsn a -> "asn:" ^ pn a
  | EOrigin a -> "origin:" ^ pn a
  | ECommunity c -> "comm:" ^ pn c
  | EPeerDown -> "peerdown"
  | ECustom (a, b) -> "custom:" ^ pn a ^ ":" ^ pn b

let show_call ((acc, os) : bool * out list) : string =
  (if acc then "A" else "R") ^ "[" ^ join "," (Stdlib.List.map show_out os) ^ "]"

let topic_name t = match int_of_n t with
  | 0 -> "prefix" | 1 -> "community" | 2 -> "asn" | 3 -> "origin" | _ -> "?"
let show_osm_with (idn : BinNums.coq_N -> string) (m : FilterGlue.osm) : string = match m with
  | FilterGlue.OsmTopic (t, r, ing) -> topic_name t ^ "@" ^ (match r with Some p -> pn p | None -> "-") ^ "#" ^ idn ing
  | FilterGlue.OsmPeerDown (a, ing) -> "peerdown:" ^ pn a ^ "#" ^ idn ing
  | FilterGlue.OsmCustom (a, b, ing) -> "custom:" ^ pn a ^ ":" ^ pn b ^ "#" ^ idn ing
let show_osms_with idn l = "out:[" ^ join "," (Stdlib.List.map (show_osm_with idn) l) ^ "]"
let show_osms l = show_osms_with pn l

(* model ||| spec ||| classes, one class token per observation token *)
let finish (mo : string list) (so : string list) (cls : string -> string -> string) : string =
  let m = Stdlib.List.rev mo and s = Stdlib.List.rev so in
  if m = s then join " " m
  else join " " m ^ " ||| " ^ join " " s ^ " ||| " ^ join " " (Stdlib.List.map2 cls m s)
