(* C04 generator back-end: UPDATE AST (text) -> "<wf 0|1> <eor 0|1> <hex>" using the PROVED encoder.
   U <nwd> pfx* <nattrs> attr* <nnlri> pfx*
   pfx  := <len>/<hex|->
   attr := G <fl> <ty> <hex|-> | R <fl> <nhhex|-> <rsv> mp | N <fl> mp
   mp   := P <fam 0..3> <n> pfx* | O <afi> <safi> <hex|->                    *)
open Conv
open BgpModel
open C04_util

let run_case (line : string) : string =
  let toks = ref (words line) in
  let next () = match !toks with t :: r -> toks := r; t | [] -> failwith "unexpected end of AST" in
  let num () = int_of_string (next ()) in
  let nn () = n_of_int (num ()) in
  let rec times n f = if n <= 0 then [] else let x = f () in x :: times (n - 1) f in
  let pfx () =
    match String.split_on_char '/' (next ()) with
    | [l; h] -> { p_len = n_of_int (int_of_string l); p_bytes = ns_of_hex h }
    | _ -> failwith "pfx" in
  let fam () = match num () with 0 -> F4U | 1 -> F4M | 2 -> F6U | 3 -> F6M | _ -> failwith "fam" in
  let mp () =
    match next () with
    | "P" -> let f = fam () in let n = num () in MpPfx (f, times n pfx)
    | "O" -> let a = nn () in let s = nn () in MpOther (a, s, ns_of_hex (next ()))
    | _ -> failwith "mp" in
  let attr () =
    match next () with
    | "G" -> let fl = nn () in let ty = nn () in AGen (fl, ty, ns_of_hex (next ()))
    | "R" -> let fl = nn () in let nh = ns_of_hex (next ()) in let rsv = nn () in AReach (fl, nh, rsv, mp ())
    | "N" -> let fl = nn () in AUnreach (fl, mp ())
    | _ -> failwith "attr" in
  if next () <> "U" then failwith "U expected";
  let nwd = num () in let wd = times nwd pfx in
  let na = num () in let attrs = times na attr in
  let nn_ = num () in let nlri = times nn_ pfx in
  let u = { u_wd = wd; u_attrs = attrs; u_nlri = nlri } in
  let b2s b = if b then "1" else "0" in
  b2s (wf u) ^ " " ^ b2s (is_eor u) ^ " " ^ hex_of_ns (encode u)
