(* C15, gate part: GateMetrics num_updates / num_dropped_updates against the Gate model
   (theorems C15_gate_* in Props_C15.v, proved in Gate/GateProofs.v). Same case grammar and
   observation as engine c08 (oracle/eng_c08.ml); the `M` op reads the counters. *)
let run_case = Eng_c08.run_case
