(* oracle <engine> : reads one case per line on stdin, prints the model's
   canonical observation per case on stdout. *)
let engines : (string * (string -> string)) list = [
  "c14", Eng_c14.run_case;
]
let () =
  let name = Sys.argv.(1) in
  let f = try Stdlib.List.assoc name engines with Not_found -> (prerr_endline ("unknown engine " ^ name); exit 2) in
  try
    while true do
      let line = input_line stdin in
      let res = try f line with e -> "MODEL-ERROR " ^ Printexc.to_string e in
      print_endline res
    done
  with End_of_file -> ()
