(* C17, mqtt-out: same case grammar as eng_c17file.ml, plus the configuration op `early`.
   Normal cases: the client is there first, then the case's updates and registrations with a
   publish-loop step after every update (theorem C17_mqtt_once_in_order_partial makes the result
   independent of where those steps are). `early`: the traffic arrives and the publish loop
   runs before the client has been handed over (start-up / reconnect window). *)
open Conv
open TargetsModel
open Eng_c17file

let run_case (line : string) : string =
  Hashtbl.reset route_tab;
  let name = ref "mqtt" and tpl = ref (str_of_string "rotonda/{id}") and qos = ref 2 in
  let h = ref [] in
  let nreg = ref 0 in
  let early = ref false in
  let nmsgs = ref 0 in
  let infos : (int, string) Hashtbl.t = Hashtbl.create 8 in
  Stdlib.List.iter (fun s ->
    match words s with
    | ["name"; k] -> name := names.(int_of_string k mod Array.length names)
    | ["tpl"; t] -> tpl := str_of_text t
    | ["qos"; q] -> qos := int_of_string q
    | ("fmt" | "end") :: _ -> ()
    | ["early"] -> early := true
    | "ing" :: f ->
        if Stdlib.List.length f <> 8 then failwith "ing: 8 fields expected";
        incr nreg;
        Hashtbl.replace infos !nreg ("I" ^ join "," f);
        h := MRegister (n_of_int !nreg, n_of_int !nreg) :: !h
    | toks -> (match update_of !nreg toks with
               | Some u ->
                   (match u with UOutput ms -> nmsgs := !nmsgs + Stdlib.List.length ms | _ -> ());
                   h := (if !early then [MUpdate u] else [MPublish; MUpdate u]) @ !h
               | None -> failwith ("bad op: " ^ s)))
    (split_on ';' line);
  let h = Stdlib.List.rev !h in
  let h = if !early then h @ Stdlib.List.init !nmsgs (fun _ -> MPublish) @ [MClient true]
          else MClient true :: h in
  let c = { mc_name = str_of_string !name; mc_template = !tpl; mc_qos = n_of_int !qos } in
  let show p =
    Printf.sprintf "P t=%s q%d i=%s %s" (text_of_str p.p_topic) (int_of_n p.p_qos)
      (match p.p_ing with None -> "-" | Some i -> (try Hashtbl.find infos (int_of_n i) with Not_found -> "I?"))
      (record_tok p.p_rec) in
  let model = Stdlib.List.map show (mqtt_observe c h) @ ["end:ok"] in
  let spec = Stdlib.List.map show (mqtt_spec c [] h) @ ["end:ok"] in
  let m = join " " model and s = join " " spec in
  if m = s then m else m ^ " ||| " ^ s
