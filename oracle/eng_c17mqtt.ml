(* C17, mqtt-out: same case grammar as eng_c17file.ml, plus the configuration op `early` and the
   register / reconfiguration ops (see the grammar there).
   Normal cases: the client is there first, then the case's updates, register changes and
   reconfigurations in case order, with a publish-loop step after every update (theorem
   C17_mqtt_once_in_order_partial makes what is sent independent of where those steps are); a
   reconfiguration happens with an empty queue (the harness waits for that), so every message is
   published with the QoS in force when it was emitted. `early`: the traffic arrives and the publish
   loop runs before the client has been handed over (start-up / reconnect window).
   The property says nothing about the QoS beyond the model (theorem C17_mqtt_qos_configured): the
   spec side prints the model's QoS. *)
open Conv
open TargetsModel
open Eng_c17file

let info_of f =
  match Stdlib.List.map optn f with
  | [a; b; c; d; e; f; g; h] ->
      { i_unit = a; i_parent = b; i_addr = c; i_asn = d; i_rib = e; i_file = f; i_name = g; i_desc = h }
  | _ -> failwith "ingress info: 8 fields expected"

let info_tok i =
  "I" ^ join "," [po i.i_unit; po i.i_parent; po i.i_addr; po i.i_asn; po i.i_rib; po i.i_file; po i.i_name; po i.i_desc]

let run_case (line : string) : string =
  Hashtbl.reset route_tab;
  let name = ref "mqtt" and tpl = ref (str_of_string "rotonda/{id}") and qos = ref 2 in
  let h = ref [] in
  let nreg = ref 0 in
  let early = ref false in
  let nmsgs = ref 0 in
  let all = Stdlib.List.map words (split_on ';' line) in
  Stdlib.List.iter (function ["early"] -> early := true | _ -> ()) all;
  let pubs () = if !early then [] else Stdlib.List.init !nmsgs (fun _ -> MPublish) in
  Stdlib.List.iter (fun toks ->
    match toks with
    | ["name"; k] -> name := names.(int_of_string k mod Array.length names)
    | ["tpl"; t] -> tpl := str_of_text t
    | ["qos"; q] -> qos := int_of_string q
    | ("fmt" | "end") :: _ -> ()
    | ["early"] -> ()
    | "ing" :: f ->
        incr nreg;
        h := MInfo (n_of_int !nreg, info_of f) :: !h
    | ["reg"] -> incr nreg
    | "G" :: k :: f ->
        (match resolve !nreg k with
         | Some id -> h := MInfo (id, info_of f) :: !h
         | None -> failwith "G: ingress expected")
    | ["R"; t; q] -> h := MReconf (str_of_text t, n_of_int (int_of_string q)) :: (pubs () @ !h)
    | toks -> (match update_of !nreg toks with
               | Some u ->
                   (match u with UOutput ms -> nmsgs := !nmsgs + Stdlib.List.length ms | _ -> ());
                   h := (if !early then [MUpdate u] else [MPublish; MUpdate u]) @ !h
               | None -> failwith ("bad op: " ^ join " " toks)))
    all;
  let h = Stdlib.List.rev !h in
  let h = if !early then h @ Stdlib.List.init !nmsgs (fun _ -> MPublish) @ [MClient true]
          else MClient true :: h in
  let c = { mc_name = str_of_string !name; mc_template = !tpl; mc_qos = n_of_int !qos } in
  let show q m =
    Printf.sprintf "P t=%s q%s i=%s %s" (text_of_str m.s_topic) q
      (match m.s_ing with None -> "-" | Some i -> info_tok i)
      (record_tok m.s_rec) in
  let published = mqtt_observe c h in
  let model = Stdlib.List.map (fun p -> show (pn p.p_qos) p.p_msg) published @ ["end:ok"] in
  let demanded = mqtt_spec c [] h in
  (* the k-th demanded message with the QoS of the k-th publication where there is one *)
  let rec zip ps ds = match ps, ds with
    | p :: ps', d :: ds' -> show (pn p.p_qos) d :: zip ps' ds'
    | [], d :: ds' -> show "*" d :: zip [] ds'
    | _, [] -> [] in
  let spec = zip published demanded @ ["end:ok"] in
  let m = join " " model and s = join " " spec in
  if m = s then m else m ^ " ||| " ^ s
