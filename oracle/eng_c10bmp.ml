(* c10bmp engine: FilterUnits.bmp_unit (the bmp-in call site in front of the BMP
   session state machine model). Model = the code (AS-path predicates blind on
   2-octet peers, PeerDown entries only on Peer Down Notifications); spec = the
   property's reading. Prints  model ||| spec ||| classes. *)
open Conv
open FilterLang
open FilterUnits
open BmpModel
open C10lib

(* (address byte, AS, 4-octet capable) - same pool as harness/src/engines/c10bmp.rs *)
let peers = [| (1, 65001, true); (2, 65002, false); (3, 174, true) |]
let pph_of i : pph =
  let (a, s, _) = peers.(i) in
  ((((((n 0, n 0), n 0), n 0), n a), n s), n a)

let run_case (line : string) : string =
  match Stdlib.List.map words (split_on ';' line) with
  | [] -> ""
  | f :: ops ->
      let (_, prog) = parse_filter f in
      (match prog with Some p when not (returns p) -> failwith "ill-formed filter body" | _ -> ());
      let (rid, r0) = IngressModel.reg_register IngressModel.reg_new in
      let st = ref ((r0, sm_init), cnt0) in
      (* the connection's own provenance (read_from_router): the router's ingress id and address, AS0 *)
      let cn = conn_prov rid (n 0) in
      let show_cnt (c : bcnt) =
        "n:" ^ join "." (Stdlib.List.init 7 (fun j -> pn (c.bc_recv (n j)))) ^ ",p" ^ pn c.bc_proc ^ ",i" ^ pn c.bc_inval in
      let mo = ref [] and so = ref [] and k1 = ref [] in
      let idn reg id =
        if id = rid then "r" else
        match IngressModel.reg_get reg id with
        | Some { IngressModel.i_asn = Some a; _ } ->
            let r = ref ("?" ^ pn id) in
            Array.iteri (fun i (_, s, _) -> if s = int_of_n a then r := "p" ^ string_of_int i) peers; !r
        | _ -> "?" ^ pn id in
      let show_upd reg (u : RibModel.update) : string = match u with
        | RibModel.UBulk ps ->
            join "," (Stdlib.List.map (fun p ->
              let ((_, pfx), id) = p.RibModel.p_key in
              if p.RibModel.p_active then Printf.sprintf "+%s#%s/%s" (pn pfx) (idn reg id) (pn p.RibModel.p_attrs)
              else Printf.sprintf "-%s#%s" (pn pfx) (idn reg id)) ps)
        | RibModel.UWithdraw (id, _) -> "w#" ^ idn reg id
        | RibModel.UWithdrawBulk l -> "W#" ^ join "+" (Stdlib.List.sort compare (Stdlib.List.map (idn reg) l))
        | RibModel.UPass -> "other" in
      let nonempty l = Stdlib.List.filter (fun s -> s <> "") l in
      Stdlib.List.iter (fun op ->
        let (m, a, legacy) : bmsg * fattrs * bool = match op with
          | ["I"] -> (BMsg MInit, parse_attrs "-/-/-/-", false)
          | ["T"] -> (BMsg MTerm, parse_attrs "-/-/-/-", false)
          | ["S"; i] -> (BMsg (MStats (pph_of (i_of i))), parse_attrs "-/-/-/-", false)
          | ["X"; i] -> (BMirror (pph_of (i_of i)), parse_attrs "-/-/-/-", false)
          | ["U"; i] -> (BMsg (MPeerUp (pph_of (i_of i), false)), parse_attrs "-/-/-/-", false)
          | ["D"; i] -> (BMsg (MPeerDown (pph_of (i_of i))), parse_attrs "-/-/-/-", false)
          | ["R"; i; tag; a; ann; wd] ->
              let (_, _, as4) = peers.(i_of i) in
              (BMsg (MRoute (pph_of (i_of i), Some (URoutes (n 0, plist ann, n (i_of tag), n 0, plist wd)))), parse_attrs a, not as4)
          | _ -> failwith ("bad op: " ^ join " " op) in
        let inp = bmp_view cn m a legacy in
        let (st1, ds) = bmp_unit_cnt true FilterGlue.render_bmp prog rid !st (m, inp) in
        let (st1s, ds') = bmp_unit_cnt false FilterGlue.render_msg_spec prog rid !st (m, inp) in
        (* predicates as the code has them, every entry sent: differs from the model only by finding K1 *)
        let (st1k, dsk) = bmp_unit_cnt true FilterGlue.render_msg_spec prog rid !st (m, inp) in
        let tok ((st', c'), d) =
          let reg = fst st' in
          [ show_osms_with (idn reg) (FilterGlue.outs_of d);
            "upd:[" ^ join "," (nonempty (Stdlib.List.map (show_upd reg) (FilterGlue.upds_of d))) ^ "]";
            "ph:" ^ pn (phase_idx (snd st').sm_phase);
            show_cnt c' ] in
        st := st1;
        mo := Stdlib.List.rev (tok (st1, ds)) @ !mo;
        so := Stdlib.List.rev (tok (st1s, ds')) @ !so;
        k1 := Stdlib.List.rev (tok (st1k, dsk)) @ !k1) ops;
      let m = Stdlib.List.rev !mo and s = Stdlib.List.rev !so and k = Stdlib.List.rev !k1 in
      if m = s then join " " m
      else
        let rec cls a b c = match a, b, c with
          | x :: a', y :: b', z :: c' -> (if x = y then "." else if z = y then "K1" else if z = x then "K2" else "K1K2") :: cls a' b' c'
          | _ -> [] in
        join " " m ^ " ||| " ^ join " " s ^ " ||| " ^ join " " (cls m s k)
