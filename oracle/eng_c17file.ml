(* C17 engines (file-out here, mqtt-out in eng_c17mqtt.ml): parse a case line, run the
   extracted TargetsModel, print the canonical observation `model ||| spec`.

   Case grammar (ops separated by ';', tokens by blanks):
     configuration ops (anywhere; the last one wins)
       fmt json|jsonmin|csv          file-out format                     (default json)
       end T|G                       target ends by Terminate / because the gate goes away
       name <k>                      mqtt component name NAMES[k]        (default 0 = "mqtt")
       tpl <text>                    mqtt topic template                 (default "rotonda/{id}")
       qos <0|1|2>                                                       (default 2)
     history ops
       ing <f1> .. <f8>              Register::register() + update_info(id, info): a new ingress with this info
                                     (fields as in C14: unit parent addr asn rib file name desc, '-' = unset)
       reg                           Register::register() only: an ingress id that has no entry (yet)
       G <ing> <f1> .. <f8>          Register::update_info(id, info) on an existing id: the fields set are merged
                                     into its entry ('-' = leave the field as it is); first entry if it has none
       R <text> <0|1|2>              mqtt only: Reconfigure with this topic template and QoS (same client), sent
                                     once everything emitted so far has been published
       O <msg>*                      Update::OutputStream
       S <route> | B <route>* | W <ing> [af] | WB <ing>* | Q | U <ing>    the other Update kinds
     <msg>   p|c|a|o:<route>:<ing>              prefix/community/asn/origin message (name "mqtt", fixed topic)
             d:<k>:<text>:<ip>:<asn>:<ing>      peer-down with name NAMES[k] and topic <text>
             u:<id>:<value>:<ing>               custom pair
             e:<10 fields>:<text|->:<ing>       log entry, fields comma separated, '-' = None
     <route> - | R<fam>,<idx>,<len>,<attrs>     fam 0/2 = IPv4 uni/multicast, 1/3 = IPv6
             attrs: 0 | '+'-separated o<k> p<asn>-.. n<k> m<k> l<k> t c<u32>-.. e<hi>_<lo>-.. x<flags>-<type>-<bytes>
             (in this order; e and x are what the csv serializer rejects)
     <text>  code points separated by '.', 'e' = empty string
     <ing>   '-' | k  (the id the k-th `ing`/`reg` op so far handed out; an id nobody handed out if there are fewer.
             Resolved where the op stands: a message before the k-th registration does not refer to it.)
   Observation, file-out: one token per physical line of the file
     R- | R<4|6>,<idx>,<len>,<attrs> | D<ip>,<asn> | U<id>,<value> | E<10 fields>:<text|-> | T<text>
   then end:ok. mqtt-out: per publication `P t=<text> q<qos> i=<info|-> <record token>`, then end:ok. *)
open Conv
open TargetsModel

let names = [| "mqtt"; "mqtt-b"; "x"; "Mqtt"; "" |]
let str_of_string s = Stdlib.List.map (fun c -> n_of_int (Char.code c)) (Stdlib.List.of_seq (String.to_seq s))
let str_of_text t =
  if t = "e" then [] else Stdlib.List.map (fun x -> n_of_int (int_of_string x)) (String.split_on_char '.' t)
let text_of_str s =
  if s = [] then "e" else join "." (Stdlib.List.map (fun n -> string_of_int (int_of_n n)) s)
let split c s = String.split_on_char c s

(* routes are opaque to the model: id -> canonical token *)
let route_tab : (int, string) Hashtbl.t = Hashtbl.create 16
let contains_attr kind attrs =
  attrs <> "0" && Stdlib.List.exists (fun a -> String.length a > 0 && a.[0] = kind) (split '+' attrs)
let route_of tok =
  if tok = "-" then None else begin
    match split ',' (String.sub tok 1 (String.length tok - 1)) with
    | [fam; idx; len; attrs] ->
        let canon = Printf.sprintf "R%s,%s,%s,%s" (if int_of_string fam mod 2 = 0 then "4" else "6") idx len attrs in
        let id = Hashtbl.length route_tab + 1 in
        Hashtbl.replace route_tab id canon;
        Some { rt_id = n_of_int id; rt_csv_ok = not (contains_attr 'e' attrs || contains_attr 'x' attrs) }
    | _ -> failwith ("bad route " ^ tok)
  end

let optn t = opt_of_tok (fun x -> n_of_int (int_of_string x)) t

let entry_of fields custom =
  match split ',' fields with
  | [ts; o; p; h; r; u; mr; mra; mu; mua] ->
      { en_ts = n_of_int (int_of_string ts); en_origin = optn o; en_peer = optn p; en_hops = optn h;
        en_reach = n_of_int (int_of_string r); en_unreach = n_of_int (int_of_string u);
        en_mp_reach = optn mr; en_mp_reach_af = optn mra; en_mp_unreach = optn mu; en_mp_unreach_af = optn mua;
        en_custom = opt_of_tok str_of_text custom }
  | _ -> failwith "entry: 10 fields expected"

(* the k-th registered ingress has model id k+1 *)
let resolve nreg t = if t = "-" then None else
  let k = int_of_string t in Some (n_of_int (if k < nreg then k + 1 else 1000000 + k))

let msg_of nreg tok =
  let mk name topic r ing = { m_name = str_of_string name; m_topic = topic; m_rec = r; m_ing = resolve nreg ing } in
  match split ':' tok with
  | ["p"; r; i] -> mk "mqtt" (str_of_string "prefix") (RRoute (route_of r)) i
  | ["c"; r; i] -> mk "mqtt" (str_of_string "community") (RRoute (route_of r)) i
  | ["a"; r; i] -> mk "mqtt" (str_of_string "asn") (RRoute (route_of r)) i
  | ["o"; r; i] -> mk "mqtt" (str_of_string "origin") (RRoute (route_of r)) i
  | ["d"; k; topic; ip; asn; i] ->
      mk names.(int_of_string k mod Array.length names) (str_of_text topic)
        (RPeerdown (n_of_int (int_of_string ip), n_of_int (int_of_string asn))) i
  | ["u"; id; v; i] -> mk "mqtt" (str_of_string "custom") (RCustom (n_of_int (int_of_string id), n_of_int (int_of_string v))) i
  | ["e"; f; c; i] -> mk "mqtt" (str_of_string "log_entry") (REntry (entry_of f c)) i
  | _ -> failwith ("bad message " ^ tok)

let some_route t = match route_of t with Some r -> r | None -> failwith "route expected"

let update_of nreg toks =
  let ing t = match resolve nreg t with Some n -> n | None -> N0 in
  match toks with
  | "O" :: ms -> Some (UOutput (Stdlib.List.map (msg_of nreg) ms))
  | ["S"; r] -> Some (USingle (some_route r))
  | "B" :: rs -> Some (UBulk (Stdlib.List.map some_route rs))
  | ["W"; i] -> Some (UWithdraw (ing i, None))
  | ["W"; i; af] -> Some (UWithdraw (ing i, Some (n_of_int (int_of_string af))))
  | "WB" :: is -> Some (UWithdrawBulk (Stdlib.List.map ing is))
  | ["Q"] -> Some UQuery
  | ["U"; i] -> Some (UStatus (ing i))
  | _ -> None

let pn n = string_of_int (int_of_n n)
let po = function None -> "-" | Some n -> pn n

let record_tok = function
  | RRoute None -> "R-"
  | RRoute (Some r) -> (try Hashtbl.find route_tab (int_of_n r.rt_id) with Not_found -> "R?")
  | RPeerdown (ip, asn) -> Printf.sprintf "D%s,%s" (pn ip) (pn asn)
  | RCustom (id, v) -> Printf.sprintf "U%s,%s" (pn id) (pn v)
  | REntry e ->
      Printf.sprintf "E%s:%s"
        (join "," [pn e.en_ts; po e.en_origin; po e.en_peer; po e.en_hops; pn e.en_reach; pn e.en_unreach;
                   po e.en_mp_reach; po e.en_mp_reach_af; po e.en_mp_unreach; po e.en_mp_unreach_af])
        (match e.en_custom with None -> "-" | Some s -> text_of_str s)

let line_tok = function
  | LText s -> "T" ^ text_of_str s
  | LRecord (_, r) -> record_tok r
  | LGarbage -> "GARBAGE"

let run_case (line : string) : string =
  Hashtbl.reset route_tab;
  let fmt = ref FJson in
  let us = ref [] in
  let nreg = ref 0 in
  Stdlib.List.iter (fun s ->
    match words s with
    | ["fmt"; "json"] -> fmt := FJson
    | ["fmt"; "jsonmin"] -> fmt := FJsonMin
    | ["fmt"; "csv"] -> fmt := FCsv
    | "fmt" :: _ -> failwith "bad format"
    | ("end" | "name" | "tpl" | "qos") :: _ -> ()
    | "ing" :: _ | ["reg"] -> incr nreg
    | "G" :: _ -> ()   (* file-out never reads the register: the model of the file has no register at all *)
    | toks -> (match update_of !nreg toks with Some u -> us := u :: !us | None -> failwith ("bad op: " ^ s)))
    (split_on ';' line);
  let us = Stdlib.List.rev !us in
  let (lines, rest) = file_observe !fmt us in
  let model = Stdlib.List.map line_tok lines
              @ (if rest = [] then [] else ["UNTERMINATED"]) @ ["end:ok"] in
  let spec = Stdlib.List.map line_tok (file_expect !fmt us) @ ["end:ok"] in
  let m = join " " model and s = join " " spec in
  if m = s then m else m ^ " ||| " ^ s
