(* c12lock: ConcModel.lrun (the code as it is: HoldLock) on the schedule of
   C12_statelock_release_refuted, generalised to a list of requests. Case = request kinds
   `I` (router info) / `L` (router list). Threads: 0 = the connection task processing one message
   with one await point, 1.. = the requests. Schedule: the requests while the router is idle;
   then: the connection task locks and takes the state (2 steps), every request tries (2 steps
   each) = "window"; the connection task finishes (4 steps), every request runs (2 steps each) =
   "after". Same observation as harness/src/engines/c12lock.rs: `idle s.. window s.. after s..`. *)
open Conv
open ConcModel
open DispatchModel

let tok = function
  | TInfo (_, QDone (PResp c)) -> string_of_int (int_of_n c)
  | TInfo (_, QDone PPanic) -> "PANIC"
  | TInfo (_, QDone PNone) -> "404"
  | TList (LDone _) -> "200"
  | _ -> "blocked"

let run_case (line : string) : string =
  let kinds = words line in
  let req = function
    | "I" -> TInfo (w_info_req, QIdle)
    | "L" -> TList LIdle
    | k -> failwith ("bad request kind " ^ k) in
  let thr = THandler ([MMsg (nat_of_int 1)], HIdle, false) :: Stdlib.List.map req kinds in
  let two t = [nat_of_int t; nat_of_int t] in
  let reqs = Stdlib.List.concat (Stdlib.List.mapi (fun i _ -> two (i + 1)) kinds) in
  let run s sched = lrun HoldLock k_routers [k_one] s sched in
  let s0 = linit (n_of_int 0) thr in
  let toks s = Stdlib.List.map tok (Stdlib.List.tl s.ls_thr) in
  let idle = run s0 reqs in
  let win = run s0 (two 0 @ reqs) in
  let fin = run win (two 0 @ two 0 @ reqs) in
  let line w = join " " (("idle" :: toks idle) @ ("window" :: w) @ ("after" :: toks fin)) in
  (* model: what the code as it is does (the requests wait for the lock). The PROPERTY only demands that a
     request is answered - it may wait while the message is processed, it may not panic or be refused *)
  line (toks win) ^ " ||| " ^ line (Stdlib.List.map (fun t -> if t = "blocked" then "<blocked|200>" else t) (toks win))
