(* c10rib engine: FilterUnits.rib_unit (the rib-in-pre call site in front of the
   RIB model). Model = the code's rendering of output entries; spec = every
   entry becomes a message. Prints  model ||| spec ||| classes. *)
open Conv
open FilterLang
open FilterUnits
open C10lib

let show_pay (fp : fpay) : string =
  let p = fp.fp_pay in
  let ((_, pfx), id) = p.RibModel.p_key in
  if p.RibModel.p_active then Printf.sprintf "+%s#%s/%s" (pn pfx) (pn id) (pn p.RibModel.p_attrs)
  else Printf.sprintf "-%s#%s" (pn pfx) (pn id)

let show_fwd (us : fpay list list) : string =
  "fwd:[" ^ join "," (Stdlib.List.map show_pay (Stdlib.List.concat us)) ^ "]"

let run_case (line : string) : string =
  match Stdlib.List.map words (split_on ';' line) with
  | [] -> ""
  | f :: ops ->
      let (_, prog) = parse_filter f in
      (match prog with Some p when not (returns p) -> failwith "ill-formed filter body" | _ -> ());
      let rib = ref RibModel.rib_empty in
      let mo = ref [] and so = ref [] in
      Stdlib.List.iter (fun op ->
        match op with
        | ["U"; id; tag; a; ann; wd] ->
            let id = n (i_of id) and tag = n (i_of tag) and a = parse_attrs a in
            (* Processor::process_update: withdrawals first, then announcements *)
            let ps =
              Stdlib.List.map (fun p -> let k = ((n 0, p), id) in
                                { fp_pay = { RibModel.p_key = k; p_active = false; p_attrs = n 0 }; fp_in = rib_view k None }) (plist wd)
              @ Stdlib.List.map (fun p -> let k = ((n 0, p), id) in
                                { fp_pay = { RibModel.p_key = k; p_active = true; p_attrs = tag }; fp_in = rib_view k (Some a) }) (plist ann) in
            let (r1, ds) = rib_unit true FilterGlue.render_rib prog !rib ps in
            let (_, ds') = rib_unit false FilterGlue.render_rib_spec prog !rib ps in
            rib := r1;
            mo := show_fwd (FilterGlue.upds_of ds) :: show_osms (FilterGlue.outs_of ds) :: !mo;
            so := show_fwd (FilterGlue.upds_of ds') :: show_osms (FilterGlue.outs_of ds') :: !so
        | ["M"; id; tag; a; pfx] ->
            (* a route of an MRT table dump: Update::Single, the provenance sits in an MrtContext *)
            let id = n (i_of id) and tag = n (i_of tag) and a = parse_attrs a in
            let k = ((n 0, n (i_of pfx)), id) in
            let ps = [ { fp_pay = { RibModel.p_key = k; p_active = true; p_attrs = tag }; fp_in = rib_view_ctx CtxMrt k (Some a) } ] in
            let (r1, ds) = rib_unit true FilterGlue.render_rib prog !rib ps in
            let (_, ds') = rib_unit false FilterGlue.render_rib_spec prog !rib ps in
            rib := r1;
            mo := show_fwd (FilterGlue.upds_of ds) :: show_osms (FilterGlue.outs_of ds) :: !mo;
            so := show_fwd (FilterGlue.upds_of ds') :: show_osms (FilterGlue.outs_of ds') :: !so
        | ["Q"; pfx] ->
            let es = RibModel.rib_query !rib (n 0) (n (i_of pfx)) in
            let toks = Stdlib.List.sort compare
                (Stdlib.List.map (fun ((id, act), a) -> Printf.sprintf "%s=%s%s" (pn id) (if act then "A" else "W") (pn a)) es) in
            let t = "q:[" ^ join "," toks ^ "]" in
            mo := t :: !mo; so := t :: !so
        | _ -> failwith ("bad op: " ^ join " " op)) ops;
      finish !mo !so (fun a b -> if a = b then "." else "K1")
