(* C16 engine: MrtModel.process_file / queue order (model of the code) and
   MrtModel.i_file (the property's reading) over one case line; prints
     model ||| spec ||| classes
   Case grammar: see harness/src/engines/c16.rs.
   classes (free form for this engine): the set of recorded finding classes that
   explain every difference between model and spec ("-" if there is none, "?" if
   some difference is not explained): KD = C16-1 (one ingress id per peer index
   entry), KP = C16-2 (the parser stops inside a file), K3 = C16-3 (= C03-1,
   sticky session-wide withdrawal). *)
open Conv
open MrtModel

let n = n_of_int
let pool = [| (1, 65001); (1, 65002); (2, 65001); (101, 65003); (102, 65003); (3, 200000); (103, 4200000001); (4, 65004) |]
let wire_peer v p : mpeer =
  let (a, s) = pool.(p mod Array.length pool) in
  if v mod 10 = 2 then (n a, n (s mod 65536)) else (n a, n s)
let pname ((a, s) : mpeer) = Printf.sprintf "p%d.%d" (int_of_n a) (int_of_n s)
let plist tok = if tok = "-" then [] else Stdlib.List.map (fun t -> n (int_of_string t)) (split_on ',' tok)

let rec is_prefix a b = match a, b with [], _ -> true | x :: a', y :: b' -> x = y && is_prefix a' b' | _ -> false
let uniq l = Stdlib.List.sort_uniq compare l
let index_of x l = let rec go i = function [] -> -1 | y :: r -> if y = x then i else go (i + 1) r in go 0 l
let starts_with pre s = String.length s >= String.length pre && String.sub s 0 (String.length pre) = pre

(* prefix ids: the injective numbering of wire prefixes (PipeRaw.pfx_code), as engine pipe. The small numbers of
   the abstract ops stand for 10.<p>.0.0/16 (even families) and 2001:db8:<p>::/48 (odd families), as
   harness/src/engines/c16.rs prefix_str has it; they are printed as that number again, any other prefix as
   <len>/<hex>. Attribute sets: the small numbers of the abstract ops as they are; the numbering of an attribute
   list from the wire (PipeRaw.attrs_code) as length + FNV-1a of its octets. *)
let pfx_of_small fam p : BgpModel.pfx =
  if fam mod 2 = 0 then { BgpModel.p_len = n 16; p_bytes = [n 10; n p] }
  else { BgpModel.p_len = n 48; p_bytes = [n 0x20; n 0x01; n 0x0d; n 0xb8; n (p lsr 8); n (p land 255)] }
let pid fam p = PipeRaw.pfx_code (pfx_of_small fam p)
let pids fam tok = if tok = "-" then [] else Stdlib.List.map (fun t -> pid fam (int_of_string t)) (split_on ',' tok)
let raw_pfx tok : BgpModel.pfx =
  match String.split_on_char '/' tok with
  | [l; h] -> { BgpModel.p_len = n (int_of_string l); p_bytes = (if h = "-" then [] else C04_util.ns_of_hex h) }
  | _ -> failwith "prefix: <len>/<hex|->"
let bits_of_n (x : BinNums.coq_N) : bool list =
  let rec go = function BinNums.Coq_xH -> [true] | BinNums.Coq_xO p -> false :: go p | BinNums.Coq_xI p -> true :: go p in
  match x with BinNums.N0 -> [] | BinNums.Npos p -> go p
let rec take8 acc k v l = if k = 8 then (acc, l) else match l with
    | b :: r -> take8 (acc + (if b then v else 0)) (k + 1) (2 * v) r
    | [] -> (acc, [])
(* PipeRaw.bytes_code backwards: little endian octets, closed by a 1 *)
let rec bytes_of_bits l = match l with
  | [true] | [] -> []
  | _ -> let (b, r) = take8 0 0 1 l in b :: bytes_of_bits r
let small_n (x : BinNums.coq_N) = Stdlib.List.length (bits_of_n x) <= 30
let attr_tok (a : BinNums.coq_N) : string =
  if small_n a then string_of_int (int_of_n a)
  else let raw = bytes_of_bits (bits_of_n a) in Printf.sprintf "n%dh%08x" (Stdlib.List.length raw) (C04_util.fnv raw)
let pfx_tok f (x : BinNums.coq_N) : string =
  let (len, rest) = take8 0 0 1 (bits_of_n x) in
  let bs = bytes_of_bits rest in
  let f = int_of_n f in
  match bs with
  | [10; k] when f mod 2 = 0 && len = 16 -> string_of_int k
  | [0x20; 0x01; 0x0d; 0xb8; 0; k] when f mod 2 = 1 && len = 48 -> string_of_int k
  | [] -> Printf.sprintf "%d/-" len
  | _ -> Printf.sprintf "%d/%s" len (String.concat "" (Stdlib.List.map (Printf.sprintf "%02x") bs))
let item_s f x a = Printf.sprintf "+%d.%s=%s" (int_of_n f) (pfx_tok f x) (attr_tok a)
let item_w f x = Printf.sprintf "-%d.%s" (int_of_n f) (pfx_tok f x)
let item (p : RibModel.payload) =
  let ((f, x), _) = p.RibModel.p_key in
  if p.RibModel.p_active then item_s f x p.RibModel.p_attrs else item_w f x

(* an update of the model with what is needed to print it: the id it carries, the
   candidates the lookup had (message path), and the text after the peer name *)
type mu = { kind : string; id : BinNums.coq_N; cands : BinNums.coq_N list; tail : string }

let mu_of (u : RibModel.update) cands : mu =
  match u with
  | RibModel.UBulk [p] when cands = [] && p.RibModel.p_active ->
      let (_, id) = p.RibModel.p_key in { kind = "s"; id; cands; tail = ":" ^ item p }
  | RibModel.UBulk ps ->
      let id = match ps with p :: _ -> snd p.RibModel.p_key | [] -> (match cands with c :: _ -> c | [] -> n 0) in
      { kind = "u"; id; cands; tail = ":" ^ join "," (Stdlib.List.map item ps) }
  | RibModel.UWithdraw (id, _) -> { kind = "w"; id; cands; tail = "" }
  | _ -> { kind = "other"; id = n 0; cands; tail = "" }

let run_case (line : string) : string =
  let (parent, r0) = unit_start in
  let reg = ref r0 and rib = ref RibModel.rib_empty and ideal = ref (i_import []) in
  let hist : RibModel.update list ref = ref [] in
  let mo = ref [] and so = ref [] in
  let classes = ref [] in
  let note c = if not (Stdlib.List.mem c !classes) then classes := c :: !classes in
  let tainted : mpeer list ref = ref [] in       (* peers that had an ambiguous lookup *)
  let kp_peers : mpeer list ref = ref [] in      (* peers named in a file the parser stopped in *)
  let known : mpeer list ref = ref [] in         (* peers the property's reading has met *)
  (* the queue holds paths: an entry = (path, what is written there just before it is queued, if anything);
     store = the tree (MrtModel.fstore), table = every file of the case as it was created (ops R, C refer to it) *)
  let pending : (mpath * mfile option) list ref = ref [] in
  let store : fstore ref = ref [] in
  let table : (mpath * mfile) list ref = ref [] in
  let cur : (mrec list * mpath option) option ref = ref None in
  let nfiles = ref 0 in
  let new_file path f =
    let path = match path with Some p -> p | None -> [n (1000 + !nfiles)] in
    pending := !pending @ [(path, Some f)]; table := !table @ [(path, f)]; incr nfiles in
  let close () = match !cur with
    | Some (recs, path) -> cur := None; new_file path (FGood (n !nfiles, Stdlib.List.rev recs))
    | None -> () in
  let nth_file k = match !table with [] -> None | t -> Some (Stdlib.List.nth t (k mod Stdlib.List.length t)) in
  (* F c sub base: <sub>/u<base>.mrt[.gz|.bz2]; sub = - or dotted directory letters *)
  let path_of sub base comp : mpath =
    (if sub = "-" then [] else Stdlib.List.map (fun d -> n (Char.code d.[0])) (String.split_on_char '.' sub))
    @ [n (100 + 4 * base + (match comp with "g" -> 1 | "b" -> 2 | _ -> 0))] in
  let add rc = match !cur with Some (recs, p) -> cur := Some (rc :: recs, p) | None -> cur := Some ([rc], None) in
  (* the model's walk over one file, keeping the candidates of every lookup *)
  let walk r recs =
    let r = ref r and out = ref [] in
    Stdlib.List.iter (fun rc ->
        let cands = match rc with
          | RMsg (p, BUpdate _) -> IngressModel.reg_find_peers !r (mrt_query parent p)
          | RState (p, _, _) -> IngressModel.reg_find_peers !r (mrt_query parent p)
          | _ -> [] in
        let (r', us) = msg_step parent !r rc in
        (match rc with
         | RMsg (p, _) | RState (p, _, _) -> if Stdlib.List.length cands >= 2 && us <> [] then tainted := p :: !tainted
         | _ -> ());
        (* a fresh registration has no candidates before the step: the id is the one it carries *)
        Stdlib.List.iter (fun u -> out := mu_of u (if cands = [] then [n 0] else cands) :: !out) us;
        r := r') recs;
    (!r, Stdlib.List.rev !out) in
  let annotate r f : mu list =
    match f with
    | FBad -> []
    | FGood (name, recs) ->
        (match recs with
         | RPit ps :: rest ->
             let (r1, ids) = reg_peers r parent name ps in
             let (us, st) = dump_walk ids rest in
             let singles = Stdlib.List.map (fun u -> mu_of u []) us in
             (match st with SStop -> singles | SOk -> singles @ snd (walk r1 recs))
         | _ -> snd (walk r recs)) in
  (* the property's reading of one file as an update stream (no ids) *)
  let spec_stream f : string list =
    match f with
    | FBad -> []
    | FGood (_, recs) ->
        let pit = match recs with RPit ps :: _ -> ps | _ -> [] in
        Stdlib.List.iter (fun p -> if not (Stdlib.List.mem p !known) then known := p :: !known) pit;
        Stdlib.List.concat_map (fun rc ->
            match rc with
            | RRib (f, x, es) when int_of_n f < 2 ->
                Stdlib.List.filter_map (fun (i, a) ->
                    match Stdlib.List.nth_opt pit (int_of_n i) with
                    | Some p -> Some ("s:" ^ pname p ^ ":" ^ item_s f x a)
                    | None -> None) es
            | RMsg (p, BUpdate u) ->
                if not (Stdlib.List.mem p !known) then known := p :: !known;
                let items = match u with
                  | BmpModel.UEor _ -> []
                  | BmpModel.URoutes (af, ann, a, wf, wd) ->
                      Stdlib.List.map (fun x -> item_w wf x) wd @ Stdlib.List.map (fun x -> item_s af x a) ann
                  | BmpModel.UGen (_, _, _, ann, a, wd) ->
                      Stdlib.List.map (fun (f, x) -> item_w f x) wd @ Stdlib.List.map (fun (f, x) -> item_s f x a) ann in
                (* an UPDATE without routes leaves as an empty Bulk, which names nobody *)
                if items = [] then ["u::"] else ["u:" ^ pname p ^ ":" ^ join "," items]
            | RState (p, o, nw) when int_of_n o = 6 && int_of_n nw = 1 ->
                if Stdlib.List.mem p !known then ["w:" ^ pname p] else []
            | _ -> []) recs in
  let peers_in f = match f with
    | FBad -> []
    | FGood (_, recs) -> Stdlib.List.concat_map (fun rc -> match rc with
        | RPit ps -> ps | RMsg (p, _) -> [p] | RState (p, _, _) -> [p] | _ -> []) recs in
  let ids_of_peer p = Stdlib.List.sort compare (Stdlib.List.map int_of_n (IngressModel.reg_find_peers !reg (mrt_query parent p))) in
  let barrier () =
    close ();
    let entries = !pending in
    pending := [];
    let per_file = Stdlib.List.map (fun (path, written) ->
        (* what the path holds when its turn comes *)
        (match written with Some f -> store := store_write !store path f | None -> ());
        let f = resolve !store path in
        let ann = annotate !reg f in
        let ((r1, us), st) = process_file parent !reg f in
        (* the annotated walk must be the model's own answer *)
        if Stdlib.List.length ann <> Stdlib.List.length us then failwith "annotate: length";
        Stdlib.List.iter2 (fun a u -> let b = mu_of u a.cands in if b.id <> a.id || b.tail <> a.tail then failwith "annotate: differs") ann us;
        (* register and RIB move by the model's per-entry step (MrtModel.entry_step) *)
        ignore r1;
        let (r1', rb') = entry_step parent !store (!reg, !rib) path in
        reg := r1'; rib := rb';
        hist := !hist @ us;
        ideal := i_file !ideal f;
        let spec = spec_stream f in
        if st = SStop && f <> FBad then kp_peers := peers_in f @ !kp_peers;
        (ann, spec, st, f)) entries in
    (* names are given with the register as it stands after the batch *)
    let name_m (u : mu) =
      if u.kind = "u" && u.tail = ":" then "" else
      match peer_of !reg u.id with
      | None -> "?" ^ string_of_int (int_of_n u.id)
      | Some p ->
          let same = ids_of_peer p in
          if Stdlib.List.length same <= 1 then pname p
          else if Stdlib.List.length u.cands >= 2 then
            pname p ^ "<" ^ join "|" (Stdlib.List.map (fun c -> "#" ^ string_of_int (index_of (int_of_n c) same)) u.cands) ^ ">"
          else pname p ^ "#" ^ string_of_int (index_of (int_of_n u.id) same) in
    mo := "[" :: !mo; so := "[" :: !so;
    Stdlib.List.iter (fun (ann, spec, st, f) ->
        let mt = Stdlib.List.map (fun u -> u.kind ^ ":" ^ name_m u ^ u.tail) ann in
        let stripped = Stdlib.List.map (fun u -> u.kind ^ ":" ^ (if u.kind = "u" && u.tail = ":" then "" else match peer_of !reg u.id with Some p -> pname p | None -> "?") ^ u.tail) ann in
        Stdlib.List.iter (fun t -> mo := t :: !mo) mt;
        Stdlib.List.iter (fun t -> so := t :: !so) spec;
        if mt <> spec then begin
          if stripped = spec then note "KD"
          else begin
            (* every token present on one side only must concern a peer named in a file the parser stopped in *)
            let peer_of_tok t =
              let b = match String.index_opt t ':' with Some i -> String.sub t (i + 1) (String.length t - i - 1) | None -> t in
              let stop = ref (String.length b) in
              String.iteri (fun i c -> if (c = ':' || c = '#' || c = '<') && i < !stop then stop := i) b;
              String.sub b 0 !stop in
            let rec remove x = function [] -> [] | y :: r -> if x = y then r else y :: remove x r in
            let only_a a b = Stdlib.List.fold_left (fun acc x -> remove x acc) a b in
            let d = only_a stripped spec @ only_a spec stripped in
            let kp_names = Stdlib.List.map pname !kp_peers in
            let stopped = (st = SStop && f <> FBad) in
            if Stdlib.List.for_all (fun t -> Stdlib.List.mem (peer_of_tok t) kp_names || (stopped && peer_of_tok t = "")) d
            then (note "KP"; if mt <> stripped then note "KD")
            else note "?"
          end
        end) per_file;
    mo := "]" :: !mo; so := "]" :: !so in
  let do_op toks =
    let i k = int_of_string (Stdlib.List.nth toks k) in
    let t k = Stdlib.List.nth toks k in
    match Stdlib.List.hd toks with
    | "F" -> close (); cur := Some ([], if Stdlib.List.length toks >= 4 then Some (path_of (t 2) (i 3) (t 1)) else None)
    | "X" -> close (); new_file None FBad
    (* R k [spelling]: the path of file k is queued once more; C k: the content of file k under a new name *)
    | "R" -> close (); (match nth_file (i 1) with Some (p, _) -> pending := !pending @ [(p, None)] | None -> ())
    | "C" -> close (); (match nth_file (i 1) with
        | Some (_, FGood (_, recs)) -> new_file None (FGood (n !nfiles, recs))
        | Some (_, FBad) -> new_file None FBad
        | None -> ())
    | "I" -> add (RPit (Stdlib.List.map (fun x -> wire_peer 4 (int_of_n x)) (plist (t 1))))
    | "T" ->
        let es = if t 3 = "-" then [] else
            Stdlib.List.map (fun e -> match String.split_on_char ':' e with
                | [a; b] -> (n (int_of_string a), n (int_of_string b)) | _ -> failwith "T entry") (split_on ',' (t 3)) in
        add (RRib (n (i 1), pid (i 1) (i 2), es))
    | "M" -> add (RMsg (wire_peer (i 1) (i 2), BUpdate (BmpModel.URoutes (n (i 3 mod 2), pids (i 3 mod 2) (t 5), n (i 4), n (i 6 mod 2), pids (i 6 mod 2) (t 7)))))
    (* from the file: MB v p <hex> = the octets of the BGP message inside the record, as C04's decoder reads them *)
    | "MB" -> add (MrtRaw.raw_rec (wire_peer (i 1) (i 2)) (C04_util.ns_of_hex (t 3)))
    | "K" -> add (RMsg (wire_peer (i 1) (i 2), BSkip))
    | "S" -> add (RState (wire_peer (i 1) (i 2), n (i 3), n (i 4)))
    | "N" -> add ROther
    | "W" | "B" -> barrier ()
    | "Q" | "QX" ->
        barrier ();
        let af = n (i 1) in
        let pfx = if Stdlib.List.hd toks = "Q" then pid (i 1) (i 2) else PipeRaw.pfx_code (raw_pfx (t 2)) in
        let ml = RibModel.rib_query !rib af pfx in
        let named = Stdlib.List.map (fun ((id, s), a) -> (peer_of !reg id, id, s, a)) ml in
        let tok p s a = Printf.sprintf "%s=%s%s" p (if s then "A" else "W") (attr_tok a) in
        let mtoks = Stdlib.List.sort compare (Stdlib.List.map (fun (p, id, s, a) ->
            tok (match p with Some p -> pname p | None -> "?" ^ string_of_int (int_of_n id)) s a) named) in
        let stoks = Stdlib.List.sort compare (Stdlib.List.map (fun ((p, s), a) -> tok (pname p) s a) (i_query !ideal af pfx)) in
        let is_tainted = Stdlib.List.exists (fun (p, _, _, _) -> match p with Some p -> Stdlib.List.mem p !tainted | None -> false) named in
        let mt = if is_tainted then "*" else "q:" ^ join "," mtoks and st = "q:" ^ join "," stoks in
        mo := mt :: !mo; so := st :: !so;
        if mt <> st then begin
          let wid s = Stdlib.List.hd (String.split_on_char '=' s) in
          let diff = uniq (Stdlib.List.map wid (Stdlib.List.filter (fun x -> not (Stdlib.List.mem x stoks)) mtoks
                                                @ Stdlib.List.filter (fun x -> not (Stdlib.List.mem x mtoks)) stoks)) in
          let evs = RibModel.evs_of !hist in
          if is_tainted then note "KD";
          Stdlib.List.iter (fun name ->
              let peers = uniq (Stdlib.List.filter (fun p -> pname p = name) (!known @ !kp_peers)) in
              match peers with
              | [p] ->
                  let ids = ids_of_peer p in
                  if Stdlib.List.length ids > 1 then note "KD"
                  else if Stdlib.List.mem p !kp_peers then note "KP"
                  else if Stdlib.List.exists (fun id -> RibModel.known_c03 evs ((af, pfx), n id)
                                                        || RibModel.known_c03 evs ((BinNat.N.add af (n 2), pfx), n id)) ids then note "K3"
                  else note "?"
              | _ -> note "?") diff
        end
    | s -> failwith ("bad op " ^ s) in
  Stdlib.List.iter (fun s -> do_op (words s)) (split_on ';' line);
  close ();
  if !pending <> [] then barrier ();
  let r l = join " " (Stdlib.List.rev l) in
  let cls = if !classes = [] then "-" else join " " (Stdlib.List.sort compare !classes) in
  r !mo ^ " ||| " ^ r !so ^ " ||| " ^ cls
