(* c14u engine: the units' registration / lookup sites (IngressSitesModel.site_step with the table code_sites)
   over a case line. Grammar and observation: harness/src/engines/c14u.rs. *)
open Conv
open IngressModel
open IngressSitesModel

(* (address number, AS) of peer p: entries 0 1 2 5 7 of c16's pool *)
let peers = [| (1, 65001); (1, 65002); (2, 65001); (3, 200000); (4, 65004) |]

let empty = { i_unit = None; i_parent = None; i_addr = None; i_asn = None; i_rib = None; i_file = None; i_name = None; i_desc = None }

(* an entry filed directly (op X): parent, address, AS and - if given - a RIB view *)
let site_direct = { s_class = n_of_int 9; s_lookup = None; s_query = k_none; s_registers = true;
                    s_store = mk false true true true true false false false }

let run_case (line : string) : string =
  let seen = ref [] in
  let canon id =
    let rec go i = function [] -> None | x :: r -> if x = id then Some i else go (i + 1) r in
    match go 0 !seen with
    | Some i -> "#" ^ string_of_int i
    | None -> seen := !seen @ [id]; "#" ^ string_of_int (Stdlib.List.length !seen - 1) in
  let r = ref reg_new in
  let mask id =
    match reg_get !r (n_of_int id) with
    | None -> "none"
    | Some i ->
        let c o ch = match o with Some _ -> ch | None -> "-" in
        c i.i_unit "u" ^ c i.i_parent "p" ^ c i.i_addr "a" ^ c i.i_asn "s" ^ c i.i_rib "r" ^ c i.i_file "f" ^ c i.i_name "n" ^ c i.i_desc "d" in
  (* MrtFileIn::run: the unit registers itself with unit name and description; BmpTcpIn::run: register() *)
  let unit_id =
    let (id, r') = reg_register !r in
    r := reg_update_info r' id { empty with i_unit = Some (n_of_int 0); i_desc = Some (n_of_int 0) }; int_of_n id in
  let bmp_unit = let (id, r') = reg_register !r in r := r'; int_of_n id in
  ignore (canon unit_id); ignore (canon bmp_unit);
  let routers = Hashtbl.create 8 in
  let nfiles = ref 0 in
  let out = ref [] in
  let emit s = out := s :: !out in
  let peer_src parent p = let (a, s) = peers.(p mod Array.length peers) in
    { empty with i_parent = Some (n_of_int parent); i_addr = Some (n_of_int a); i_asn = Some (n_of_int s) } in
  (* one site handles one source: the token for the id it uses, and the mask token *)
  let handle site src =
    let cands = Stdlib.List.map int_of_n (site_candidates !r site src) in
    let (r', res) = site_step !r site src in
    r := r';
    match res with
    | None -> ("none", None)
    | Some id ->
        let id = int_of_n id in
        (match cands with
         | [] | [_] -> (canon id, Some (mask id))
         | _ ->
             let cs = sort_ints (Stdlib.List.map (fun i -> int_of_string (let c = canon i in String.sub c 1 (String.length c - 1))) cands) in
             let ms = Stdlib.List.sort_uniq compare (Stdlib.List.map mask cands) in
             ("<" ^ join "|" (Stdlib.List.map (fun i -> "#" ^ string_of_int i) cs) ^ ">",
              Some (match ms with [m] -> m | _ -> "*"))) in
  let emit_mask m = emit (if m = "*" then "*" else "m:" ^ m) in
  let parent_of tok = match tok with
    | "u" -> Some unit_id | "b" -> Some bmp_unit
    | a -> Hashtbl.find_opt routers (int_of_string a) in
  let do_op toks =
    match toks with
    | ["D"; ps] ->
        let ps = Stdlib.List.map int_of_string (split_on ',' ps) in
        let file = !nfiles in incr nfiles;
        let res = Stdlib.List.map (fun p -> handle site_mrt_dump { (peer_src unit_id p) with i_file = Some (n_of_int file) }) ps in
        emit ("d:" ^ join "," (Stdlib.List.map fst res));
        emit ("m:" ^ join "," (Stdlib.List.map (fun (_, m) -> match m with Some m -> m | None -> "none") res))
    | ["U"; p] ->
        incr nfiles;
        let (t, m) = handle site_mrt_update (peer_src unit_id (int_of_string p)) in
        emit ("u:" ^ t); (match m with Some m -> emit_mask m | None -> ())
    | ["S"; p] ->
        incr nfiles;
        let (t, _) = handle site_mrt_state (peer_src unit_id (int_of_string p)) in
        emit ("s:" ^ t)
    | ["R"; a] ->
        let a = int_of_string a in
        let src = { empty with i_parent = Some (n_of_int bmp_unit); i_addr = Some (n_of_int (1000 + a)) } in
        let cands = site_candidates !r site_bmp_router src in
        let (r', res) = site_step !r site_bmp_router src in
        r := r';
        (match res, cands with
         | Some id, ([] | [_]) -> Hashtbl.replace routers a (int_of_n id); emit ("r:" ^ canon (int_of_n id)); emit ("m:" ^ mask (int_of_n id))
         | Some id, _ -> Hashtbl.replace routers a (int_of_n id); emit "*"; emit "*"
         | None, _ -> emit "r:none")
    | ["P"; a; p; v] ->
        (match Hashtbl.find_opt routers (int_of_string a) with
         | None -> emit "-"
         | Some rid ->
             (* states/initiating.rs: the Initiation message files sysName / sysDescr with the ROUTER's entry *)
             r := fst (sstep !r (SMeta (n_of_int rid, { empty with i_name = Some (n_of_int 2); i_desc = Some (n_of_int 2) })));
             let (t, m) = handle site_bmp_peer { (peer_src rid (int_of_string p)) with i_rib = Some (n_of_int (int_of_string v)) } in
             emit ("p:" ^ t); (match m with Some m -> emit_mask m | None -> ()))
    | ["G"; p] ->
        let src = { (peer_src 0 (int_of_string p)) with i_parent = None; i_name = Some (n_of_int 0) } in
        let (t, m) = handle site_bgp_session src in
        emit ("g:" ^ t); (match m with Some m -> emit_mask m | None -> ())
    | ["X"; w; p; v] ->
        (match parent_of w with
         | None -> emit "-"
         | Some par ->
             let src = { (peer_src par (int_of_string p)) with i_rib = opt_of_tok (fun x -> n_of_int (int_of_string x)) v } in
             let (t, _) = handle site_direct src in
             emit ("x:" ^ t))
    | ["N"; k] ->
        (match Stdlib.List.nth_opt !seen (int_of_string k) with
         | Some id -> r := fst (sstep !r (SMeta (n_of_int id, { empty with i_name = Some (n_of_int 1) })))
         | None -> ());
        emit "n"
    | ["C"; w] ->
        (match parent_of w with
         | None -> emit "-"
         | Some par ->
             let l = Stdlib.List.map (fun i -> let c = canon (int_of_n i) in int_of_string (String.sub c 1 (String.length c - 1))) (reg_ids_for_parent !r (n_of_int par)) in
             emit ("c:[" ^ join "," (Stdlib.List.map (fun i -> "#" ^ string_of_int i) (sort_ints l)) ^ "]"))
    | _ -> failwith ("bad op: " ^ join " " toks) in
  Stdlib.List.iter (fun s -> do_op (words s)) (split_on ';' line);
  (* model ||| spec: the PROPERTY speaks about the ids (a returning source is given the id it had, no second id);
     which fields an entry holds is the model's account of the code (the table code_sites), not demanded by the property *)
  let toks = Stdlib.List.rev !out in
  let spec = Stdlib.List.map (fun t -> if String.length t >= 2 && String.sub t 0 2 = "m:" then "*" else t) toks in
  join " " toks ^ " ||| " ^ join " " spec
