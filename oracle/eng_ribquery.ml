(* ribquery engine (C11): the unit over time, RibQueryModel.rq_step (state =
   query limits + RIB content; the code as it is, over the store as it is),
   rq_step_spec (what the property demands) and rq_step_mid (the code over an
   exact store; only used to name the reason of a difference) on one case
   line; prints  model ||| spec ||| classes.  L (limits the unit starts with)
   and R (limits stored by a reconfiguration while the API object exists) are
   both the model's OLimits: the answer uses the limits in force
   (C11_limit_is_current).
   Case grammar: see harness/src/engines/ribquery.rs.
   classes: MC = multicast entries hidden by Rib::match_prefix,
            MS = rotonda-store's more-specifics iterator, MCMS = both. *)
open Conv
open RibQueryModel

let n = n_of_int

let bits_of_hex (s : string) : bool list =
  let l = ref [] in
  String.iter (fun c ->
    let v = int_of_string ("0x" ^ String.make 1 c) in
    l := !l @ [v land 8 <> 0; v land 4 <> 0; v land 2 <> 0; v land 1 <> 0]) s;
  !l

let hex_of_bits (bs : bool list) (width : int) : string =
  let a = Array.make width false in
  Stdlib.List.iteri (fun i b -> if i < width then a.(i) <- b) bs;
  let buf = Buffer.create (width / 4) in
  for i = 0 to width / 4 - 1 do
    let v = (if a.(4*i) then 8 else 0) + (if a.(4*i+1) then 4 else 0) + (if a.(4*i+2) then 2 else 0) + (if a.(4*i+3) then 1 else 0) in
    Buffer.add_string buf (Printf.sprintf "%x" v)
  done;
  Buffer.contents buf

let rec take k l = if k <= 0 then [] else match l with [] -> [] | x :: r -> x :: take (k - 1) r

(* addr/len -> (all address bits, len) *)
let parse_pfx tok =
  match String.split_on_char '/' tok with
  | [a; l] -> (bits_of_hex a, int_of_string l)
  | _ -> failwith "addr/len expected"

(* a hexadecimal numeral of any length (the octets of a community) as N *)
let n_of_hex (s : string) : BinNums.coq_N =
  let bits = bits_of_hex s in   (* most significant first *)
  Stdlib.List.fold_left (fun (acc : BinNums.coq_N) b ->
      match acc, b with
      | BinNums.N0, false -> BinNums.N0
      | BinNums.N0, true -> BinNums.Npos BinNums.Coq_xH
      | BinNums.Npos p, false -> BinNums.Npos (BinNums.Coq_xO p)
      | BinNums.Npos p, true -> BinNums.Npos (BinNums.Coq_xI p)) BinNums.N0 bits

(* the community-carrying attributes of an announcement, in the order of the case line
   (= the order in the UPDATE): '-' | item/item/..; item = '*' (where the other attributes
   stand: nothing to the filter) | u32,u32,.. (COMMUNITIES, decimal) | K=hex,hex,.. with
   K = s (COMMUNITIES, 8 digits) e (EXTENDED, 16) l (LARGE, 24) x (IPv6 extended, 40) *)
let cattrs_of_tok (tok : string) : rq_cattr list =
  if tok = "-" then [] else
  Stdlib.List.filter_map (fun item ->
      if item = "*" then None
      else match String.index_opt item '=' with
        | None -> Some (CStd, Stdlib.List.map (fun c -> n_of_int (int_of_string c)) (String.split_on_char ',' item))
        | Some _ ->
            let kind = match item.[0] with 's' -> CStd | 'e' -> CExt | 'l' -> CLarge | 'x' -> CIp6 | _ -> failwith "community kind" in
            let vals = String.sub item 2 (String.length item - 2) in
            Some (kind, if vals = "" then [] else Stdlib.List.map n_of_hex (String.split_on_char ',' vals)))
    (String.split_on_char '/' tok)

let bytes_of_string (s : string) = Stdlib.List.init (String.length s) (fun i -> n (Char.code s.[i]))

(* [explained]: print the model's token as the expected one wherever a recorded
   finding class explains the difference (bulk engine ribqueryx); otherwise the
   property's answer is the expected one (engine ribquery). *)
let run_case_with (explained : bool) (line : string) : string =
  let st = ref { st_lim = { lim_v4 = n 8; lim_v6 = n 19 }; st_rib = RibModel.rib_empty } in
  let peers : (int * BinNums.coq_N option option) list ref = ref [] in
  let tbl : (int * rq_attrs) list ref = ref [] in
  let reg (m : BinNums.coq_N) = try Stdlib.List.assoc (int_of_n m) !peers with Not_found -> None in
  let attrs (t : BinNums.coq_N) = try Stdlib.List.assoc (int_of_n t) !tbl with Not_found -> { pa_path = []; pa_cattrs = [] } in
  let mo = ref [] and so = ref [] and cl = ref [] in
  let emit a b c = mo := a :: !mo; so := b :: !so; cl := c :: !cl in
  let show_entry v6 (e : rq_entry) =
    let bs = rq_bits e.e_pfx in
    Printf.sprintf "%s:%s/%d@p%d=%s%d" (if v6 then "6" else "4") (hex_of_bits bs (if v6 then 128 else 32))
      (Stdlib.List.length bs) (int_of_n e.e_mui) (if e.e_active then "A" else "W") (int_of_n e.e_attrs) in
  let section v6 tag = function
    | None -> tag ^ "-"
    | Some es -> tag ^ "[" ^ join "," (Stdlib.List.sort compare (Stdlib.List.map (show_entry v6) es)) ^ "]" in
  let show v6 = function
    | RNotMine -> "none"
    | RBad -> "400"
    | RDump -> "200:dump"
    | RJson a -> "200:" ^ section v6 "d" (Some a.a_data) ^ ":" ^ section v6 "l" a.a_less ^ ":" ^ section v6 "m" a.a_more in
  (* every state change goes through the extracted step function *)
  let advance op = st := fst (rq_step attrs reg !st op) in
  let respond step rq = match snd (step attrs reg !st (ORequest rq)) with Some r -> r | None -> failwith "request without response" in
  let do_op toks =
    let t k = Stdlib.List.nth toks k in
    let i k = int_of_string (t k) in
    match Stdlib.List.hd toks with
    | "L" | "R" -> advance (OLimits { lim_v4 = n (i 1); lim_v6 = n (i 2) }); emit "-" "-" "."
    | "P" ->
        let k = i 1 in
        let info = match t 2 with "x" -> None | "-" -> Some None | a -> Some (Some (n (int_of_string a))) in
        peers := (k, info) :: Stdlib.List.remove_assoc k !peers; emit "-" "-" "."
    | "A" ->
        let fam = i 2 in
        let (bits, len) = parse_pfx (t 3) in
        let tag = i 4 in
        (* the segments of the AS_PATH as the harness encodes them: runs of AS numbers are AS_SEQUENCE
           segments, 's' an AS_SET, 'n' ends a sequence segment (the next AS number starts a new one) *)
        let segs =
          if t 5 = "-" then [] else begin
            let out = ref [] and run = ref [] in
            let flush () = if !run <> [] then (out := SegSeq (Stdlib.List.rev !run) :: !out; run := []) in
            Stdlib.List.iter (fun h ->
                if h = "s" then (flush (); out := SegOther :: !out)
                else if h = "n" then flush ()
                else run := n (int_of_string h) :: !run) (String.split_on_char ',' (t 5));
            flush (); Stdlib.List.rev !out end in
        let path = rq_hops segs in
        let cattrs = cattrs_of_tok (t 6) in
        tbl := (tag, { pa_path = path; pa_cattrs = cattrs }) :: Stdlib.List.remove_assoc tag !tbl;
        let key = ((n fam, rq_code (take len bits)), n (i 1)) in
        advance (OUpdate (RibModel.UBulk [ { RibModel.p_key = key; RibModel.p_active = true; RibModel.p_attrs = n tag } ]));
        emit "-" "-" "."
    | "W" ->
        let fam = i 2 in
        let (bits, len) = parse_pfx (t 3) in
        let key = ((n fam, rq_code (take len bits)), n (i 1)) in
        advance (OUpdate (RibModel.UBulk [ { RibModel.p_key = key; RibModel.p_active = false; RibModel.p_attrs = n 0 } ]));
        emit "-" "-" "."
    | "D" ->
        let fam = if t 2 = "-" then None else Some (n (i 2)) in
        advance (OUpdate (RibModel.UWithdraw (n (i 1), fam))); emit "-" "-" "."
    | "Q" ->
        let v6 = t 1 = "6" in
        let (bits, len) = parse_pfx (t 2) in
        let raw = if t 3 = "-" then None else Some (bytes_of_string (t 3)) in
        let rq = { rq_v6 = v6; rq_addr = bits; rq_plen = n len; rq_raw = raw } in
        let m = show v6 (respond rq_step rq) in
        let s = show v6 (respond rq_step_spec rq) in
        let mid = show v6 (respond rq_step_mid rq) in
        let c = if m = s then "." else
            (match m <> mid, mid <> s with
             | true, true -> "MCMS" | true, false -> "MS" | false, true -> "MC" | false, false -> "?") in
        if explained && c <> "?" then emit m m "." else emit m s c
    | _ -> failwith ("bad op: " ^ join " " toks) in
  Stdlib.List.iter (fun s -> do_op (words s)) (split_on ';' line);
  let j r = join " " (Stdlib.List.rev !r) in
  if !mo = !so then j mo else j mo ^ " ||| " ^ j so ^ " ||| " ^ j cl

let run_case = run_case_with false
