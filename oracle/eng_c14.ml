(* C14 engine: runs IngressModel.step over a case line.
   Case grammar (ops separated by ';'):
     R | U idref f*8 | G idref | C idref | FP f*8 | FR f*8 | OP f*8 | OR f*8
   idref k = the k-th id handed out so far, or the unregistered id 1000000+k.
   fields: unit parent addr asn rib file name desc, '-' for None; parent is an idref. *)
open Conv
open IngressModel

let run_case (line : string) : string =
  let fresh = ref [] (* ids handed out, oldest first *) in
  let resolve k = match Stdlib.List.nth_opt !fresh k with Some id -> id | None -> 1000000 + k in
  let canon id =
    let rec go i = function [] -> "?" ^ string_of_int id | x :: r -> if x = id then "#" ^ string_of_int i else go (i + 1) r in
    go 0 !fresh in
  let info_of toks =
    match toks with
    | [u; p; a; s; rb; f; n; d] ->
        let o t = opt_of_tok (fun x -> n_of_int (int_of_string x)) t in
        { i_unit = o u; i_parent = opt_of_tok (fun x -> n_of_int (resolve (int_of_string x))) p;
          i_addr = o a; i_asn = o s; i_rib = o rb; i_file = o f; i_name = o n; i_desc = o d }
    | _ -> failwith "info: 8 fields expected" in
  let pr o = match o with None -> "-" | Some n -> string_of_int (int_of_n n) in
  let show_info i =
    join "," [pr i.i_unit; (match i.i_parent with None -> "-" | Some p -> canon (int_of_n p));
              pr i.i_addr; pr i.i_asn; pr i.i_rib; pr i.i_file; pr i.i_name; pr i.i_desc] in
  let ids l = Stdlib.List.map canon (sort_ints (Stdlib.List.map int_of_n l)) in
  let r = ref reg_new in
  let out = ref [] in
  let emit s = out := s :: !out in
  let do_op toks =
    let o = match toks with
      | ["R"] -> ORegister
      | "U" :: k :: f -> OUpdate (n_of_int (resolve (int_of_string k)), info_of f)
      | ["G"; k] -> OGet (n_of_int (resolve (int_of_string k)))
      | ["C"; k] -> OChildren (n_of_int (resolve (int_of_string k)))
      | "FP" :: f -> OFindPeer (info_of f)
      | "FR" :: f -> OFindRouter (info_of f)
      | "OP" :: f -> OForPeer (info_of f)
      | "OR" :: f -> OForRouter (info_of f)
      | _ -> failwith ("bad op: " ^ join " " toks) in
    let fr = IngressModel.fresh !r o in
    let (r', x) = step !r o in
    (match o, x with
     | ORegister, RId id ->
         let id = int_of_n id in
         if Stdlib.List.mem id !fresh then emit "r:DUP" else (fresh := !fresh @ [id]; emit ("r:" ^ canon id))
     | OUpdate _, _ -> emit "u"
     | OGet _, RInfo None -> emit "g:none"
     | OGet _, RInfo (Some i) -> emit ("g:" ^ show_info i)
     | OChildren _, RIds l -> emit ("c:[" ^ join "," (ids l) ^ "]")
     | (OFindPeer _ | OFindRouter _), RIds [] -> emit "f:none"
     | (OFindPeer _ | OFindRouter _), RIds l -> emit ("f:<" ^ join "|" (ids l) ^ ">")
     | (OForPeer q | OForRouter q), RId id ->
         (match fr with
          | Some _ ->
              let id = int_of_n id in
              if Stdlib.List.mem id !fresh then emit "o:DUP" else (fresh := !fresh @ [id]; emit ("o:" ^ canon id))
          | None ->
              let cands = match o with
                | OForPeer _ -> reg_find_peers !r q | _ -> reg_find_routers !r q in
              emit ("o:<" ^ join "|" (ids cands) ^ ">"))
     | _ -> emit "?");
    r := r' in
  Stdlib.List.iter (fun s -> do_op (words s)) (split_on ';' line);
  join " " (Stdlib.List.rev !out)
