(* C04 engine: BGP UPDATE bytes -> route events with the extracted independent decoder.
   Case grammar: PDUs separated by ';', each  <s|w><m|l> <hex>   (see harness/src/engines/c04.rs).
   Prints  model ||| spec : model = decoder in Code mode (mirrors the implementation's two
   known deviations), spec = decoder in Rfc mode (what the property demands).
   strict (s): `| ERR` or `| ok <route>*`;
   weak (w, used for the malformed stream): whole PDU in one token `| ok,route,...` or `| ERR`.
   One tolerance: routecore also parses the NLRI of families it knows but rotonda does not turn
   into routes (labelled unicast, VPN, flowspec, route target, VPLS, EVPN); the decoder keeps them
   opaque. Only when such an MP attribute with a non-empty NLRI field is present the
   implementation may refuse what the decoder accepts: `| <ERR|ok,route,...>`. *)
open Conv
open BgpModel
open C04_util

let known_unsupported = [(1, 4); (1, 128); (1, 132); (1, 133); (2, 4); (2, 128); (2, 133); (25, 65); (25, 70)]
let tolerant (u : update) : bool =
  let opaque = function
    | MpOther (a, s, raw) -> raw <> [] && Stdlib.List.mem (int_of_n a, int_of_n s) known_unsupported
    | MpPfx _ -> false in
  Stdlib.List.exists (function AReach (_, _, _, n) -> opaque n | AUnreach (_, n) -> opaque n | AGen _ -> false) u.u_attrs

let obs (m : mode) (weak : bool) (bytes : BinNums.coq_N list) : string =
  match decode m bytes with
  | None -> "| ERR"
  | Some u ->
      let toks = "ok" :: Stdlib.List.map show_ev (events u) in
      if not weak then "| " ^ join " " toks
      else if tolerant u then "| <ERR|" ^ join "," toks ^ ">"
      else "| " ^ join "," toks

let run_case (line : string) : string =
  let pdus = Stdlib.List.map words (split_on ';' line) in
  let one m = function
    | cfg :: hex :: _ -> obs m (cfg.[0] = 'w') (ns_of_hex hex)
    | _ -> failwith "pdu: <cfg> <hex> expected" in
  let model = join " " (Stdlib.List.map (one Code) pdus) in
  let spec = join " " (Stdlib.List.map (one Rfc) pdus) in
  if model = spec then model else model ^ " ||| " ^ spec
