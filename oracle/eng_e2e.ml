(* e2e engine: the expectation for a REAL rotonda pipeline driven over TCP and
   observed over HTTP (harness/src/engines/e2e.rs). The pipeline model is the
   `pipe` one: the case is handed to Eng_pipe.run_case (BGP ops, reload ops and
   a connect of a router that is connected are left out, as the engine skips
   them) and its three-part output projected: `q:` and `m:` tokens are kept,
   every other token becomes `-` (the engine sees no internal updates).
   Added here, from E2e/E2eModel.v:
   - M prints a second token n:<connected routers>,<accepted>,<lost>
     (E2eModel.uc_step; model = size of the state-machine metrics map, spec =
     accepted - lost). Where they differ the class is KC (known finding C15-4:
     a connected router is not counted before its first message).
   - `L [v]` / `H [v]` reload the configuration (with / without a new listen
     port; v selects a variant of the bmp unit's router_id_template): a reload
     does not change the pipeline model's world - sessions, register, RIB and
     counters are kept, and routers that connect afterwards are served (they
     were not before fix fde831a, finding C13-reload-drops). What a reload does
     change is the settings in force: `V k` prints under which variant's
     template router k's latest message was counted = the variant in force when
     its session last derived its router id before that message (at the accept,
     and again after every message whose outcome is a state transition or
     `other`: router_handler.rs check_update_router_id); `t:-` while the
     connection has not sent anything.
   - `G k` prints how many ingress ids router k has been given: always 1
     (find_existing_bmp_router under the unit's one ingress id: C14). *)
open Conv
open BmpModel
open PipeModel
open E2eModel

let n = n_of_int

type item =
  | Skip                    (* not part of the pipe case; prints - *)
  | Pass                    (* one pipe op, one token; q: tokens are kept *)
  | Msg of int              (* a BMP message of router k: as Pass (prints -), and the unit counters see it *)
  | Conn of int
  | Metrics of int          (* M k: m-token and n-token *)
  | Disc of int             (* X k of a connected router *)
  | Reload of int option
  | Label of int            (* V k *)
  | Ids of int              (* G k *)

let split3 (s : string) : string list * string list * string list =
  let rec go acc cur = function
    | [] -> Stdlib.List.rev (Stdlib.List.rev cur :: acc)
    | "|||" :: tl -> go (Stdlib.List.rev cur :: acc) [] tl
    | x :: tl -> go acc (x :: cur) tl in
  match go [] [] (words s) with
  | [a; b; c] -> (a, b, c)
  | _ -> failwith ("unexpected pipe output: " ^ s)

let starts p s = String.length s >= String.length p && String.sub s 0 (String.length p) = p

let run_case (line : string) : string =
  let ops = Stdlib.List.map words (split_on ';' line) in
  let ops = Stdlib.List.filter (fun o -> o <> []) ops in
  (* pass 1: what the engine does with each op, and the case the pipeline model sees *)
  let live = ref [] in
  let pipe_ops = ref [] in
  let push o = pipe_ops := o :: !pipe_ops in
  let items = Stdlib.List.map (fun toks ->
      let i k = int_of_string (Stdlib.List.nth toks k) in
      let self = join " " toks in
      match Stdlib.List.hd toks with
      | "O" | "A" | "Z" -> Skip
      | "L" | "H" -> Reload (match toks with [_; v] -> Some (int_of_string v) | _ -> None)
      | "V" -> Label (i 1)
      | "G" -> Ids (i 1)
      | "C" -> let k = i 1 in
          if Stdlib.List.mem k !live then Skip else (live := k :: !live; push self; Conn k)
      | "X" -> let k = i 1 in
          if Stdlib.List.mem k !live then (live := Stdlib.List.filter (fun x -> x <> k) !live; push self; Disc k)
          else Skip
      | "M" -> push self; Metrics (i 1)
      | "Q" -> push self; Pass
      | "I" | "T" | "S" | "U" | "D" | "R" | "E" | "B" -> push self; Msg (i 1)
      | s -> failwith ("bad op " ^ s)) ops in
  let pipe_line = join ";" (Stdlib.List.rev !pipe_ops) in
  let (pm, ps, pc) = if pipe_line = "" then ([], [], []) else split3 (Eng_pipe.run_case pipe_line) in
  let pm = ref pm and ps = ref ps and pc = ref pc in
  let next () =
    match !pm, !ps, !pc with
    | a :: ta, b :: tb, c :: tc -> pm := ta; ps := tb; pc := tc; (a, b, c)
    | _ -> failwith "pipe output too short" in
  (* pass 2 *)
  let uc = ref uc_init in
  let variant = ref 0 in
  (* live router -> (variant its session's router id is derived from, variant its latest message was counted under) *)
  let conn : (int * (int * int option)) list ref = ref [] in
  let set k v = conn := (k, v) :: Stdlib.List.remove_assoc k !conn in
  let res = ref [] in
  let emit a b c = res := (a, b, c) :: !res in
  Stdlib.List.iter (fun it ->
      match it with
      | Skip -> emit "-" "-" "."
      | Pass ->
          let (a, b, c) = next () in
          if starts "q:" a then emit a b c else emit "-" "-" "."
      | Msg k ->
          let (a, _, _) = next () in
          (match Stdlib.List.assoc_opt k !conn with
           | Some (cur, _) ->
               (* the message is counted under the router id the session has; when its outcome is a state transition
                  or `other` (Initiation, Peer Up, statistics ...) the handler then derives the id afresh from the
                  template in force (router_handler.rs process_msg -> check_update_router_id; Dumping/Updating only) *)
               let relabels = starts "t/1" a || starts "t/2" a || starts "o/1" a || starts "o/2" a in
               let cur' = if relabels then !variant else cur in
               set k (cur', Some cur)
           | None -> ());
          uc := uc_step !uc (WMsg (n k, MInit)); emit "-" "-" "."
      | Conn k -> ignore (next ()); uc := uc_step !uc (WConnect (n k)); set k (!variant, None); emit "-" "-" "."
      | Reload v -> (match v with Some v -> variant := v | None -> ()); emit "-" "-" "."
      | Label k ->
          (match Stdlib.List.assoc_opt k !conn with
           | None -> emit "-" "-" "."
           | Some (_, None) -> emit "t:-" "t:-" "."
           | Some (_, Some v) -> let t = Printf.sprintf "t:%d" v in emit t t ".")
      | Ids k -> if Stdlib.List.mem_assoc k !conn then emit "g:1" "g:1" "." else emit "-" "-" "."
      | Disc k -> ignore (next ()); uc := uc_step !uc (WDisconnect (n k)); conn := Stdlib.List.remove_assoc k !conn; emit "-" "-" "."
      | Metrics _ ->
          let (a, b, c) = next () in
          if starts "m:" a then emit a b c else emit "-" "-" ".";
          let acc = int_of_n !uc.uc_accepted and lost = int_of_n !uc.uc_lost in
          let mt = Printf.sprintf "n:%d,%d,%d" (int_of_n (uc_connected_code !uc)) acc lost in
          let st = Printf.sprintf "n:%d,%d,%d" (int_of_n (uc_connected_spec !uc)) acc lost in
          emit mt st (if mt = st then "." else "KC")) items;
  let toks = Stdlib.List.rev !res in
  let col f = join " " (Stdlib.List.map f toks) in
  col (fun (a, _, _) -> a) ^ " ||| " ^ col (fun (_, b, _) -> b) ^ " ||| " ^ col (fun (_, _, c) -> c)
