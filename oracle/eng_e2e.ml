(* e2e engine: the expectation for a REAL rotonda pipeline driven over TCP and
   observed over HTTP (harness/src/engines/e2e.rs). The pipeline model is the
   `pipe` one: the case is handed to Eng_pipe.run_case (BGP ops, reload ops and
   a connect of a router that is connected are left out, as the engine skips
   them) and its three-part output projected: `q:` and `m:` tokens are kept,
   every other token becomes `-` (the engine sees no internal updates).
   Added here, from E2e/E2eModel.v:
   - M prints a second token n:<connected routers>,<accepted>,<lost>
     (E2eModel.uc_step; model = size of the state-machine metrics map, spec =
     accepted - lost). Where they differ the class is KC (known finding C15-4:
     a connected router is not counted before its first message).
   - `L [v]` / `H [v]` reload the configuration (with / without a new listen
     port; v selects a variant of the bmp unit's router_id_template): a reload
     does not change the pipeline model's world - sessions, register, RIB and
     counters are kept, and routers that connect afterwards are served (they
     were not before fix fde831a, finding C13-reload-drops). What a reload does
     change is the settings in force: `V k` prints under which variant's
     template router k's latest message was counted = the variant in force when
     its session last derived its router id before that message (at the accept,
     and again after every message whose outcome is a state transition or
     `other`: router_handler.rs check_update_router_id); `t:-` while the
     connection has not sent anything.
   - `G k` prints how many ingress ids router k has been given: always 1
     (find_existing_bmp_router under the unit's one ingress id: C14).
   - Roto script (E2eModel.e_step, extracted): `F s` as first op = the start-up
     configuration names script s; `W s [1]` = the operator edits the script
     (0: takes roto_script out; 1..8: rib-in-pre rejects prefix 10.<s>.0.0/16;
     9: a script without rib-in-pre; 10+r / 20+r: bmp-in rejects the messages
     of the peers of AS 65002 / 65003, bgp-in the UPDATEs of the speaker of AS
     65101 / 65100, rib-in-pre as variant r - E2eIngress.v: the ingress unit
     holds the filters of the script named by the load that STARTED it, a
     rejected message is not delivered: no operation of the model); `Y y` = [units.rib2] absent / a rib / a
     unit of another type; both take effect with the next H / L. `P af p` = the
     query asked of rib2 (`p:-` when no rib answers there). In a case with such
     ops every `q:` / `p:` token comes from E2eModel: a RIB unit filters with
     the script named by the load that started it, keeps filter and store over
     reloads, a unit started by a reload starts empty; model = RibModel under
     the unit's filter, spec = the ideal RIB by wire identity under the same
     filter (classes K2 / K3 as in eng_pipe). In a case without them the `q:`
     tokens are eng_pipe's, as before (C10_no_filter_is_pipeline_model).
   - Generated vRIBs (E2eModel.es_vribs, vrib_query_code / vrib_query_spec): `K n` = the operator asks for a shorthand
     RIB with n generated vRIBs (among the leading F / K ops: the start-up configuration; later: effective with the
     next H / L); `N i af p` = the prefix query asked of vRIB i (GET /prefixes/<i>/<prefix>): `v:-` where no vRIB
     answers, `v:<entries>` = what the physical RIB holds for the prefix unless a filter of the chain rejects it (spec),
     `v:STALL` where the code never answers (model: the physical RIB holds a record of the prefix -
     reprocess_rib_value is todo!(): class KV, known finding C13-vrib-query-todo). The engine ends the case at a
     request that is never answered: every later token of the model is `x` (class KV).
   - Ingress units removed and added by reloads (E2eModel.i_step, extracted): a case with `J` / `JL` ops has a second ingress
     unit bmp-in2 from the start (routers 0..3 connect to bmp-in, 4..7 to bmp-in2; every RIB unit sources both). `J 0` / `J 1` =
     the operator takes [units.bmp-in] out of the configuration / puts it back; effective with the next H / L: the manager
     terminates the running unit - every connection of it ends as a lost connection ends (WithdrawBulk of the ids registered
     under that router; the RIB units keep answering, nothing of bmp-in2 moves) - or starts a NEW unit, which registers an
     ingress id of its own: a router that connects to it is looked up under another parent and is a new source, named
     k<8*g + k> (g = bmp-in units started before it). `JL u` = GET of the router list of unit u: `r:<connected routers>`,
     `r:-` when the unit does not run (404). `G k` then counts the ids address k has been given over all incarnations.
     `C k` while bmp-in does not run is skipped. The expectation of such a case comes from E2eModel alone (eng_pipe is not
     asked); `M` prints `- -`.
   - A second connection of a connected router (E2eModel.d_step, extracted): `C2 k` = router k connects again while its first
     connection is open (which stays open, silent): the accept loop finds the id the register holds for (unit, address) - `G k`
     stays 1, `RL` (routers listed) stays - and replaces the entries of that id by the new session's; `X2 k` = the old connection
     ends at last: its task withdraws ids_for_parent(router id) - the peers of the NEW session - and removes the entries of the id:
     model = routes of the live session withdrawn, router not listed (known finding C14-old-task-removes-new-session, class KD),
     spec = only the routes the new session has not announced itself are withdrawn, the router is listed. The expectation of such
     a case comes from E2eModel alone; `M` prints `- -`.
   - A bgp-tcp-in unit (E2eModel.b_step, extracted): a case with B? ops has a unit `bgp-in` that the RIB units source too.
     `BO k` = a speaker of address k connects and sends OPEN: `o:<my_asn>,<hold time>` of the configuration the unit holds NOW
     when that configuration has a peer entry for k (the session gets an ingress id of its own), `o:-` otherwise; `BA` = an
     UPDATE; `BZ` = the speaker closes: Withdraw of exactly that session's id; `BP k v` / `BS a` = the operator edits the peer
     entry of k / my_asn; H / L print `x:<sessions the load ends>` = the sessions accepted with another my_asn or another (or
     no) entry; `BM` = `n:<accepted>,<lost>,<disconnects>`. Entries of BGP sessions are named b<k>c<n>, n = the sessions of
     address k numbered in the order in which the answers have shown them. A session that a load ends sends its Withdraw while
     the gate's subscription table is being replaced: heard or not is a race (known finding C13-bgp-reload-end-unheard, class
     KU): the model token lists both outcomes per such session, the spec says withdrawn. *)
open Conv
open BmpModel
open PipeModel
open E2eModel
open E2eIngress

let n = n_of_int

type item =
  | Skip                    (* not part of the pipe case; prints - *)
  | Pass                    (* one pipe op, one token; q: tokens are kept *)
  | Query of string list    (* Q af p *)
  | Query2 of string list   (* P af p: the same asked of rib2 *)
  | Rejected of int         (* a BMP message that the bmp-in filter of its unit rejects: never delivered to the state machine *)
  | Msg of int * string list (* a BMP message of router k: as Pass (prints -), and the unit counters see it *)
  | Script of int           (* W s [1] *)
  | Unit2 of int            (* Y y *)
  | Vribs of int            (* K n *)
  | Ingress of bool         (* J j *)
  | Listed of int           (* JL u *)
  | QueryV of string list   (* N i af p: the query asked of generated vRIB i *)
  | Conn of int
  | Metrics of int          (* M k: m-token and n-token *)
  | Disc of int             (* X k of a connected router *)
  | Reload of int option
  | Label of int            (* V k *)
  | Ids of int              (* G k *)
  | Second of int | OldEnds of int | ListedD
  | BOpenI of int | BUpdI of string list | BCloseI of int | BPeerI of int * int | BAsnI of int | BMetricsI

let split3 (s : string) : string list * string list * string list =
  let rec go acc cur = function
    | [] -> Stdlib.List.rev (Stdlib.List.rev cur :: acc)
    | "|||" :: tl -> go (Stdlib.List.rev cur :: acc) [] tl
    | x :: tl -> go acc (x :: cur) tl in
  match go [] [] (words s) with
  | [a; b; c] -> (a, b, c)
  | _ -> failwith ("unexpected pipe output: " ^ s)

let starts p s = String.length s >= String.length p && String.sub s 0 (String.length p) = p

(* the scripts harness/src/engines/e2e.rs writes *)
let script_of (s : int) : script =
  if s = 0 then SNone
  else if s >= 10 then (let r = s mod 10 in if r = 0 || r = 9 then SNoRibFilter else SRejectPfx (Eng_pipe.pid 0 r))
  else if s = 9 then SNoRibFilter else SRejectPfx (Eng_pipe.pid 0 s)
(* ... their bmp-in / bgp-in slots (E2eIngress.ifilters): variants 10..19 / 20..29 *)
let ifilters_of (s : int) : ifilters =
  match s / 10 with
  | 1 -> { if_bmp = Some (n 65002); if_bgp = Some (n 65101) }
  | 2 -> { if_bmp = Some (n 65003); if_bgp = Some (n 65100) }
  | _ -> { if_bmp = None; if_bgp = None }

(* the BMP ops as operations of the pipeline model (as eng_pipe reads them) *)
let wop_of toks : wop =
  let i k = int_of_string (Stdlib.List.nth toks k) in
  let t k = Stdlib.List.nth toks k in
  let upd off = URoutes (n (i off), Eng_pipe.plist (i off) (t (off + 2)), n (i (off + 1)), n (i (off + 3)), Eng_pipe.plist (i (off + 3)) (t (off + 4))) in
  match Stdlib.List.hd toks with
  | "C" -> WConnect (n (i 1))
  | "I" -> WMsg (n (i 1), MInit)
  | "T" -> WMsg (n (i 1), MTerm)
  | "S" -> WMsg (n (i 1), MStats (Eng_pipe.pph_of (i 2)))
  | "U" -> WMsg (n (i 1), MPeerUp (Eng_pipe.pph_of (i 2), i 3 = 1))
  | "D" -> WMsg (n (i 1), MPeerDown (Eng_pipe.pph_of (i 2)))
  | "R" -> WMsg (n (i 1), MRoute (Eng_pipe.pph_of (i 2), Some (upd 3)))
  | "E" -> WMsg (n (i 1), MRoute (Eng_pipe.pph_of (i 2), Some (UEor (n (i 3)))))
  | "B" -> WMsg (n (i 1), MRoute (Eng_pipe.pph_of (i 2), None))
  | "X" -> WDisconnect (n (i 1))
  | s -> failwith ("bad op " ^ s)

(* one query of one RIB unit: model / spec / class tokens (the classification of eng_pipe: a difference is K2 when
   the wire identity shares its ingress id, K3 when the sticky session-wide marker explains it, else unexplained) *)
let answer tag ids (hist : RibModel.update list) (rb : RibModel.rib) (sw : sworld) af pfx =
  let ml = Stdlib.List.sort compare (Stdlib.List.map Eng_pipe.entry_tok (expand ids (RibModel.rib_query rb af pfx))) in
  let sl = Stdlib.List.sort compare (Stdlib.List.map Eng_pipe.entry_tok (ideal_query sw.s_rib af pfx)) in
  let mt = tag ^ ":" ^ join "," ml and st = tag ^ ":" ^ join "," sl in
  if mt = st then (mt, st, ".")
  else begin
    let wid_of_tok s = Stdlib.List.hd (String.split_on_char '=' s) in
    let diff = Eng_pipe.uniq (Stdlib.List.map wid_of_tok
                                (Stdlib.List.filter (fun x -> not (Stdlib.List.mem x sl)) ml
                                 @ Stdlib.List.filter (fun x -> not (Stdlib.List.mem x ml)) sl)) in
    let evs = RibModel.evs_of hist in
    let k2 = ref false and k3 = ref false and unk = ref false in
    Stdlib.List.iter (fun name ->
        match Stdlib.List.find_opt (fun (x, _) -> Eng_pipe.wid_name x = name) ids with
        | None -> unk := true
        | Some (x, id) ->
            if shares_id ids x then k2 := true
            else if RibModel.known_c03 evs ((af, pfx), id) || RibModel.known_c03 evs ((BinNat.N.add af (n 2), pfx), id) then k3 := true
            else unk := true) diff;
    (mt, st, if !unk then "?" else (if !k2 then "K2" else "") ^ (if !k3 then "K3" else ""))
  end

let run_case (line : string) : string =
  let ops = Stdlib.List.map words (split_on ';' line) in
  let ops = Stdlib.List.filter (fun o -> o <> []) ops in
  let ingress = Stdlib.List.exists (fun o -> Stdlib.List.mem (Stdlib.List.hd o) ["J"; "JL"]) ops in
  let bgp = Stdlib.List.exists (fun o -> Stdlib.List.mem (Stdlib.List.hd o) ["BO"; "BA"; "BZ"; "BP"; "BS"; "BM"]) ops in
  let dup = Stdlib.List.exists (fun o -> Stdlib.List.mem (Stdlib.List.hd o) ["C2"; "X2"; "RL"]) ops in
  let scripted = ingress || bgp || dup || Stdlib.List.exists (fun o -> Stdlib.List.mem (Stdlib.List.hd o) ["F"; "FH"; "W"; "Y"; "P"; "K"; "N"]) ops in
  let startup = match ops with ("F" :: s :: _) :: _ -> int_of_string s | _ -> 0 in
  (* the leading F / K ops describe the start-up configuration (F only as the first op) *)
  let max_vribs = 3 in
  let startup_vribs =
    let rec go i n = function
      | ("F" :: _) :: tl when i = 0 -> go 1 n tl
      | ("FH" :: _) :: tl -> go (i + 1) n tl
      | ("K" :: k :: _) :: tl -> go (i + 1) (min max_vribs (int_of_string k)) tl
      | _ -> n in
    go 0 0 ops in
  (* pass 1: what the engine does with each op, and the case the pipeline model sees *)
  let live = ref [] in
  let parked = ref [] in
  (* bmp-in: in the file / running (pass 1 follows the reloads to know which connections exist) *)
  let want1 = ref true and run1 = ref true in
  let pipe_ops = ref [] in
  let push o = pipe_ops := o :: !pipe_ops in
  let items = Stdlib.List.map (fun toks ->
      let i k = int_of_string (Stdlib.List.nth toks k) in
      let self = join " " toks in
      match Stdlib.List.hd toks with
      (* FH: the next load happens while something else holds the compiled script's mutex - whoever holds it, every
         unit ends up with the filter of its script (Filter/FilterFetch.v): nothing changes in the model *)
      | "O" | "A" | "Z" | "F" | "FH" -> Skip
      | "W" -> Script (i 1)
      | "Y" -> Unit2 (i 1)
      | "K" -> Vribs (min max_vribs (i 1))
      | "J" -> want1 := (i 1 <> 0); Ingress (i 1 <> 0)
      | "JL" -> Listed (min 1 (i 1))
      | "N" -> QueryV toks
      | "P" -> Query2 toks
      | "L" | "H" ->
          if !run1 && not !want1 then live := Stdlib.List.filter (fun k -> k >= 4) !live;
          run1 := !want1;
          Reload (match toks with [_; v] -> Some (int_of_string v) | _ -> None)
      | "V" -> Label (i 1)
      | "G" -> Ids (i 1)
      | "C" -> let k = i 1 in
          if Stdlib.List.mem k !live || (ingress && k < 4 && not !run1) then Skip else (live := k :: !live; push self; Conn k)
      | "C2" -> let k = i 1 in
          if Stdlib.List.mem k !live then (if Stdlib.List.mem k !parked then Skip else (parked := k :: !parked; Second k))
          else (live := k :: !live; push ("C " ^ string_of_int k); Conn k)
      | "X2" -> let k = i 1 in
          if Stdlib.List.mem k !parked then (parked := Stdlib.List.filter (fun x -> x <> k) !parked; OldEnds k) else Skip
      | "RL" -> ListedD
      | "X" -> let k = i 1 in
          if Stdlib.List.mem k !live then (live := Stdlib.List.filter (fun x -> x <> k) !live; push self; Disc k)
          else Skip
      | "M" -> push self; Metrics (i 1)
      | "Q" -> push self; Query toks
      | "I" | "T" | "S" | "U" | "D" | "R" | "E" | "B" ->
          (* without a bmp-in unit that a reload starts, the unit holds the start-up script's filter throughout
             (E2eIngress.ingress_units_keep_startup_filter); a rejected message is not part of the pipeline's history
             (E2eIngress.filtered_run_is_run_of_survivors) *)
          if not ingress && bmp_in_rejects (ifilters_of startup) (wop_of toks) then Rejected (i 1)
          else (push self; Msg (i 1, toks))
      | "BO" -> BOpenI (min 4 (i 1))
      | "BA" -> BUpdI toks
      | "BZ" -> BCloseI (min 4 (i 1))
      | "BP" -> BPeerI (min 4 (i 1), min 2 (i 2))
      | "BS" -> BAsnI (min 1 (i 1))
      | "BM" -> BMetricsI
      | s -> failwith ("bad op " ^ s)) ops in
  let ingress_or_dup = ingress || dup in
  let pipe_line = if ingress_or_dup then "" else join ";" (Stdlib.List.rev !pipe_ops) in
  let (pm, ps, pc) = if pipe_line = "" then ([], [], []) else split3 (Eng_pipe.run_case pipe_line) in
  let pm = ref pm and ps = ref ps and pc = ref pc in
  let next () =
    if ingress_or_dup then ("-", "-", ".") else
    match !pm, !ps, !pc with
    | a :: ta, b :: tb, c :: tc -> pm := ta; ps := tb; pc := tc; (a, b, c)
    | _ -> failwith "pipe output too short" in
  (* pass 2 *)
  let uc = ref uc_init in
  let variant = ref 0 in
  (* live router -> (variant its session's router id is derived from, variant its latest message was counted under) *)
  let conn : (int * (int * int option)) list ref = ref [] in
  let set k v = conn := (k, v) :: Stdlib.List.remove_assoc k !conn in
  let res = ref [] in
  (* after a request that the code never answers the engine ends the case: the model says `x` from then on *)
  let ended = ref false in
  let bgp_ended : int list ref = ref [] in
  let emit a b c = res := (if !ended then ("x", b, "KV") else (a, b, c)) :: !res in
  (* the pipeline with its script and RIB units (E2eModel), stepped along in a case that uses them *)
  let ist = ref (i_init (script_of startup) (n startup_vribs)) in
  let est = ref (if ingress then !ist.is_e else e_init_v (script_of startup) (n startup_vribs)) in
  (* what the ingress units hold of the scripts (E2eIngress.ing; g_step / j_step are followed op by op below) *)
  let ig = ref (ing_init (ifilters_of startup)) in
  let hist1 : RibModel.update list ref = ref [] and hist2 : RibModel.update list ref = ref [] in
  (* the update a world operation makes the ingress unit send, as each RIB unit takes it (for the classification) *)
  let record (wo : wop) =
    match upd_of (snd (wstep !est.es_w wo)) with
    | Some u ->
        hist1 := !hist1 @ [filter_update !est.es_rib.ru_filter u];
        (match !est.es_rib2 with Some r -> hist2 := !hist2 @ [filter_update r.ru_filter u] | None -> ())
    | None -> () in
  let born r = match r with Some r -> Some r.ru_born | None -> None in
  (* BGP cases: the pipeline with its bgp unit, on the schedule in which every session that a load ends is heard (ba) and on the
     one in which none is (bn) *)
  let ba = ref (b_init (script_of startup) (n startup_vribs)) in
  let bn = ref !ba in
  let bstep_both (oa : bop) (on : bop) =
    let before = born !est.es_rib2 in
    ba := b_step !ba oa; bn := b_step !bn on;
    est := !ba.bs_e;
    if born !est.es_rib2 <> before then hist2 := [] in
  (* the sessions of an address are numbered in the order in which the answers have shown them: separately for what the code's
     model shows and for what the property's reading shows *)
  let seen_m : (int * int list) list ref = ref [] and seen_s : (int * int list) list ref = ref [] in
  let rename seen (tok : string) : string =
    match String.index_opt tok ':' with
    | None -> tok
    | Some ci ->
        let tag = String.sub tok 0 (ci + 1) and body = String.sub tok (ci + 1) (String.length tok - ci - 1) in
        if body = "" || body = "-" then tok else begin
          let es = String.split_on_char ',' body in
          let parse e =
            (* b<k>c<c>=... *)
            if String.length e > 1 && e.[0] = 'b' then
              (match String.index_opt e 'c', String.index_opt e '=' with
               | Some a, Some b when a < b ->
                   (try Some (int_of_string (String.sub e 1 (a - 1)), int_of_string (String.sub e (a + 1) (b - a - 1)), String.sub e b (String.length e - b))
                    with _ -> None)
               | _ -> None)
            else None in
          let fresh = Stdlib.List.sort compare (Stdlib.List.filter_map (fun e -> match parse e with Some (k, c, _) -> Some (k, c) | None -> None) es) in
          Stdlib.List.iter (fun (k, c) ->
              let l = (match Stdlib.List.assoc_opt k !seen with Some l -> l | None -> []) in
              if not (Stdlib.List.mem c l) then seen := (k, l @ [c]) :: Stdlib.List.remove_assoc k !seen) fresh;
          let idx k c = let l = Stdlib.List.assoc k !seen in
            let rec go i = function [] -> -1 | x :: tl -> if x = c then i else go (i + 1) tl in go 0 l in
          let es' = Stdlib.List.map (fun e -> match parse e with Some (k, c, rest) -> Printf.sprintf "b%dc%d%s" k (idx k c) rest | None -> e) es in
          tag ^ join "," (Stdlib.List.sort compare es')
        end in
  let dst = ref (d_init (script_of startup) (n startup_vribs)) in
  let ghost_ever = ref false in
  let dstep (o : dop) =
    let before = born !est.es_rib2 in
    dst := d_step !dst o; est := !dst.ds_e;
    if born !est.es_rib2 <> before then hist2 := [] in
  let estep (o : eop) =
    if dup then begin
      (match o with
       | EW (WConnect k) -> if d_rid !dst k = None then record (WConnect k)
       | EW wo -> record wo
       | _ -> ());
      dstep (DE o)
    end else if bgp then begin
      (match o with EW wo -> record wo | _ -> ());
      (match o with
       | EReload -> bstep_both (BReload []) (BReload bgp_addrs)
       | _ -> bstep_both (BE o) (BE o))
    end else if ingress then begin
      (match o with
       | EW wo -> record (wop_rekey (src_key !ist.is_gen) wo)
       | EReload -> Stdlib.List.iter (fun x -> match x with EW wo -> record wo | _ -> ()) (i_removal_ops !ist)
       | _ -> ());
      let before = born !est.es_rib2 in
      ist := i_step false !ist (IE o);
      est := !ist.is_e;
      if born !est.es_rib2 <> before then hist2 := []
    end else if scripted then begin
      (match o with EW wo -> record wo | _ -> ());
      let before = born !est.es_rib2 in
      est := e_step false !est o;
      if born !est.es_rib2 <> before then hist2 := []
    end in
  (* the kind of outcome of a BMP message, as eng_pipe names it (ingress cases: from the model's own step) *)
  let outcome_tok (wo : wop) : string =
    match snd (wstep !est.es_w (wop_rekey (src_key !ist.is_gen) wo)) with
    | WoStep (o, ph) ->
        let base = (match o with OInvalid -> "i" | OOther -> "o" | OTransition -> "t" | OUpdate _ -> "u") in
        if int_of_n ph = 9 then base else Printf.sprintf "%s/%d" base (int_of_n ph)
    | _ -> "-" in
  (* router address -> the different ingress ids it has been given (ingress cases) *)
  let given : (int * BinNums.coq_N list) list ref = ref [] in
  let ask tag toks (unit : (runit * sworld * RibModel.update list) option) =
    let af = n (int_of_string (Stdlib.List.nth toks 1)) in
    let pfx = Eng_pipe.pid (int_of_string (Stdlib.List.nth toks 1)) (int_of_string (Stdlib.List.nth toks 2)) in
    match unit with
    | None -> let t = tag ^ ":-" in emit t t "."
    | Some (r, sw, hist) ->
        let (a, b, c) = answer tag !est.es_w.w_ids hist r.ru_rib sw af pfx in
        let c = if dup && !ghost_ever && a <> b then (if c = "?" || c = "K3" then "KD" else c ^ "KD") else c in
        if not bgp then emit a b c else begin
          (* the same unit on the schedule in which no ended session was heard *)
          let rn = (if tag = "p" then (match !bn.bs_e.es_rib2 with Some r -> r | None -> r) else !bn.bs_e.es_rib) in
          let (an, _, _) = answer tag !est.es_w.w_ids hist rn.ru_rib sw af pfx in
          let save = !seen_m in
          let a' = rename seen_m a in
          seen_m := save;
          let an' = rename seen_m an in
          let b' = rename seen_s b in
          if a' = an' then emit a' b' c
          else begin
            let body t = String.sub t (String.length tag + 1) (String.length t - String.length tag - 1) in
            let la = String.split_on_char ',' (body a') and ln = String.split_on_char ',' (body an') in
            if Stdlib.List.length la <> Stdlib.List.length ln then emit a' b' "?" else begin
              let combos = Stdlib.List.fold_left2 (fun acc x y ->
                  if x = y then Stdlib.List.map (fun l -> l @ [x]) acc
                  else Stdlib.List.concat_map (fun l -> [l @ [x]; l @ [y]]) acc) [[]] la ln in
              let alts = Stdlib.List.map (fun l -> tag ^ ":" ^ join "," (Stdlib.List.sort compare l)) combos in
              emit ("<" ^ join "|" alts ^ ">") b' (if c = "." then "KU" else c ^ "KU")
            end
          end
        end in
  Stdlib.List.iter (fun it ->
      match it with
      | Skip -> emit "-" "-" "."
      | Pass ->
          let (a, b, c) = next () in
          if starts "q:" a then emit a b c else emit "-" "-" "."
      | Query toks ->
          let (a, b, c) = next () in
          if scripted then ask "q" toks (Some (!est.es_rib, !est.es_s, !hist1))
          else if starts "q:" a then emit a b c else emit "-" "-" "."
      | Query2 toks ->
          ask "p" toks (match !est.es_rib2, !est.es_s2 with Some r, Some sw -> Some (r, sw, !hist2) | _, _ -> None)
      | QueryV toks ->
          let i = int_of_string (Stdlib.List.nth toks 1) in
          let af = int_of_string (Stdlib.List.nth toks 2) and p = int_of_string (Stdlib.List.nth toks 3) in
          let afn = n af and pfx = Eng_pipe.pid af p in
          let code = vrib_query_code !est (nat_of_int i) afn pfx in
          (match code with
           | VAbsent -> emit "v:-" "v:-" "."
           | _ ->
               (* the physical RIB's own answer (model / spec / class as for Q), then the chain *)
               let (pm, ps, pc) = answer "v" !est.es_w.w_ids !hist1 !est.es_rib.ru_rib !est.es_s afn pfx in
               let st = if chain_rejects !est.es_vribs (nat_of_int i) pfx then "v:" else ps in
               (match code with
                | VNever -> emit "v:STALL" st "KV"; ended := true
                | _ ->
                    (* the code answers only when the physical RIB has nothing: pm = "v:" *)
                    let mt = if pm = "v:" then "v:" else "v:?" in
                    emit mt st (if mt = st then "." else if pc = "." then "?" else pc)))
      | Vribs k -> estep (EVribs (n k)); emit "-" "-" "."
      | Ingress b -> ist := i_step false !ist (IIngress b); emit "-" "-" "."
      | Listed u ->
          let t = (match i_listed !ist (n u) with Some c -> Printf.sprintf "r:%d" (int_of_n c) | None -> "r:-") in
          emit t t "."
      | Script s -> estep (EScript (script_of s)); ig := ing_edit !ig (ifilters_of s); emit "-" "-" "."
      | Unit2 y -> estep (EUnit (n y)); emit "-" "-" "."
      | Rejected k ->
          (* counted as received under the router id the session has (message_received comes before the filter), nothing else *)
          (match Stdlib.List.assoc_opt k !conn with Some (cur, _) -> set k (cur, Some cur) | None -> ());
          emit "-" "-" "."
      | Msg (k, toks) when ingress && bmp_in_rejects (j_filter !ig (n k)) (wop_of toks) ->
          (match Stdlib.List.assoc_opt k !conn with Some (cur, _) -> set k (cur, Some cur) | None -> ());
          emit "-" "-" "."
      | Msg (k, toks) ->
          let a_ing = if ingress_or_dup then outcome_tok (wop_of toks) else "-" in
          estep (EW (wop_of toks));
          let (a, _, _) = next () in
          let a = if ingress_or_dup then a_ing else a in
          (match Stdlib.List.assoc_opt k !conn with
           | Some (cur, _) ->
               (* the message is counted under the router id the session has; when its outcome is a state transition
                  or `other` (Initiation, Peer Up, statistics ...) the handler then derives the id afresh from the
                  template in force (router_handler.rs process_msg -> check_update_router_id; Dumping/Updating only) *)
               let relabels = starts "t/1" a || starts "t/2" a || starts "o/1" a || starts "o/2" a in
               let cur' = if relabels then !variant else cur in
               set k (cur', Some cur)
           | None -> ());
          uc := uc_step !uc (WMsg (n k, MInit)); emit "-" "-" "."
      | Conn k ->
          ignore (next ()); estep (EW (WConnect (n k))); uc := uc_step !uc (WConnect (n k)); set k (!variant, None);
          (if dup then match d_rid !dst (n k) with
             | Some rid ->
                 let old = (match Stdlib.List.assoc_opt k !given with Some l -> l | None -> []) in
                 if not (Stdlib.List.mem rid old) then given := (k, rid :: old) :: Stdlib.List.remove_assoc k !given
             | None -> ());
          (if ingress then match i_rid !ist (n k) with
             | Some rid ->
                 let old = (match Stdlib.List.assoc_opt k !given with Some l -> l | None -> []) in
                 if not (Stdlib.List.mem rid old) then given := (k, rid :: old) :: Stdlib.List.remove_assoc k !given
             | None -> ());
          emit "-" "-" "."
      | Reload v ->
          (match v with Some v -> variant := v | None -> ());
          let ran = !ist.is_run in
          let keys st = Stdlib.List.sort compare (Stdlib.List.map int_of_n (b_live st)) in
          let before = keys !ba in
          (if bgp then Stdlib.List.iter (fun k -> record (WBgpClose (n k))) (Stdlib.List.map int_of_n (b_ended !ba.bs_file !ba.bs_sess)));
          ig := ing_reload (ingress && i_starts !ist (IE EReload) = Some true) !ig;
          estep EReload;
          bgp_ended := Stdlib.List.filter (fun k -> not (Stdlib.List.mem k (keys !ba))) before;
          (* the connections of a unit that was terminated are gone *)
          if ingress && ran && not !ist.is_run then conn := Stdlib.List.filter (fun (k, _) -> k >= 4) !conn;
          if bgp then begin
            (* (estep has run the load) the sessions it ended: they were there before and are not any more *)
            let t = "x:" ^ join "," (Stdlib.List.map string_of_int !bgp_ended) in
            emit t t "."
          end else
          emit "-" "-" "."
      | Label k ->
          (match Stdlib.List.assoc_opt k !conn with
           | None -> emit "-" "-" "."
           | Some (_, None) -> emit "t:-" "t:-" "."
           | Some (_, Some v) -> let t = Printf.sprintf "t:%d" v in emit t t ".")
      | Ids k ->
          if not (Stdlib.List.mem_assoc k !conn) then emit "-" "-" "."
          else if ingress_or_dup then begin
            let t = Printf.sprintf "g:%d" (match Stdlib.List.assoc_opt k !given with Some l -> Stdlib.List.length l | None -> 0) in
            emit t t "."
          end else emit "g:1" "g:1" "."
      | Disc k -> ignore (next ()); estep (EW (WDisconnect (n k))); uc := uc_step !uc (WDisconnect (n k)); conn := Stdlib.List.remove_assoc k !conn; emit "-" "-" "."
      | BOpenI k ->
          let live = (b_sess_of !ba (n k) <> None) in
          if live then emit "-" "-" "."
          else begin
            record (WBgpOpen (n k));
            bstep_both (BOpen (n k)) (BOpen (n k));
            let t = (match b_sess_of !ba (n k) with
                     | Some (a, v) -> Printf.sprintf "o:%d,%d" (int_of_n a) (match int_of_n v with 1 -> 90 | 2 -> 120 | _ -> 0)
                     | None -> "o:-") in
            emit t t "."
          end
      | BUpdI toks ->
          let k = min 4 (int_of_string (Stdlib.List.nth toks 1)) in
          let a = int_of_string (Stdlib.List.nth toks 2) in
          let u = URoutes (n 0, Eng_pipe.plist 0 (Stdlib.List.nth toks 3), n a, n 0, Eng_pipe.plist 0 (Stdlib.List.nth toks 4)) in
          (* E2eIngress.g_step: an UPDATE that the unit's bgp-in filter rejects is no operation *)
          if bgp_in_rejects (fst !ig.ig_bgp) (n k) then emit "-" "-" "." else begin
            if b_sess_of !ba (n k) <> None then record (WBgpUpdate (n k, Some u));
            bstep_both (BUpd (n k, u)) (BUpd (n k, u));
            emit "-" "-" "."
          end
      | BCloseI k ->
          if b_sess_of !ba (n k) <> None then record (WBgpClose (n k));
          bstep_both (BClose (n k)) (BClose (n k));
          emit "-" "-" "."
      | BPeerI (k, v) ->
          let o = BPeer (n k, if v = 0 then None else Some (n v)) in
          bstep_both o o; emit "-" "-" "."
      | BAsnI a -> bstep_both (BAsn (n a)) (BAsn (n a)); emit "-" "-" "."
      | BMetricsI ->
          let t = Printf.sprintf "n:%d,%d,%d" (int_of_n !ba.bs_accepted) (int_of_n !ba.bs_lost) (int_of_n !ba.bs_disc) in
          emit t t "."
      | Second k ->
          dstep (DSecond (n k)); set k (!variant, None);
          (match d_rid !dst (n k) with
           | Some rid ->
               let old = (match Stdlib.List.assoc_opt k !given with Some l -> l | None -> []) in
               if not (Stdlib.List.mem rid old) then given := (k, rid :: old) :: Stdlib.List.remove_assoc k !given
           | None -> ());
          emit "-" "-" "."
      | OldEnds k ->
          (match d_old !dst (n k) with
           | Some rid ->
               let u = RibModel.UWithdrawBulk (IngressModel.reg_ids_for_parent !est.es_w.w_reg rid) in
               hist1 := !hist1 @ [u];
               (match !est.es_rib2 with Some _ -> hist2 := !hist2 @ [u] | None -> ());
               if d_rid !dst (n k) <> None then ghost_ever := true
           | None -> ());
          dstep (DOldEnds (n k));
          emit "-" "-" "."
      | ListedD ->
          let a = Printf.sprintf "r:%d" (int_of_n (d_listed_code !dst)) and b = Printf.sprintf "r:%d" (int_of_n (d_listed_spec !dst)) in
          emit a b (if a = b then "." else "KD")
      | Metrics _ when ingress_or_dup -> emit "-" "-" "."; emit "-" "-" "."
      | Metrics _ ->
          let (a, b, c) = next () in
          if starts "m:" a then emit a b c else emit "-" "-" ".";
          let acc = int_of_n !uc.uc_accepted and lost = int_of_n !uc.uc_lost in
          let mt = Printf.sprintf "n:%d,%d,%d" (int_of_n (uc_connected_code !uc)) acc lost in
          let st = Printf.sprintf "n:%d,%d,%d" (int_of_n (uc_connected_spec !uc)) acc lost in
          emit mt st (if mt = st then "." else "KC")) items;
  let toks = Stdlib.List.rev !res in
  let col f = join " " (Stdlib.List.map f toks) in
  col (fun (a, _, _) -> a) ^ " ||| " ^ col (fun (_, b, _) -> b) ^ " ||| " ^ col (fun (_, _, c) -> c)
