(* e2e engine: the expectation for a REAL rotonda pipeline driven over TCP and
   observed over HTTP (harness/src/engines/e2e.rs). The pipeline model is the
   `pipe` one: the case is handed to Eng_pipe.run_case (BGP ops, re-listen ops
   and a connect of a router that is connected are left out, as the engine skips
   them) and its three-part output projected: `q:` and `m:` tokens are kept,
   every other token becomes `-` (the engine sees no internal updates).
   Added here, from E2e/E2eModel.v:
   - M prints a second token n:<connected routers>,<accepted>,<lost>
     (E2eModel.uc_step; model = size of the metrics map, spec = live connections);
   - the m: token of a router that came back continues from what its lost
     sessions left behind (E2eModel.mx_code / mx_spec / mx_dumping_options).
   Where model and spec differ for these reasons the class is KC (known finding
   C15-4: state-machine metrics of a lost session are never dropped).
   - `L` / `H` reload the configuration (with / without a new listen port). The
     code drops every connection made after a reload (E2eModel.uc_dropped, known
     finding C01-2): the model is the pipeline model of the case without those
     connections, the spec the one with them; tokens that differ for that
     reason have class KR. *)
open Conv
open BmpModel
open PipeModel
open E2eModel

let n = n_of_int

type item =
  | Skip                    (* not part of the pipe case; prints - *)
  | Pass                    (* one pipe op, one token *)
  | Init of int             (* I k: as Pass, and the unit counters see it *)
  | Conn of int
  | Dropped of int          (* C k after a reload: accepted and lost at once, no session *)
  | Metrics of int          (* M k: m-token and n-token *)
  | Disc of int             (* X k of a connected router: preceded by an auxiliary M k in the pipe case *)

let parse_m tok : metrics option =
  if String.length tok < 2 || String.sub tok 0 2 <> "m:" then None
  else match split_on ',' (String.sub tok 2 (String.length tok - 2)) with
    | [_; a; b; c; d; e; f; g; h] ->
        let i s = n (int_of_string s) in
        Some { m_state = n 0; m_prefixes = i a; m_unknown_peer = i b; m_unprocessable = i c; m_ann = i d; m_wd = i e;
               m_up = i f; m_eorcap = i g; m_dumping = i h }
    | _ -> None

let show_m (m : metrics) (dumping : string) =
  Printf.sprintf "m:x,%d,%d,%d,%d,%d,%d,%d,%s" (int_of_n m.m_prefixes) (int_of_n m.m_unknown_peer) (int_of_n m.m_unprocessable)
    (int_of_n m.m_ann) (int_of_n m.m_wd) (int_of_n m.m_up) (int_of_n m.m_eorcap) dumping

let show_opts (l : BinNums.coq_N list) =
  match Stdlib.List.sort_uniq compare (Stdlib.List.map int_of_n l) with
  | [x] -> string_of_int x
  | xs -> "<" ^ join "|" (Stdlib.List.map string_of_int xs) ^ ">"

let split3 (s : string) : string list * string list * string list =
  let rec go acc cur = function
    | [] -> Stdlib.List.rev (Stdlib.List.rev cur :: acc)
    | "|||" :: tl -> go (Stdlib.List.rev cur :: acc) [] tl
    | x :: tl -> go acc (x :: cur) tl in
  match go [] [] (words s) with
  | [a; b; c] -> (a, b, c)
  | _ -> failwith ("unexpected pipe output: " ^ s)

(* one reading of the case: [drops] = connections made after a reload are lost at once (what the code does).
   Returns per output token (model, spec, class, after the first dropped connection?) *)
let project ~(drops : bool) (line : string) : (string * string * string * bool) list =
  let ops = Stdlib.List.map words (split_on ';' line) in
  let ops = Stdlib.List.filter (fun o -> o <> []) ops in
  (* pass 1: what the engine does with each op, and the case the pipeline model sees *)
  let live = ref [] in
  let reloaded = ref false in
  let pipe_ops = ref [] in
  let push o = pipe_ops := o :: !pipe_ops in
  let items = Stdlib.List.map (fun toks ->
      let i k = int_of_string (Stdlib.List.nth toks k) in
      let self = join " " toks in
      match Stdlib.List.hd toks with
      | "O" | "A" | "Z" -> Skip
      | "L" | "H" -> reloaded := true; Skip
      | "C" -> let k = i 1 in
          if Stdlib.List.mem k !live then Skip
          else if drops && !reloaded then Dropped k
          else (live := k :: !live; push self; Conn k)
      | "X" -> let k = i 1 in
          if Stdlib.List.mem k !live then begin
            live := Stdlib.List.filter (fun x -> x <> k) !live;
            push (Printf.sprintf "M %d" k); push self; Disc k
          end else Skip
      | "M" -> push self; Metrics (i 1)
      | "I" -> push self; Init (i 1)
      | "Q" | "T" | "S" | "U" | "D" | "R" | "E" | "B" -> push self; Pass
      | s -> failwith ("bad op " ^ s)) ops in
  let pipe_line = join ";" (Stdlib.List.rev !pipe_ops) in
  let (pm, ps, pc) = if pipe_line = "" then ([], [], []) else split3 (Eng_pipe.run_case pipe_line) in
  let pm = ref pm and ps = ref ps and pc = ref pc in
  let next () =
    match !pm, !ps, !pc with
    | a :: ta, b :: tb, c :: tc -> pm := ta; ps := tb; pc := tc; (a, b, c)
    | _ -> failwith "pipe output too short" in
  (* pass 2 *)
  let uc = ref uc_init in
  let carry : (int * (metrics * BinNums.coq_N list)) list ref = ref [] in
  let carry_of k = try Stdlib.List.assoc k !carry with Not_found -> (mx_zero, []) in
  let res = ref [] and diverged = ref false in
  let emit a b c = res := (a, b, c, !diverged) :: !res in
  Stdlib.List.iter (fun it ->
      match it with
      | Skip -> emit "-" "-" "."
      | Pass ->
          let (a, b, c) = next () in
          if String.length a >= 2 && String.sub a 0 2 = "q:" then emit a b c else emit "-" "-" "."
      | Conn k -> ignore (next ()); uc := uc_step !uc (WConnect (n k)); emit "-" "-" "."
      | Dropped _ -> uc := uc_dropped !uc; diverged := true; emit "-" "-" "."
      | Init k -> ignore (next ()); uc := uc_step !uc (WMsg (n k, MInit)); emit "-" "-" "."
      | Disc k ->
          let (a, _, _) = next () in
          (match parse_m a with
           | Some cur ->
               let (c, stale) = carry_of k in
               carry := (k, (mx_code c cur, mx_dumping_options stale cur.m_dumping)) :: Stdlib.List.remove_assoc k !carry
           | None -> ());
          ignore (next ());
          uc := uc_step !uc (WDisconnect (n k));
          emit "-" "-" "."
      | Metrics k ->
          let (a, _, _) = next () in
          (match parse_m a with
           | None -> emit "-" "-" "."
           | Some cur ->
               let (c, stale) = carry_of k in
               let mt = show_m (mx_code c cur) (show_opts (mx_dumping_options stale cur.m_dumping)) in
               let st = show_m (mx_spec c cur) (string_of_int (int_of_n cur.m_dumping)) in
               emit mt st (if mt = st then "." else "KC"));
          let acc = int_of_n !uc.uc_accepted and lost = int_of_n !uc.uc_lost in
          let mt = Printf.sprintf "n:%d,%d,%d" (int_of_n (uc_connected_code !uc)) acc lost in
          let st = Printf.sprintf "n:%d,%d,%d" (int_of_n (uc_connected_spec !uc)) acc lost in
          emit mt st (if mt = st then "." else "KC")) items;
  Stdlib.List.rev !res

let run_case (line : string) : string =
  let code = project ~drops:true line and ideal = project ~drops:false line in
  let toks = Stdlib.List.map2 (fun (ma, sa, ca, after) (_, sb, _, _) ->
      if not after then (ma, sa, ca)
      else if ma = sb then (ma, sb, ".")
      else if sa = sb then (ma, sb, ca)
      else (ma, sb, "KR")) code ideal in
  let col f = join " " (Stdlib.List.map f toks) in
  col (fun (a, _, _) -> a) ^ " ||| " ^ col (fun (_, b, _) -> b) ^ " ||| " ^ col (fun (_, _, c) -> c)
