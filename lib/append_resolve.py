#!/usr/bin/env python3
"""Resolve an append/append conflict where both sides appended a block ending in a shared closing brace:
   <<< ours ==== theirs >>> }   becomes   ours } (blank) theirs }"""
import sys, re
for p in sys.argv[1:]:
    s = open(p).read()
    m = re.search(r"<<<<<<< [^\n]*\n(.*?)=======\n(.*?)>>>>>>> [^\n]*\n", s, re.S)
    while m:
        ours, theirs = m.group(1), m.group(2)
        s = s[:m.start()] + ours + "}\n\n" + theirs + s[m.end():]
        m = re.search(r"<<<<<<< [^\n]*\n(.*?)=======\n(.*?)>>>>>>> [^\n]*\n", s, re.S)
    open(p, "w").write(s)
