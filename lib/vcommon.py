"""Shared machinery of ./check: PRNG, builds, proof stage, correspondence
stage, shrinking, known findings, evidence. See DESIGN.md section 2."""
import hashlib
import json
import os
import re
import subprocess
import sys
import time
from concurrent.futures import ThreadPoolExecutor

VERIF = os.path.dirname(os.path.dirname(os.path.abspath(__file__)))
REPO = os.environ.get("VERIF_REPO", "/repo")
CACHE = os.path.join(VERIF, ".cache")
COQ = os.path.join(VERIF, "coq")
ORACLE_DIR = os.path.join(CACHE, "oracle")
ORACLE = os.path.join(ORACLE_DIR, "oracle")
TARGET = os.path.join(CACHE, "target")
VH = os.path.join(TARGET, "release", "vh")
HARNESS = os.path.join(VERIF, "harness")
COQ_WARN = ["-w", "-notation-overridden,-deprecated-hint-without-locality,-deprecated-instance-without-locality,-ambiguous-paths"]
AXIOM_ALLOW = {
    # standard-library axioms that may appear (each named in the trusted base when it does)
    "functional_extensionality_dep", "FunctionalExtensionality.functional_extensionality_dep",
    "Eqdep.Eq_rect_eq.eq_rect_eq", "eq_rect_eq", "JMeq_eq", "JMeq.JMeq_eq",
    "proof_irrelevance", "ProofIrrelevance.proof_irrelevance", "classic", "Classical_Prop.classic",
}
FORBIDDEN = re.compile(
    r"\b(Admitted|admit|Axiom|Axioms|Parameter|Parameters|Conjecture|Hypothesis|Hypotheses|Variable|Variables|"
    r"Admit Obligations|bypass_check|native_compute)\b|Unset\s+Guard|Unset\s+Positivity|Unset\s+Universe|type-in-type|impredicative-set")


class CheckBroken(Exception):
    """The machinery itself is broken (not a property violation)."""


# ---------------------------------------------------------------- PRNG
class Rng:
    """splitmix64; every random choice of a run derives from VERIF_SEED."""
    M = (1 << 64) - 1

    def __init__(self, seed):
        self.s = seed & self.M

    def next(self):
        self.s = (self.s + 0x9E3779B97F4A7C15) & self.M
        z = self.s
        z = ((z ^ (z >> 30)) * 0xBF58476D1CE4E5B9) & self.M
        z = ((z ^ (z >> 27)) * 0x94D049BB133111EB) & self.M
        return z ^ (z >> 31)

    def below(self, n):
        return self.next() % n if n > 0 else 0

    def range(self, lo, hi):
        return lo + self.below(hi - lo + 1)

    def chance(self, num, den=100):
        return self.below(den) < num

    def choice(self, xs):
        return xs[self.below(len(xs))]

    def weighted(self, pairs):
        tot = sum(w for _, w in pairs)
        r = self.below(tot)
        for x, w in pairs:
            if r < w:
                return x
            r -= w
        return pairs[-1][0]

    def fork(self, tag):
        h = hashlib.sha256(f"{self.s}:{tag}".encode()).digest()
        return Rng(int.from_bytes(h[:8], "big"))


# ---------------------------------------------------------------- helpers
def sh(cmd, cwd=None, timeout=1800, env=None, input=None):
    e = dict(os.environ)
    e.update({"CARGO_NET_OFFLINE": "true"})
    if env:
        e.update(env)
    p = subprocess.run(cmd, cwd=cwd, env=e, input=input, stdout=subprocess.PIPE,
                       stderr=subprocess.STDOUT, timeout=timeout, text=True, errors="replace")
    return p.returncode, p.stdout


def file_hash(paths):
    h = hashlib.sha256()
    for p in sorted(paths):
        h.update(p.encode())
        with open(p, "rb") as f:
            h.update(f.read())
    return h.hexdigest()


def strip_coq_comments(s):
    out, depth, i = [], 0, 0
    while i < len(s):
        if s.startswith("(*", i):
            depth += 1
            i += 2
        elif s.startswith("*)", i) and depth > 0:
            depth -= 1
            i += 2
        else:
            if depth == 0:
                out.append(s[i])
            i += 1
    return "".join(out)


# ---------------------------------------------------------------- Coq stage
def coq_files():
    fs = []
    for root, _, names in os.walk(os.path.join(COQ, "theories")):
        for n in names:
            if n.endswith(".v"):
                fs.append(os.path.join(root, n))
    return sorted(fs)


def coq_closure(vfile):
    """Transitive closure of `From RV Require Import A.B` dependencies."""
    seen, todo = set(), [vfile]
    while todo:
        f = todo.pop()
        if f in seen:
            continue
        seen.add(f)
        src = strip_coq_comments(open(f).read())
        for m in re.finditer(r"From\s+RV\s+Require\s+(?:Import\s+|Export\s+)?(.*?)\.(?=\s|$)", src, re.S):
            for mod in m.group(1).split():
                p = os.path.join(COQ, "theories", *mod.split(".")) + ".v"
                if os.path.exists(p):
                    todo.append(p)
    return sorted(seen)


def coq_make(targets, timeout=1500):
    mk = os.path.join(COQ, "Makefile")
    proj = os.path.join(COQ, "_CoqProject")
    if not os.path.exists(mk) or os.path.getmtime(mk) < os.path.getmtime(proj):
        rc, out = sh(["coq_makefile", "-f", "_CoqProject", "-o", "Makefile"], cwd=COQ)
        if rc != 0:
            raise CheckBroken("coq_makefile failed:\n" + out)
    rc, out = sh(["make", "-j16"] + targets, cwd=COQ, timeout=timeout)
    return rc, out


def proof_stage(props_file, thorough=False):
    """Builds the closure of Props_Cxx.v, recompiles the Props file itself to
    get fresh Print Assumptions output. Returns a dict; raises CheckBroken for
    machinery faults; returns ok=False with 'broken' naming what no longer
    checks when a proof obligation fails."""
    res = {"ok": True, "broken": None, "theorems": [], "axioms": [], "obligations": 0,
           "discharged": 0, "files": [], "log": ""}
    vfile = os.path.join(COQ, "theories", "Props", props_file)
    closure = coq_closure(vfile)
    res["files"] = [os.path.relpath(f, COQ) for f in closure]
    # forbidden constructs anywhere in the closure
    for f in closure:
        src = strip_coq_comments(open(f).read())
        m = FORBIDDEN.search(src)
        if m:
            raise CheckBroken(f"forbidden construct '{m.group(0)}' in {f}")
    # pins: a property statement cannot be silently weakened
    pins = json.load(open(os.path.join(COQ, "pins.json")))
    stmts = theorem_statements(open(vfile).read())
    h = hashlib.sha256(json.dumps(stmts, sort_keys=True).encode()).hexdigest()
    if pins.get(props_file) != h:
        raise CheckBroken(f"statements of {props_file} differ from coq/pins.json (run ./check --pin after review)")
    vo = os.path.relpath(vfile, COQ)[:-2] + ".vo"
    rc, out = coq_make([vo])
    res["log"] = out[-4000:]
    if rc != 0:
        res["ok"] = False
        m = re.search(r'File "([^"]+)", line (\d+)', out)
        res["broken"] = f"proof obligation fails: {m.group(1)}:{m.group(2)}" if m else "coq build failed"
        return res
    # fresh compile of the Props file: Print Assumptions output
    os.makedirs(os.path.join(CACHE, "props"), exist_ok=True)
    rc, out = sh(["coqc", "-Q", "theories", "RV"] + COQ_WARN +
                 ["-o", os.path.join(CACHE, "props", props_file[:-2] + ".vo"), vfile], cwd=COQ, timeout=900)
    if rc != 0:
        res["ok"] = False
        res["broken"] = f"{props_file} no longer compiles"
        res["log"] = out[-4000:]
        return res
    closed = len(re.findall(r"Closed under the global context", out))
    ax_blocks = re.findall(r"Axioms:\n((?:.+\n?)+?)(?=\n|Closed|Axioms:|$)", out)
    axioms = set()
    for b in ax_blocks:
        for line in b.splitlines():
            m = re.match(r"^([A-Za-z_][\w.']*)\s*:", line)
            if m:
                axioms.add(m.group(1))
    bad = [a for a in axioms if a not in AXIOM_ALLOW and a.split(".")[-1] not in AXIOM_ALLOW]
    if bad:
        raise CheckBroken(f"theorem depends on axioms outside the allow-list: {bad}")
    res["axioms"] = sorted(axioms)
    res["theorems"] = [n for n, _ in stmts]
    nthm = len(re.findall(r"\bTheorem\s", strip_coq_comments(open(vfile).read())))
    if closed + len(ax_blocks) < nthm:
        raise CheckBroken(f"{props_file}: {nthm} theorems but {closed + len(ax_blocks)} Print Assumptions results")
    # census: Qed-closed lemmas in the closure (all compiled by make above)
    n = 0
    for f in closure:
        src = strip_coq_comments(open(f).read())
        n += len(re.findall(r"\b(Qed|Defined)\s*\.", src))
    res["obligations"] = n
    res["discharged"] = n
    if thorough:
        vos = [os.path.relpath(f, COQ)[:-2] + ".vo" for f in closure]
        rc, out = sh(["coqchk", "-silent", "-o", "-Q", "theories", "RV"] + vos, cwd=COQ, timeout=3000)
        res["coqchk"] = out[-1500:]
        if rc != 0:
            res["ok"] = False
            res["broken"] = "coqchk rejects the compiled closure of " + props_file
    return res


def theorem_statements(src):
    src = strip_coq_comments(src)
    out = []
    for m in re.finditer(r"\b(Theorem|Example)\s+([\w']+)\s*:(.*?)\bProof\.", src, re.S):
        out.append((m.group(2), " ".join(m.group(3).split())))
    return out


def pin_all():
    pins = {}
    d = os.path.join(COQ, "theories", "Props")
    for n in sorted(os.listdir(d)):
        if n.endswith(".v"):
            stmts = theorem_statements(open(os.path.join(d, n)).read())
            pins[n] = hashlib.sha256(json.dumps(stmts, sort_keys=True).encode()).hexdigest()
    json.dump(pins, open(os.path.join(COQ, "pins.json"), "w"), indent=1, sort_keys=True)
    return pins


# ---------------------------------------------------------------- builds
def build_oracle():
    """Extract the models (ExtrOcamlBasic only) and link the OCaml driver."""
    os.makedirs(ORACLE_DIR, exist_ok=True)
    model_files = [f for f in coq_files() if re.search(r"Model|Spec|Extract|Base", f)]
    drv = [os.path.join(VERIF, "oracle", n) for n in sorted(os.listdir(os.path.join(VERIF, "oracle"))) if n.endswith(".ml")]
    stamp = file_hash(model_files + drv)
    sp = os.path.join(ORACLE_DIR, "stamp")
    if os.path.exists(ORACLE) and os.path.exists(sp) and open(sp).read() == stamp:
        return
    rc, out = coq_make(["theories/Extract/Extract.vo"])
    if rc != 0:
        raise CheckBroken("model no longer compiles:\n" + out[-3000:])
    for n in os.listdir(ORACLE_DIR):
        if n.endswith((".ml", ".mli", ".cmi", ".cmx", ".o", ".cmo")):
            os.remove(os.path.join(ORACLE_DIR, n))
    rc, out = sh(["coqc", "-Q", os.path.join(COQ, "theories"), "RV"] + COQ_WARN +
                 ["-o", os.path.join(ORACLE_DIR, "Extract.vo"), os.path.join(COQ, "theories", "Extract", "Extract.v")],
                 cwd=ORACLE_DIR, timeout=900)
    if rc != 0:
        raise CheckBroken("extraction failed:\n" + out[-3000:])
    for n in ("Extract.ml", "Extract.mli"):
        p = os.path.join(ORACLE_DIR, n)
        if os.path.exists(p):
            os.remove(p)
    for f in drv:
        with open(f) as src, open(os.path.join(ORACLE_DIR, os.path.basename(f)), "w") as dst:
            dst.write(src.read())
    srcs = [n for n in os.listdir(ORACLE_DIR) if n.endswith((".ml", ".mli"))]
    rc, order = sh(["ocamlfind", "ocamldep", "-sort"] + srcs, cwd=ORACLE_DIR)
    if rc != 0:
        raise CheckBroken("ocamldep failed:\n" + order)
    rc, out = sh(["ocamlfind", "ocamlopt", "-package", "str", "-linkpkg", "-w", "-a"] + order.split() + ["-o", "oracle"],
                 cwd=ORACLE_DIR, timeout=900)
    if rc != 0:
        raise CheckBroken("oracle driver failed to compile:\n" + out[-3000:])
    open(sp, "w").write(stamp)


def build_harness(timeout=2400):
    """cargo build of /verif/harness against /repo's working tree. Returns
    (ok, log)."""
    lock_src = os.path.join(REPO, "Cargo.lock")
    lock_dst = os.path.join(HARNESS, "Cargo.lock")
    if not os.path.exists(lock_dst):
        with open(lock_src) as s, open(lock_dst, "w") as d:
            d.write(s.read())
    rc, out = sh(["cargo", "build", "--release", "--offline", "--quiet"], cwd=HARNESS, timeout=timeout,
                 env={"CARGO_TARGET_DIR": TARGET, "RUSTFLAGS": "-Awarnings"})
    if rc != 0 and "Cargo.lock" in out:
        with open(lock_src) as s, open(lock_dst, "w") as d:
            d.write(s.read())
        rc, out = sh(["cargo", "build", "--release", "--offline", "--quiet"], cwd=HARNESS, timeout=timeout,
                     env={"CARGO_TARGET_DIR": TARGET, "RUSTFLAGS": "-Awarnings"})
    return rc == 0, out[-6000:]


# ---------------------------------------------------------------- running cases
def run_lines(binary, engine, cases, timeout=1200, shards=1, extra_args=()):
    """Feeds cases (one per line) to `binary engine`, returns output lines."""
    if not cases:
        return []
    if shards <= 1 or len(cases) < 4 * shards:
        return _run_one(binary, engine, cases, timeout, extra_args)
    n = len(cases)
    step = (n + shards - 1) // shards
    chunks = [cases[i:i + step] for i in range(0, n, step)]
    with ThreadPoolExecutor(max_workers=shards) as ex:
        outs = list(ex.map(lambda c: _run_one(binary, engine, c, timeout, extra_args), chunks))
    return [x for o in outs for x in o]


def _run_one(binary, engine, cases, timeout, extra_args):
    inp = "\n".join(cases) + "\n"
    try:
        p = subprocess.run([binary, engine] + list(extra_args), input=inp, stdout=subprocess.PIPE,
                           stderr=subprocess.PIPE, timeout=timeout, text=True, errors="replace")
        lines = p.stdout.split("\n")
        if lines and lines[-1] == "":
            lines.pop()
        if len(lines) < len(cases):
            # the process died (abort / stack overflow / hang killed): find the culprit one by one
            lines = lines + [f"DIED rc={p.returncode} {p.stderr[-200:].strip()!r}"] + ["SKIPPED"] * (len(cases) - len(lines) - 1)
        return lines[:len(cases)]
    except subprocess.TimeoutExpired:
        return ["TIMEOUT"] * len(cases)


def tokens_match(model_tok, impl_tok):
    """A model/spec token may leave freedom: X<a|b|c> matches Xa, Xb or Xc;
    '*' matches anything."""
    if model_tok == impl_tok or model_tok == "*":
        return True
    m = re.match(r"^(.*)<([^<>]*)>(.*)$", model_tok)
    if m:
        pre, alts, post = m.groups()
        return any(impl_tok == pre + a + post for a in alts.split("|"))
    return False


def obs_match(expected, impl):
    e, i = expected.split(), impl.split()
    if len(e) != len(i):
        return False
    return all(tokens_match(a, b) for a, b in zip(e, i))


def split_model(line):
    """oracle prints `model` or `model ||| spec`."""
    if "|||" in line:
        a, b = line.split("|||", 1)
        return a.strip(), b.strip()
    return line.strip(), line.strip()


def first_diff(expected, impl):
    e, i = expected.split(), impl.split()
    for k, (a, b) in enumerate(zip(e, i)):
        if not tokens_match(a, b):
            return k, a, b
    if len(e) != len(i):
        k = min(len(e), len(i))
        return k, (e[k] if k < len(e) else "<end>"), (i[k] if k < len(i) else "<end>")
    return None


def shrink(case, still_fails, sep=";", budget=120):
    """Delta debugging over the ops of a case (ops separated by `sep`)."""
    ops = [o for o in case.split(sep) if o.strip()]
    n = 2
    tries = 0
    while len(ops) >= 2 and tries < budget:
        chunk = max(1, len(ops) // n)
        reduced = False
        for i in range(0, len(ops), chunk):
            cand = ops[:i] + ops[i + chunk:]
            if not cand:
                continue
            tries += 1
            if still_fails(sep.join(cand)):
                ops = cand
                n = max(n - 1, 2)
                reduced = True
                break
            if tries >= budget:
                break
        if not reduced:
            if chunk == 1:
                break
            n = min(len(ops), n * 2)
    return sep.join(ops)


# ---------------------------------------------------------------- findings / evidence
def load_known():
    p = os.path.join(VERIF, "known_findings.json")
    if not os.path.exists(p):
        return []
    return json.load(open(p))["findings"]


def write_evidence(prop, tier, seed, coverage, assumptions, wall, violations):
    os.makedirs(os.path.join(VERIF, "evidence"), exist_ok=True)
    ev = {"property_id": prop, "tier": tier, "seed": seed, "level": "proof", "coverage": coverage,
          "assumptions": assumptions, "wall_s": round(wall, 2), "violations": violations}
    with open(os.path.join(VERIF, "evidence", f"{prop}.json"), "w") as f:
        json.dump(ev, f, indent=1)
    return ev


def write_replay(prop, seed, tag, payload):
    os.makedirs(os.path.join(VERIF, "replay"), exist_ok=True)
    p = os.path.join(VERIF, "replay", f"{prop}-{seed}-{tag}.json")
    with open(p, "w") as f:
        json.dump(payload, f, indent=1)
    return p
