#!/usr/bin/env python3
"""merge_agent.py <id>: bring an agent's work (branches wip-<id> of /repo and /verif, worktrees under /root/work/<id>) into main."""
import subprocess, sys, os, re
def sh(cmd, cwd=None, check=False):
    p = subprocess.run(cmd, cwd=cwd, shell=True, stdout=subprocess.PIPE, stderr=subprocess.STDOUT, text=True)
    if check and p.returncode != 0:
        print(p.stdout); sys.exit(1)
    return p.returncode, p.stdout
k = sys.argv[1]
wt = f"/root/work/{k}"
base = sh("git merge-base HEAD wip-%s" % k, "/repo")[1].strip()
rc, out = sh(f"git log --reverse --format=%h {base}..wip-{k}", "/repo")
commits = out.split()
remap = {}
have = sh("git log --format=%s", "/repo")[1].split("\n")
for h in commits:
    subj = sh(f"git log --format=%s -1 {h}", "/repo")[1].strip()
    if subj in have:
        remap[h] = sh(f"git log --format=%h -1 --grep='{subj[:40]}' --fixed-strings", "/repo")[1].strip()
        print("already picked", h); continue
    rc, out = sh(f"git cherry-pick {h}", "/repo")
    if rc != 0:
        rc2, files = sh("git diff --name-only --diff-filter=U", "/repo")
        fl = files.split()
        bad = [f for f in fl if not (f.endswith("mod.rs") or f.startswith("src/verif/"))]
        if bad:
            print("CONFLICT needing manual work:", bad, "commit", h); sys.exit(1)
        sh("python3 /verif/lib/union_resolve.py " + " ".join(fl), "/repo", check=True)
        sh("git add -A && git -c core.editor=true cherry-pick --continue", "/repo", check=True)
    remap[h] = sh("git log --format=%h -1", "/repo")[1].strip()
    print("picked", h, "->", remap[h], sh("git log --format=%s -1", "/repo")[1].strip())
# guard lines that lost their cfg attribute in a union resolve
for root, _, names in os.walk("/repo/src"):
    for n in names:
        if n == "mod.rs":
            p = os.path.join(root, n); s = open(p).read()
            lines = s.split("\n"); out = []; changed = False
            for i, l in enumerate(lines):
                if re.match(r"\s*pub mod verif\w*;", l) and "src/verif" not in p:
                    prev = out[-1].strip() if out else ""
                    if not prev.startswith("#[cfg(feature"):
                        out.append('#[cfg(feature = "verif-hooks")]'); changed = True
                out.append(l)
            if changed:
                open(p, "w").write("\n".join(out)); print("re-guarded", p)
rc, out = sh("git status --short", "/repo")
if out.strip():
    sh('git add -A && git commit -qm "verif-hooks: restore guards of facade module lines after merge"', "/repo", check=True)
rc, out = sh("cargo check --offline 2>&1 | grep -E '^error' -A6 | head -20; cargo check --offline --features verif-hooks 2>&1 | grep -E '^error' -A6 | head -20", "/repo")
print(out)
# verif
rc, out = sh(f"git merge -q --no-edit wip-{k}", "/verif")
if rc != 0:
    sh("git rm -q -f coq/*.ml coq/*.mli", "/verif")
    sh("for f in $(git diff --name-only --diff-filter=U | grep '^evidence/'); do git checkout --ours $f; git add $f; done", "/verif")
    rc2, files = sh("git diff --name-only --diff-filter=U", "/verif")
    if files.strip():
        print("VERIF CONFLICT:", files); sys.exit(1)
    sh(f'git commit -qm "merge wip-{k}"', "/verif", check=True)
# remap hashes
for root in ["/verif/known_findings", "/verif/design-notes", "/verif/lib/props"]:
    for n in os.listdir(root):
        p = os.path.join(root, n)
        if os.path.isfile(p):
            s = open(p).read(); t = s
            for a, b in remap.items():
                t = t.replace(a, b)
            t = t.replace(f" in the rotonda worktree, branch wip-{k}", "")
            if t != s:
                open(p, "w").write(t); print("rehashed", p)
print("merged", k, "- now run: ./check --pin; checks; commit; remove worktrees")
