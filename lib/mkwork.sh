#!/bin/sh
# mkwork.sh <id> : scratch worktrees of /verif and /repo for independent development of one property engine
set -e
id=$1
mkdir -p /root/work/$id
git -C /verif worktree add -q /root/work/$id/verif -b wip-$id
git -C /repo worktree add -q /root/work/$id/repo -b wip-$id
mkdir -p /root/work/$id/verif/.cache
cp -r /verif/.cache/target /root/work/$id/verif/.cache/target
echo /root/work/$id
