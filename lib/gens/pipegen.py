"""Generator of `pipe` engine cases (BMP/BGP sessions feeding a RIB)."""

ALL_PEERS = list(range(10))
DISTINCT_PEERS = [0, 3, 5, 6, 7, 8]     # pairwise different (address, AS, RIB view)


def plist(rng, lo, hi, pool=6):
    n = rng.range(lo, hi)
    if n == 0:
        return "-"
    xs = []
    for _ in range(n):
        x = rng.below(pool) + 1
        if x not in xs:
            xs.append(x)
    return ",".join(map(str, xs))


def gen_case(rng, peers=ALL_PEERS, flaps=True, reup=True, metrics=True, bgp=True, nrouters=2, length=(6, 45),
             malformed=True, queries=(2, 6), query_ops=True):
    ops = []
    routers = {}          # k -> dict(init, up:set)
    gone = set()          # (k, i) peers that went down; k routers that disconnected; ("b", b) closed BGP sessions
    bgps = set()
    n = rng.range(*length)
    for k in range(rng.range(1, nrouters)):
        ops.append(f"C {k}")
        routers[k] = {"init": False, "up": set()}
        if rng.chance(92):
            ops.append(f"I {k}")
            routers[k]["init"] = True
    for _ in range(n):
        choices = [("R", 34), ("U", 14), ("D", 7 if flaps else 0), ("E", 6), ("S", 2), ("Q", 9 if query_ops else 0),
                   ("M", 6 if metrics else 0), ("B", 3 if malformed else 0), ("I", 2), ("T", 1 if flaps else 0),
                   ("X", 2 if flaps else 0), ("C", 3), ("O", 3 if bgp else 0), ("A", 8 if bgp else 0), ("Z", 2 if bgp and flaps else 0)]
        op = rng.weighted([c for c in choices if c[1] > 0])
        ks = sorted(routers) or [0]
        k = rng.choice(ks)
        st = routers.get(k)
        if op == "C":
            k = rng.below(nrouters)
            if k in routers or (not reup and k in gone):
                continue
            routers[k] = {"init": False, "up": set()}
            ops.append(f"C {k}")
        elif op == "I":
            ops.append(f"I {k}")
            if st:
                st["init"] = True
        elif op == "U":
            i = rng.choice(peers)
            if not reup and (k, i) in gone:
                continue
            ops.append(f"U {k} {i} {rng.below(2)}")
            if st and st["init"]:
                st["up"].add(i)
        elif op == "D":
            i = rng.choice(sorted(st["up"])) if st and st["up"] and rng.chance(85) else rng.choice(peers)
            ops.append(f"D {k} {i}")
            if st and i in st["up"]:
                st["up"].discard(i)
                gone.add((k, i))
        elif op in ("R", "E", "S", "B"):
            i = rng.choice(sorted(st["up"])) if st and st["up"] and rng.chance(90) else rng.choice(peers)
            if op == "R":
                mode = rng.below(10)
                ann = plist(rng, 1, 3) if mode < 7 else "-"
                wd = plist(rng, 1, 2) if mode >= 5 else "-"
                if ann == "-" and wd == "-":
                    ann = plist(rng, 1, 2)
                ops.append(f"R {k} {i} 0 {rng.below(5)} {ann} 0 {wd}")
            elif op == "E":
                ops.append(f"E {k} {i} {rng.weighted([(0, 6), (1, 2), (2, 1), (3, 1)])}")
            elif op == "S":
                ops.append(f"S {k} {i}")
            else:
                ops.append(f"B {k} {i}")
        elif op == "T":
            ops.append(f"T {k}")
            if st:
                gone.update((k, i) for i in st["up"])
                st["up"] = set()
                st["init"] = False
        elif op == "X":
            if k in routers:
                ops.append(f"X {k}")
                gone.update((k, i) for i in range(10))
                gone.add(k)
                del routers[k]
        elif op == "O":
            b = rng.below(2)
            if b in bgps:
                continue
            bgps.add(b)
            ops.append(f"O {b}")
        elif op == "A":
            b = rng.below(2)
            mode = rng.below(10)
            ann = plist(rng, 1, 3) if mode < 7 else "-"
            wd = plist(rng, 1, 2) if mode >= 5 else "-"
            if ann == "-" and wd == "-":
                ann = plist(rng, 1, 2)
            ops.append(f"A {b} 0 {rng.below(5)} {ann} 0 {wd}")
        elif op == "Z":
            b = rng.below(2)
            ops.append(f"Z {b}")
            bgps.discard(b)
        elif op == "Q":
            ops.append(f"Q 0 {rng.below(6) + 1}")
        elif op == "M":
            ops.append(f"M {k}")
    for _ in range(rng.range(*queries) if query_ops else 0):
        ops.append(f"Q 0 {rng.below(6) + 1}")
    if metrics:
        for k in sorted(routers):
            ops.append(f"M {k}")
    return ";".join(ops)


def classify(case, out):
    ks = []
    toks = out.split()
    ks.append("len<=15" if len(toks) <= 15 else "len<=35" if len(toks) <= 35 else "len>35")
    kinds = set()
    for t in toks:
        if t.startswith("i/"):
            kinds.add("invalid")
        elif t.startswith("t/"):
            kinds.add("transition")
        elif t.startswith("u:"):
            kinds.add("routes")
        elif t.startswith("w:"):
            kinds.add("peer-down-withdraw")
        elif t.startswith("W:"):
            kinds.add("bulk-withdraw")
        elif t.startswith("q:") and "=W" in t:
            kinds.add("query-shows-withdrawn")
        elif t.startswith("q:") and "," in t:
            kinds.add("query-multi-peer")
        elif t.startswith("m:"):
            kinds.add("metrics-read")
    return ks + sorted(kinds)
