"""Generator of `pipe` engine cases (BMP/BGP sessions feeding a RIB)."""

ALL_PEERS = list(range(10))
DISTINCT_PEERS = [0, 3, 5, 6, 7, 8]     # pairwise different (address, AS, RIB view)


# Peer Down reasons: RFC 7854 1..5, reserved 0, RFC 9069's 6, unassigned ones
PD_REASONS = [0, 1, 2, 3, 4, 5, 6, 7, 100, 255]

def plist(rng, lo, hi, pool=6):
    n = rng.range(lo, hi)
    if n == 0:
        return "-"
    xs = []
    for _ in range(n):
        x = rng.below(pool) + 1
        if x not in xs:
            xs.append(x)
    return ",".join(map(str, xs))


# ---------------------------------------------------------------- UPDATEs from the wire
# Prefixes the wire-level ops draw from, as <len>/<hex>, per address family. 10.1.0.0/16, 10.2.0.0/16 and
# 2001:db8:1::/48 are also the prefixes 1, 2 (and IPv6 1) of the abstract ops, so both kinds of op meet in the RIB.
V4POOL = ["16/0a01", "16/0a02", "24/c63364", "8/0b", "32/0a010203", "9/0a80"]
V6POOL = ["48/20010db80001", "32/20010db8", "64/20010db800010002", "128/20010db8000000000000000000000001"]
# families as C04's AST numbers them: 0 = IPv4 unicast, 1 = IPv4 multicast, 2 = IPv6 unicast, 3 = IPv6 multicast
UNKNOWN_FAMS = [(1, 3), (1, 66), (2, 3), (3, 1), (25, 1), (2, 129)]


def _hexs(bs):
    return "".join("%02x" % b for b in bs) if bs else "-"


def _raw_attrs(rng, conv_nlri):
    a = ["G 64 1 %02x" % rng.below(3)]
    path = []
    for _ in range(rng.range(1, 3)):
        path += list((64500 + rng.below(40)).to_bytes(4, "big"))
    a.append("G 64 2 %s" % _hexs([2, len(path) // 4] + path))
    if conv_nlri or rng.chance(30):
        a.append("G 64 3 0a0000%02x" % rng.range(1, 9))
    if rng.chance(70):
        a.append("G 128 4 %s" % _hexs([0, 0, 0, rng.below(8)]))      # MED: tells attribute sets apart
    if rng.chance(25):
        a.append("G 192 8 %s" % _hexs([0xfd, 0xe8, 0, rng.below(4)]))
    if rng.chance(10):
        a.append("G 192 32 %s" % _hexs([0, 0, 0xfd, 0xe8, 0, 0, 0, 1, 0, 0, 0, rng.below(4)]))
    return a


def _pick(rng, fam, lo=1, hi=2):
    pool = V4POOL if fam in (0, 1) else V6POOL
    out = []
    for _ in range(rng.range(lo, hi)):
        x = rng.choice(pool)
        if x not in out:
            out.append(x)
    return out


def _mp(kind, fam, ps, rng):
    body = "P %d %d %s" % (fam, len(ps), " ".join(ps))
    if kind == "R":
        nh = _hexs([rng.below(256) for _ in range(4 if fam in (0, 1) else 16)])
        return "R %d %s 0 %s" % (0x80 | (0x10 if rng.chance(25) else 0), nh, body)
    return "N %d %s" % (0x80 | (0x10 if rng.chance(25) else 0), body)


def raw_ast(rng, kind):
    """One UPDATE as an AST of C04's encoder (oracle c04enc). Returns (ast, post) where post is None, 'tail' (the
    length octet of the PDU's last prefix, an /8, is to be overwritten so that the NLRI no longer parses) or 'mut'."""
    wd, attrs, nlri, post = [], [], [], None
    if kind == "eor":
        k = rng.below(3)
        if k == 0:
            return "U 0 0 0", None
        if k == 1:
            return "U 0 1 N 128 P %d 0 0" % rng.below(4), None
        afi, safi = rng.choice(UNKNOWN_FAMS)
        return "U 0 1 N 128 O %d %d - 0" % (afi, safi), None
    if kind in ("ann", "both", "eorlike", "unk", "mut"):
        fam = rng.weighted([(0, 40), (1, 30), (2, 18), (3, 12)])
        ps = _pick(rng, fam)
        conv = fam == 0 and rng.chance(60)
        attrs = _raw_attrs(rng, conv)
        if conv:
            nlri = ps
        else:
            attrs.insert(rng.below(len(attrs) + 1), _mp("R", fam, ps, rng))
        if kind == "eorlike":
            attrs.insert(rng.below(len(attrs) + 1), "N 128 P %d 0" % rng.below(4))
        if kind == "unk":
            afi, safi = rng.choice(UNKNOWN_FAMS)
            raw = _hexs([rng.below(256) for _ in range(rng.range(0, 12))])
            if conv and rng.chance(50):
                attrs.insert(rng.below(len(attrs) + 1), "R 128 0a000001 0 O %d %d %s" % (afi, safi, raw))
            else:
                attrs.insert(rng.below(len(attrs) + 1), "N 128 O %d %d %s" % (afi, safi, raw))
    if kind in ("wd", "both") or (kind == "mut" and rng.chance(50)):
        fam = rng.weighted([(0, 40), (1, 30), (2, 18), (3, 12)])
        ps = _pick(rng, fam)
        if fam == 0 and rng.chance(60):
            wd = ps
        elif not any(x.startswith("N ") for x in attrs):
            attrs.insert(rng.below(len(attrs) + 1), _mp("N", fam, ps, rng))
    if kind == "tail":
        # a good prefix from the pool, then an /8 whose length octet will be spoilt; the MP attribute is the last
        # thing in the PDU. Conventional withdrawals / other attributes may precede it.
        fam = rng.weighted([(0, 25), (1, 30), (2, 25), (3, 20)])
        ps = _pick(rng, fam) + ["8/%02x" % rng.range(1, 250)]
        reach = rng.chance(40)
        attrs = _raw_attrs(rng, False) if reach or rng.chance(30) else []
        if rng.chance(30):
            wd = _pick(rng, 0)
        attrs.append(_mp("R" if reach else "N", fam, ps, rng))
        post = "tail"
    if kind == "mut":
        post = "mut"
    return "U %d %s %d %s %d %s" % (len(wd), " ".join(wd), len(attrs), " ".join(attrs), len(nlri), " ".join(nlri)), post


def _nlri_octets(ps):
    return sum(1 + (int(x.split("/")[0]) + 7) // 8 for x in ps)


def half_ast(rng):
    """An UPDATE that is malformed in exactly ONE half: the last NLRI inside its MP_UNREACH_NLRI (or MP_REACH_NLRI) is to be
    spoilt, while the other half - conventional NLRI / an MP_REACH_NLRI, or conventional withdrawn routes / an MP_UNREACH_NLRI -
    is fine. routecore checks the framing and the conventional fields when the message is parsed and the NLRI inside the MP
    attributes only when they are walked, so such an UPDATE gets past from_octets and one of explode_announcements /
    explode_withdrawals fails on it. Returns (ast, ("spoil", k), shape): the octet k from the end of the PDU is the length
    octet of the marker prefix (an /8) and is to be overwritten."""
    shape = rng.weighted([("unreach-bad+nlri", 30), ("unreach-bad+mp-reach", 20), ("reach-bad+withdrawn", 30), ("reach-bad+mp-unreach", 20)])
    fam = rng.weighted([(0, 25), (1, 20), (2, 35), (3, 20)])
    bad = _pick(rng, fam, 0, 2) + ["8/%02x" % rng.range(1, 250)]
    wd, nlri = [], []
    if shape.startswith("unreach-bad"):
        if shape == "unreach-bad+nlri":
            nlri = _pick(rng, 0)
            attrs = _raw_attrs(rng, True)
        else:
            gfam = rng.weighted([(0, 30), (1, 20), (2, 35), (3, 15)])
            attrs = _raw_attrs(rng, False)
            attrs.insert(rng.below(len(attrs) + 1), _mp("R", gfam, _pick(rng, gfam), rng))
        attrs.append(_mp("N", fam, bad, rng))
    else:
        attrs = _raw_attrs(rng, False)
        if shape == "reach-bad+withdrawn":
            wd = _pick(rng, 0)
        else:
            gfam = rng.weighted([(0, 30), (1, 20), (2, 35), (3, 15)])
            attrs.insert(rng.below(len(attrs) + 1), _mp("N", gfam, _pick(rng, gfam), rng))
        attrs.append(_mp("R", fam, bad, rng))
    ast = "U %d %s %d %s %d %s" % (len(wd), " ".join(wd), len(attrs), " ".join(attrs), len(nlri), " ".join(nlri))
    return ast, ("spoil", 2 + _nlri_octets(nlri)), shape


def raw_plan(rng, n=(5, 12)):
    kinds = [("ann", 34), ("wd", 22), ("both", 10), ("tail", 12), ("mut", 10), ("eor", 4), ("eorlike", 4), ("unk", 4)]
    return [raw_ast(rng, rng.weighted(kinds)) for _ in range(rng.range(*n))]


def encode_plans(V, rng, plans, kept=None):
    """ASTs -> octets through the PROVED encoder (oracle c04enc); the malformed variants are made from its output.
    PDUs on which C04's decoder and routecore are known to differ (C04's findings and its one tolerance) are left out:
    they are C04's business. Returns, per plan, the list of hex strings; if `kept` is a list it receives, per plan, the
    indices of the plan's entries that were kept."""
    from props import c04 as C04
    flat = [a for pl in plans for a, _ in pl]
    enc = V.run_lines(V.ORACLE, "c04enc", flat, shards=4)
    out, k, cand = [], 0, []
    for pi, pl in enumerate(plans):
        hs = []
        for ast, post in pl:
            parts = enc[k].split()
            k += 1
            if len(parts) != 3 or parts[0] != "1":
                raise V.CheckBroken(f"c04enc failed on / rejected the AST {ast!r}: {enc[k - 1]}")
            hx = parts[2]
            if post == "tail":
                b = bytearray.fromhex(hx)
                r = rng.fork("tail%d.%d" % (pi, len(hs)))
                b[-2] = r.choice([200, 255, 129, 33, 40]) if r.chance(70) else r.range(9, 32)   # too long for the family / runs past the end
                hx = b.hex()
            elif isinstance(post, tuple) and post[0] == "spoil":
                b = bytearray.fromhex(hx)
                r = rng.fork("spoil%d.%d" % (pi, len(hs)))
                b[-post[1]] = r.choice([200, 255, 129, 33, 40]) if r.chance(70) else r.range(9, 32)
                hx = b.hex()
            elif post == "mut":
                _, hx = C04.mutate(rng.fork("mut%d.%d" % (pi, len(hs))), hx)
                b = list(bytes.fromhex(hx))
                C04.fix_len(b)
                hx = "".join("%02x" % x for x in b)
            if post:
                cand.append((pi, len(hs)))
            hs.append(hx)
        out.append(hs)
    # the malformed ones: ask C04's oracle whether the PDU is in one of the classes C04 keeps for itself
    obs = V.run_lines(V.ORACLE, "c04", ["wm " + out[pi][j] for pi, j in cand], shards=4)
    drop = {(pi, j) for (pi, j), o in zip(cand, obs) if "<ERR|" in o or "|||" in o or o.startswith("MODEL-ERROR")}
    keep = [[j for j, h in enumerate(hs) if (pi, j) not in drop and len(h) // 2 >= 19 and int(h[32:36], 16) == len(h) // 2]
            for pi, hs in enumerate(out)]
    if kept is not None:
        kept.extend(keep)
    return [[hs[j] for j in js] for hs, js in zip(out, keep)]


def gen_case(rng, peers=ALL_PEERS, flaps=True, reup=True, metrics=True, bgp=True, nrouters=2, length=(6, 45),
             malformed=True, queries=(2, 6), query_ops=True, raw=None):
    ops = []
    routers = {}          # k -> dict(init, up:set)
    gone = set()          # (k, i) peers that went down; k routers that disconnected; ("b", b) closed BGP sessions
    bgps = set()
    n = rng.range(*length)
    for k in range(rng.range(1, nrouters)):
        ops.append(f"C {k}")
        routers[k] = {"init": False, "up": set()}
        if rng.chance(92):
            ops.append(f"I {k}")
            routers[k]["init"] = True
    for _ in range(n):
        choices = [("RB", 30 if raw else 0), ("AB", 9 if raw and bgp else 0), ("QX", 8 if raw and query_ops else 0),
                   ("R", 34 if not raw else 14), ("U", 14), ("D", 7 if flaps else 0), ("E", 6), ("S", 2), ("Q", 9 if query_ops else 0),
                   ("M", 6 if metrics else 0), ("B", 3 if malformed else 0), ("I", 2), ("T", 1 if flaps else 0),
                   ("X", 2 if flaps else 0), ("C", 3), ("O", 3 if bgp else 0), ("A", 8 if bgp else 0), ("Z", 2 if bgp and flaps else 0)]
        op = rng.weighted([c for c in choices if c[1] > 0])
        ks = sorted(routers) or [0]
        k = rng.choice(ks)
        st = routers.get(k)
        if op == "C":
            k = rng.below(nrouters)
            if k in routers or (not reup and k in gone):
                continue
            routers[k] = {"init": False, "up": set()}
            ops.append(f"C {k}")
        elif op == "I":
            ops.append(f"I {k}")
            if st:
                st["init"] = True
        elif op == "U":
            i = rng.choice(peers)
            if not reup and (k, i) in gone:
                continue
            ops.append(f"U {k} {i} {rng.below(2)}")
            if st and st["init"]:
                st["up"].add(i)
        elif op == "D":
            i = rng.choice(sorted(st["up"])) if st and st["up"] and rng.chance(85) else rng.choice(peers)
            # the reason octet of the Peer Down (and the data that goes with it): the state machine never reads it
            ops.append(f"D {k} {i}" + (f" {rng.choice(PD_REASONS)}" if rng.chance(40) else ""))
            if st and i in st["up"]:
                st["up"].discard(i)
                gone.add((k, i))
        elif op == "RB":
            i = rng.choice(sorted(st["up"])) if st and st["up"] and rng.chance(92) else rng.choice(peers)
            ops.append(f"RB {k} {i} {rng.choice(raw)}")
        elif op == "AB":
            ops.append(f"AB {rng.below(2)} {rng.choice(raw)}")
        elif op == "QX":
            ops.append(_qx(rng))
        elif op in ("R", "E", "S", "B"):
            i = rng.choice(sorted(st["up"])) if st and st["up"] and rng.chance(90) else rng.choice(peers)
            if op == "R":
                mode = rng.below(10)
                ann = plist(rng, 1, 3) if mode < 7 else "-"
                wd = plist(rng, 1, 2) if mode >= 5 else "-"
                if ann == "-" and wd == "-":
                    ann = plist(rng, 1, 2)
                ops.append(f"R {k} {i} 0 {rng.below(5)} {ann} 0 {wd}")
            elif op == "E":
                ops.append(f"E {k} {i} {rng.weighted([(0, 6), (1, 2), (2, 1), (3, 1)])}")
            elif op == "S":
                ops.append(f"S {k} {i}")
            else:
                ops.append(f"B {k} {i}")
        elif op == "T":
            ops.append(f"T {k}")
            if st:
                gone.update((k, i) for i in st["up"])
                st["up"] = set()
                st["init"] = False
        elif op == "X":
            if k in routers:
                ops.append(f"X {k}")
                gone.update((k, i) for i in range(10))
                gone.add(k)
                del routers[k]
        elif op == "O":
            b = rng.below(2)
            if b in bgps:
                continue
            bgps.add(b)
            ops.append(f"O {b}")
        elif op == "A":
            b = rng.below(2)
            mode = rng.below(10)
            ann = plist(rng, 1, 3) if mode < 7 else "-"
            wd = plist(rng, 1, 2) if mode >= 5 else "-"
            if ann == "-" and wd == "-":
                ann = plist(rng, 1, 2)
            ops.append(f"A {b} 0 {rng.below(5)} {ann} 0 {wd}")
        elif op == "Z":
            b = rng.below(2)
            ops.append(f"Z {b}")
            bgps.discard(b)
        elif op == "Q":
            ops.append(f"Q 0 {rng.below(6) + 1}")
        elif op == "M":
            ops.append(f"M {k}")
    for _ in range(rng.range(*queries) if query_ops else 0):
        ops.append(f"Q 0 {rng.below(6) + 1}")
    if raw and query_ops:
        for x in V4POOL:
            ops.append(f"QX 0 {x}")
        for x in V6POOL:
            if rng.chance(60):
                ops.append(f"QX 1 {x}")
    if metrics:
        for k in sorted(routers):
            ops.append(f"M {k}")
    return ";".join(ops)


def _qx(rng):
    if rng.chance(70):
        return f"QX 0 {rng.choice(V4POOL)}"
    return f"QX 1 {rng.choice(V6POOL)}"


def classify(case, out):
    ks = []
    toks = out.split()
    ks.append("len<=15" if len(toks) <= 15 else "len<=35" if len(toks) <= 35 else "len>35")
    kinds = set()
    for t in toks:
        if t.startswith("i/"):
            kinds.add("invalid")
        elif t.startswith("t/"):
            kinds.add("transition")
        elif t.startswith("u:"):
            kinds.add("routes")
        elif t.startswith("w:"):
            kinds.add("peer-down-withdraw")
        elif t.startswith("W:"):
            kinds.add("bulk-withdraw")
        elif t.startswith("q:") and "=W" in t:
            kinds.add("query-shows-withdrawn")
        elif t.startswith("q:") and "," in t:
            kinds.add("query-multi-peer")
        elif t.startswith("m:"):
            kinds.add("metrics-read")
    for o in case.split(";"):
        t = o.split()
        if t and t[0] in ("RB", "AB"):
            kinds.add("update-from-the-wire")
        if t and t[0] == "QX":
            kinds.add("query-ipv6" if t[1] == "1" else "query-wire-prefix")
    return ks + sorted(kinds)
