"""BMP frames for the `bmpwire` engine (op WB of the pipe engine): message ASTs with every field varied, turned into
octets by the PROVED encoder of Bmp/BmpWire.v (oracle bmpenc), and a malformed stream made from its output."""
import vcommon as V
from gens import pipegen

CAP = 1 << 20


def hexs(bs):
    return "".join("%02x" % b for b in bs) if bs else "-"


def v4(a, b, c, d, high=None):
    return (high or [0] * 12) + [a, b, c, d]


# ---------------------------------------------------------------- per-peer headers
# (type, flags, distinguisher, address, as, bgp id): a base peer and peers that differ from it in ONE thing routecore's
# PartialEq looks at - and one that differs only in what it does not look at (index 1: garbage in the twelve octets an
# IPv4 address does not use)
D0 = [0] * 8
BASE = (0, 0x00, D0, v4(10, 0, 0, 1), 65001, [10, 0, 0, 1])
PPHS = [
    BASE,
    (0, 0x00, D0, v4(10, 0, 0, 1, high=[0xde, 0xad] * 6), 65001, [10, 0, 0, 1]),   # the SAME peer as BASE
    (0, 0x80, D0, v4(10, 0, 0, 1), 65001, [10, 0, 0, 1]),                        # V: the IPv6 address ::10.0.0.1
    (0, 0x40, D0, v4(10, 0, 0, 1), 65001, [10, 0, 0, 1]),                        # L: post-policy
    (0, 0x20, D0, v4(10, 0, 0, 1), 65001, [10, 0, 0, 1]),                        # A: legacy AS_PATH
    (0, 0x10, D0, v4(10, 0, 0, 1), 65001, [10, 0, 0, 1]),                        # O: Adj-RIB-Out
    (0, 0x01, D0, v4(10, 0, 0, 1), 65001, [10, 0, 0, 1]),                        # a reserved bit
    (0, 0xf0, D0, [0x20, 0x01, 0x0d, 0xb8] + [0] * 11 + [1], 65001, [10, 0, 0, 1]),   # V L A O, 2001:db8::1
    (1, 0x00, [0, 0, 0, 0, 0, 0, 0, 7], v4(10, 0, 0, 1), 65001, [10, 0, 0, 1]),  # RD instance 7
    (1, 0x00, [0, 1, 0, 0, 0, 0, 0, 7], v4(10, 0, 0, 1), 65001, [10, 0, 0, 1]),  # RD instance, other distinguisher
    (2, 0x00, D0, v4(10, 0, 0, 1), 65001, [10, 0, 0, 1]),                        # local instance
    (3, 0x00, D0, v4(10, 0, 0, 1), 65001, [10, 0, 0, 1]),                        # Loc-RIB instance
    (0, 0x00, D0, v4(10, 0, 0, 2), 65001, [10, 0, 0, 1]),                        # other address
    (0, 0x00, D0, v4(10, 0, 0, 1), 4200000001, [10, 0, 0, 1]),                   # other (4-octet) AS
    (0, 0x00, D0, v4(10, 0, 0, 1), 65001, [10, 0, 0, 9]),                        # other BGP id
    (0, 0xc0, D0, [0xfe, 0x80] + [0] * 13 + [5], 64512, [192, 0, 2, 77]),        # an unrelated IPv6 peer
]


def pph_ast(rng, i):
    ty, fl, d, a, asn, bid = PPHS[i]
    sec = rng.choice([0, 1, 1700000000, 0xffffffff]) if rng.chance(30) else rng.below(1 << 32)
    return "P %d %d %s %s %d %s %d %d" % (ty, fl, hexs(d), hexs(a), asn, hexs(bid), sec, rng.below(1000000))


# ---------------------------------------------------------------- OPEN PDUs
def caps_list(rng, gr, four, asn):
    """capabilities in their RFC form (BmpWire.tidy), graceful restart / four-octet AS as asked, the rest at random"""
    cs = []
    if rng.chance(70):
        cs.append("1:00010001")
    if rng.chance(40):
        cs.append("1:00020001")
    if rng.chance(50):
        cs.append("2:-")
    if rng.chance(20):
        cs.append("70:-")
    if rng.chance(15):
        cs.append("6:-")
    if rng.chance(15):
        cs.append("9:%02x" % rng.below(5))
    if rng.chance(25):
        cs.append("%d:%s" % (rng.choice([4, 7, 10, 63, 72, 74, 99, 129, 200, 255]), hexs([rng.below(256) for _ in range(rng.range(0, 6))])))
    if gr:
        fams = [[0, 1, 1, rng.choice([0, 0x80])], [0, 2, 1, 0]][:rng.range(0, 2)]
        cs.append("64:%s" % hexs([rng.below(16) << 4 | rng.below(16), rng.below(256)] + [x for f in fams for x in f]))
        if rng.chance(10):
            cs.append("64:0078")                      # listed twice
    if four:
        cs.append("65:%s" % hexs(list(asn.to_bytes(4, "big"))))
    # any order
    for k in range(len(cs) - 1, 0, -1):
        j = rng.below(k + 1)
        cs[k], cs[j] = cs[j], cs[k]
    return cs


def open_ast(rng, gr, four, asn=65001):
    cs = caps_list(rng, gr, four, asn)
    params = []
    shape = rng.weighted([("one", 45), ("each", 30), ("mixed", 25)])
    if cs:
        if shape == "one":
            params.append("C %d %s" % (len(cs), " ".join(cs)))
        elif shape == "each":
            params += ["C 1 %s" % c for c in cs]
        else:
            k = rng.range(1, len(cs))
            params.append("C %d %s" % (k, " ".join(cs[:k])))
            if len(cs) > k:
                params.append("C %d %s" % (len(cs) - k, " ".join(cs[k:])))
    if rng.chance(12):
        params.insert(rng.below(len(params) + 1), "X %d %s" % (rng.choice([1, 3, 4, 200]), hexs([rng.below(256) for _ in range(rng.range(0, 5))])))
    if rng.chance(8):
        params.insert(rng.below(len(params) + 1), "C 0")                      # an empty capabilities parameter
    myas = asn if asn < 65536 else 23456
    bgp_type = 1 if rng.chance(92) else rng.choice([0, 2, 4, 255])             # routecore does not look at the type octet of the PDU
    return "O %d %d %d %d %s %d %s" % (bgp_type, rng.choice([4, 4, 4, 3]), myas, rng.choice([0, 90, 180, 65535]),
                                       hexs([rng.below(256) for _ in range(4)]), len(params), " ".join(params))


def tlvs_ast(rng, kinds, lo=0, hi=3):
    n = rng.range(lo, hi)
    out = []
    for _ in range(n):
        ty = rng.choice(kinds)
        out.append("%d:%s" % (ty, hexs([rng.range(0x21, 0x7e) for _ in range(rng.range(0, 12))])))
    return "%d %s" % (n, " ".join(out))


def info_hex(rng):
    k = rng.weighted([("none", 35), ("one", 30), ("many", 20), ("junk", 15)])
    if k == "none":
        return "-"

    def tlv(ty=None):
        v = [rng.range(0x21, 0x7e) for _ in range(rng.range(0, 8))]
        ty = rng.choice([0, 0, 3, 4, 9]) if ty is None else ty
        return [ty >> 8, ty & 255, 0, len(v)] + v
    b = tlv()
    if k == "many":
        for _ in range(rng.range(1, 3)):
            b += tlv()
    if k == "junk":
        b += [rng.below(256) for _ in range(rng.range(1, 5))]                  # routecore walks one TLV only
    return hexs(b)


NOTIF = [0xff] * 16 + [0, 21, 3, 6, 2]


def down_ast(rng, i, reason=None):
    r = rng.choice([0, 1, 2, 3, 4, 5, 6, 7, 200, 255]) if reason is None else reason
    if r in (1, 3):
        k = rng.below(4)
        data = [] if k == 0 else NOTIF + ([] if k == 1 else [rng.below(256) for _ in range(rng.range(1, 6))])
        if k == 3:
            data = [0xff] * 16 + [0, 23, 3, 6, 4, 1, 2]                        # a NOTIFICATION with data
    elif r == 2:
        data = [0, rng.below(8)] + ([] if rng.chance(80) else [rng.below(256)])
    elif r == 6:
        data = [0, 3, 0, 4] + [ord(c) for c in "vrf1"] if rng.chance(70) else []
    else:
        data = [] if rng.chance(75) else [rng.below(256) for _ in range(rng.range(1, 6))]
    return "D %s %d %s" % (pph_ast(rng, i), r, hexs(data))


def up_ast(rng, i, gr, four=None):
    four = rng.chance(60) if four is None else four
    asn = PPHS[i][4]
    la = v4(10, 0, 0, 2) if rng.chance(70) else [0x20, 0x01, 0x0d, 0xb8] + [rng.below(256) for _ in range(12)]
    # eor_capable is read from the RECEIVED OPEN only: the sent one says the opposite half of the time
    sent = open_ast(rng, rng.chance(50), four or rng.chance(30), 64999)
    rcvd = open_ast(rng, gr, four, asn)
    return "U %s %s %d %d %s %s %s" % (pph_ast(rng, i), hexs(la), rng.choice([179, 0, 65535, 40000]), rng.below(65536), sent, rcvd, info_hex(rng))


def route_ast(rng, i, pdu_hex, trail=False):
    tr = hexs([rng.below(256) for _ in range(rng.range(1, 9))]) if trail else ""
    return "R %s %s%s" % (pph_ast(rng, i), pdu_hex, tr if tr != "-" else "")


def stats_ast(rng, i):
    n = rng.range(0, 4)
    st = []
    for _ in range(n):
        ty = rng.choice([0, 1, 7, 8, 9, 13, 17, 99])
        ln = {0: 4, 1: 4, 7: 8, 8: 8, 9: 11, 13: 4, 17: 11}.get(ty, rng.range(0, 6))
        if rng.chance(10):
            ln = rng.range(0, 12)
        st.append("%d:%s" % (ty, hexs([rng.below(256) for _ in range(ln)])))
    trail = hexs([rng.below(256) for _ in range(rng.range(1, 6))]) if rng.chance(10) else "-"
    return "S %s %d %s %s" % (pph_ast(rng, i), n, " ".join(st), trail)


def init_ast(rng):
    # sysDescr 1, sysName 2, string 0, others; any order, repeated or missing
    return "I " + tlvs_ast(rng, [1, 2, 2, 0, 3, 77], 0, 4)


def term_ast(rng):
    n = rng.range(0, 2)
    out = []
    for _ in range(n):
        if rng.chance(60):
            out.append("1:%s" % hexs([0, rng.below(6)]))
        else:
            out.append("0:%s" % hexs([rng.range(0x21, 0x7e) for _ in range(rng.range(0, 6))]))
    return "T %d %s" % (n, " ".join(out))


def mirror_ast(rng, i):
    return "M %s %s" % (pph_ast(rng, i), hexs([rng.below(256) for _ in range(rng.range(0, 12))]))


# ---------------------------------------------------------------- UPDATE PDUs (from C04's proved encoder)
FIXED_PDUS = [
    "U 0 3 G 64 1 00 G 64 2 - G 64 3 0a000001 1 16/0a09",                                        # announce 10.9/16, empty AS_PATH
    "U 0 3 G 64 1 00 G 64 2 02010000fde9 G 64 3 0a000001 1 16/0a0a",                             # four-octet AS_PATH
    "U 0 3 G 64 1 00 G 64 2 0201fde9 G 64 3 0a000001 1 16/0a0b",                                 # two-octet AS_PATH
    "U 1 16/0a09 0 0",                                                                           # withdraw
    "U 0 0 0",                                                                                   # End-of-RIB, IPv4 unicast
    "U 0 1 N 128 P 2 0 0",                                                                       # End-of-RIB, IPv6 unicast
    "U 0 3 G 64 1 00 G 64 2 - R 128 20010db8000000000000000000000001 0 P 2 1 48/20010db80001 0",   # announce 2001:db8:1::/48
]


def pdus(rng, n_random):
    plans = [[(a, None) for a in FIXED_PDUS], pipegen.raw_plan(rng.fork("pdus"), n=(n_random, n_random))]
    fixed, rnd = pipegen.encode_plans(V, rng.fork("enc"), plans)
    return fixed, rnd


# ---------------------------------------------------------------- malformed variants of an encoded frame
def set_len(b, n):
    b[1:5] = list(n.to_bytes(4, "big"))


def malform(rng, hx):
    """(class, hex) - octets the decoder must refuse or frame differently, and routecore with it"""
    b = list(bytes.fromhex(hx))
    ty = b[5]
    k = rng.weighted([("version", 12), ("type", 10), ("len+", 8), ("len-", 10), ("len<5", 6), ("len5", 4), ("body-", 22),
                      ("body+", 6), ("peertype", 8), ("flip", 14)])
    if k == "version":
        b[0] = rng.choice([0, 1, 2, 4, 19, 255])
    elif k == "type":
        b[5] = rng.choice([7, 8, 100, 255])
    elif k == "len+":
        set_len(b, len(b) + rng.range(1, 40))
    elif k == "len-":
        set_len(b, rng.range(6, max(6, len(b) - 1)))
    elif k == "len<5":
        set_len(b, rng.below(5))
    elif k == "len5":
        set_len(b, 5)
    elif k == "body-":
        # cut the body short and say so in the length field: well framed, the parser has to notice
        if len(b) > 6:
            b = b[:rng.range(6, len(b) - 1)]
            set_len(b, len(b))
        else:
            b[0] = 2
    elif k == "body+":
        b += [rng.below(256) for _ in range(rng.range(1, 6))]
        set_len(b, len(b))
    elif k == "peertype":
        if ty not in (4, 5):
            b[6] = rng.choice([4, 5, 100, 255])
        else:
            b[5] = 9
    else:
        # one octet changed: anywhere in the headers; further in only where the reading is this engine's business
        # (not inside the UPDATE of a Route Monitoring message - C04's -, not inside OPEN optional parameters -
        # routecore takes known capabilities apart by their own grammar -, not inside information strings)
        if ty == 0:
            hi = min(len(b), 48)
        elif ty == 3:
            hi = min(len(b), 48 + 20 + 19)
        elif ty == 4:
            hi = 6
        else:
            hi = len(b)
        j = rng.below(hi)
        if 1 <= j <= 4:
            j = 0 if rng.chance(50) else 5
        b[j] ^= 1 << rng.below(8)
    # a declared length the real bmp_read would allocate up front stays below the cap
    if int.from_bytes(bytes(b[1:5]), "big") > CAP:
        set_len(b, CAP)
    return k, "".join("%02x" % x for x in b)


# ---------------------------------------------------------------- cases
def encode_asts(asts):
    enc = V.run_lines(V.ORACLE, "bmpenc", asts, shards=4)
    out = []
    for a, line in zip(asts, enc):
        parts = line.split()
        if len(parts) != 3 or parts[0] != "1" or parts[1] != "1":
            raise V.CheckBroken(f"bmpenc failed on / rejected the AST {a!r}: {line}")
        out.append(parts[2])
    return out


def plan_session(rng, fixed, rnd, length):
    """a list of (kind, ast | None, malform?) following a loose lifecycle: the up set is tracked so that valid and
    invalid messages both occur"""
    up = {}
    plan = []
    peers = [0, 1] + [rng.below(len(PPHS)) for _ in range(rng.range(1, 4))]
    if rng.chance(85):
        plan.append(("init", init_ast(rng)))
    n = rng.range(*length)
    for _ in range(n):
        i = rng.choice(peers)
        k = rng.weighted([("up", 22), ("down", 12), ("route", 34), ("stats", 7), ("mirror", 4), ("init", 4), ("term", 2), ("metrics", 12)])
        if k == "up":
            gr = rng.chance(50)
            plan.append(("up", up_ast(rng, i, gr)))
            up.setdefault(i, gr)
        elif k == "down":
            plan.append(("down", down_ast(rng, i)))
            up.pop(i, None)
        elif k == "route":
            if up and rng.chance(75):
                i = rng.choice(sorted(up))
            src = fixed if rng.chance(55) or not rnd else rnd
            plan.append(("route", route_ast(rng, i, rng.choice(src), trail=rng.chance(10))))
        elif k == "stats":
            plan.append(("stats", stats_ast(rng, i)))
        elif k == "mirror":
            plan.append(("mirror", mirror_ast(rng, i)))
        elif k == "init":
            plan.append(("init", init_ast(rng)))
        elif k == "term":
            plan.append(("term", term_ast(rng)))
        else:
            plan.append(("metrics", None))
    return plan


def build_cases(rng, plans, bad_pct):
    asts = [a for pl in plans for _, a in pl if a is not None]
    enc = iter(encode_asts(asts))
    for ci, pl in enumerate(plans):
        r = rng.fork("case%d" % ci)
        ops, cur = ["C 0"], []

        def flush():
            if cur:
                ops.append("WB 0 " + "".join(cur))
                del cur[:]
        for kind, ast in pl:
            if ast is None:
                flush()
                ops.append("M 0")
                continue
            hx = next(enc)
            if r.chance(bad_pct):
                _, hx = malform(r, hx)
            cur.append(hx)
            if r.chance(65):
                flush()
        flush()
        if r.chance(20):
            ops.append("M 0")
        if r.chance(15):
            ops.append("X 0")
        yield ";".join(ops)


def alphabet(rng, fixed):
    """fixed frames for the exhaustive part: both peers of one identity (BASE and its alias), a second peer"""
    asts = [init_ast(rng), term_ast(rng),
            up_ast(rng, 0, True, True), up_ast(rng, 1, False, False), up_ast(rng, 3, False),
            down_ast(rng, 1, 2), down_ast(rng, 3, 1),
            route_ast(rng, 1, fixed[0]), route_ast(rng, 0, fixed[3]), route_ast(rng, 0, fixed[4]), route_ast(rng, 3, fixed[6]),
            route_ast(rng, 0, "ff" * 16 + "001d02" + "00000000" + "210a01020304"),   # the NLRI claims a /33
            stats_ast(rng, 0), mirror_ast(rng, 5)]
    enc = encode_asts(asts)
    _, bad = malform(rng, enc[2])
    return enc + [bad]


def gen(rng, tier):
    fixed, rnd = pdus(rng, 12 if tier == "quick" else 60)
    alpha = alphabet(rng.fork("alphabet"), fixed)
    depth = 2 if tier == "quick" else 3

    def rec(prefix, d):
        if d == 0:
            yield prefix
            return
        for a in alpha:
            yield from rec(prefix + [a], d - 1)
    for d in range(1, depth + 1):
        for seq in rec([], d):
            body = ";".join("WB 0 " + f for f in seq)
            yield "C 0;" + body + ";M 0"
            yield "C 0;WB 0 " + alpha[0] + ";" + body + ";M 0"
    n = 700 if tier == "quick" else 15000
    plans = [plan_session(rng.fork("plan%d" % i), fixed, rnd, (4, 22 if tier == "quick" else 60)) for i in range(n)]
    # a third of the random cases are clean, the others carry malformed frames
    clean = len(plans) // 3
    yield from build_cases(rng.fork("clean"), plans[:clean], 0)
    yield from build_cases(rng.fork("bad"), plans[clean:], 18)


def corpus():
    return []


def nontrivial(case, out):
    toks = [t for w in out.split() for t in w.split("~")]
    ok = any(t.startswith(("u:", "o/", "t/", "w:", "W:")) for t in toks)
    bad = any(t.startswith(("i/", "unparsable", "short", "cut")) for t in toks)
    return ok and bad


def classify(case, out):
    ks = []
    for w in out.split():
        for t in w.split("~"):
            if t.startswith("unparsable"):
                ks.append("frame-refused")
            elif t in ("short", "cut"):
                ks.append("stream-" + t)
            elif t.startswith("i/"):
                ks.append("invalid")
            elif t.startswith("t/"):
                ks.append("transition")
            elif t.startswith("u:"):
                ks.append("routes")
            elif t.startswith(("w:", "W:")):
                ks.append("withdraw")
            elif t.startswith("o/"):
                ks.append("other")
    return sorted(set(ks))
