#!/usr/bin/env python3
"""seedcheck.py <cXX> <k> <demo-test-filter> [check-id ...]
Confirms an independently seeded breaking change (/root/seed/<cXX>/<k>/{patch.diff,demo.diff,notes.md}):
  1. demo passes on a clean scratch worktree of /repo HEAD
  2. with patch.diff: the existing lib test suite still passes, the demo fails
  3. with patch.diff applied to /repo itself: runs ./check for the given property ids (default: the property itself),
     records whether a VIOLATION was raised, then restores /repo (git checkout -- .)
and files the change under /verif/seeded/<CXX>-<k>/ with meta.json."""
import json, os, shutil, subprocess, sys, time
def sh(cmd, cwd=None, timeout=3600, env=None):
    e = dict(os.environ); e.update(env or {})
    p = subprocess.run(cmd, cwd=cwd, shell=True, stdout=subprocess.PIPE, stderr=subprocess.STDOUT, text=True, timeout=timeout, env=e)
    return p.returncode, p.stdout
phase = sys.argv[1]          # confirm | check
cid, k, filt = sys.argv[2], sys.argv[3], sys.argv[4]
wv = cid[3:]                 # "" (wave 1), "b" (wave 2), "c" (wave 3)
wave2 = bool(wv)
PROP = cid[:3].upper()
checks = sys.argv[5:] or [PROP]
dst = f"/verif/seeded/{PROP}-{wv}{k}"
src = f"/root/seed/{cid}/{k}"
wt = f"/root/scratch/seed-{cid}-{k}"
tgt = f"/root/seedwt/{cid}/target" if os.path.isdir(f"/root/seedwt/{cid}/target") else "/root/scratch/seed-target"
env = {"CARGO_TARGET_DIR": tgt, "CARGO_NET_OFFLINE": "true"}
os.makedirs("/root/scratch", exist_ok=True)
if phase == "confirm":
    sh(f"git -C /repo worktree remove --force {wt}")
    rc, out = sh(f"git -C /repo worktree add -q --detach {wt} HEAD")
meta = {"seed": f"{cid}/{k}", "property": PROP, "wave": {"": 1, "b": 2, "c": 3}.get(wv, 9), "demo_filter": filt, "ran": []}
if phase == "check":
    meta = json.load(open(os.path.join(dst, "meta.json")))
def step(name, cmd, cwd=wt):
    # an existing test of the suite occasionally spins forever (and grows): bound time and memory, retry once
    if "cargo test" in cmd:
        cmd = "ulimit -v 12000000; timeout 900 bash -c " + json.dumps(cmd)
    t = time.time(); rc, out = sh(cmd, cwd, env=env)
    if "cargo test" in cmd and "test result" not in out:
        rc, out = sh(cmd, cwd, env=env)
    meta["ran"].append({"step": name, "cmd": cmd, "rc": rc, "tail": out[-600:], "s": round(time.time() - t)})
    return rc, out
try:
    if phase != "confirm":
        raise StopIteration
    rc, _ = step("apply demo", f"git apply {src}/demo.diff || git apply -3 {src}/demo.diff")
    assert rc == 0, "demo.diff does not apply"
    rc, out = step("demo on clean tree", f"cargo test --offline --lib {filt} 2>&1 | tail -15")
    meta["demo_clean_pass"] = ("test result: ok" in out and " 0 passed" not in out)
    rc, _ = step("apply patch", f"git apply {src}/patch.diff || git apply -3 {src}/patch.diff")
    assert rc == 0, "patch.diff does not apply"
    rc, out = step("demo with patch", f"cargo test --offline --lib {filt} 2>&1 | tail -25")
    meta["demo_patched_fails"] = ("FAILED" in out or "failed" in out) and "test result: ok" not in out
    rc, out = step("existing suite with patch (demo removed)", f"git checkout -q -- . && git clean -fdq -e target && (git apply {src}/patch.diff || git apply -3 {src}/patch.diff) && cargo test --offline --lib 2>&1 | tail -6")
    meta["suite_passes_with_patch"] = "test result: ok" in out
    meta["suite_summary"] = [l for l in out.splitlines() if "test result" in l]
except StopIteration:
    pass
finally:
    sh(f"git -C /repo worktree remove --force {wt}")
def save():
    os.makedirs(dst, exist_ok=True)
    for f in ("patch.diff", "demo.diff", "notes.md"):
        shutil.copy(os.path.join(src, f), os.path.join(dst, f))
    meta["needs"] = open(os.path.join(src, "notes.md")).read()[:1500]
    meta["confirmed"] = bool(meta.get("demo_clean_pass") and meta.get("demo_patched_fails") and meta.get("suite_passes_with_patch"))
    json.dump(meta, open(os.path.join(dst, "meta.json"), "w"), indent=1)
if phase == "confirm":
    save()
    print(cid, k, "confirmed" if meta["confirmed"] else "NOT CONFIRMED", {x: meta.get(x) for x in ("demo_clean_pass", "demo_patched_fails", "suite_passes_with_patch")})
    sys.exit(0)
# run my checks against the patched /repo
rc, st = sh("git -C /repo status --short")
assert not st.strip(), "/repo is not clean: " + st
rc, out = sh(f"git -C /repo apply {src}/patch.diff || git -C /repo apply -3 {src}/patch.diff")
assert rc == 0, "patch does not apply to /repo: " + out
if meta.get("checks"):
    meta.setdefault("checks_history", []).append({"at_verif_commit": sh("git -C /verif log --format=%h -1")[1].strip() + " (before this run)", "checks": meta["checks"]})
prev = dict(meta.get("checks") or {})
meta["checks"] = {c: r for c, r in prev.items() if c not in checks}
try:
    for c in checks:
        t = time.time()
        rc, out = sh(f"./check {c}", "/verif", timeout=3000)
        viol = [l for l in out.splitlines() if l.startswith("VIOLATION")]
        meta["checks"][c] = {"exit": rc, "violations": viol[:3], "caught": rc == 1 and bool(viol), "s": round(time.time() - t),
                             "tail": out[-400:]}
        # keep the first replay for the record
        if viol:
            rp = viol[0].split("replay=")[1].split()[0]
            if os.path.exists(rp):
                meta["checks"][c]["replay"] = json.load(open(rp))
finally:
    sh("git -C /repo checkout -- . && git -C /repo clean -fdq -e target")
save()
for c, r in meta["checks"].items():
    print(c, "CAUGHT" if r["caught"] else "MISSED", r["violations"][:1], f"{r['s']}s")
