#!/usr/bin/env python3
"""Resolve a git conflict in a file of independent lines (pub mod lists) by taking the union of both sides."""
import sys
for path in sys.argv[1:]:
    out, seen = [], set()
    for line in open(path).read().split("\n"):
        if line.startswith(("<<<<<<<", "=======", ">>>>>>>", "|||||||")):
            continue
        key = line.strip()
        if key.startswith(("pub mod", "pub use", "#[cfg(feature")) and False:
            pass
        out.append(line)
    # drop exact duplicate `pub mod x;` lines
    res, mods = [], set()
    for line in out:
        k = line.strip()
        if k.startswith("pub mod ") and k.endswith(";"):
            if k in mods:
                continue
            mods.add(k)
        res.append(line)
    open(path, "w").write("\n".join(res))
