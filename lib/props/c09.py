"""C09 - concurrent sessions never lose, corrupt or stall each other's RIB updates."""
import subprocess

PROPS_FILE = "Props_C09.v"
RULE = ("engine c09: 2-4 writer threads, each owning 2 ingress ids, issue 1-8 Updates (Single / Bulk with announcements and "
        "withdrawals / Withdraw with and without family / WithdrawBulk / EndOfStream) over 4 shared prefixes x 4 address families; "
        "a random interleaving of whole Updates (plus reader queries in between) is replayed on one real RibUnitRunner, the rest is run "
        "to completion and every prefix is queried; a second profile (600 quick / 8000 thorough cases) has sessions with IPv4/IPv6 MULTICAST routes "
        "(on prefixes no unicast route uses, so that match_prefix shows them) withdrawn family by family (IPv4 unicast, IPv6 unicast, in either order) "
        "and then session-wide (Withdraw(id, None) / WithdrawBulk / a multicast family), other sessions holding routes for the same prefixes; "
        "a third profile (400 quick / 5000 thorough) has a session that asks for the withdrawal of a family the RIB has no support for "
        "(Update::Withdraw(id, Some(MPLS / VPN / route target / FlowSpec / VPLS / EVPN / unknown)): that one call panics under the RIB's withdraw mutex, "
        "observation `panic` - caught around that one call) followed by session-wide withdrawals of the OTHER sessions, which must return and take effect; "
        "such requests are also sprinkled over the first profile (8 % of its Withdraws) and over the soak (3-20 per mille of the Updates); "
        "a case is non-trivial when some final answer lists ids of two or more writers and at "
        "least one withdrawn entry; distinct = distinct case text. extra c09-soak: free-running writer threads + readers on one RibUnitRunner, "
        "per-update deadline, final answers judged by the extracted model against the writers' own logs")
TRUSTED_BASE = [
    "Coq 8.16.1 kernel (coqc; coqchk in thorough); no native_compute",
    "extraction with ExtrOcamlBasic only; OCaml driver oracle/{conv,eng_c09,oracle}.ml",
    "Rust harness /verif/harness (engine c09, special c09-soak): real RibUnitRunner::process_update (rotonda::verif::rib, feature verif-hooks), "
    "real Rib::insert / withdraw_for_ingress / match_prefix, real rotonda-store 0.4.1; routes built from rotonda::bgp::encode UPDATEs; "
    "a panic is caught (catch_unwind) around the single process_update call that raised it and reported as that call's outcome",
    "modelled, not verified: src/units/rib_unit/{unit.rs process_update, rib.rs insert_prefix / withdraw_for_ingress}; rotonda-store is a finite map "
    "(one atomic step per (prefix, id) store call - it holds the per-prefix record-map mutex) plus four bitmaps whose update loop "
    "(custom_alloc.rs mark_mui_as_withdrawn) is modelled access by access: load, compare-and-swap on the identity of the heap object, "
    "the failure branch exactly as written; the store's lock-free tree itself is NOT modelled",
]
ASSUMPTIONS = [
    "writers own disjoint sets of ingress ids (disjoint_ids): rotonda gives every session its own id (C14); prefixes are shared",
    "one store call on one (prefix, id) is one atomic step (the store takes the per-prefix record-map mutex); atomics are sequentially consistent",
    "a compare-and-swap compares the identity of the bitmap object; objects are not reused while a guard is pinned (no ABA): a stamp per bitmap",
    "bounded completion is proved for schedules that give every writer a turn in each block (fairness of the OS / tokio scheduler and of "
    "std::sync::Mutex is assumed, not proved); wall-clock time is only measured (soak, per-update deadline)",
    "a reader's match_prefix is treated as one atomic read in C09_reader_sees_owner_prefix; the real one reads the record and the bitmap separately",
    "a call that panics (withdraw_for_ingress for an unsupported family) ends that call only: the engines go on with the thread's next Update; in rotonda "
    "the publisher's task ends there, i.e. the thread's program is the shorter one - the theorems quantify over all programs",
]

IDS = 2
FAMS = [(0, 50), (1, 25), (2, 15), (3, 10)]
# families Rib::withdraw_for_ingress has no arm for (harness/src/engines/c09.rs afisafi): 4 IPv4 MPLS unicast .. 9 IPv4 FlowSpec,
# 10 IPv6 FlowSpec, 11 VPLS, 12 EVPN, 13.. AfiSafiType::Unsupported
UNSUP = [4, 5, 6, 7, 8, 9, 10, 11, 12, 13, 14]


def ids_of(t):
    return [10 * (t + 1) + i + 1 for i in range(IDS)]


def payload(rng, t, npfx=4):
    i = rng.choice(ids_of(t))
    fam = rng.weighted(FAMS)
    p = 1 + rng.below(npfx)
    if rng.chance(70):
        return "%d:%d:%d:%d" % (i, fam, p, rng.below(6))
    return "%d:%d:%d:w" % (i, fam, p)


def update(rng, t):
    k = rng.weighted([("S", 28), ("B", 36), ("W", 18), ("X", 12), ("E", 6)])
    if k == "S":
        return "S " + payload(rng, t)
    if k == "B":
        return "B " + ",".join(payload(rng, t) for _ in range(rng.range(2, 5)))
    if k == "W":
        if rng.chance(8):
            return "W %d %d" % (rng.choice(ids_of(t)), rng.choice(UNSUP))
        return "W %d %s" % (rng.choice(ids_of(t)), "-" if rng.chance(55) else str(rng.weighted(FAMS)))
    if k == "X":
        return "X " + ",".join(str(rng.choice(ids_of(t))) for _ in range(rng.range(1, 3)))
    return "E %d" % rng.choice(ids_of(t))


def gen_case(rng):
    nt = rng.range(2, 4)
    items = []
    counts = []
    for t in range(nt):
        n = rng.range(1, 8)
        counts.append(n)
        for _ in range(n):
            items.append("p %d %s" % (t, update(rng, t)))
    # a random interleaving of (a prefix of) the Updates, with reads in between
    pending = [t for t in range(nt) for _ in range(counts[t])]
    sched = []
    keep = rng.range(0, len(pending))
    while pending and len(sched) < keep:
        t = pending.pop(rng.below(len(pending)))
        sched.append("s %d" % t)
        if rng.chance(25):
            sched.append("q %d %d" % (rng.below(2), 1 + rng.below(4)))
    return ";".join(items + sched)


# ---- profile "family by family, then the session": per-family withdrawals of a session that has MULTICAST routes,
# followed by a session-wide one (Withdraw(id, None) / WithdrawBulk) - what a peer that loses its address families one
# by one and then goes down produces. rotonda-store keeps a withdrawn marker per (store, address family): the unicast
# markers of an id say nothing about its multicast routes. Rib::match_prefix shows the multicast store only for a
# prefix the unicast store has nothing for (finding C11-1), so the multicast routes get prefixes of their own (5..8).
MC_PFX = [5, 6, 7, 8]


def gen_famdown(rng):
    nt = rng.range(1, 3)
    progs = []
    for t in range(nt):
        ids = ids_of(t)
        prog = []
        # every id of the writer announces unicast and multicast routes
        anns = []
        for i in ids:
            for fam in (2, 3) if rng.chance(70) else (rng.choice((2, 3)),):
                for p in rng_sample(rng, MC_PFX, rng.range(1, 2)):
                    anns.append("%d:%d:%d:%d" % (i, fam, p, rng.below(6)))
            for _ in range(rng.range(0, 2)):
                anns.append("%d:%d:%d:%d" % (i, rng.below(2), 1 + rng.below(4), rng.below(6)))
        rng_shuffle(rng, anns)
        while anns:
            k = rng.range(1, min(4, len(anns)))
            prog.append(("S " if k == 1 else "B ") + ",".join(anns[:k]))
            anns = anns[k:]
        # the session that goes down family by family
        s = rng.choice(ids)
        fams = [0, 1] if rng.chance(75) else rng_sample(rng, [0, 1, 2, 3], rng.range(1, 3))
        rng_shuffle(rng, fams)
        for f in fams:
            prog.append("W %d %d" % (s, f))
            if rng.chance(20):
                prog.append(update(rng, t))
        last = rng.weighted([("W-", 40), ("X", 35), ("Wm", 15), ("none", 10)])
        if last == "W-":
            prog.append("W %d -" % s)
        elif last == "X":
            xs = [s] + [rng.choice(ids) for _ in range(rng.below(2))]
            rng_shuffle(rng, xs)
            prog.append("X " + ",".join(map(str, xs)))
        elif last == "Wm":
            prog.append("W %d %d" % (s, rng.choice((2, 3))))
        if rng.chance(30):
            prog.append("X %d" % s)        # the router disconnects after the peer went down
        if rng.chance(25):
            prog.append("S %d:%d:%d:%d" % (s, rng.choice((2, 3)), rng.choice(MC_PFX), rng.below(6)))
        progs.append(prog)
    items = ["p %d %s" % (t, u) for t, prog in enumerate(progs) for u in prog]
    pending = [t for t, prog in enumerate(progs) for _ in prog]
    sched = []
    keep = rng.choice([0, len(pending), rng.range(0, len(pending))])
    while pending and len(sched) < keep:
        t = pending.pop(rng.below(len(pending)))
        sched.append("s %d" % t)
        if rng.chance(20):
            sched.append("q %d %d" % (rng.below(2), rng.choice(MC_PFX)))
    return ";".join(items + sched)


# ---- profile "one session's request blows up, the others go down afterwards": Update::Withdraw(id, Some(family)) for a family
# Rib::withdraw_for_ingress has no arm for panics while it holds the Rib's withdraw mutex (std::sync::Mutex: poisoned from then
# on). That is the outcome of that one call. The sessions that go down later - alone (Withdraw(id, None), a single family) or in
# bulk (WithdrawBulk) - must return normally and be withdrawn; routes announced later must go in.
def gen_poison(rng):
    nt = rng.range(2, 4)
    progs = []
    culprit = rng.below(nt)
    for t in range(nt):
        ids = ids_of(t)
        prog = []
        anns = []
        for i in ids:
            for _ in range(rng.range(1, 3)):
                fam = rng.weighted(FAMS)
                p = rng.choice(MC_PFX) if fam >= 2 else 1 + rng.below(4)
                anns.append("%d:%d:%d:%d" % (i, fam, p, rng.below(6)))
        rng_shuffle(rng, anns)
        while anns:
            k = rng.range(1, min(4, len(anns)))
            prog.append(("S " if k == 1 else "B ") + ",".join(anns[:k]))
            anns = anns[k:]
        downs = []
        for i in ids:
            if rng.chance(80):
                downs.append(rng.weighted([("W %d -" % i, 45), ("X %d" % i, 25), ("X " + ",".join(map(str, ids)), 10),
                                           ("W %d %d" % (i, rng.weighted(FAMS)), 20)]))
        if t == culprit or rng.chance(15):
            bad = ["W %d %d" % (rng.choice(ids), rng.choice(UNSUP)) for _ in range(1 if rng.chance(75) else rng.range(2, 3))]
            where = rng.weighted([("first", 35), ("before-downs", 40), ("anywhere", 25)])
            if where == "first":
                prog = bad + prog + downs
            elif where == "before-downs":
                prog = prog + bad + downs
            else:
                prog = prog + downs
                for b in bad:
                    prog.insert(rng.below(len(prog) + 1), b)
        else:
            prog = prog + downs
        if rng.chance(25):
            prog.append(update(rng, t))
        progs.append(prog)
    items = ["p %d %s" % (t, u) for t, prog in enumerate(progs) for u in prog]
    sched = []
    mode = rng.weighted([("culprit-first", 45), ("random", 35), ("none", 20)])
    left = [len(p) for p in progs]
    if mode == "culprit-first":
        # the culprit runs up to and including its (first) unsupported request, then the others
        n = next((k for k, u in enumerate(progs[culprit]) if is_unsup(u)), len(progs[culprit]) - 1) + 1
        sched += ["s %d" % culprit] * n
        left[culprit] -= n
    if mode != "none":
        pending = [t for t in range(nt) for _ in range(left[t])]
        keep = rng.choice([len(pending), rng.range(0, len(pending))])
        k = 0
        while pending and k < keep:
            t = pending.pop(rng.below(len(pending)))
            sched.append("s %d" % t)
            k += 1
            if rng.chance(20):
                sched.append("q %d %d" % (rng.below(2), 1 + rng.below(8)))
    return ";".join(items + sched)


def is_unsup(u):
    t = u.split()
    return t[0] == "W" and t[2] != "-" and int(t[2]) >= 4


def rng_sample(rng, xs, n):
    xs = list(xs)
    return [xs.pop(rng.below(len(xs))) for _ in range(min(n, len(xs)))]


def rng_shuffle(rng, xs):
    for i in range(len(xs) - 1, 0, -1):
        j = rng.below(i + 1)
        xs[i], xs[j] = xs[j], xs[i]


def gen(rng, tier):
    n = 2500 if tier == "quick" else 40000
    for _ in range(n):
        yield gen_case(rng)
    r2 = rng.fork("famdown")
    for _ in range(600 if tier == "quick" else 8000):
        yield gen_famdown(r2)
    r3 = rng.fork("poison")
    for _ in range(400 if tier == "quick" else 5000):
        yield gen_poison(r3)


def final_tokens(out):
    toks = out.split()
    return toks[toks.index("F") + 1:] if "F" in toks else []


def nontrivial(case, out):
    for t in final_tokens(out):
        es = t.split(":", 2)[2].split(",") if t.count(":") >= 2 and t.split(":", 2)[2] else []
        owners = {e.split("=")[0][:-1] for e in es}
        if len(owners) >= 2 and any("=W" in e for e in es):
            return True
    return False


def classify(case, out):
    ks = []
    its = case.split(";")
    nt = 1 + max(int(i.split()[1]) for i in its if i.startswith(("p ", "s ")))
    ks.append("threads=%d" % nt)
    kinds = {i.split()[2] for i in its if i.startswith("p ")}
    for k, name in (("S", "single"), ("B", "bulk"), ("W", "withdraw"), ("X", "withdraw-bulk"), ("E", "end-of-stream")):
        if k in kinds:
            ks.append(name)
    ns = sum(1 for i in its if i.startswith("s "))
    np_ = sum(1 for i in its if i.startswith("p "))
    ks.append("schedule=none" if ns == 0 else "schedule=partial" if ns < np_ else "schedule=full")
    if any(i.startswith("q ") for i in its):
        ks.append("reads-in-between")
    if any(":2:" in i or ":3:" in i for i in its if i.startswith("p ")):
        ks.append("multicast")
    if family_then_session(its):
        ks.append("per-family-withdrawals-then-session-wide-on-a-multicast-session")
    if any(i.startswith("p ") and is_unsup(i.split(None, 2)[2]) for i in its):
        ks.append("unsupported-family-request")
    if "panic" in out.split():
        ks.append("a-call-panicked")
    if withdrawal_after_panic(its):
        ks.append("session-wide-withdrawal-of-another-session-after-a-panic")
    fin = final_tokens(out)
    if any("=W" in t for t in fin):
        ks.append("final-has-withdrawn")
    if any(t.count(",") >= 2 for t in fin):
        ks.append("prefix-shared-by>=3-ids")
    return ks


def withdrawal_after_panic(its):
    """in execution order (the schedule, then every thread to its end, thread 0 first) a Withdraw / WithdrawBulk of one writer
    comes after an unsupported-family request of ANOTHER writer"""
    progs = {}
    for i in its:
        t = i.split(None, 2)
        if t[0] == "p":
            progs.setdefault(int(t[1]), []).append(t[2])
    pos = {t: 0 for t in progs}
    order = []
    for i in its:
        t = i.split()
        if t[0] == "s":
            w = int(t[1])
            if w in progs and pos[w] < len(progs[w]):
                order.append((w, progs[w][pos[w]]))
                pos[w] += 1
    for w in sorted(progs):
        order += [(w, u) for u in progs[w][pos[w]:]]
    culprits = set()
    for w, u in order:
        if is_unsup(u):
            culprits.add(w)
        elif u[0] in "WX" and (culprits - {w}):
            return True
    return False


def family_then_session(its):
    """some id with multicast routes is withdrawn for IPv4 unicast and IPv6 unicast and later session-wide (program order)"""
    seen = {}
    mc = set()
    for i in its:
        t = i.split()
        if len(t) < 4 or t[0] != "p":
            continue
        if t[2] in "SB":
            for pl in t[3].split(","):
                f = pl.split(":")
                if f[1] in "23" and f[3] != "w":
                    mc.add(f[0])
        elif t[2] == "W" and t[4] in "01":
            seen.setdefault(t[3], set()).add(t[4])
        elif (t[2] == "W" and t[4] == "-" and seen.get(t[3]) == {"0", "1"} and t[3] in mc) or \
             (t[2] == "X" and any(seen.get(x) == {"0", "1"} and x in mc for x in t[3].split(","))):
            return True
    return False


def corpus():
    return [
        # seeded change C09-b2 (the withdraw mutex taken with lock().unwrap()): session 1 asks for FlowSpec to be withdrawn - that call
        # panics under the mutex -, then eight other sessions go down, one by one and in bulk: all must return and be withdrawn
        "p 0 S 1:0:1:1;p 0 W 1 9;p 1 S 2:0:1:2;p 1 W 2 -;p 2 S 3:0:1:3;p 2 W 3 -;p 3 B 4:0:1:4,5:1:1:4,6:2:5:4,7:3:6:4;p 3 X 4,5,6,7;"
        "p 1 S 8:0:2:1;p 1 W 8 0;p 2 S 9:1:2:1;p 2 X 9;s 0;s 0;q 0 1;s 1;s 1;s 2;s 2;q 0 1;s 3;s 3;q 1 1;q 0 5;q 1 6;s 1;s 1;s 2;s 2;q 0 2;q 1 2",
        # the request that blows up is the very first thing the RIB sees; a second one later; announcements after it still go in
        "p 0 W 11 12;p 1 B 21:0:1:2,21:1:1:2;p 1 W 21 -;p 0 S 11:0:1:1;p 0 W 11 4;p 0 W 11 -;p 1 S 22:0:1:5;s 0;s 1;s 1;q 0 1;s 0;s 0;s 0;s 1;q 0 1",
        # nothing scheduled: every thread runs to its end, thread 0 (with an AfiSafiType::Unsupported request) first
        "p 0 B 11:0:1:1,12:2:5:1;p 0 W 12 14;p 1 S 21:0:1:2;p 1 X 21,22;p 2 S 31:2:5:3;p 2 W 31 2",
        # seeded change C09-3 (a "nothing left to withdraw" fast path that looks at the unicast store only): a session with
        # multicast routes is withdrawn for IPv4 unicast, then IPv6 unicast, then session-wide - its multicast routes must
        # end withdrawn, the other session's must stay active
        "p 0 B 11:0:1:1,11:2:5:1,11:3:6:1;p 1 B 21:0:1:2,21:2:5:2,21:3:6:2;p 0 W 11 0;p 0 W 11 1;p 0 W 11 -;s 0;s 1;s 0;s 0;q 0 5;s 0;q 0 5;q 1 6",
        # the same with the router's disconnect (WithdrawBulk) as the session-wide withdrawal, and a multicast-only one after both unicast ones
        "p 0 B 11:2:5:1,12:2:5:3;p 0 W 11 1;p 0 W 11 0;p 0 X 12,11",
        "p 0 S 11:3:7:4;p 0 W 11 0;p 0 W 11 1;p 0 W 11 3;p 1 S 21:3:7:2",
        # Props_C09.C09_example: three writers, adversarial interleaving
        "p 0 B 1:0:7:5,1:0:8:5;p 0 S 1:0:7:6;p 0 S 1:0:8:w;p 1 B 2:0:7:3,2:1:7:3;p 1 W 2 0;p 2 S 3:0:7:4;p 2 X 3,4;p 2 S 4:2:7:9;"
        "s 2;s 0;s 1;q 0 7;s 1;s 2;s 0;q 1 7;s 2;s 0",
        # the livelock scenario of C09_cas_livelock_refuted, at Update granularity (whole-session withdrawals of two writers back to back)
        "p 0 S 1:0:1:1;p 1 S 2:0:1:2;p 0 W 1 -;p 1 W 2 -;s 0;s 1;s 0;s 1;q 0 1",
        # same prefix, all four families, withdraw of an absent route, WithdrawBulk naming an id twice
        "p 0 B 11:0:1:1,11:1:1:1,11:2:1:1,11:3:1:1;p 1 B 21:0:1:2,21:2:1:w,22:3:1:2;p 1 X 21,21,22;p 0 W 11 2;s 1;s 0;q 0 1;q 1 1;s 1",
    ]


# (writers, updates per writer, per-update deadline ms, readers, percentage of session-wide withdrawals)
# ... , requests for an unsupported family per mille of the Updates)
SOAK_CFG = {"quick": [(8, 6000, 5000, 2, 16, 3), (16, 1500, 5000, 2, 30, 5), (3, 400, 5000, 1, 60, 20)],
            "thorough": [(16, 40000, 10000, 4, 16, 2), (8, 40000, 10000, 2, 50, 5), (32, 5000, 10000, 4, 30, 5), (4, 3000, 10000, 1, 80, 20)]}


def soak(V, tier, seed):
    """T free-running writers (+ readers) on one real RibUnitRunner; every
    Update must return within the deadline, readers must only ever see a
    writer's own attributes under its ids, and the final answers must be what
    the extracted model computes from the writers' logs (by
    C09_interleaving_equals_sequential any interleaving must end there); the
    calls that panic must be exactly the requests for a family the RIB has no
    support for (C09_panics_are_the_unsupported_requests), each caught around
    its own process_update call."""
    r = {"name": "c09-soak", "evaluations": 0, "coverage": {"runs": []}, "failures": []}
    for k, (nt, nops, deadline, readers, wd, unsup) in enumerate(SOAK_CFG["thorough" if tier == "thorough" else "quick"]):
        args = [V.VH, "c09-soak", str(nt), str(nops), str((seed + k) & 0xffffffff), str(deadline), str(readers), str(wd), str(unsup)]
        try:
            p = subprocess.run(args, stdout=subprocess.PIPE, stderr=subprocess.PIPE, text=True, timeout=600)
            lines = p.stdout.split("\n")
        except subprocess.TimeoutExpired:
            lines = ["stall the soak process itself did not finish within 600 s", "", "-"]
        verdict = lines[0].strip() if lines else "no output"
        case = lines[1].strip() if len(lines) > 1 else ""
        final = lines[2].strip() if len(lines) > 2 else ""
        run = {"writers": nt, "updates_per_writer": nops, "readers": readers, "withdraw_percent": wd, "unsupported_family_per_mille": unsup,
               "deadline_ms": deadline, "result": verdict[:300]}
        r["evaluations"] += nt * nops
        if not verdict.startswith("ok"):
            what = ("a writer's Update did not complete within the deadline" if verdict.startswith("stall") else
                    "a reader saw an entry that no writer wrote" if verdict.startswith("corrupt") else
                    "an Update other than a request for an unsupported family panicked (or such a request returned)" if verdict.startswith("panic") else
                    "the soak failed")
            r["failures"].append({"what": f"c09-soak: {what}: {verdict[:600]}", "kind": "property", "replay_cmd": " ".join(args)})
        else:
            # the sequential composition of the writers' logs (RibModel.rib_run); small runs also through the concurrent model itself
            model = V.run_lines(V.ORACLE, "c09seq", [case])[0]
            mo, spec = V.split_model(model)
            run["judged_by"] = "RibModel.rib_run (RibConc.effective (concat logs))"
            if nt * nops <= 3000:
                m2, _ = V.split_model(V.run_lines(V.ORACLE, "c09", [case])[0])
                run["judged_by"] += " and RibConc.run"
                # the concurrent model also reports the calls that panic (one `panic` per unsupported request, before `F`)
                run["model_panics"] = m2.split().count("panic")
                m2 = " ".join(["F"] + final_tokens(m2))
                if m2 != mo:
                    raise V.CheckBroken("oracle engines c09 and c09seq disagree on a soak log (contradicts C09_interleaving_equals_sequential)")
            if mo.startswith("MODEL-ERROR"):
                raise V.CheckBroken("oracle failed on a soak log: " + mo)
            run["final_active_entries"] = final.count("=A")
            run["final_withdrawn_entries"] = final.count("=W")
            if not V.obs_match(spec, final):
                d = V.first_diff(spec, final)
                r["failures"].append({"what": "c09-soak: after all writers finished the RIB does not hold every writer's last write: "
                                              f"first difference (position, demanded, found) = {d}", "kind": "property",
                                      "replay_cmd": " ".join(args), "demanded": spec[:2000], "found": final[:2000]})
        r["coverage"]["runs"].append(run)
        if r["failures"]:
            break   # one report per run of the check
    return r


ENGINES = [{"name": "c09", "gen": gen, "corpus": corpus, "nontrivial": nontrivial, "classify": classify, "shards": 8}]
EXTRAS = [soak]

LEVEL_TEXT = ("Theorems over ALL interleavings (any number of writers, any Updates, any schedule of single store calls and single shared-memory "
              "accesses of the bitmap loop): after every writer has finished, every (family, prefix, id) holds what its owner alone would have left "
              "(last write wins; the whole RIB equals the sequential composition); at any moment a reader sees a state its owner produced; every "
              "session-wide withdrawal of a finished writer is in effect; on the repaired code (withdraw_for_ingress serialised) no CAS ever fails, "
              "there is no deadlock and every fair schedule finishes within work(init) rounds; a request for a family the RIB cannot withdraw panics "
              "(that call, and no other call of anybody: C09_panics_are_the_unsupported_requests), leaves the RIB as it was and poisons the withdraw mutex, "
              "which every later call takes all the same - all of the above holds for programs with such requests (`.lock().unwrap()` instead is "
              "refuted: C09_unwrap_on_poison_refuted); for the code as it was the two-writer livelock is "
              "proved for every continuation (C09_cas_livelock_refuted). Kernel-checked, axiom-free. The model is tied to the code by replaying "
              "thousands of interleavings of whole Updates on the real RibUnitRunner and by a free-running multi-thread soak judged by the extracted model.")
DESIGN_REF = "DESIGN.md section 6, C09"
LEVEL_NOTE = ("PARTIAL: rotonda-store's lock-free tree and record maps are not modelled (one store call = one atomic step); interleavings below the "
              "granularity of a whole Update are covered by the theorems and exercised only by the free-running soak, not replayed deterministically "
              "(the store is a dependency without pause points); bounded time is proved as a step bound under fair schedules for the model, wall-clock "
              "time is measured. Trusted: Coq kernel, extraction + OCaml driver, Rust harness and generators.")
TECHNIQUE = "Coq proof by invariant over all schedules of a small-step interleaving semantics + refutation witness + schedule replay and multi-thread soak against the implementation"
