"""C12 — every HTTP request gets a well-formed response; bad ones get 4xx, not a crash."""
import json

PROPS_FILE = "Props_C12.v"
RULE = ("request sequences built from parts (method, raw path with percent-encoding / invalid UTF-8 / multi-byte characters at slice "
        "offsets / over-long runs, query strings from the processors' parameter grammars and mutations of them, header lists) against "
        "Server::handle_request with the real processors registered in generated orders (rib, router list, router info, mrt queue, "
        "/status/graph, /status/traces, stubs), every case ending with GET /status; a case is non-trivial when its observation has at "
        "least three distinct tokens and at least one token that is neither 404 nor 405; distinct = distinct case text. "
        "Engine c12tcp: connections of raw HTTP/1.x bytes (method tokens, the four request-target forms, raw / non-UTF-8 bytes, lengths around "
        "hyper's limits, versions, line ends, header syntax, obs-text and control bytes, duplicate and huge headers, Connection / HTTP/1.0 "
        "keep-alive, Content-Length / Transfer-Encoding, pipelining, split writes, cut requests) over loopback TCP to the HTTP server of a "
        "running pipeline; non-trivial = at least three distinct tokens and at least one response")
TRUSTED_BASE = [
    "Coq 8.16.1 kernel (coqc; coqchk in thorough); no native_compute",
    "extraction with ExtrOcamlBasic only; OCaml driver oracle/{conv,eng_c12,oracle}.ml (runs the model under both verdicts of the un-modelled Community::from_str outside a fixed vocabulary)",
    "Rust harness /verif/harness (engine c12) over rotonda::verif::http (feature verif-hooks): builds hyper Requests from bytes, awaits Server::handle_request in-process, reads status / Content-Encoding / body",
    "modelled, not verified: src/http.rs handle_request/encode_response/Resources, the processors in src/manager.rs, rib_unit/http/request.rs, bmp_tcp_in/http/router_{list,info}/request.rs, mrt_file_in/api.rs; "
    "percent_encoding, String::from_utf8_lossy, url::form_urlencoded, std IP address parsing, inetnum Prefix/Asn::from_str are re-stated in Gallina and tied by the same differential runs",
    "concurrency (Http/ConcModel.v): one scheduler step = one access to shared state (register mutex, ArcSwap load/store, strong counts; the tokio "
    "mutex of the BMP state machine and the Option inside); std Mutex / tokio Mutex / ArcSwap are taken to be mutual exclusion / atomic cells; the tie to the "
    "code is by the anchors in the model file plus the real-thread stages c12-regrace and c12-statelock (harness engine c12, facade rotonda::verif::bmp_stream)",
    "engine c12lock: the schedule of C12_statelock_release_refuted replayed on the real RouterHandler::process_msg / RouterInfoApi / RouterListApi: the "
    "connection task is held inside process_msg by back-pressure from the receiving end of the fixture's gate (StreamFixture::hold_updates); 'blocked' = the "
    "request task has not finished 120 ms after it was spawned",
    "engine c12tcp (harness/src/engines/c12tcp.rs + e2e.rs pipeline start-up, oracle/eng_c12tcp.ml): a blocking TCP client that writes the case's bytes and reads "
    "HTTP/1.x responses with its own reader (status line, header syntax, Content-Length / chunked / close-delimited bodies, gzip decodes); Http/WireModel.v re-states "
    "httparse 1.10 Request::parse, hyper 0.14.32 Server::parse / on_error / read-buffer limit and http 0.2.12 Method / Uri parsing as read from their sources, "
    "tied by the same differential runs; the driver widens the model's answer where the bytes' arrival decides (a malformed head that is also cut; hyper's own "
    "error response behind unread pipelined bytes; heads longer than the read buffer); the oracle re-executes itself under a larger stack limit for long byte lists",
    "not modelled: request bodies (what follows a request that announces one is not judged), HTTP/2 (hyper switches protocol on the client preface), TLS, timeouts, "
    "response bodies beyond 'gzip decodes' and '4xx has a reason', routecore Community::from_str (argument of the model)",
]
ASSUMPTIONS = [
    "the handler is stateless between requests apart from the set of registered processors, so a panic in one request leaves later ones unaffected (checked on the implementation by the follow-up GET /status of every case)",
    "the RIB is physical with an existing (empty) store, the BMP unit has one router in its initial phase, the MRT unit has no update_path: the status codes of these processors on other states are outside the model",
    "Community::from_str is total on ASCII input (it is an argument of the model; theorems hold for every such function)",
    "wire level: hyper runs with its default settings (Server::single_listener sets none): read buffer 8192 + 4096 * 100 bytes, 100 header lines, request-target <= 65534 bytes, "
    "keep-alive on, no half-close, no header read timeout; a connection's bytes that fit one read (<= 8192, one write) are parsed at once",
    "concurrent registration: the owner of a processor drops it only after its register call has stored (the callers keep the Arc they downgrade); "
    "the identity of a registration is the allocation of its processor (a fresh number per call)",
    "state machine lock: process_msg never takes its MessageType::Aborted arm (hypothesis no_abort; no state of the machine yields it - "
    "BmpState::_Aborted is never constructed); C12_statelock_abort_refuted shows the hypothesis is needed",
]

HEX = "0123456789abcdef"


def hx(b):
    if isinstance(b, str):
        b = b.encode("latin-1")
    return b.hex() if b else "_"


PATH_OK = [c for c in range(0x21, 0x7f) if c in (0x21,) or 0x24 <= c <= 0x3b or c == 0x3d or 0x40 <= c <= 0x5f or 0x61 <= c <= 0x7a
           or c in (0x7c, 0x7e, 0x22, 0x7b, 0x7d)]
QUERY_OK = [c for c in range(0x21, 0x7f) if c == 0x21 or 0x24 <= c <= 0x3b or c == 0x3d or 0x3f <= c <= 0x7e]

V4 = ["1.2.3.0/24", "10.0.0.0/8", "0.0.0.0/0", "1.2.3.4/32", "1.2.3.4/24", "1.2.3.0/33", "01.2.3.0/24", "1.2.3/24", "256.1.1.0/24",
      "1.2.3.0/", "1.2.3.0", "1.2.3.0/+24", "1.2.3.0/024", "1.2.3.0/24/", "8.0.0.0/7", "8.0.0.0/5", "128.0.0.0/1", "1.2.3.0.0/24",
      "1.2.3.0/256", "1.2.3.0/-1", "1..3.0/24", "0.0.0.0/32", "255.255.255.255/32", "1.2.3.0%2F24", "1.2.3.0//24"]
V6 = ["2001:db8::/32", "::/0", "::1/128", "2804:1398:100::/48", "2001:db8::1/32", "1:2:3:4:5:6:7:8/128", "1:2:3:4:5:6:7::/112",
      "1:2:3:4:5:6:7:8:9/128", "::ffff:1.2.3.4/128", "1::2::3/64", "2001:db8::/129", "2001:DB8::/19", "2001:db8::/18", "12345::/32",
      "::1.2.3.4/128", "1:2:3:4:5:6:1.2.3.4/128", "1:2:3:4:5:6:7:1.2.3.4/128", ":/0", ":::/0", "fe80::%eth0/64", "1.2.3.4::/64",
      "::/", "g::/16", "1:2:3:4:5:6:7/112", "::2:3:4:5:6:7:8/128", "1:2:3:4::6:7:8/0", "8000::/1", "2000::/3"]
INGRESS = ["0", "1", "5", "+5", "4294967295", "4294967296", "-1", "", "x", "5x", "00007", "1e3", "٣"]
INCLUDE = ["lessSpecifics", "moreSpecifics", "lessSpecifics,moreSpecifics", "moreSpecifics,lessSpecifics", "", "foo", "lessSpecifics,", "LessSpecifics"]
ASNS = ["65000", "AS65000", "as1", "aS2", "4294967295", "4294967296", "AS", "as", "ASx", "", "x", "+1", "AS+1", "1,2,3", "AS1,as2,x", "1,,2",
        "aé", "aé1", "éa1", "ASé", "1,aé", "x,aé", "abé", "€1", "a\U0001f600"]
COMMS_KNOWN = ["65000:100", "AS65000:1", "0xFFFF029A", "1:2:3", "AS1:2:3", "rt:65000:1", "ro:1.2.3.4:5", "NO_EXPORT", "BLACKHOLE", "0:0",
               "", "x", "65536:1", "1:65536", "1:2:3:4", "rt:1", "zz:1:2", "0x", "0xZZ", "-1:1", "1:", ":", "gzip"]
COMMS_OTHER = ["no-export", "65000:1:2", "0x" + "0" * 40, "0x" + "0" * 16, "rt:1.2.3.4:99999", "0x" + "0" * 15 + "é" + "0" * 23,
               "0x" + "0" * 16 + "0" * 15 + "é" + "0" * 7, "0x" + "g" * 16 + "0" * 15 + "é" + "0" * 7, "0x" + "0" * 39 + "é",
               "0x" + "0" * 14 + "€" + "0" * 23, "0x" + "0" * 30 + "€" + "0" * 7, "1:é", "é:1:2", "0x+" + "0" * 14 + "é" + "0" * 23]
SORT_BY = ["addr", "sys_name", "sys_desc", "state", "peers_up", "peers_up_eor_capable", "peers_up_dumping", "peers_up_eor_capable_pc",
           "peers_up_dumping_pc", "invalid_messages", "soft_parse_errors", "hard_parse_errors", "", "Addr", "zz", "addr,state"]
# values on which "contains gzip" and the RFC 9110 reading agree ...
AE = [b"gzip", b"gzip, deflate", b"deflate", b"GZIP", b"x-gzi", b"", b"\tgzip", b"deflate, gzip;q=1.0", b"br;q=1.0, gzip;q=0.8, *;q=0.1",
      b"gzi", b"g\xc3\xa9", b"gzip\xff", b"\xe9gzip", b"gzip;q=0.0001", b"gzip;q=", b"identity", b"gzip,gzip;q=0", b" gzip ", b"gzip;q=0.001",
      b"deflate;q=0, gzip", b"gzip;level=9", b"*, gzip", b"gzip;q=1"]
# ... and values on which they do not (the known finding); generated in a small fraction of the cases only
AE_DIFF = [b"gzip;q=0", b"identity;q=1, gzip;q=0.0", b"gzip ; Q=0", b"notgzipped", b"gzip;q=0.000", b"gzip;q=1;q=0", b"x-gzip;q=0", b"gzip;q=0."]
HNAMES = ["accept-encoding", "Accept-Encoding", "ACCEPT-ENCODING", "accept", "x-foo", "accept-encodingx", "content-encoding", "te"]


def pct(rng, s, rate):
    """percent-encode some bytes of s (bytes); everything outside the allowed path set is always encoded"""
    out = bytearray()
    for c in s:
        if c not in PATH_OK or c == 0x25 or rng.chance(rate):
            out += b"%" + (b"%02X" % c if rng.chance(50) else b"%02x" % c)
        else:
            out.append(c)
    return bytes(out)


def qenc(rng, s, rate, keep=b""):
    out = bytearray()
    for c in s.encode("utf-8") if isinstance(s, str) else s:
        if c == 0x20 and rng.chance(70):
            out += b"+"
        elif (c not in QUERY_OK or c in b"%&=+#" or rng.chance(rate)) and c not in keep:
            out += b"%%%02X" % c
        else:
            out.append(c)
    return bytes(out)


def junk(rng, n, alphabet):
    return bytes(rng.choice(alphabet) for _ in range(n))


WEIRD = [b"%C3", b"%FF", b"%E2%82", b"%F0%9F%98", b"%C3%A9", b"%E2%82%AC", b"%F0%9F%98%80", b"%80", b"%ED%A0%80", b"%C0%AF", b"%",
         b"%2", b"%zz", b"%2F", b"%2f", b"%00", b"%25", b"%F4%90%80%80", b"%E0%80%80"]


def mutate_path(rng, p):
    k = rng.below(100)
    if k < 40:
        return p
    if k < 55:
        i = rng.below(len(p) + 1)
        return p[:i] + rng.choice(WEIRD) + p[i:]
    if k < 63:
        return p + rng.choice([b"/", b"x", b"//", b"/..", b"%2F"])
    if k < 70:
        return p[:max(1, rng.below(len(p) + 1))]
    if k < 76:
        return p.upper() if rng.chance(50) else b"/" + p
    if k < 82:
        i = rng.below(len(p) + 1)
        return p[:i] + junk(rng, rng.range(1, 6), PATH_OK) + p[i:]
    if k < 88:
        return pct(rng, p, 30)
    if k < 91:
        return p + b"a" * rng.range(500, 6000)
    if k < 92:
        i = rng.below(len(p) + 1)
        return p[:i] + rng.choice([b" ", b"\x80", b"<", b"\x7f", b"`", b"\xc3\xa9"]) + p[i:]   # the http crate rejects these
    return p + rng.choice(WEIRD) + rng.choice(WEIRD)


def rib_query(rng):
    ps = []
    for _ in range(rng.weighted([(0, 25), (1, 40), (2, 20), (3, 10), (5, 5)])):
        k = rng.weighted([("include", 16), ("details", 8), ("select", 22), ("discard", 10), ("filter_op", 8), ("sort", 6), ("format", 10),
                          ("other", 10), ("raw", 6), ("empty", 4)])
        if k == "include":
            ps.append(("include", rng.choice(INCLUDE)))
        elif k == "details":
            ps.append(("details", rng.choice(["communities", "communities,communities", "", "x", "communities,x"])))
        elif k in ("select", "discard"):
            fam = rng.weighted([("as_path", 30), ("peer_as", 30), ("community", 30), ("x", 5), ("", 3), (None, 2)])
            if fam == "community":
                v = rng.choice(COMMS_KNOWN) if rng.chance(65) else rng.choice(COMMS_OTHER)
            elif fam in ("as_path", "peer_as"):
                v = rng.choice(ASNS)
            else:
                v = rng.choice(["1", "", "x"])
            name = k if fam is None else rng.choice(["%s[%s]", "%s[%s]", "%s[%s]", "%s]%s", "%s[%s", "%s[%s]x"]) % (k, fam)
            ps.append((name, v))
        elif k == "filter_op":
            ps.append(("filter_op", rng.choice(["any", "all", "", "ANY", "none"])))
        elif k == "sort":
            ps.append(("sort", rng.choice(["/prefix", "", "x", "/a/b"])))
        elif k == "format":
            ps.append((rng.choice(["format", "format", "format[x]"]), rng.choice(["dump", "json", "", "Dump"])))
        elif k == "other":
            ps.append((rng.choice(["foo", "Include", "include ", "sort_by", "file", "selec", "select[]", "[select]", "é"]), rng.choice(["1", "", "x y"])))
        elif k == "raw":
            ps.append((None, junk(rng, rng.range(1, 12), QUERY_OK)))
        else:
            ps.append((None, b""))
    parts = []
    for n, v in ps:
        if n is None:
            parts.append(v)
        else:
            keep = b"[]" if rng.chance(85) else b""
            e = qenc(rng, n, 3, keep) + (b"=" + qenc(rng, v, 5, b":,./") if (v != "" or rng.chance(70)) else b"")
            parts.append(e)
    return b"&".join(parts)


def gen_request(rng, regs, diff=False):
    """regs: list of (kind, base) registered so far"""
    method = 0 if rng.chance(82) else rng.range(1, 10)
    q = None
    kinds = [("fixed", 22), ("junk", 8)] + [(r, 14) for r in regs]
    k = rng.weighted(kinds)
    if k == "fixed":
        p = rng.choice([b"/metrics", b"/status", b"/status/graph", b"/status/graph/traces/%d" % rng.choice([0, 3, 255, 256, 7]),
                        b"/status/traces", b"/status/graph/traces/x", b"/status/graphaaaaaaa%C3%A9/traces/1", b"/status/graphs",
                        b"/status/graph/x/traces/9", b"/status/traces/", b"/", b"/status/", b"/metrics/x", b"/favicon.ico",
                        b"/status/graph" + junk(rng, rng.range(0, 9), PATH_OK) + rng.choice(WEIRD) + b"/traces/" + b"%d" % rng.below(300)])
        if rng.chance(15):
            q = rib_query(rng)
    elif k == "junk":
        p = b"/" + junk(rng, rng.range(0, 30), PATH_OK)
        if rng.chance(30):
            q = junk(rng, rng.range(0, 20), QUERY_OK)
    else:
        kind, base = k
        b = base.encode()
        if kind == "rib":
            t = rng.weighted([("ok", 40), ("v4", 18), ("v6", 18), ("id", 14), ("none", 3), ("junk", 7)])
            rest = {"ok": lambda: rng.choice(["1.2.3.0/24", "10.0.0.0/8", "2001:db8::/32", "0.0.0.0/0", "2804:1398:100::/48"]), "v4": lambda: rng.choice(V4), "v6": lambda: rng.choice(V6), "id": lambda: rng.choice(INGRESS), "none": lambda: "",
                    "junk": lambda: junk(rng, rng.range(1, 12), PATH_OK).decode("latin-1")}[t]()
            restb = rest.encode("utf-8")
            if rng.chance(25):
                restb = pct(rng, restb, 25)
            else:
                restb = bytes(bytearray(sum(([c] if c in PATH_OK and c != 0x25 else list(b"%%%02X" % c) for c in restb), [])))
            p = b + restb
            if rng.chance(75):
                q = rib_query(rng)
        elif kind in ("routers", "info"):
            t = rng.below(100)
            if t < 45:
                p = b
                if rng.chance(80):
                    ps = []
                    if rng.chance(80):
                        ps.append(b"sort_by=" + qenc(rng, rng.choice(SORT_BY), 4))
                    if rng.chance(50):
                        ps.append(b"sort_order=" + qenc(rng, rng.choice(["asc", "desc", "", "ASC", "up"]), 4))
                    if rng.chance(15):
                        ps.append(b"foo=1")
                    if rng.chance(10):
                        ps.append(b"sort_by[x]=addr")
                    q = b"&".join(ps)
            else:
                name = rng.choice(["rtr-a", "1", "10.0.0.1", "", "2", "rtr-b", "rtr-a ", "10.0.0.2", "RTR-A", "rtr-é"])
                tail = rng.choice(["", "", "/prefixes/x", "/flags/y", "/prefixes/", "/flags/a/prefixes/b", "/prefixes/a/flags/b", "/x", "/"])
                p = b + pct(rng, (name + tail).encode("utf-8"), 8)
        elif kind == "mrt":
            p = b + rng.choice([b"queue", b"queue", b"queuex", b"queue/x", b"x", b"", b"Queue", b"que", b"%71ueue"])
            if rng.chance(60):
                q = b"file=" + qenc(rng, rng.choice(["a.mrt", "/etc/passwd", "../x", ""]), 4, b"./")
        else:  # stub
            p = b + junk(rng, rng.range(0, 6), PATH_OK)
    if q is None or rng.chance(35):
        p = mutate_path(rng, p)
    if not p.startswith(b"/"):      # origin-form only: other request-target forms never reach a path handler this way
        p = b"/" + p
    hs = []
    for _ in range(rng.weighted([(0, 30), (1, 50), (2, 15), (3, 5)])):
        n = rng.weighted([(h, 40 if i < 3 else 5) for i, h in enumerate(HNAMES)])
        v = rng.choice(AE_DIFF) if diff and rng.chance(50) else rng.choice(AE)
        if rng.chance(1):
            v = v + rng.choice([b"\x7f", b"\x01", b"\n"])    # HeaderValue refuses these
        elif rng.chance(8):
            v = junk(rng, rng.range(0, 8), [c for c in range(0x20, 0x7f) if c != 0x3b] + [9, 0x80, 0xe9, 0xff]) + rng.choice([b"", b",gzip", b", gzip"])
        hs.append("%s:%s" % (n, hx(v)))
    return "Q %d %s %s %s" % (method, hx(p), "-" if q is None else hx(q), ",".join(hs) if hs else "-")


BASES = {"rib": ["/prefixes/", "/prefixes/", "/rib/", "/p"], "routers": ["/routers/", "/routers/", "/r/"], "info": ["/routers/", "/routers/", "/r/"],
         "mrt": ["/mrt/m1/", "/mrt/", "/prefixes/q"], "stub": ["/", "/st", "/status/gr", "/prefixes/1", "/routers/rtr", "/x/", "/metrics", "/mrt/m1/queue", "/status/graph/"]}


def gen_case(rng, diff=False):
    ops = []
    if rng.chance(75):
        ops.append("C %d" % (1 if rng.chance(80) else 0))
    if rng.chance(85):
        ops.append("G %d" % rng.weighted([(0, 25), (1, 35), (2, 25), (5, 15)]))
    regs = {}
    nid = 0
    nreg = rng.weighted([(0, 8), (1, 12), (2, 20), (3, 25), (4, 20), (6, 15)])
    for _ in range(nreg):
        kind = rng.weighted([("rib", 30), ("routers", 16), ("info", 16), ("mrt", 14), ("stub", 24)])
        base = rng.choice(BASES[kind])
        ident = "p%d" % nid
        nid += 1
        arg = "%s:%s" % (kind, hx(base)) + (":%d" % rng.choice([200, 200, 400, 404, 418, 500, 503]) if kind == "stub" else "")
        sub = 1 if (kind == "info" and rng.chance(85)) or (kind != "info" and rng.chance(25)) else 0
        ops.append("R %s %s %d" % (ident, arg, sub))
        regs[ident] = (kind, base)
    nreq = rng.range(4, 18)
    for i in range(nreq):
        if regs and rng.chance(6):
            ident = rng.choice(sorted(regs))
            ops.append("D %s" % ident)
            # the model keeps answering for the paths of a dropped processor: keep generating them
        if rng.chance(4):
            ops.append("G %d" % rng.below(3))
        ops.append(gen_request(rng, sorted(set(regs.values())), diff))
    ops.append("Q 0 %s - -" % hx("/status"))
    return ";".join(ops)


def gen(rng, tier):
    n = 12000 if tier == "quick" else 150000
    for i in range(n):
        yield gen_case(rng, diff=(i % 400 == 7))


def nontrivial(case, out):
    toks = out.replace("|||", " ").split()
    return len(set(toks)) >= 3 and any(not t.startswith(("404", "405")) for t in toks)


def classify(case, out):
    ks = set()
    for t in out.split("|||")[0].split():
        ks.add("status:" + t.split(",")[0])
        if ",gzip" in t:
            ks.add("gzip")
        if t.startswith("<"):
            ks.add("community-verdict-open")
    if "|||" in out:
        ks.add("spec-differs(gzip-not-accepted)")
    for o in case.split(";"):
        if o.startswith("R "):
            ks.add("reg:" + o.split()[2].split(":")[0])
        if o.startswith("D "):
            ks.add("drop")
    return sorted(ks)


def _q(method, path, query=None, headers=None):
    return "Q %d %s %s %s" % (method, hx(path), "-" if query is None else hx(query), ",".join("%s:%s" % (n, hx(v)) for n, v in headers) if headers else "-")


def corpus():
    st = _q(0, "/status")
    rib = "R a rib:%s 0" % hx("/prefixes/")
    return [
        # the five panics found on the unchanged tree (each followed by GET /status), now regression cases for the fixes
        ";".join(["C 1", _q(0, "/status", None, [("accept-encoding", b"g\xc3\xa9")]), st]),
        ";".join(["G 2", _q(0, "/status/graphaaaaaaa%C3%A9/traces/1"), st]),
        ";".join(["G 0", _q(0, "/status/graph"), _q(0, "/status/graph/traces/3"), st]),
        ";".join([rib, _q(0, "/prefixes/1.2.3.0/24", "select[peer_as]=a%C3%A9"), st]),
        ";".join([rib, _q(0, "/prefixes/1.2.3.0/24", "select[community]=0x000000000000000%C3%A900000000000000000000000"), st]),
        ";".join([rib, _q(0, "/prefixes/1.2.3.0/24", "discard[as_path]=1,2,a%C3%A9&select[community]=0x0000000000000000000000000000000%C3%A90000000"), st]),
        # the known finding: gzip although q=0
        ";".join(["C 1", _q(0, "/status", None, [("Accept-Encoding", b"gzip;q=0")]), st]),
        # method gate, unknown path, fixed paths, gzip on errors
        ";".join(["C 1", _q(1, "/status"), _q(7, "/status"), _q(0, "/nope", None, [("accept-encoding", b"gzip")]), _q(0, "/metrics"), _q(0, "/%6Detrics"), st]),
        # registration order: sub-resources first, dead ones skipped
        ";".join(["R a stub:%s:418 0" % hx("/x"), "R b stub:%s:503 0" % hx("/x"), "R c stub:%s:200 1" % hx("/x/y"), _q(0, "/x/y/z"), _q(0, "/x/q"), "D a", _q(0, "/x/q"),
                  "D c", _q(0, "/x/y/z"), "R d stub:%s:400 1" % hx("/x"), _q(0, "/x/q"), st]),
        # rib: prefixes, ingress ids, parameters
        ";".join([rib, _q(0, "/prefixes/2804:1398:100::/48"), _q(0, "/prefixes/1.2.3.4/24"), _q(0, "/prefixes/5"), _q(0, "/prefixes/x"), _q(0, "/prefixes/1.2.3.0%2F24"),
                  _q(0, "/prefixes/10.0.0.0/7", "include=moreSpecifics"), _q(0, "/prefixes/10.0.0.0/8", "include=moreSpecifics&include=x"),
                  _q(0, "/prefixes/10.0.0.0/8", "format=dump"), _q(0, "/prefixes/10.0.0.0/8", "format=x"), _q(0, "/prefixes/10.0.0.0/8", "select[peer_as]=AS1&filter_op=all&sort=/x"), st]),
        # routers + router info + mrt
        ";".join(["R a routers:%s 0" % hx("/routers/"), "R b info:%s 1" % hx("/routers/"), "R c mrt:%s 0" % hx("/mrt/m1/"), _q(0, "/routers/", "sort_by=state&sort_order=desc"),
                  _q(0, "/routers/", "sort_by=x"), _q(0, "/routers/rtr-a/flags/p"), _q(0, "/routers//prefixes/x"), _q(0, "/routers/nope"), _q(0, "/mrt/m1/queue", "file=a"), _q(0, "/mrt/m1/x"), st]),
    ]


def known_signature(k, engine, case, model, spec, impl):
    """C12-gzip-substring: the implementation gzips (as the model of the code says it does) although the first
    Accept-Encoding value does not accept gzip under RFC 9110 (q=0, or 'gzip' only as a substring of another token)."""
    if k.get("id") != "C12-gzip-substring" or engine not in ("c12", "c12tcp"):
        return False
    m, s, i = model.split(), spec.split(), impl.split()
    if not (len(m) == len(s) == len(i)) or m != i:
        return False
    diffs = [(a, b) for a, b in zip(s, i) if a != b]
    if not diffs:
        return False
    for a, b in diffs:
        if not (",gzip" in b and a == b.replace(",gzip", ",-", 1)):
            return False
    # the minimised case must actually carry an Accept-Encoding value containing "gzip"
    return any("677a6970" in o.lower() for o in case.split(";") if o.startswith(("Q ", "K ")))


ENGINES = [{"name": "c12", "gen": gen, "corpus": corpus, "nontrivial": nontrivial, "classify": classify, "shards": 8}]


# ---------------------------------------------------------------- concurrency stages (real threads; supporting evidence for Http/ConcModel.v)
REGRACE_CFG = {"quick": [(8, 48, 60), (3, 24, 150), (16, 12, 60)], "thorough": [(8, 64, 400), (3, 24, 1500), (16, 32, 300), (2, 200, 300)]}


def regrace(V, tier, seed):
    """N threads register (and partly drop again) distinct endpoints at the same moment through the real
    Resources::register; then every endpoint is requested through the real Server::handle_request. By
    C12_conc_requests_as_sequential the answers must be those of a sequential history of the same calls: the
    harness checks every round against the statuses that follow from the programs, and the last (or the first
    failing) round is also judged by the extracted model (engine c12 on the threads' programs one after the other)."""
    import subprocess
    r = {"name": "c12-regrace", "evaluations": 0, "coverage": {"runs": []}, "failures": []}
    for k, (threads, per, rounds) in enumerate(REGRACE_CFG["thorough" if tier == "thorough" else "quick"]):
        args = [V.VH, "c12-regrace", str(threads), str(per), str(rounds), str((seed + 17 * k) & 0xffffffff)]
        try:
            p = subprocess.run(args, stdout=subprocess.PIPE, stderr=subprocess.PIPE, text=True, timeout=900)
            lines = p.stdout.split("\n")
        except subprocess.TimeoutExpired:
            lines = ["stall the stage did not finish within 900 s", "", ""]
        verdict = lines[0].strip() if lines else "no output"
        case = lines[1].strip() if len(lines) > 1 else ""
        obs = lines[2].strip() if len(lines) > 2 else ""
        run = {"threads": threads, "endpoints_per_thread": per, "rounds": rounds, "result": verdict[:300]}
        r["evaluations"] += rounds * threads * per
        replay = " ".join(args)
        if case:
            mo, spec = V.split_model(V.run_lines(V.ORACLE, "c12", [case])[0])
            if mo.startswith("MODEL-ERROR"):
                raise V.CheckBroken("oracle failed on the sequential history of a c12-regrace round: " + mo)
            run["judged_by"] = "DispatchModel.run on the threads' programs, one after the other (C12_conc_requests_as_sequential)"
            if not V.obs_match(spec, obs):
                d = V.first_diff(spec, obs)
                nbad = sum(1 for a, b in zip(spec.split(), obs.split()) if not V.tokens_match(a, b))
                r["failures"].append({"what": "c12-regrace: after all threads had registered their endpoints concurrently the server does not answer "
                                              f"as after any sequential history of the same calls: {nbad} of {len(spec.split())} requests differ; first "
                                              f"difference (position, demanded, found) = {d}; harness verdict: {verdict[:300]}",
                                      "kind": "property", "replay_cmd": replay, "case": case[:4000], "model": spec[:2000], "impl": obs[:2000]})
                r["coverage"]["runs"].append(run)
                break       # one report per stage (the replay file is per stage)
        r["coverage"]["runs"].append(run)
        if not verdict.startswith("ok"):
            r["failures"].append({"what": f"c12-regrace: {verdict[:600]}", "kind": "property", "replay_cmd": replay})
            break
    return r


def gen_lock(rng, tier):
    """engine c12lock: request kinds made while the connection task sits inside process_msg"""
    for _ in range(5 if tier == "quick" else 40):
        yield " ".join(rng.choice(["I", "L"]) for _ in range(rng.range(1, 5)))


def statelock(V, tier, seed):
    """One BMP connection through the real RouterHandler with its router list / router info endpoints on the same
    state machine mutex (the scenario of engine c12lock, free-running): requests on a multi-thread runtime while
    messages are processed back to back. Every request must get its 200, nothing may panic."""
    import subprocess
    r = {"name": "c12-statelock", "evaluations": 0, "coverage": {"runs": []}, "failures": []}
    for k, ms in enumerate([1500, 800] if tier != "thorough" else [6000, 6000, 3000]):
        args = [V.VH, "c12-statelock", str(ms), str((seed + 31 * k) & 0xffffffff)]
        try:
            p = subprocess.run(args, stdout=subprocess.PIPE, stderr=subprocess.PIPE, text=True, timeout=300)
            out = p.stdout.strip().split("\n")[-1] if p.stdout.strip() else f"no output (exit {p.returncode}) {p.stderr[-300:]}"
        except subprocess.TimeoutExpired:
            out = "FAIL the stage did not finish within 300 s (a request or the connection task hangs)"
        r["coverage"]["runs"].append({"hammer_ms": ms, "result": out[:400]})
        if out.startswith("ok"):
            try:
                r["evaluations"] += int(out.split("requests=")[1].split()[0])
            except (IndexError, ValueError):
                pass
        elif out.startswith("broken"):
            raise V.CheckBroken("c12-statelock could not set its scenario up: " + out)
        else:
            r["failures"].append({"what": f"c12-statelock: a router-info / router-list request made while BMP messages of that router are being "
                                          f"processed did not get its response: {out[:700]}", "kind": "property", "replay_cmd": " ".join(args)})
            break
    return r


ENGINES.append({"name": "c12lock", "gen": gen_lock, "corpus": lambda: ["I L", "L I", "I", "L", "I I L I"], "sep": " ", "shards": 5, "timeout": 300,
                "nontrivial": lambda case, out: "blocked" in out,
                "classify": lambda case, out: ["requests:%d" % len(case.split())] + (["info"] if "I" in case else []) + (["list"] if "L" in case else [])})
EXTRAS = [regrace, statelock]

# ---------------------------------------------------------------- the router list over a population of monitored routers (engine c12rl)
RL_KEYS = SORT_BY[:12]
RL_PEERS = [0, 5, 6, 8, 4, 9]
RL_STATES = {
    "initiating": lambda k: ["N"],
    "no-peers": lambda k: ["R"],
    "none-eor": lambda k: ["R", "U %d 0 0" % k, "U %d 5 0" % k],
    "all-dumping": lambda k: ["R", "U %d 0 1" % k, "U %d 5 1" % k, "A %d 0" % k, "A %d 5" % k],
    "mixed": lambda k: ["R", "U %d 0 1" % k, "U %d 5 0" % k, "U %d 6 1" % k, "A %d 0" % k, "A %d 6" % k, "E %d 6" % k, "S %d" % k, "H %d" % k],
    "all-down": lambda k: ["R", "U %d 0 1" % k, "A %d 0" % k, "D %d 0" % k],
    "late-init": lambda k: ["N", "I %d" % k, "U %d 8 1" % k],
}


def rl_q(q):
    return "Q " + (hx(q) if q is not None else "-")


def rl_all_requests():
    """every sort_by key x sort_order, plus the unknown values"""
    qs = [None]
    for key in RL_KEYS + ["bogus", ""]:
        for order in [None, "asc", "desc", "bogus"]:
            qs.append(("sort_by=%s" % key + ("&sort_order=%s" % order if order is not None else "")).encode())
    qs += [b"sort_order=desc", b"sort_order=", b"sort_order=DESC", b"sort_by[x]=peers_up_dumping_pc", b"sort_order=asc&sort_by=peers_up_eor_capable_pc",
           b"sort_by=peers_up&sort_by=bogus", b"sort_by=bogus&sort_by=peers_up", b"x=1&sort_by=peers_up_eor_capable_pc&y=2"]
    return [rl_q(q) for q in qs]


def rl_population(names):
    ops = []
    for k, n in enumerate(names):
        ops += RL_STATES[n](k)
    return ops


# RouterListModel.rl_discriminating: (sysName, sysDesc, peers up, EoR capable, dumping, soft, hard); every two judged sort keys order
# some pair of these routers differently (C12_router_list_keys_told_apart), so a key that sorts on the wrong metric shows
RL_DISCRIMINATING = [("b", "y", 3, 1, 1, 0, 2), ("a", "z", 2, 2, 2, 1, 0), ("c", "x", 1, 0, 0, 2, 1), ("d", "w", 4, 3, 1, 0, 0),
                     ("e", "v", 5, 4, 2, 3, 3), None, ("f", "u", 1, 1, 0, 1, 1)]


def rl_router(k, spec):
    if spec is None:
        return ["N"]
    name, desc, up, eor, dump, soft, hard = spec
    ops = ["R %s %s" % (name, desc)]
    for j in range(up):
        ops.append("U %d %d %d" % (k, RL_PEERS[j], 1 if j < eor else 0))
    for j in range(dump):
        ops.append("A %d %d" % (k, RL_PEERS[j]))
    return ops + ["S %d" % k] * soft + ["H %d" % k] * hard


def corpus_rl():
    names = list(RL_STATES)
    pops = [[]] + [[n] for n in names] + [names, ["initiating", "mixed", "all-dumping"], ["mixed", "mixed", "no-peers"]]
    disc = [op for k, spec in enumerate(RL_DISCRIMINATING) for op in rl_router(k, spec)]
    return [";".join(rl_population(p) + rl_all_requests()) for p in pops] + [";".join(disc + rl_all_requests())]


def gen_rl_case(rng):
    ops = []
    n = rng.weighted([(0, 5), (1, 35), (2, 30), (3, 20), (5, 10)])
    disc = rng.chance(20)
    if disc:
        n = len(RL_DISCRIMINATING)
        for k, spec in enumerate(RL_DISCRIMINATING):
            ops += rl_router(k, spec)
    for k in range(0 if disc else n):
        if rng.chance(30):
            ops += RL_STATES[rng.choice(list(RL_STATES))](k)
            continue
        if rng.chance(15):
            ops.append("N")
            if rng.chance(60):
                continue
            ops.append("I %d" % k)
        else:
            ops.append("R %s %s" % (rng.choice(["a", "b", "ab", "B", "r1", "r10", "r2", "zz", "0"]), rng.choice(["d", "x", "y", "D1", "d0", "z9"])) if rng.chance(80) else "R")
        peers = {}
        for _ in range(rng.weighted([(0, 20), (1, 15), (2, 15), (4, 20), (8, 20), (14, 10)])):
            what = rng.weighted([("U", 40), ("A", 25), ("E", 15), ("D", 12), ("S", 4), ("H", 4)])
            if what == "U":
                free = [p for p in RL_PEERS if p not in peers]
                if free:
                    p = rng.choice(free)
                    peers[p] = rng.chance(60)
                    ops.append("U %d %d %d" % (k, p, 1 if peers[p] else 0))
            elif what in ("A", "E", "D"):
                if peers:
                    p = rng.choice(sorted(peers))
                    ops.append("%s %d %d" % (what, k, p))
                    if what == "D":
                        del peers[p]
            else:
                ops.append("%s %d" % (what, k))
    for _ in range(rng.range(3, 9)):
        parts = []
        if rng.chance(90):
            key = rng.choice(RL_KEYS[7:9]) if rng.chance(35) else rng.choice(SORT_BY + ["bogus", "peers_up_dumping_pc ", "é"])
            name = rng.weighted([("sort_by", 85), ("sort_by[a]", 5), ("sort_by]", 3), ("Sort_by", 3), ("sort_by ", 2), ("sort", 2)])
            parts.append(qenc(rng, name, 3, keep=b"[]") + b"=" + qenc(rng, key, 8))
        if rng.chance(45):
            parts.append(b"sort_order=" + qenc(rng, rng.choice(["asc", "desc", "desc", "", "ASC", "down", "asc,desc"]), 8))
        if rng.chance(10):
            parts.append(qenc(rng, rng.choice(["x", "format", "sort"]), 0) + b"=" + qenc(rng, rng.choice(["1", "", "peers_up"]), 0))
        if rng.chance(25):
            parts.reverse()
        ops.append(rl_q(b"&".join(parts) if parts or rng.chance(50) else None))
    return ";".join(ops)


def gen_rl(rng, tier):
    for _ in range(400 if tier == "quick" else 20000):
        yield gen_rl_case(rng)


def classify_rl(case, out):
    ks = set()
    for op in case.split(";"):
        t = op.split()
        if t and t[0] == "Q" and t[1] not in ("-", "_"):
            q = bytes.fromhex(t[1]).decode("latin-1")
            for key in RL_KEYS:
                if "sort_by=" + key in q and not q.split("sort_by=" + key, 1)[1][:1].isalpha() and not q.split("sort_by=" + key, 1)[1][:1] == "_":
                    ks.add("key:" + key)
    toks = out.split()
    for t in toks:
        if t in ("400", "PANIC", "none", "rejected"):
            ks.add("answer:" + t)
        elif t.startswith("rows="):
            ks.add("answer:200")
        elif t[0] == "c" and "=" in t and t[1:2].isdigit():
            vs = t.split("=", 1)[1].split(",")
            if len(set(vs)) > 1:
                ks.add("order-judged:" + ("desc" if vs != sorted(vs, key=lambda x: (0, int(x)) if x.isdigit() else (1, x)) else "asc"))
        elif "=" in t and t[0] == "r":
            v = t.split("=", 1)[1]
            if v == "-":
                ks.add("router:initiating")
            elif v.startswith("0/"):
                ks.add("router:no-peer-up")
            elif "/0(0)/" in v:
                ks.add("router:peers-up-none-eor-capable")
            elif v.endswith("(100)") and not v.endswith("/0(100)"):
                ks.add("router:all-dumping")
            else:
                ks.add("router:mixed")
    return sorted(ks)


def nontrivial_rl(case, out):
    # a request with a sort key against at least one router that is past its Initiation, or a refused request
    return ("sort_by" in "".join(bytes.fromhex(t.split()[1]).decode("latin-1") for t in case.split(";") if t.startswith("Q ") and t.split()[1] not in ("-", "_"))
            and any(t[0] == "r" and "=" in t and not t.endswith("=-") and not t.startswith("rows=") for t in out.split())) or "400" in out.split()


ENGINES.append({"name": "c12rl", "gen": gen_rl, "corpus": corpus_rl, "nontrivial": nontrivial_rl, "classify": classify_rl, "shards": 8})

# ---------------------------------------------------------------- raw bytes over TCP to the HTTP server of a running pipeline
from props import c12tcp_common  # noqa: E402
ENGINES.append(c12tcp_common.engine())

LEVEL_TEXT = ("Wire level: for ALL byte strings a client can send on a connection, the model of httparse + hyper's Server::parse + http::Uri delivers only "
              "requests the dispatch model accepts (request_ok), so every answer on every connection is a classified status of rotonda's handler, hyper's own "
              "400 / 414 / 431, or a closed connection - never a panic; conversely every origin-form request made of the bytes request_ok allows is delivered "
              "as exactly that request; GET /status on a new connection answers 200 under every configuration. "
              "Concurrency: for all thread sets and all schedules of the step model of Resources::register (mutex, load, build, store, release; owners dropping "
              "processors at any moment) the live entries equal a sequential register/drop history, so no request can tell the difference, every returned "
              "registration is present and sub-resources stay first; refutations (lost endpoint -> 404) for the mutex-around-the-store-only and no-mutex variants. "
              "For the BMP state machine mutex: 'the Option is Some whenever the mutex is free' for all schedules of connection task, info requests and list "
              "renderings, hence no info request panics; refuted for take-release-process-put. Supported by real-thread stages on the real code. "
              "Theorems over all requests (any method, raw path bytes, query bytes, header lists), all processor configurations and all "
              "registration histories of the dispatch model: totality and status classification without a panic outcome, method gate, "
              "unknown path -> 404, malformed rib prefix / parameters -> 400, gzip only if compression is on and the client named it, "
              "sub-resources-first ordering of Resources, GET /status answers after any history; refutation lemmas with computed "
              "witnesses for the five panic sites of the original code and for gzip;q=0; kernel-checked, axiom-free; model tied to "
              "the real Server::handle_request and the real processors by differential execution on every run.")
DESIGN_REF = "DESIGN.md section 6, C12"
LEVEL_NOTE = ("Partial: hyper's request parser and per-connection request sequence are modelled as read from the sources of httparse 1.10 / hyper 0.14.32 / "
              "http 0.2.12 (Http/WireModel.v) and tied to the real server by raw bytes over loopback TCP (engine c12tcp), not verified against those crates; "
              "request bodies, HTTP/2, TLS and timeouts are outside; where the arrival of the bytes decides (cut malformed heads, heads beyond the read "
              "buffer, an error response behind unread pipelined bytes) the expectation is an alternation; response "
              "bodies are only checked for well-formed framing, 'gzip decodes' and '4xx carries a reason'; processors are modelled on one fixed unit state each. "
              "Trusted: Coq kernel, ExtrOcamlBasic extraction + OCaml driver, Rust harness and generators.")
TECHNIQUE = "Coq proof over an executable dispatch model + model/implementation correspondence (differential execution)"
