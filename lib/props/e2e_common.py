"""The `e2e` engine as an ENGINES entry for the plugins that use the `pipe` engine (C01 C02 C03 C15).

`e2e` runs a real rotonda pipeline in-process (config -> Manager::spawn -> bmp-tcp-in unit on a loopback port -> rib unit ->
null target, HTTP server) and talks to it from outside only: BMP bytes over TCP, GET /metrics, GET /prefixes/<prefix>,
GET /routers/. Same case grammar as `pipe` (BMP ops only) plus `L` / `H` = reload the configuration with another / the same listen port.
The expectation is the `pipe` model projected on what is visible over HTTP (oracle/eng_e2e.ml, coq/theories/E2e/E2eModel.v).

Each property gets the case profile of its `pipe` generator (so that the departures it meets are the ones its
known_signature accepts), at small lengths: a case costs 30-80 ms."""
import sys, os
sys.path.insert(0, os.path.dirname(os.path.dirname(os.path.abspath(__file__))))
from gens import pipegen
from props import pipe_common

E2E_TRUSTED = ("Rust harness engine `e2e`: real Config::from_config_file / Manager::spawn / http::Server / bmp-tcp-in accept loop and RouterHandler / "
               "gate and DirectLink into the rib unit / RIB and router HTTP APIs, driven over loopback TCP; quiescence = per-router received counter of "
               "GET /metrics reached the number of messages written, then GET /routers/ (which takes every session's state-machine lock)")

if E2E_TRUSTED not in pipe_common.TRUSTED_BASE:
    pipe_common.TRUSTED_BASE.append(E2E_TRUSTED)     # the list the four plugins import

PROFILES = {
    # peers, flaps, reup, metrics, query_ops
    "C01": dict(peers=pipegen.DISTINCT_PEERS, reup=False, metrics=False, query_ops=True, reload=True),
    # `ingress` = % of the cases with an ingress story: a second ingress unit from the start, a reload that takes bmp-in out of the
    # configuration (J 0) and, often, a later one that puts it back (J 1), the router returning to the new unit; JL reads the router lists
    "C02": dict(peers=None, reup=False, metrics=False, query_ops=True, reload=True, ingress=20, bgp=15),
    "C03": dict(peers=pipegen.DISTINCT_PEERS[:4], reup=True, metrics=False, query_ops=True, reload=True, reload_pc=30, ingress=25),
    "C15": dict(peers=[0, 3, 5, 6, 8], reup=True, metrics=True, query_ops=False, reload=True, bgp=10, bgp_reloads=True),
    # C13: the configuration is reloaded under traffic; sessions and RIB contents must survive, later routers must be served
    # (variants = reloads that change the bmp unit's router_id_template; V k reads which template labels a router's series)
    # ... and, in 40 % of the cases, a Roto script: named at start-up (F), edited / renamed / removed (W) and a second RIB unit
    # added / removed / re-typed (Y) before a reload; P asks the second unit
    # ... and, in 35 % of the cases, a shorthand RIB (K n: `filter_names` with n+1 entries = a physical RIB and n generated vRIBs) whose
    # vRIB endpoints are asked (N i af p) at start-up and after every reload, also reloads that change the number of vRIBs
    "C13": dict(peers=pipegen.DISTINCT_PEERS, reup=False, metrics=False, query_ops=True, reload=True, reload_pc=100, variants=True, scripts=40, vribs=35, ingress=25, bgp=15, bgp_reloads=True, ing_filters=20),
    # C10: which script a unit's rib-in-pre filter comes from: every case has a script story (F / W / Y / P around reloads)
    # ... `ing_filters` = % of the script stories whose scripts also have the ingress units' own filters (variants 10+r / 20+r: bmp-in
    # rejects the peers of AS 65002 / 65003, bgp-in the speaker of AS 65101 / 65100), `bgp` = % of cases around the bgp-tcp-in unit
    "C10": dict(peers=pipegen.DISTINCT_PEERS, reup=False, metrics=False, query_ops=True, reload=False, scripts=100, ing_filters=35, bgp=10),
    # C14: routers come back, also after the listener was re-bound; G k = how many ingress ids router k has been given
    # ... and, in 30 % of the cases, a router that connects a SECOND time while its first connection is open (C2 k; the old one stays
    # open or ends later: X2 k); RL = routers listed
    "C14": dict(peers=pipegen.DISTINCT_PEERS[:3], reup=True, metrics=False, query_ops=False, reload=True, reload_pc=60, ids=True, second=30),
}

CORPUS = {
    "C01": [
        # two routers, same peer header on both: told apart by the router's address only
        "C 0;C 1;I 0;I 1;U 0 0 0;U 1 0 0;R 0 0 0 1 1,2 0 -;R 1 0 0 2 1 0 -;R 0 0 0 3 - 0 2;Q 0 1;Q 0 2",
        # overlap in one UPDATE (fixed C01-1), seen through the HTTP API
        "C 0;I 0;U 0 0 0;R 0 0 0 3 1 0 -;R 0 0 0 4 1 0 1;Q 0 1",
        # a reload that moves the listener: the connected router is not affected ...
        "C 0;I 0;U 0 0 0;R 0 0 0 1 1 0 -;L;R 0 0 0 2 2 0 -;Q 0 1;Q 0 2;X 0;Q 0 1",
        # ... and a router that connects after a reload is served (fixed C13-reload-drops)
        "C 0;I 0;U 0 0 0;R 0 0 0 1 1 0 -;H;C 1;I 1;U 1 5 0;R 1 5 0 3 1 0 -;Q 0 1",
    ],
    "C02": [
        # a lost connection withdraws that router's routes and nothing else (read_from_router's cleanup)
        "C 0;C 1;I 0;I 1;U 0 0 0;U 0 5 0;U 1 0 0;R 0 0 0 1 1 0 -;R 0 5 0 2 1 0 -;R 1 0 0 3 1 0 -;X 0;Q 0 1",
        # known finding C02-1 end to end
        "C 0;I 0;U 0 0 0;U 0 1 0;R 0 0 0 3 1 0 -;D 0 1;Q 0 1",
        # the other router has a peer of the same AS and address
        "C 0;C 1;I 0;I 1;U 0 6 0;U 1 6 0;R 0 6 0 1 1,2 0 -;R 1 6 0 2 1,3 0 -;X 1;Q 0 1;Q 0 2;Q 0 3",
    ],
    "C03": [
        # a router disconnects, reconnects and re-announces: ids are reused (find_existing_bmp_router), known finding C03-1
        "C 0;I 0;U 0 0 0;R 0 0 0 3 1,2 0 -;X 0;C 0;I 0;U 0 0 0;R 0 0 0 4 1 0 -;Q 0 1;Q 0 2",
        # ... also when the listener was re-bound in between (the unit's own ingress id must not change)
        "C 0;I 0;U 0 0 0;R 0 0 0 3 1 0 -;X 0;L;C 0;I 0;U 0 0 0;R 0 0 0 4 2 0 -;Q 0 1;Q 0 2",
        # ... the peer comes back on the same connection
        "C 0;I 0;U 0 0 0;R 0 0 0 3 1 0 -;D 0 0;U 0 0 0;R 0 0 0 4 2 0 -;Q 0 1;Q 0 2",
        # not re-announced: stays withdrawn
        "C 0;C 1;I 0;I 1;U 0 0 0;U 1 0 0;R 0 0 0 1 1 0 -;R 1 0 0 2 1 0 -;X 0;C 0;I 0;Q 0 1",
    ],
    "C15": [
        # fixed 8a86f45: connected routers went never down; a returning router's peer gauges kept the lost session's peers
        "C 0;I 0;U 0 0 1;R 0 0 0 1 1 0 -;M 0;X 0;M 0;C 0;I 0;U 0 0 1;R 0 0 0 2 1,2 0 -;M 0",
        "C 0;C 1;I 0;I 1;U 0 0 0;U 1 5 1;X 0;M 1;C 0;I 0;M 0",
        # known finding C15-4: a connected router is not counted before its first message
        "C 0;M 0;C 1;M 1;I 0;I 1;U 0 0 1;U 1 0 1;E 0 0 0;M 0;M 1",
    ],
    "C13": [
        # fixed C13-reload-drops: a router that connects after a reload (even of an unchanged file) was dropped at once
        "C 0;I 0;U 0 0 0;R 0 0 0 1 1 0 -;H;C 1;I 1;U 1 5 0;R 1 5 0 3 1 0 -;Q 0 1",
        "H;C 0;I 0;U 0 0 0;R 0 0 0 2 1 0 -;Q 0 1",
        # sessions and RIB contents survive reloads; the listener moves; a lost connection after a reload still cleans up
        "C 0;I 0;U 0 0 0;R 0 0 0 1 1,2 0 -;L;R 0 0 0 2 2 0 -;H;Q 0 1;Q 0 2;C 1;I 1;U 1 0 0;R 1 0 0 3 1 0 -;L;X 0;Q 0 1;Q 0 2",
        # every reload is applied, not only the first: the second one's router_id_template labels the router that connects after it
        # (seeded C13-1: the manager kept the agent of the unit's old gate, so only the first reload reached the unit)
        "H 1;C 0;I 0;V 0;H 2;C 1;I 1;V 1;V 0",
        "C 0;I 0;U 0 0 0;R 0 0 0 1 1 0 -;H 1;H 0;H 2;C 1;I 1;U 1 0 0;R 1 0 0 2 1 0 -;V 1;V 0;Q 0 1",
        # a reload that moves the listener AND changes another setting applies both (seeded C13-3: the re-bind path returned early)
        "L 1;C 0;I 0;V 0;L 2;C 1;I 1;V 1;V 0",
        "C 0;I 0;L 2;C 1;I 1;U 1 5 0;R 1 5 0 1 1 0 -;V 1;V 0;Q 0 1",
    ],
    "C10": [],   # = SCRIPT_CORPUS, below
    "C14": [
        # a router that comes back is given the id it had - also after the listener was re-bound (seeded C14-3: the unit
        # re-registered its own id on every bind, so the lookup by (parent, address) missed)
        "C 0;I 0;G 0;X 0;C 0;I 0;G 0",
        "C 0;I 0;G 0;X 0;L;C 0;I 0;G 0",
        "C 0;C 1;I 0;I 1;G 0;G 1;L;X 1;X 0;H;C 1;C 0;G 0;G 1;L;X 0;C 0;G 0",
    ],
}


# Roto script of the configuration: F s = start-up script, W s [1] = edit (in place / under a new name; 0 = removed), Y y = rib2
# absent / rib / another type, P = query of rib2. Script s (1..8) rejects prefix s at rib-in-pre, 9 has no rib-in-pre filter.
SCRIPT_CORPUS = [
    # seeded C10-2 (compile_roto_script returned early once a script was compiled): a unit added by a reload must filter with the
    # script the RELOADED configuration names - edited in place ...
    "F 1;C 0;I 0;U 0 0 0;R 0 0 0 1 1 0 -;W 2;Y 1;H;R 0 0 0 1 1,2,3 0 -;Q 0 1;Q 0 2;Q 0 3;P 0 1;P 0 2;P 0 3",
    # ... or under another file name ...
    "F 1;C 0;I 0;U 0 0 0;W 2 1;Y 1;H;R 0 0 0 1 1,2,3 0 -;Q 0 1;Q 0 2;P 0 1;P 0 2",
    # ... or a script that has no rib-in-pre filter any more: the new unit accepts everything
    "F 1;C 0;I 0;U 0 0 0;W 9;Y 1;H;R 0 0 0 1 1,2,3 0 -;Q 0 1;P 0 1;P 0 2",
    # ... also when the unit appears by a change of type (terminated and started) and the listener moves in the same reload
    "F 1;Y 2;H;C 0;I 0;U 0 0 0;R 0 0 0 1 1,2,3 0 -;P 0 2;W 2;Y 1;L;P 0 2;R 0 0 0 2 2,3,4 0 -;P 0 1;P 0 2;P 0 3;P 0 4;Q 0 4;X 0;P 0 3;Q 0 3",
    # fixed (C13-script-removed): roto_script taken out of the configuration - a unit started by that reload has no filter
    "F 1;C 0;I 0;U 0 0 0;W 0;Y 1;H;R 0 0 0 1 1,2,3 0 -;Q 0 1;Q 0 2;P 0 1;P 0 2",
    # no script at start-up, one named by the reload: the unit that runs since start-up stays unfiltered, the new one filters
    "C 0;I 0;U 0 0 0;W 2;Y 1;H;R 0 0 0 1 1,2,3 0 -;Q 0 2;P 0 1;P 0 2;P 0 3",
    # running units keep filter and RIB contents over edits and reloads (what the code does: design-notes/E2E.md O6); a unit that is
    # removed and added again starts empty with the script of the reload that adds it
    "F 1;C 0;I 0;U 0 0 0;Y 1;H;R 0 0 0 1 1,2,3 0 -;P 0 2;W 2;H;H 1;L;R 0 0 0 2 4 0 -;P 0 1;P 0 2;P 0 3;P 0 4;Q 0 4",
    "F 1;C 0;I 0;U 0 0 0;Y 1;H;R 0 0 0 1 1,2,3 0 -;P 0 2;W 2;Y 0;H;P 0 2;Y 1;H;P 0 2;P 0 3;R 0 0 0 2 2,3,4 0 -;P 0 2;P 0 3;P 0 4;Q 0 4",
    "F 1;C 0;I 0;U 0 0 0;Y 1;H;R 0 0 0 1 1,2,3 0 -;P 0 2;W 2;Y 2;H;P 0 2;Y 1;H;P 0 2;P 0 3;R 0 0 0 2 2,3,4 0 -;P 0 2;P 0 3;P 0 4;Q 0 4",
    # withdrawals and a lost connection reach both units; a rejected prefix stays out of the filtered unit only
    "F 3;C 0;C 1;I 0;I 1;U 0 0 0;U 1 5 0;Y 1;W 4;H;R 0 0 0 1 3,4,5 0 -;R 1 5 0 2 3,4 0 -;R 0 0 0 3 - 0 5;X 1;Q 0 3;Q 0 4;Q 0 5;P 0 3;P 0 4;P 0 5",
    # seeded C10-c1 (the units fetch their filter with try_lock().ok()?): a unit that starts while something else holds the mutex
    # around the compiled script must wait and then HAVE its filter - at start-up ...
    "F 1;FH;C 0;I 0;U 0 0 0;R 0 0 0 1 1,2,3 0 -;Q 0 1;Q 0 2;Q 0 3",
    # ... and a unit started by a reload (the script edited in between)
    "F 1;C 0;I 0;U 0 0 0;W 2;Y 1;FH;H;R 0 0 0 1 1,2,3 0 -;Q 0 1;Q 0 2;P 0 1;P 0 2;P 0 3",
    "F 2;FH;C 0;I 0;U 0 0 0;Y 1;FH;L;R 0 0 0 1 1,2,3 0 -;Q 0 2;Q 0 3;P 0 2;P 0 3",
]
# The ingress units' own filters: script variants 10+r / 20+r = bmp-in rejects every message about a peer of AS 65002 (pool peer 6) /
# 65003 (peer 8), bgp-in every UPDATE of the speaker of AS 65101 (address 1) / 65100 (address 0); rib-in-pre as variant r.
INGRESS_FILTER_CORPUS = [
    # the rejected peer's Peer Up never happens: its routes never reach the RIB, the other peer's do (and rib-in-pre still rejects prefix 1)
    "F 11;C 0;I 0;U 0 0 0;U 0 6 0;R 0 0 0 1 1,2,3 0 -;R 0 6 0 2 2,3 0 -;Q 0 1;Q 0 2;Q 0 3;S 0 6;D 0 6;Q 0 2",
    "F 20;C 0;C 1;I 0;I 1;U 0 8 0;U 1 8 1;U 1 6 0;R 0 8 0 1 2 0 -;R 1 8 0 1 2 0 -;R 1 6 0 2 2,3 0 -;Q 0 2;Q 0 3;X 1;Q 0 2",
    # mutation 'try_lock() at the bmp-tcp-in fetch only' (C10 round 5): the unit starts while something else holds the script's mutex
    "F 11;FH;C 0;I 0;U 0 0 0;U 0 6 0;R 0 6 0 2 2,3 0 -;R 0 0 0 1 2 0 -;Q 0 2;Q 0 3",
    "F 29;FH;C 0;I 0;U 0 8 0;R 0 8 0 1 1,2 0 -;Q 0 1;Q 0 2",
    # a running ingress unit keeps what it fetched: edited away / edited in and reloaded - nothing changes for bmp-in
    "F 21;C 0;I 0;U 0 8 0;U 0 0 0;W 2;H;R 0 8 0 1 2,3 0 -;R 0 0 0 1 3 0 -;Q 0 2;Q 0 3;W 0;L;R 0 8 0 2 4 0 -;Q 0 4",
    "C 0;I 0;U 0 6 0;W 11;Y 1;H;R 0 6 0 1 1,2,3 0 -;Q 0 1;Q 0 2;P 0 1;P 0 2",
    # the bgp-tcp-in unit: the UPDATEs of the rejected speaker never reach the gate; its session is there all the same (BM, BZ)
    "F 11;BO 0;BO 1;BA 0 1 2,3 -;BA 1 2 2,4 -;Q 0 2;Q 0 3;Q 0 4;BM;BZ 1;Q 0 2;BM",
    "F 20;FH;BO 0;BO 1;BA 0 1 2,3 -;BA 1 2 2,4 -;Q 0 2;Q 0 3;Q 0 4",
    # mutation 'try_lock() at the bgp-tcp-in fetch only'
    "F 11;FH;BO 1;BA 1 2 2,4 -;BO 0;BA 0 1 2 -;Q 0 2;Q 0 4;C 0;I 0;U 0 6 0;R 0 6 0 1 4 0 -;Q 0 4",
    # a bmp-in unit that a reload STARTS fetches the filter of the script that reload names; bmp-in2 keeps the start-up script's
    "F 1;C 0;C 4;I 0;I 4;U 0 6 0;U 4 6 0;J 0;H;W 11;J 1;H;C 0;I 0;U 0 6 0;U 0 0 0;R 0 6 0 1 2,3 0 -;R 0 0 0 1 3 0 -;R 4 6 0 2 2 0 -;Q 0 2;Q 0 3;JL 0",
    "F 11;C 0;I 0;U 0 6 0;R 0 6 0 1 2 0 -;Q 0 2;J 0;H;W 2;J 1;FH;H;C 0;I 0;U 0 6 0;R 0 6 0 1 2,3 0 -;Q 0 2;Q 0 3",
]
CORPUS["C10"] = SCRIPT_CORPUS + INGRESS_FILTER_CORPUS
CORPUS["C13"] = CORPUS["C13"] + SCRIPT_CORPUS + INGRESS_FILTER_CORPUS + [
    # fixed (C13-reload-wedge): with a router connected, the sixth reload wedged the bmp unit's gate (the router handler kept a gate
    # clone whose 16-command queue nobody read): the rib unit could not subscribe again, later routes never reached the RIB
    "C 0;I 0;U 0 0 0;H;H;H;H;H;H;R 0 0 0 1 1 0 -;Q 0 1",
    "C 0;I 0;U 0 0 0;H;H;H;H;H;H;H;R 0 0 0 1 1 0 -;Q 0 1;C 1;I 1;U 1 5 0;H;H;R 1 5 0 2 2 0 -;Q 0 2",
]


# Generated vRIBs: K n = `[units.rib]` is a shorthand RIB with n generated vRIBs (leading: at start-up; later: with the next reload),
# N i af p = the prefix query asked of vRIB i (GET /prefixes/<i>/<prefix>).
VRIB_CORPUS = [
    # seeded C13-b1 (the rib unit adopted the new vrib_upstream link only for rib_type == Virtual, which GeneratedVirtual(n) is not):
    # after ANY reload a query of a generated vRIB went out over the link of the previous configuration and was never answered
    "K 2;N 0 0 7;N 1 0 7;N 2 0 7;H;N 0 0 7;N 1 0 7;N 2 0 7",
    "K 1;C 0;I 0;U 0 0 0;R 0 0 0 1 1,2 0 -;N 0 0 7;L;N 0 0 7;Q 0 1;H;H 1;N 0 1 8;R 0 0 0 2 3 0 -;Q 0 3;N 0 0 7;X 0;N 0 0 8;Q 0 3",
    # reloads that change the number of vRIBs: added ones are started and answer, the others are reconfigured (and answer), removed
    # ones stop answering; the null target is re-sourced to the last vRIB each time
    "K 1;N 0 0 7;H;N 0 0 7;K 3;N 2 0 7;L;N 2 0 7;N 1 0 7;N 0 0 7;K 0;H;N 0 0 7;Q 0 1;K 2;H;N 1 0 7;N 0 0 7",
    "C 0;I 0;U 0 0 0;R 0 0 0 1 1 0 -;K 2;H;N 1 0 7;Q 0 1;H;N 1 0 7;N 0 0 7;R 0 0 0 2 2 0 -;Q 0 2;N 1 0 8",
    # with a script: the physical RIB rejects prefix 1, so the vRIBs can be asked about it (an announced prefix, an empty answer);
    # a vRIB added by a reload, a second rib unit next to the chain
    "F 1;K 2;C 0;I 0;U 0 0 0;R 0 0 0 1 1,2 0 -;N 1 0 1;Q 0 1;Q 0 2;W 2;K 3;H;N 2 0 1;N 0 0 1;Y 1;H;N 2 0 1;P 0 1;P 0 2;Q 0 2",
    # known finding C13-vrib-query-todo: a vRIB asked about a prefix the physical RIB holds a route for never answers
    # (reprocess_rib_value is todo!(): the physical RIB's task panics); the neighbouring prefix is answered
    "K 1;C 0;I 0;U 0 0 0;R 0 0 0 1 1 0 -;N 0 0 2;N 0 0 1;Q 0 1",
]
CORPUS["C13"] = CORPUS["C13"] + VRIB_CORPUS


# Ingress units removed and added by reloads: J 0 / J 1 = [units.bmp-in] taken out of / put back into the configuration (effective with
# the next H / L); a case with J / JL has a second ingress unit bmp-in2 (routers 4..7) that every RIB unit sources too; JL u = the router
# list of unit u. A router of a bmp-in unit that a reload started is a new source (k8 = address 0 at the second unit, ...).
INGRESS_CORPUS = [
    # seeded C03-b1 (read_from_router's 'gate terminated' exit returned instead of falling into the clean-up): the reload that takes the
    # unit out must withdraw the routes of every session of every router of it - and nothing of the other ingress unit
    "C 0;C 1;C 4;I 0;I 1;I 4;U 0 0 0;U 0 5 0;U 1 0 0;U 4 0 0;R 0 0 0 1 1,2 0 -;R 0 5 0 2 1 0 -;R 1 0 0 3 1 0 -;R 4 0 0 4 1,3 0 -;Q 0 1;J 0;H;Q 0 1;Q 0 2;Q 0 3;JL 0;JL 1",
    # fixed (C13-removal-unsubscribes-first, 3f338bb): ... also when nobody else is connected and after earlier reloads
    "C 0;I 0;U 0 0 0;R 0 0 0 1 1 0 -;J 0;H;Q 0 1",
    "C 0;I 0;U 0 0 0;R 0 0 0 1 1 0 -;H;L;J 0;H;Q 0 1;JL 0",
    # the unit comes back (same port / another port): a new unit with an ingress id of its own; the router that returns is a new source,
    # its old routes stay withdrawn, what it announces now is active (no id is reused, so known finding C03-1 does not apply) ...
    "C 0;C 4;I 0;I 4;U 0 0 0;U 4 0 0;R 0 0 0 1 1,2 0 -;R 4 0 0 2 1 0 -;J 0;H;JL 0;Q 0 1;J 1;H;JL 0;C 0;I 0;U 0 0 0;G 0;R 0 0 0 3 1 0 -;Q 0 1;Q 0 2;JL 0;JL 1",
    "C 0;I 0;U 0 0 0;R 0 0 0 1 1 0 -;J 0;L;J 1;L;JL 0;C 0;I 0;U 0 0 0;R 0 0 0 2 1 0 -;Q 0 1;G 0",
    # removed, added, removed again, with traffic on the other unit in between; an edit that is undone before the reload changes nothing
    "C 0;C 4;I 0;I 4;U 0 0 0;U 4 3 0;R 0 0 0 1 1 0 -;R 4 3 0 2 1 0 -;J 0;J 1;H;JL 0;Q 0 1;J 0;H;R 4 3 0 3 2 0 -;Q 0 1;Q 0 2;J 1;H;C 0;I 0;U 0 0 0;R 0 0 0 4 2 0 -;J 0;H;Q 0 2;X 4;Q 0 2;JL 1",
    # a second RIB unit that the reloads keep sees the withdrawals too; one that the removing reload starts never saw the routes
    "C 0;I 0;U 0 0 0;Y 1;H;R 0 0 0 1 1,2 0 -;J 0;H;Q 0 1;P 0 1;J 1;Y 0;H;Y 1;J 0;H;P 0 1;Q 0 2",
    # with a script and a changed template: the unit that comes back is a new unit in every respect
    "F 1;C 0;I 0;U 0 0 0;R 0 0 0 1 1,2 0 -;J 0;W 2;Y 1;H 1;Q 0 1;Q 0 2;P 0 2;J 1;H 2;C 0;I 0;V 0;U 0 0 0;R 0 0 0 1 1,2,3 0 -;Q 0 2;P 0 2;P 0 1;P 0 3",
]
for _p in ("C02", "C03", "C13"):
    CORPUS[_p] = CORPUS[_p] + INGRESS_CORPUS
CORPUS["C03"] = CORPUS["C03"] + [
    # ... while within the new unit a router that returns IS given its id again (find_existing_bmp_router) - and C03-1 applies again
    "J 0;H;JL 0;C 0;J 1;L;JL 0;C 0;I 0;U 0 0 0;R 0 0 0 1 1 0 -;X 0;C 0;I 0;U 0 0 0;G 0;R 0 0 0 2 1,2 0 -;Q 0 1;Q 0 2",
]


# A router that connects again while its previous connection is still open: C2 k (the first connection stays open, silent; ops address
# the new one), X2 k = the old connection ends at last, RL = routers listed.
SECOND_CORPUS = [
    # seeded C14-c2 (the accept loop reuses the id found only when router_states no longer holds it): the returning router keeps its id,
    # the list shows one router - with the old connection still open ...
    "C 0;I 0;G 0;C2 0;G 0;RL;I 0;G 0",
    "C 0;C 1;I 0;I 1;U 0 0 0;R 0 0 0 1 1 0 -;C2 0;G 0;G 1;RL;I 0;U 0 0 0;R 0 0 0 2 2 0 -;Q 0 1;Q 0 2;C2 1;G 1;RL",
    # ... when the NEW one ends first, and when the router then comes back a third time
    "C 0;I 0;C2 0;I 0;G 0;X 0;RL;X2 0;RL;C 0;I 0;G 0;RL",
    "C 0;I 0;C2 0;X 0;C 0;G 0;RL;X2 0;G 0",
    # ... also after a re-bind of the listener
    "C 0;I 0;L;C2 0;I 0;G 0;RL",
    # known finding C14-old-task-removes-new-session: the OLD connection ends after the new one is up - its task withdraws the routes of
    # the live session and takes the router off the list
    "C 0;I 0;U 0 0 0;R 0 0 0 3 1 0 -;C2 0;I 0;U 0 0 0;R 0 0 0 4 2 0 -;Q 0 1;Q 0 2;X2 0;G 0;RL;Q 0 1;Q 0 2",
    "C 0;C 1;I 0;I 1;U 1 0 0;R 1 0 0 1 1 0 -;C2 0;I 0;X2 0;RL;U 0 0 0;R 0 0 0 4 1 0 -;Q 0 1;G 0;X 0;RL;C 0;I 0;G 0;RL",
]
CORPUS["C14"] = CORPUS["C14"] + SECOND_CORPUS


def second_story(rng, ops):
    """A router connects a second time while its first connection is open: after some op of a connected router k, `C2 k` and the new
    session's Initiation (often a Peer Up and a route); `G k` and `RL` right after; in 35 % of the cases the old connection ends later
    (`X2 k`, known finding: then the list and the routes are read again), otherwise it stays open to the end of the case."""
    out = []
    live, done = [], False
    for o in ops:
        out.append(o)
        w = o.split()
        if w[0] == "C" and w[1] not in live:
            live.append(w[1])
        if w[0] == "X" and w[1] in live:
            live.remove(w[1])
        if not done and live and w[0] in ("I", "U", "R") and rng.chance(40):
            done = True
            k = rng.choice(live)
            out += [f"C2 {k}", f"G {k}", "RL"]
            if rng.chance(80):
                out.append(f"I {k}")
                if rng.chance(60):
                    p = rng.choice([0, 5])
                    out += [f"U {k} {p} 0", f"R {k} {p} 0 {rng.below(5)} {pipegen.plist(rng, 1, 2)} 0 -"]
            if rng.chance(35):
                out += [f"X2 {k}", "RL", f"Q 0 {rng.below(3) + 1}"]
    if done:
        out.append("RL")
    return out


# A bgp-tcp-in unit in the pipeline (a case with B? ops): BO k = a BGP speaker of address 127.0.0.<30+k> connects and sends OPEN (start-up
# configuration: peer entries for 0 and 1), BA k a ps ws = an UPDATE, BZ k [1] = the speaker closes (1: NOTIFICATION first), BP k v / BS a =
# the operator edits the peer entry of k (0 none, 1 / 2 two hold times) / my_asn; effective with the next H / L, which print the sessions
# the load ended; BM = the unit's counters.
BGP_CORPUS = [
    # seeded C02-c2 (ingresses.register() hoisted out of the accept loop: one ingress id for every connection of the unit): two peers
    # announce one prefix - two entries; one session ends - the other peer's routes stay
    "BO 0;BO 1;BA 0 1 1,2 -;BA 1 2 1,3 -;Q 0 1;BZ 0;Q 0 1;Q 0 2;Q 0 3;BM",
    "BO 0;BO 1;BA 0 1 1 -;BA 1 2 1 -;BZ 1 1;Q 0 1;BO 1;BA 1 3 1 -;Q 0 1;BA 0 4 - 1;Q 0 1;BM",
    # ... next to a BMP router: its routes are not touched either
    "C 0;I 0;U 0 0 0;R 0 0 0 1 1 0 -;BO 0;BO 1;BA 0 2 1 -;BA 1 3 1 -;BZ 0;Q 0 1;X 0;Q 0 1",
    # seeded C13-c2 (the unit's configuration loaded once per listener bind): a reload that adds a peer, removes one, changes my_asn -
    # listen unchanged: new connections are judged by the configuration of the LATEST load
    "BO 2;BP 2 1;H;BO 2;BA 2 3 1 -;Q 0 1;BM",
    "BO 0;BZ 0;BP 0 0;H;BO 0;BM",
    "BS 1;H;BO 0;BP 1 2;H;BO 1;BM",
    "BO 4;BP 4 2;BP 0 0;BS 1;H;BO 4;BO 0;H;BP 4 0;H;BM;BS 0;BP 0 1;H;BO 0;BO 4;BM",
    # a reload that changes nothing for a session leaves it alone; one that changes ANOTHER peer's entry too
    "BO 0;BO 1;BA 0 1 1 -;BA 1 2 1 -;H;BP 2 1;H;L;BA 0 3 2 -;Q 0 1;Q 0 2;BP 1 2;H;BA 0 4 3 -;Q 0 3;BM",
    # known finding C13-bgp-reload-end-unheard: the Withdraw of a session that a load ends (peer entry removed / changed, my_asn changed)
    # may reach nobody
    "BO 0;BO 1;BA 0 1 1 -;BA 1 2 1 -;BP 0 0;H;Q 0 1;BM",
    "BO 0;BO 1;BA 0 1 1 -;BA 1 2 1 -;BS 1;H;Q 0 1;BO 0;BA 0 3 1 -;Q 0 1;BM",
]
CORPUS["C13"] = CORPUS["C13"] + BGP_CORPUS
CORPUS["C02"] = CORPUS["C02"] + BGP_CORPUS[:8]      # (the two racy cases of the known finding are C13's: each costs a minimisation)
CORPUS["C15"] = CORPUS["C15"] + [c for c in BGP_CORPUS[:8] if "BM" in c]


def bgp_story(rng, ops, reloads):
    """A case around the bgp-tcp-in unit: a few of the BMP ops of the generated case are kept (their router's routes must not move),
    then BGP speakers of the five addresses connect, announce overlapping prefixes, close; with `reloads` the operator edits peer
    entries / my_asn, reloads, and speakers connect afterwards. The generator follows the peer table and the sessions so that most
    ops meet a live session; what the unit does is the model's business."""
    keep = [o for o in ops if o.split()[0] in ("C", "I", "U", "R", "X", "Q")][:rng.range(0, 6)]
    out = list(keep)
    cfg = {0: 1, 1: 1}
    file = dict(cfg)
    asn = fasn = 0
    sess = {}
    anns = {}          # address -> prefixes its session has announced
    tainted = set()    # prefixes announced by a session that a load ended: whether they read withdrawn is a race (known finding
                       # C13-bgp-reload-end-unheard, shown by the corpus); generated cases do not ask about them - every case that meets
                       # the race is repeated and minimised, which costs minutes

    def ask(p):
        if p not in tainted:
            out.append(f"Q 0 {p}")

    def opn(k):
        out.append(f"BO {k}")
        if k not in sess and k in cfg:
            sess[k] = (asn, cfg[k])

    def ann():
        if not sess:
            return
        k = rng.choice(sorted(sess))
        if rng.chance(80):
            ps = pipegen.plist(rng, 1, 2)
            anns.setdefault(k, set()).update(int(x) for x in ps.split(","))
            out.append(f"BA {k} {rng.below(5)} {ps} -")
        else:
            out.append(f"BA {k} {rng.below(5)} - {pipegen.plist(rng, 1, 2)}")

    opn(0)
    if rng.chance(85):
        opn(1)
    if rng.chance(30):
        opn(rng.choice([2, 3, 4]))
    for _ in range(rng.range(2, 4)):
        ann()
    for _ in range(rng.range(2, 5)):
        r = rng.below(100)
        if r < 30 and sess:
            k = rng.choice(sorted(sess))
            out.append(f"BZ {k}" + (" 1" if rng.chance(30) else ""))
            del sess[k]
            anns.pop(k, None)
            ask(rng.below(3) + 1)
            if rng.chance(50):
                opn(k)
                ann()
        elif r < 30 + (45 if reloads else 0):
            touched = []
            for _ in range(rng.range(1, 2)):
                # (most edits concern addresses without a session: a session that the load ends may keep its routes - known finding
                # C13-bgp-reload-end-unheard, a race - and every case that meets it is repeated and minimised)
                if rng.chance(10 if sess else 30):
                    fasn = 1 - fasn
                    out.append(f"BS {fasn}")
                else:
                    idle = [a for a in range(5) if a not in sess]
                    k = rng.choice(idle) if idle and rng.chance(80) else rng.below(5)
                    v = rng.choice([0, 1, 1, 2])
                    out.append(f"BP {k} {v}")
                    if v:
                        file[k] = v
                    else:
                        file.pop(k, None)
                    touched.append(k)
            out.append(rng.choice(["H", "H", "H", "L"]))
            cfg = dict(file)
            asn = fasn
            for k in list(sess):
                if sess[k] != (asn, cfg.get(k)):
                    del sess[k]
                    tainted.update(anns.pop(k, set()))
            for k in touched + ([rng.below(5)] if rng.chance(50) else []):
                opn(k)
            if rng.chance(60):
                ann()
        else:
            ann()
            if rng.chance(40):
                ask(rng.below(3) + 1)
    if rng.chance(50):
        opn(rng.below(5))
    for p in (1, 2, 3):
        if rng.chance(70):
            ask(p)
    out.append("BM")
    return out


_ROUTER_OPS = ("C", "I", "T", "S", "U", "D", "R", "E", "B", "X", "M", "V", "G")


def ingress_story(rng, ops, peers):
    """Weaves the removal (and, often, the return) of the bmp-in unit into a case: the case gets a second ingress unit (often its second
    router connects there), bmp-in is taken out by a reload in the second half of the case - what its routers send afterwards reaches
    nobody - and in 60 % of the cases a later reload puts it back and router 0 returns to the new unit and announces again. The router
    lists are read after the reloads, prefixes are asked right after the removal and at the end."""
    out = list(ops)
    if rng.chance(65):
        res = []
        for o in out:
            w = o.split()
            if w[0] in _ROUTER_OPS and len(w) > 1 and w[1] == "1":
                w[1] = "4"
            res.append(" ".join(w))
        out = res
    n = len(out)
    at = rng.range(n // 2, n)
    block = ["J 0", rng.choice(["H", "H", "L"])]
    if rng.chance(50):
        block.append("JL 0")
    if rng.chance(25):
        block.append("JL 1")
    for _ in range(rng.range(0, 2)):
        block.append(f"Q 0 {rng.below(6) + 1}")
    out[at:at] = block
    if rng.chance(60):
        at2 = rng.range(at + len(block), len(out))
        p = rng.choice(peers)
        back = ["J 1", rng.choice(["H", "H", "L"])]
        if rng.chance(40):
            back.append("JL 0")
        back += ["C 0", "I 0", f"U 0 {p} {rng.below(2)}", f"R 0 {p} 0 {rng.below(5)} {pipegen.plist(rng, 1, 3)} 0 -"]
        if rng.chance(40):
            back.append("G 0")
        if rng.chance(20):
            # ... and is taken out once more
            back += ["J 0", rng.choice(["H", "L"])]
        out[at2:at2] = back
    for _ in range(rng.range(1, 3)):
        out.append(f"Q 0 {rng.below(6) + 1}")
    if rng.chance(30):
        out.append(f"JL {rng.below(2)}")
    return out


def vrib_story(rng, ops):
    """Makes `rib` a shorthand RIB with generated vRIBs: K n among the leading ops, sometimes another K before a reload (vRIBs are
    added / removed), at least one reload, and the vRIB endpoints asked at start-up, after every reload and at the end. The prefixes
    asked are ones the physical RIB never holds a route for (7, 8: never announced; the prefix the start-up script rejects): a vRIB
    asked about a stored prefix never answers (known finding C13-vrib-query-todo, corpus only)."""
    out = list(ops)
    lead = 1 if out and out[0].startswith("F ") else 0
    s0 = int(out[0].split()[1]) if lead else 0
    safe = [7, 8] + ([s0] if 1 <= s0 <= 8 else [])
    n = rng.weighted([(1, 45), (2, 35), (3, 15), (0, 5)])
    have = sum(1 for o in out if o.split()[0] in ("H", "L"))
    for _ in range(max(0, rng.range(1, 2) - have)):
        out.insert(lead + rng.below(len(out) - lead + 1), rng.choice(["H", "H", "L"]))

    def ask(res, cnt):
        for i in range(cnt):
            if rng.chance(80):
                res.append(f"N {i} {rng.choice([0, 0, 1])} {rng.choice(safe)}")
        if rng.chance(30):
            res.append(f"N {cnt} 0 {rng.choice(safe)}")      # the path behind the last vRIB

    res = out[:lead] + [f"K {n}"]
    cur = pending = n
    if rng.chance(60):
        ask(res, cur)
    for o in out[lead:]:
        w = o.split()
        if w[0] in ("H", "L") and rng.chance(35):
            pending = rng.weighted([(0, 10), (1, 35), (2, 35), (3, 20)])
            res.append(f"K {pending}")
        res.append(o)
        if w[0] in ("H", "L"):
            cur = pending
            ask(res, cur)
        elif rng.chance(8):
            ask(res, cur)
    ask(res, cur)
    return res


def script_story(rng, ops, ing_filters=0):
    """Weaves a script story into a case: a start-up script, then 1-2 reloads preceded by edits of the script and / or of
    [units.rib2]; every Q gets a P next to it, and at the end both units are asked about the prefixes scripts may reject."""
    ing = ing_filters and rng.chance(ing_filters)
    # with the ingress units' filters: the same rib-in-pre variants plus 10 / 20 (a removed script stays 0)
    tens = lambda s: s + rng.choice([10, 20]) if (ing and s != 0 and rng.chance(60)) else s
    pick = lambda: tens(rng.weighted([(1, 16), (2, 16), (3, 16), (4, 12), (5, 10), (6, 10), (9, 10), (0, 10)]))
    out = list(ops)
    for _ in range(rng.range(1, 2)):
        block = []
        if rng.chance(75):
            block.append(f"W {pick()}" + (" 1" if rng.chance(35) else ""))
        if rng.chance(75):
            block.append(f"Y {rng.weighted([(1, 70), (0, 15), (2, 15)])}")
        if rng.chance(10):
            # this reload happens while something else holds the mutex around the compiled script
            block.append("FH")
        block.append(rng.choice(["H", "H", "L"]))
        at = rng.below(len(out) + 1)
        out[at:at] = block
    res = []
    for o in out:
        res.append(o)
        if o.startswith("Q "):
            res.append("P" + o[1:])
    if ing or rng.chance(70):
        s0 = rng.weighted([(1, 20), (2, 20), (3, 20), (4, 15), (5, 10), (6, 10), (9, 5)])
        if ing:
            s0 += rng.choice([10, 20])
        res.insert(0, f"F {s0}")
        if rng.chance(25 if ing else 8):
            # the start-up happens while something else holds the mutex around the compiled script
            res.insert(1, "FH")
    asked = []
    for _ in range(rng.range(2, 4)):
        p = 1 + rng.below(6)
        if p not in asked:
            asked.append(p)
            res += [f"Q 0 {p}", f"P 0 {p}"]
    return res


def e2e_engine(prop):
    pr = PROFILES[prop]

    def gen(rng, tier):
        n = 360 if tier == "quick" else 6000
        for i in range(n):
            peers = pr["peers"] if pr["peers"] is not None else (pipegen.ALL_PEERS if i % 2 == 0 else pipegen.DISTINCT_PEERS)
            flaps = True if prop != "C01" else (i % 3 != 0)
            case = pipegen.gen_case(rng, peers=peers, flaps=flaps, reup=pr["reup"], metrics=pr["metrics"], bgp=False,
                                    length=(5, 22 if tier == "quick" else 60), queries=(2, 5), query_ops=pr["query_ops"])
            ops = case.split(";")
            out = []
            for j, o in enumerate(ops):
                out.append(o)
                if pr["reup"] and o.startswith("X ") and rng.chance(55):
                    # the router comes back and speaks again (pipegen reconnects rarely at these lengths)
                    k = o.split()[1]
                    p = rng.choice(peers)
                    out += [f"C {k}", f"I {k}", f"U {k} {p} {rng.below(2)}",
                            f"R {k} {p} 0 {rng.below(5)} {pipegen.plist(rng, 1, 2)} 0 -"]
                    if pr["metrics"]:
                        out.append(f"M {k}")
            if pr.get("reload") and rng.chance(pr.get("reload_pc", 15)):
                # configuration reloads, with or without a new listen port, at random points
                kinds = ["L", "H", "H"] if not pr.get("variants") else ["L", "H", "H 1", "H 2", "L 1", "L 2", "H 0", "L 0"]
                for _ in range(rng.range(1, 3 if pr.get("variants") else 2)):
                    out.insert(rng.below(len(out) + 1), rng.choice(kinds))
            if pr.get("scripts") and rng.chance(pr["scripts"]):
                out = script_story(rng, out, pr.get("ing_filters", 0))
            if pr.get("second") and rng.chance(pr["second"]):
                out = [o for o in second_story(rng, out) if o.split()[0] not in ("M",)]
            if pr.get("bgp") and rng.chance(pr["bgp"]):
                story = bgp_story(rng, out, pr.get("bgp_reloads", False))
                if pr.get("ing_filters") and rng.chance(2 * pr["ing_filters"]):
                    # the script of the start-up configuration has a bgp-in (and a bmp-in) filter; sometimes the units start while
                    # something else holds the script's mutex (no rib-in-pre in these: the property's reading of E2eModel, filter_wop,
                    # filters the routes of BMP messages only)
                    story = [f"F {rng.choice([10, 20]) + rng.choice([0, 9])}"] + (["FH"] if rng.chance(30) else []) + story
                if not pr["query_ops"]:
                    story = [o for o in story if not o.startswith("Q ")]
                yield ";".join(story)
                continue
            if pr.get("vribs") and rng.chance(pr["vribs"]):
                out = vrib_story(rng, out)
            elif pr.get("ingress") and rng.chance(pr["ingress"]):
                out = ingress_story(rng, out, peers)
            if pr.get("variants") or pr.get("ids"):
                # read the label / the id count of every router after each of its Initiation messages, after reloads and at the end
                tok = "V" if pr.get("variants") else "G"
                res, live = [], []
                for o in out:
                    res.append(o)
                    w = o.split()
                    if w[0] == "C" and w[1] not in live:
                        live.append(w[1])
                    if w[0] == "X" and w[1] in live:
                        live.remove(w[1])
                    if w[0] == "I" and w[1] in live:
                        res.append(f"{tok} {w[1]}")
                    if w[0] in ("L", "H") and live and rng.chance(50):
                        res.append(f"{tok} {rng.choice(live)}")
                out = res + [f"{tok} {k}" for k in live]
            yield ";".join(out)

    def nontrivial(case, out):
        t = out.split()
        if any(x.startswith("q:") and ("," in x or "=W" in x) for x in t):
            return True
        if any(x.startswith("p:") and x not in ("p:", "p:-") for x in t):
            return True
        if any(x.startswith("v:") and x != "v:-" for x in t):
            return True
        if any(x.startswith("n:") and not x.endswith(",0") for x in t):
            return True
        if any(x.startswith("r:") for x in t):
            return True
        if any(x.startswith("o:") for x in t):
            return True
        if any(x.startswith("t:") and x not in ("t:0", "t:-") for x in t):
            return True
        ops = case.split(";")
        return any(x.startswith("g:") for x in t) and any(o.startswith("X") for o in ops)

    def classify(case, out):
        t = out.split()
        ks = ["len<=12" if len(t) <= 12 else "len<=25" if len(t) <= 25 else "len>25"]
        ops = case.split(";")
        seen_x = set()
        for o in ops:
            w = o.split()
            if w and w[0] == "X":
                seen_x.add(w[1])
            if w and w[0] == "C" and w[1] in seen_x:
                ks.append("router-returns")
                break
        if seen_x:
            ks.append("connection-lost")
        if any(o.split()[0] == "L" for o in ops if o.split()):
            ks.append("listener-rebound")
        n_rel = sum(1 for o in ops if o.split() and o.split()[0] in ("L", "H"))
        if n_rel:
            ks.append("reloads>=2" if n_rel >= 2 else "reloads=1")
        if any(x.startswith("t:") and x not in ("t:0", "t:-") for x in t):
            ks.append("label-follows-new-template")
        if any(x.startswith("q:") and "=W" in x for x in t):
            ks.append("query-shows-withdrawn")
        if any(x.startswith("q:") and "," in x for x in t):
            ks.append("query-multi-peer")
        if any(x.startswith("m:") for x in t):
            ks.append("metrics-read")
        names = [o.split()[0] for o in ops if o.split()]
        if "F" in names[:1]:
            ks.append("script-at-startup")
        if "W" in names:
            ks.append("script-edited")
        if any(o.split()[0] in ("F", "W") and int(o.split()[1]) >= 10 for o in ops if o.split()):
            ks.append("ingress-filters-in-script")
        if any(o.split()[0] == "W" and o.split()[1] == "0" for o in ops if o.split()):
            ks.append("script-removed")
        if any(x.startswith("p:") and x != "p:-" for x in t):
            ks.append("second-rib-answers")
        if any(o.split()[:2] == ["Y", "2"] for o in ops if o.split()):
            ks.append("second-unit-retyped")
        if any(x.startswith("v:") and x != "v:-" for x in t):
            ks.append("vrib-answers")
            seen_reload = False
            for o, x in (zip(ops, t) if len(t) == len(ops) else []):
                if o.split() and o.split()[0] in ("H", "L"):
                    seen_reload = True
                if seen_reload and x.startswith("v:") and x != "v:-":
                    ks.append("vrib-answers-after-reload")
                    break
        if sum(1 for o in ops if o.split() and o.split()[0] == "K") >= 2:
            ks.append("vrib-count-edited")
        if "v:STALL" in t:
            ks.append("vrib-never-answers")
        if "C2" in names:
            ks.append("second-connection-while-first-open")
            if "X2" in names:
                ks.append("old-connection-ends-later")
        if any(x.startswith("o:") for x in t):
            ks.append("bgp-unit")
            if sum(1 for x in t if x.startswith("o:") and x != "o:-") >= 2:
                ks.append("bgp-sessions>=2")
            if "o:-" in t:
                ks.append("bgp-connection-refused")
            if any(x.startswith("x:") and x != "x:" for x in t):
                ks.append("bgp-session-ended-by-reload")
            seen_reload = False
            for o, x in (zip(ops, t) if len(t) == len(ops) else []):
                if o.split() and o.split()[0] in ("H", "L"):
                    seen_reload = True
                if seen_reload and x.startswith("o:"):
                    ks.append("bgp-connection-after-reload-refused" if x == "o:-" else "bgp-connection-after-reload-accepted")
            if any(x.startswith("o:1,") for x in t):
                ks.append("bgp-open-with-new-my-asn")
            if any(x.startswith("o:") and x.endswith(",120") for x in t):
                ks.append("bgp-open-with-new-hold-time")
            if any(x.startswith("q:") and "=W" in x and "=A" in x and x.count("b") >= 2 for x in t):
                ks.append("bgp-one-peer-withdrawn-other-active")
        if "J" in names or "JL" in names:
            ks.append("second-ingress-unit")
            want, run, removed, conn, seen_w = True, True, False, set(), False
            for o, x in (zip(ops, t) if len(t) == len(ops) else []):
                w = o.split()
                if not w:
                    continue
                if w[0] == "C" and (int(w[1]) >= 4 or run):
                    conn.add(w[1])
                if w[0] == "X":
                    conn.discard(w[1])
                if w[0] == "J":
                    want = w[1] != "0"
                if w[0] in ("H", "L"):
                    if run and not want:
                        ks.append("ingress-unit-removed")
                        if any(int(k) < 4 for k in conn):
                            ks.append("ingress-unit-removed-with-routers-connected")
                        conn = set(k for k in conn if int(k) >= 4)
                        removed = True
                    if not run and want:
                        ks.append("ingress-unit-added-back")
                    run = want
                if removed and x.startswith("q:") and "=W" in x:
                    ks.append("query-shows-withdrawn-after-removal")
                if x == "r:-":
                    ks.append("router-list-gone")
            if any(x.startswith("q:") and any(e.startswith(("k8p", "k9p", "k16p", "k17p")) for e in x[2:].split(",")) for x in t):
                ks.append("routes-of-a-router-of-the-new-unit")
        # the same prefix asked of both units, one after the other, with different answers: a filter (or the time of spawn) shows
        for a, b, oa, ob in (zip(t, t[1:], ops, ops[1:]) if len(t) == len(ops) else []):
            if a.startswith("q:") and b.startswith("p:") and b != "p:-" and oa[1:] == ob[1:] and a[2:] != b[2:]:
                ks.append("units-answer-differently")
                break
        return sorted(set(ks))

    return {"name": "e2e", "gen": gen, "corpus": lambda: list(CORPUS[prop]), "nontrivial": nontrivial, "classify": classify,
            "shards": 4, "timeout": 1500, "shrink": True,
            # a live pipeline: a difference may be a race in rotonda that shows in a few runs of a hundred (the unsubscribe-first
            # defect of a removed ingress unit showed in 2-6 % of the runs) - so a failing case is repeated 60 times before it is
            # put down to load, and each candidate of the minimiser gets 8 more tries
            "repeat": 60, "repeat_min": 8}


# default profile: routers return, metrics are read
E2E_ENGINE = e2e_engine("C15")
