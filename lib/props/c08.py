"""C08 — a connected link receives every gate update exactly once and in order."""
PROPS_FILE = "Props_C08.v"
RULE = ("random schedules over 1 root gate, up to 6 clones, 3 queue links and 3 direct links: subscribe / unsubscribe / "
        "suspend / resume / clone / drop / late Follow* replay / update / query / direct-update target dropped / metrics read / "
        "abandoned connect (the connect()/query() future polled once and dropped before the gate ran, or after it answered, or "
        "cancelled while the gate lags) / terminate, with queue capacity 1-3 so that updates are in flight (blocked on a full queue) while the subscription set "
        "changes; profile `fullq`: a clone that does not run process() collects 14-19 Follow* commands (its command queue holds 16), "
        "then Terminate / drop, then the clones catch up; profile `abandon`: mostly direct links giving up on connect() and "
        "connecting again while updates are published. A case is non-trivial when at least one update blocked mid-snapshot, a "
        "clone replayed commands late, a connect was abandoned, a connected link was dropped, or the root had to wait inside notify_clones (Z:blk / T:blk / "
        "c:blk), and at least two deliveries happened or a Terminate was delivered late; distinct = distinct case text")
TRUSTED_BASE = [
    "Coq 8.16.1 kernel (coqc; coqchk in thorough); no native_compute",
    "extraction with ExtrOcamlBasic only; OCaml driver oracle/{conv,eng_c08,oracle}.ml (incl. the macro-step scheduler: root drains its queue after every command, blocked publishers retry first-come first-served)",
    "Rust harness /verif/harness (engine c08) over rotonda::comms (public API + Link::verif_resume hook, feature verif-hooks), paused-clock current_thread tokio runtime; abandoned connects = the real connect()/query() future polled once by hand and dropped, or its task aborted; c08-soak: multi_thread runtime, logical clock, judge written in Rust",
    "modelled, not verified: src/comms.rs Gate/Link/DirectLink; each FrimMap operation and each handled command is one atomic step (C18)",
    "NOT modelled (exercised only): tokio scheduling, tokio::sync::mpsc internals (assumed: FIFO, bounded, fair hand-over of freed capacity, recv() = None when all senders are gone), Reconfigure",
]
ASSUMPTIONS = [
    "each FrimMap operation (insert/remove/guard) is atomic (property C18); each command handled by Gate::process() is one step plus one step per send of notify_clones (a send into a full clone command queue, capacity 16, waits); the ROOT's own command channel (also 16): the gate model's FIFO is the channel followed by the senders that wait for room (GateModel.bst / bstep, C08_bounded_gate_refines); ops H / R let it fill up",
    "tokio mpsc channels are FIFO, bounded, and close when all senders are dropped; the scheduler is arbitrary (theorems quantify over all action lists)",
    "a connect()/query() future is dropped either while its Subscribe is still queued or after the gate put its answer into the oneshot (action AAbandon); a future dropped while the send of Subscribe itself waits for room in the root's command channel is a command that was never sent (the driver skips it; inside the model it would be a dead Subscribe taking its turn, C08_dead_subscribe_is_noop); a dropped direct-update target is modelled per gate slot (action ARxDrop)",
    "GateCommand::Reconfigure (gate take-over on config reload) is not modelled",
]

NL = 6


def gen_fullq(rng):
    """A clone that does not run process() while links come and go: 14-19 Follow* commands for a command queue of 16,
    then Terminate (gate kept / dropped) or the gate is dropped, then the clones catch up."""
    cap = rng.weighted([(1, 30), (2, 40), (3, 30)])
    ops = ["Q %d" % cap]
    nclones = rng.weighted([(1, 50), (2, 35), (3, 15)])
    ops += ["k"] * nclones
    victim = 1 + rng.below(nclones)
    notes = rng.range(14, 19)
    conn = set()
    done = 0
    while done < notes:
        l = rng.below(NL)
        if l in conn:
            ops.append("d %d" % l)
            conn.discard(l)
        else:
            ops.append("c %d" % l)
            conn.add(l)
        done += 1
        if rng.chance(25):
            ops.append("u %d" % rng.below(nclones + 1))
        if rng.chance(10):
            ops.append("q %d" % (2 * rng.below(NL // 2)))
        if nclones > 1 and rng.chance(20):
            ops.append("D %d" % (1 + rng.below(nclones)))
        if rng.chance(4):
            ops.append("F %d" % victim)
        if rng.chance(4):
            ops.append("t %d" % (1 + 2 * rng.below(NL // 2)))
    if rng.chance(45):
        # the gate lags (it waits for room in the victim's queue): a connect() stays in flight and is given up
        free = [l for l in range(NL) if l not in conn]
        if free:
            l = rng.choice(free)
            ops += ["c %d" % l, "a %d" % l]
            if rng.chance(50):
                ops += ["D %d" % victim, "c %d" % l, "u %d" % rng.below(nclones + 1)]
    ops.append(rng.weighted([("Z", 50), ("T", 30), ("X", 8), ("M", 6), ("k", 6)]))
    for _ in range(rng.range(2, 9)):
        k = rng.weighted([("D", 28), ("F", 24), ("u", 18), ("x", 8), ("X", 8), ("q", 8), ("c", 4), ("Z", 3), ("a", 4)])
        if k in ("D", "F", "x"):
            ops.append("%s %d" % (k, 1 + rng.below(nclones)))
        elif k == "u":
            ops.append("u %d" % rng.below(nclones + 1))
        elif k == "q":
            ops.append("q %d" % (2 * rng.below(NL // 2)))
        elif k in ("c", "a"):
            ops.append("%s %d" % (k, rng.below(NL)))
        else:
            ops.append(k)
    return ";".join(ops)


def gen_abandon(rng):
    """Links (mostly direct ones: the kind whose left-over slot still delivers) give up on connect() - before the gate ran
    (a), after it answered (b) - and connect again, while the root gate and clones publish; sometimes a clone lags."""
    cap = rng.weighted([(1, 30), (2, 40), (3, 30)])
    ops = ["Q %d" % cap]
    nclones = rng.weighted([(0, 45), (1, 35), (2, 20)])
    ops += ["k"] * nclones
    pairs = [("a", 18), ("b", 15), ("c", 17), ("d", 8), ("u", 22), ("q", 6), ("t", 3), ("F", 5), ("D", 3), ("s", 3), ("r", 2),
             ("x", 1), ("M", 2), ("k", 1)]

    def link():
        return 1 + 2 * rng.below(NL // 2) if rng.chance(65) else 2 * rng.below(NL // 2)
    for _ in range(rng.range(5, 28)):
        k = rng.weighted(pairs)
        if k in ("a", "b"):
            l = link()
            ops.append("%s %d" % (k, l))
            if rng.chance(30):
                ops.append("%s %d" % (rng.weighted([("a", 50), ("b", 50)]), l))
            if rng.chance(70):
                ops.append("c %d" % l)
                ops.append("u %d" % rng.below(nclones + 1))
        elif k in ("c", "d", "s", "r"):
            ops.append("%s %d" % (k, link()))
        elif k == "t":
            ops.append("t %d" % (1 + 2 * rng.below(NL // 2)))
        elif k == "q":
            ops.append("q %d" % (2 * rng.below(NL // 2)))
        elif k == "u":
            ops.append("u %d" % rng.below(nclones + 1))
        elif k == "k":
            ops.append("k")
            nclones = min(nclones + 1, 6)
        elif k in ("x", "F", "D"):
            ops.append("%s %d" % (k, 1 + rng.below(max(1, nclones))))
        else:
            ops.append(k)
    ops.append("u %d" % rng.below(nclones + 1))
    return ";".join(ops)


def gen_busy(rng):
    """The unit that owns the gate is busy elsewhere (H): its process() is not polled while other components ask for a
    connection and give up / connect / suspend - the 16 places of the root's command channel fill up, further senders wait;
    connected links are DROPPED then (Drop for Link: the Unsubscribe waits for room) and their components link again at once;
    the unit gets back to its gate (R); updates."""
    cap = rng.weighted([(1, 30), (2, 40), (3, 30)])
    ops = ["Q %d" % cap]
    conn = set()
    for l in rng_sample(rng, list(range(NL)), rng.range(1, 4)):
        if rng.chance(70) or l % 2 == 1:
            ops.append("c %d" % l)
            conn.add(l)
    if rng.chance(50):
        ops.append("u 0")
    ops.append("H")
    fill = rng.weighted([(rng.range(0, 12), 20), (rng.range(13, 15), 15), (16, 35), (rng.range(17, 20), 30)])
    free = [l for l in range(NL) if l not in conn] or [0]
    for _ in range(fill):
        k = rng.weighted([("a", 70), ("c", 12), ("s", 9), ("r", 4), ("u", 5)])
        if k == "a":
            ops.append("a %d" % rng.choice(free))
        elif k == "c":
            ops.append("c %d" % rng.choice(free))
        elif k in ("s", "r") and conn:
            ops.append("%s %d" % (k, rng.choice(sorted(conn))))
        else:
            ops.append("u 0")
    for _ in range(rng.range(1, 3)):
        if not conn:
            break
        l = rng.choice(sorted(conn))
        ops.append("%s %d" % (rng.weighted([("o", 85), ("d", 15)]), l))
        conn.discard(l)
        if rng.chance(75):
            ops.append("c %d" % l)      # the component links again at once, same target
        if rng.chance(20):
            ops.append("a %d" % rng.choice(free))
        if rng.chance(15):
            ops.append("u 0")
    if rng.chance(92):
        ops.append("R")
    for _ in range(rng.range(1, 6)):
        k = rng.weighted([("u", 50), ("q", 15), ("c", 10), ("o", 10), ("M", 5), ("d", 5), ("H", 5)])
        if k in ("c", "o", "d"):
            ops.append("%s %d" % (k, rng.below(NL)))
        elif k == "q":
            ops.append("q %d" % (2 * rng.below(NL // 2)))
        elif k == "u":
            ops.append("u 0")
        else:
            ops.append(k)
    return ";".join(ops)


def rng_sample(rng, items, n):
    items = list(items)
    out = []
    while items and len(out) < n:
        out.append(items.pop(rng.below(len(items))))
    return out


def gen_case(rng, profile):
    if profile == "busy":
        return gen_busy(rng)
    if profile == "fullq":
        return gen_fullq(rng)
    if profile == "abandon":
        return gen_abandon(rng)
    n = rng.range(6, 45)
    cap = rng.weighted([(1, 45), (2, 35), (3, 20)])
    ops = ["Q %d" % cap]
    nclones = 0
    w = {"c": 16, "d": 8, "s": 5, "r": 4, "q": 14, "u": 26, "k": 5, "x": 3, "F": 7, "D": 5, "T": 1, "X": 1, "Z": 1, "t": 3, "M": 2,
         "a": 3, "b": 3, "o": 3}
    if profile == "churn":
        w.update({"c": 22, "d": 14, "F": 12, "k": 8, "u": 22})
    elif profile == "pressure":
        w.update({"u": 40, "q": 18, "c": 10})
    elif profile == "term":
        w.update({"T": 4, "X": 4, "Z": 5, "k": 9, "x": 6, "F": 9})
    pairs = list(w.items())
    lag = {}   # Follow* commands a clone may have pending (upper bound): these profiles keep it below the queue size
    # most cases start with something connected and a clone around
    if rng.chance(70):
        ops.append("c %d" % rng.below(NL))
    if rng.chance(60):
        ops.append("k")
        nclones += 1
        lag[nclones] = 0
    for i in range(n):
        k = rng.weighted(pairs)
        if k in ("T", "X", "Z") and profile != "term" and 3 * i < 2 * n:
            k = "u"   # keep the root alive for most of the schedule
        if k in ("c", "d", "o"):
            for c in lag:
                if lag[c] >= 12 and not rng.chance(8):
                    ops.append("D %d" % c)
                    lag[c] = 0
                lag[c] += 1
        if k in ("c", "d", "s", "r", "a", "b", "o"):
            ops.append("%s %d" % (k, rng.below(NL)))
        elif k == "t":
            ops.append("t %d" % (1 + 2 * rng.below(NL // 2)))
        elif k == "q":
            ops.append("q %d" % (2 * rng.below(NL // 2)))
        elif k == "u":
            ops.append("u %d" % rng.below(nclones + 1))
        elif k == "k":
            ops.append("k")
            if nclones < 6:
                nclones += 1
                lag[nclones] = 0
        elif k in ("x", "F", "D"):
            c = 1 + rng.below(max(1, nclones))
            ops.append("%s %d" % (k, c))
            if k == "D" and c in lag:
                lag[c] = 0
        else:
            ops.append(k)
    return ";".join(ops)


def gen(rng, tier):
    n = 3360 if tier == "quick" else 56000
    profiles = ["mixed", "churn", "pressure", "term", "fullq", "abandon", "busy"]
    for i in range(n):
        yield gen_case(rng, profiles[i % 7])


def gen_metrics_case(rng):
    """C15, gate part: few links, updates that reach somebody / nobody (no link, a suspended link, a dropped direct-update
    target, a dropped queue receiver), GateMetrics read at random points."""
    cap = rng.weighted([(1, 30), (2, 40), (3, 30)])
    ops = ["Q %d" % cap]
    nclones = 0
    pairs = [("u", 30), ("M", 14), ("c", 14), ("d", 8), ("t", 10), ("s", 5), ("r", 3), ("q", 8), ("k", 4), ("x", 2), ("D", 2),
             ("a", 4), ("b", 4)]
    nl = rng.weighted([(2, 40), (4, 35), (6, 25)])
    for _ in range(rng.range(5, 30)):
        k = rng.weighted(pairs)
        if k in ("c", "d", "s", "r", "a", "b"):
            ops.append("%s %d" % (k, rng.below(nl)))
        elif k == "t":
            ops.append("t %d" % (1 + 2 * rng.below(nl // 2)))
        elif k == "q":
            ops.append("q %d" % (2 * rng.below(nl // 2)))
        elif k == "u":
            ops.append("u %d" % rng.below(nclones + 1))
        elif k == "k":
            ops.append("k")
            nclones = min(nclones + 1, 6)
        elif k in ("x", "D"):
            ops.append("%s %d" % (k, 1 + rng.below(max(1, nclones))))
        else:
            ops.append(k)
    ops.append("M")
    return ";".join(ops)


def gen_metrics(rng, tier):
    n = 900 if tier == "quick" else 15000
    for i in range(n):
        yield gen_metrics_case(rng)


def _metric_reads(out):
    r = []
    for t in out.split():
        if t.startswith(("M:", "m=")):
            a, b = t[2:].split("/")
            r.append((int(a), int(b)))
    return r


def nontrivial_metrics(case, out):
    r = _metric_reads(out)
    return len(r) >= 2 and any(0 < b < a for a, b in r)


def classify_metrics(case, out):
    ks = []
    r = _metric_reads(out)
    a, b = r[-1] if r else (0, 0)
    ks.append("updates=0" if a == 0 else "updates<=5" if a <= 5 else "updates>5")
    ks.append("dropped=0" if b == 0 else "dropped=all" if b == a else "dropped-some")
    toks = out.split()
    for tag, key in (("t:ok", "direct-target-dropped"), ("d:ok", "disconnect"), ("s:ok", "suspend"), ("u:blk", "update-blocked-mid-snapshot")):
        if tag in toks:
            ks.append(key)
    return ks


def corpus_metrics():
    return [
        # nobody there / somebody there
        "u 0;M;c 1;u 0;M",
        # the direct link's target is dropped while the slot is still registered: the update reaches nobody (seeded C15-3)
        "c 1;u 0;M;t 1;u 0;M",
        "k;c 1;c 3;u 1;t 1;u 1;M;t 3;u 1;u 0;M",
        # a queue link that disconnected while the update was in flight: send fails, nobody else took it
        "Q 1;c 0;u 0;u 0;d 0;M;q 0;M",
        # a suspended link does not count
        "c 0;s 0;u 0;M;r 0;u 0;M",
        # a link that gave up on connect() - before the gate ran, after it answered - takes nothing: the update is dropped
        "a 1;u 0;M;b 1;u 0;M;c 1;u 0;M",
        "b 0;u 0;M;a 0;u 0;c 0;u 0;M;q 0",
    ]


def _deliveries(out):
    n = 0
    for t in out.split():
        if t.startswith("L") and "=" in t and not t.endswith("=-"):
            for part in t.split("=", 1)[1].split("/"):
                n += len(part.split(":", 1)[1].split(","))
    return n


def nontrivial(case, out):
    late = "Z:blk" in out or "T:blk" in out or "c:blk" in out
    gave_up = "a:ok" in out or "b:ok" in out or "a:cut" in out or "o:ok" in out
    return ("u:blk" in out or "F:ok" in out or "D:idle" in out or late or gave_up) and (_deliveries(out) >= 2 or late)


def classify(case, out):
    ks = []
    toks = out.split()
    n = toks.index("|") if "|" in toks else len(toks)
    ks.append("ops<=15" if n <= 15 else "ops<=30" if n <= 30 else "ops>30")
    for tag, key in (("u:blk", "update-blocked-mid-snapshot"), ("c:gone", "connect-after-gone"), ("q:gone", "query-gone"),
                     ("d:ok", "disconnect"), ("s:ok", "suspend"), ("r:ok", "resume"), ("x:ok", "clone-dropped"),
                     ("T:ok", "terminate"), ("Z:ok", "terminate-gate-kept"), ("X:ok", "root-dropped"),
                     ("T:blk", "terminate-under-full-clone-queue"), ("Z:blk", "terminate-under-full-clone-queue"), ("c:blk", "connect-waits-for-root"),
                     ("t:ok", "direct-target-dropped"), ("a:ok", "connect-abandoned-before-the-gate-ran"),
                     ("b:ok", "connect-abandoned-after-the-answer"), ("a:cut", "connect-in-flight-cancelled"), ("F:term", "clone-sees-terminate"), ("D:term", "clone-sees-terminate")):
        if tag in toks[:n]:
            ks.append(key)
    ops = [o.strip() for o in case.split(";")]
    if ops and not ops[0].startswith("Q"):
        ops = ["Q"] + ops if toks[:1] == ["Q"] else ops
    if "H:ok" in toks[:n]:
        ks.append("unit-busy-elsewhere")
        h = toks.index("H:ok")
        cmds = 0
        for t in toks[h + 1:n]:
            if t == "R:ok":
                break
            if t == "o:ok":
                ks.append("link-dropped-with-a-full-command-channel" if cmds >= 16 else "link-dropped-while-the-unit-is-busy")
            if t in ("a:ok", "c:blk", "s:ok", "r:ok", "d:ok", "o:ok"):
                cmds += 1
        if cmds >= 16:
            ks.append("command-channel-full")
    if "o:ok" in toks[:n]:
        ks.append("link-dropped")
        for i, t in enumerate(toks[:n]):
            if t == "o:ok" and i < len(ops) and len(ops[i].split()) > 1 and any(
                    o2 == "c " + ops[i].split()[1] and t2 in ("c:ok", "c:blk") for o2, t2 in zip(ops[i + 1:], toks[i + 1:n])):
                ks.append("relinked-after-drop")
                break
    d = _deliveries(out)
    ks.append("deliveries=0" if d == 0 else "deliveries<=10" if d <= 10 else "deliveries>10")
    if any(t.startswith("L") and "/" in t for t in toks[n:]):
        ks.append("link-fed-by-several-publishers")
    return ks


def corpus():
    return [
        # the duplicate-delivery schedule (fixed by the `fix:` commit, see known_findings/C08.json)
        "k;c 1;d 1;F 1;c 1;u 0",
        "k;c 1;d 1;D 1;c 1;u 0",
        # a suspended link must not be re-activated by a clone's late FollowSubscribe
        "k;c 0;s 0;F 1;u 0;u 1;q 0",
        "c 0;c 1;u 0;u 0;u 0;q 0;k;u 1;q 0;q 0;q 0;T",
        "Q 1;k;k;c 0;c 2;c 1;u 1;u 1;u 2;d 0;u 0;q 2;q 2;s 2;u 0;r 2;u 0;x 1",
        "c 0;u 0;u 0;u 0;T;q 0;q 0;q 0;q 0",
        "k;k;c 0;u 1;u 1;u 1;u 2;x 2;X;q 0;D 1;u 1;x 1;q 0;q 0;q 0;q 0",
        "Q 1;c 0;c 2;c 4;u 0;u 0;k;u 1;d 2;c 3;q 0;q 0;q 4;c 2;u 0;T",
        # Terminate must reach the clones through their command queues (the gate object is still alive)
        "k;k;c 0;u 1;Z;F 1;u 2;D 2;u 0;c 1;X;q 0;q 0;q 0;q 0",
        "k;c 1;Z;u 1;F 1;x 1;X",
        # Terminate while a clone that does not run process() has 16 Follow* commands pending (seeded C08-3): the root waits
        # inside notify_clones, the clone gets Terminate late - but gets it
        "k;c 0;c 1;d 0;d 1;c 0;d 0;c 0;d 0;c 0;d 0;c 0;d 0;c 0;d 0;c 0;d 0;M;Z;D 1;M",
        "k;c 0;c 1;d 0;d 1;c 0;d 0;c 0;d 0;c 0;d 0;c 0;d 0;c 0;d 0;c 0;d 0;c 0;d 0;c 2;u 0;Z;F 1;D 1",
        # head of line: clone 2 is behind clone 1 on the root's list
        "k;k;c 0;c 1;d 0;d 1;c 0;d 0;c 0;d 0;c 0;d 0;c 0;d 0;c 0;d 0;c 0;d 0;D 2;T;u 1;D 2;F 1;u 2;D 1",
        # a connect() stays in flight while the root waits; the gate is dropped / the clone is dropped
        "k;c 0;c 1;d 0;d 1;c 0;d 0;c 0;d 0;c 0;d 0;c 0;d 0;c 0;d 0;c 0;d 0;c 0;c 2;u 0;q 0;X",
        "k;c 0;c 1;d 0;d 1;c 0;d 0;c 0;d 0;c 0;d 0;c 0;d 0;c 0;d 0;c 0;d 0;c 0;c 2;x 1;u 0;q 2",
        # the direct link's target is dropped while its slot is still registered (seeded C15-3)
        "c 1;u 0;t 1;u 0;M;d 1;c 1;u 0",
        # abandoned connects. Early: the gate finds a Subscribe nobody waits for, inserts the slot, fails to answer and must
        # remove it again (seeded C08-b1: it stays, the target gets every update twice after the next connect)
        "a 1;c 1;u 0",
        "a 0;c 0;u 0;q 0",
        # late: the answer is in the oneshot when the future is dropped (Link::connect before the `fix:` lost the slot)
        "b 1;c 1;u 0",
        "b 1;u 0;c 1;u 0;t 1;u 0",
        "b 0;c 0;u 0;q 0",
        "k;a 1;b 1;c 1;u 0;u 1;F 1;u 1;D 1",
        "a 1;a 1;b 1;b 1;c 1;u 0;d 1;u 0;M",
        "Q 1;c 0;u 0;u 0;b 2;a 2;c 2;q 0;q 0;u 0;q 2;a 3;s 2;b 3;u 0",
        # the gate lags (it waits inside notify_clones): the connect() in flight is cancelled, the gate gets to the Subscribe later
        "k;c 0;c 1;d 0;d 1;c 0;d 0;c 0;d 0;c 0;d 0;c 0;d 0;c 0;d 0;c 0;d 0;c 0;c 3;a 3;D 1;c 3;u 0",
        "k;c 0;c 1;d 0;d 1;c 0;d 0;c 0;d 0;c 0;d 0;c 0;d 0;c 0;d 0;c 0;d 0;c 0;c 3;a 3;c 5;a 5;x 1;c 3;c 5;u 0",
        # Drop for Link. The unit is busy elsewhere (H) while 16 requesters ask for a connection and give up: the command
        # channel is full when direct link 1 is dropped; its component links again with the same target; the unit gets back to
        # its gate (seeded C08-c2: try_send loses the Unsubscribe, the old slot stays, update 1 arrives twice)
        "c 1;u 0;H;" + ";".join(["a 3"] * 16) + ";o 1;c 1;R;u 0",
        "c 1;c 0;u 0;H;" + ";".join(["a 3", "a 2"] * 8) + ";o 1;o 0;c 0;c 1;a 5;R;u 0;u 0;q 0;q 0;M",
        # 15 commands: the Unsubscribe takes the last place, the new Subscribe waits
        "c 1;H;" + ";".join(["a 5"] * 15) + ";o 1;c 1;c 3;R;u 0;o 3;u 0",
        # dropped with the unit at its gate; dropped and not linked again: nothing arrives any more
        "c 1;c 0;u 0;o 1;o 0;u 0;c 1;u 0;q 0",
        "Q 1;c 1;H;" + ";".join(["a 3"] * 17) + ";o 1;u 0;R;u 0;c 1;u 0",
        # a suspended link is dropped; links connect and suspend while the unit is busy
        "c 1;c 3;s 1;H;c 5;s 3;" + ";".join(["a 0"] * 14) + ";o 1;o 3;c 1;R;u 0;r 3;u 0",
    ]


def soak(V, tier, seed):
    """Real threads: publishers on the root gate and on clones, queue and direct links churning, clones created and
    dropped, then Terminate; the recorded per-link sequences are judged by the harness (see c08.rs: soak)."""
    import subprocess
    runs = [(1200, seed % 1000 + i) for i in range(3)] if tier == "quick" else [(8000, seed % 1000 + i) for i in range(8)]
    r = {"name": "c08-soak", "evaluations": 0, "coverage": {"runs": []}, "failures": []}
    for millis, sd in runs:
        try:
            p = subprocess.run([V.VH, "c08-soak", str(millis), str(sd)], stdout=subprocess.PIPE, stderr=subprocess.DEVNULL,
                               text=True, timeout=60 + millis // 100)
            out = p.stdout.strip() or f"no verdict (rc={p.returncode})"
        except subprocess.TimeoutExpired:
            out = "bad soak did not finish (deadlock?)"
        r["evaluations"] += 1
        r["coverage"]["runs"].append({"millis": millis, "seed": sd, "result": out[:300]})
        if not out.startswith("ok"):
            r["failures"].append({"what": f"multi-thread soak: {out[:300]}", "kind": "property",
                                  "replay_cmd": f"{V.VH} c08-soak {millis} {sd}  (schedule-dependent: repeat a few times)",
                                  })
            break
    return r


ENGINES = [{"name": "c08", "gen": gen, "corpus": corpus, "nontrivial": nontrivial, "classify": classify, "shards": 8}]
# the gate part of C15 (GateMetrics num_updates / num_dropped_updates), appended to lib/props/c15.py's ENGINES
C15_GATE_ENGINE = {"name": "c15gate", "gen": gen_metrics, "corpus": corpus_metrics, "nontrivial": nontrivial_metrics,
                   "classify": classify_metrics, "shards": 8}
EXTRAS = [soak]

LEVEL_TEXT = ("Theorems over ALL schedules (arbitrary action lists) of an interleaving model of Gate/Link/DirectLink: per link and "
              "publisher deliveries strictly increase (at most once, in order), every finished update reached every slot of the "
              "snapshot it took unless that link dropped its receiver, a connected unsuspended link is in every new snapshot, "
              "Terminate reaches every attached clone - late but never lost when a clone's bounded command queue is full - and dropping all gates "
              "closes every link, the gate counters equal the number of finished / untaken updates; kernel-checked, axiom-free; model "
              "tied to src/comms.rs by differential execution of generated schedules on every run.")
DESIGN_REF = "DESIGN.md section 6, C08"
LEVEL_NOTE = ("PARTIAL by design: the proof covers the interleavings of the modelled atomic steps; the tokio scheduler and mpsc internals "
              "are assumed (FIFO, bounded, fair), real multi-thread schedules are only sampled by a soak. Trusted: Coq kernel, "
              "ExtrOcamlBasic extraction + OCaml driver and its macro-step scheduler, Rust harness and generators.")
TECHNIQUE = "Coq proof by invariant over all interleavings of an executable small-step model + model/implementation correspondence"
