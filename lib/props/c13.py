"""C13 — config (re)load applies exactly the difference and spares what is unchanged."""
PROPS_FILE = "Props_C13.v"
RULE = ("histories of 1-5 loads of generated TOML documents: valid component graphs over the 5 unit and 3 target types "
        "(shorthand vRIB ribs, unused units, fan-in/fan-out, cycles) and malformed ones (syntax errors, duplicate keys, "
        "unknown top-level keys, unknown types, malformed settings, wrong/absent/ill-typed `sources`, unresolved sources, "
        "a unit and a target of one name); later documents are mutations of earlier ones so that reloads add, remove, "
        "retype, rewire and reconfigure components; thorough tier adds every ordered pair of reloads over a 100-document "
        "universe (two unit names x five shapes, one target x four shapes); a case is non-trivial when a load is applied on top of an earlier "
        "successful load or fails after one; distinct = distinct case text")
TRUSTED_BASE = [
    "Coq 8.16.1 kernel (coqc; coqchk in thorough); no native_compute",
    "extraction with ExtrOcamlBasic only; OCaml driver oracle/{conv,eng_c13,oracle}.ml",
    "Rust harness /verif/harness (engine c13): renders abstract documents as TOML text, drives ConfigFile::new -> "
    "Config::from_config_file -> Manager::spawn_internal with recording stubs (rotonda::manager::verif, feature verif-hooks); "
    "reads settings and link gate ids from the Debug rendering of the Unit/Target handed to the stubs",
    "modelled, not verified: src/config.rs ConfigFile::new (vRIB expansion, remap_sources), src/manager.rs load/load_link/"
    "prepare/spawn_internal/Coordinator::track, the serde definitions of the eight component types (which `sources` values "
    "they accept); the toml and serde crates themselves are only exercised",
]
ASSUMPTIONS = [
    "a unit that receives Reconfigure takes over the new gate and its links (comms.rs GateCommand::Reconfigure; units' own "
    "reconfigure code is not modelled): 'keeps its state' is NOT modelled, the theorems show the manager neither terminates nor "
    "respawns a component whose name and type are unchanged",
    "HashMap iteration order is arbitrary: action logs and running sets are compared as sorted sets",
    "documents use user-chosen names that do not collide with generated '<name>-vRIB-<i>' names; rib_type is left to default; "
    "the roto script (prepare's compile step) is absent in the `c13` engine; the `e2e` engine loads configurations that name a script, edits it and "
    "reloads (E2e/E2eModel.v e_step: a unit filters with the script of the load that started it; running units keep theirs)",
    "a unit counts as consumed when any section of the file links to it, including a section that is itself not started",
]

UNIT_SRC_TYPES = (0, 1, 4)


def src_for(rng, kind, ty, pool, good=True):
    """a `sources` value of the right form for the type, over the names in pool"""
    if not pool:
        pool = [9]
    pick = lambda: rng.choice(pool)
    if kind == "u":
        if ty in (2, 3):
            n = 1 if rng.chance(70) else rng.range(2, 3)
            return "A:" + ":".join(str(pick()) for _ in range(n))
        if rng.chance(90):
            return "-"
        return rng.choice(["S:%d" % pick(), "A:%d" % pick(), "A"])
    if ty == 0:
        return "S:%d" % pick()
    if ty == 1:
        return "A:" + ":".join(str(pick()) for _ in range(rng.range(1, 2)))
    r = rng.below(10)
    if r < 5:
        return "S:%d" % pick()
    if r < 9:
        return "A:" + ":".join(str(pick()) for _ in range(rng.range(1, 3)))
    return "A"


def fresh_doc(rng):
    nu = rng.range(1, 5)
    pool = [1, 2, 3, 4, 5, 6]
    unames = []
    for _ in range(nu):
        unames.append(pool.pop(rng.below(len(pool))))
    unames.sort()
    units = []
    for i, n in enumerate(unames):
        if i == 0 or rng.chance(35):
            ty = rng.choice(UNIT_SRC_TYPES)
        else:
            ty = rng.choice([2, 3, 3])
        others = unames if rng.chance(15) else unames[:i] or unames
        vr = 0
        if ty == 3 and rng.chance(35):
            vr = rng.range(1, 4)
        units.append(["u", n, ty, src_for(rng, "u", ty, others), 1, vr, rng.below(4)])
    nt = rng.weighted([(0, 8), (1, 45), (2, 35), (3, 12)])
    tpool = [11, 12, 13, 14]
    targets = []
    for _ in range(nt):
        n = tpool.pop(rng.below(len(tpool)))
        ty = rng.weighted([(0, 25), (1, 25), (2, 50)])
        targets.append(["t", n, ty, src_for(rng, "t", ty, unames), 1, rng.below(4)])
    targets.sort(key=lambda t: t[1])
    return {"syn": 1, "top": 1, "units": units, "targets": targets}


def clone(d):
    return {"syn": 1, "top": 1, "units": [list(u) for u in d["units"]], "targets": [list(t) for t in d["targets"]]}


def mutate_valid(rng, d):
    """a reload-style edit that keeps the document plausible (it may still become invalid, e.g. by removing a used unit)"""
    d = clone(d)
    for _ in range(rng.range(1, 3)):
        k = rng.below(9)
        unames = [u[1] for u in d["units"]]
        if k == 0 and d["units"]:                                   # settings change
            rng.choice(d["units"])[6] = rng.below(4)
        elif k == 1 and d["targets"]:
            rng.choice(d["targets"])[5] = rng.below(4)
        elif k == 2 and d["units"]:                                 # type change (same name)
            u = rng.choice(d["units"])
            u[2] = rng.below(5)
            u[3] = src_for(rng, "u", u[2], [n for n in unames if n != u[1]] or unames)
            u[5] = 0
        elif k == 3 and d["targets"]:
            t = rng.choice(d["targets"])
            t[2] = rng.below(3)
            t[3] = src_for(rng, "t", t[2], unames)
        elif k == 4:                                                # add a unit
            free = [n for n in range(1, 7) if n not in unames]
            if free:
                ty = rng.below(5)
                d["units"].append(["u", rng.choice(free), ty, src_for(rng, "u", ty, unames), 1, rng.range(0, 3) if ty == 3 else 0, rng.below(4)])
        elif k == 5:                                                # add a target
            free = [n for n in (11, 12, 13, 14) if n not in [t[1] for t in d["targets"]]]
            if free and unames:
                ty = rng.below(3)
                d["targets"].append(["t", rng.choice(free), ty, src_for(rng, "t", ty, unames), 1, rng.below(4)])
        elif k == 6 and d["units"]:                                 # remove a unit (may orphan a link)
            d["units"].pop(rng.below(len(d["units"])))
        elif k == 7 and d["targets"]:                               # remove a target (may leave a unit unused)
            d["targets"].pop(rng.below(len(d["targets"])))
        elif k == 8:                                                # rewire / toggle shorthand
            cands = [u for u in d["units"] if u[2] in (2, 3)]
            if cands:
                u = rng.choice(cands)
                if u[2] == 3 and rng.chance(50):
                    u[5] = rng.range(0, 4)
                else:
                    u[3] = src_for(rng, "u", u[2], unames)
    d["units"].sort(key=lambda u: u[1])
    d["targets"].sort(key=lambda t: t[1])
    return d


def break_doc(rng, d):
    """one malformation"""
    d = clone(d)
    k = rng.below(13)
    comps = d["units"] + d["targets"]
    if k == 0:
        d["syn"] = 0
    elif k == 1:
        d["top"] = 0
    elif k == 2 and comps:                                          # duplicate key
        c = rng.choice(comps)
        (d["units"] if c[0] == "u" else d["targets"]).append(list(c))
    elif k == 3 and comps:                                          # unknown type
        c = rng.choice(comps)
        c[2] = 7
    elif k == 4 and comps:                                          # malformed setting
        rng.choice(comps)[4] = 0
    elif k == 5 and comps:                                          # `sources` of the wrong shape for the type
        c = rng.choice(comps)
        c[3] = rng.choice(["-", "A", "S:1", "A:1"])
    elif k in (6, 7) and comps:                                     # unresolved source
        c = rng.choice([c for c in comps if c[3] != "-"] or comps)
        c[3] = "S:9" if (c[0] == "t" and c[2] in (0, 2) and rng.chance(60)) else "A:9"
    elif k == 8 and comps:                                          # sources = 3
        rng.choice(comps)[3] = "B"
    elif k == 9 and comps:                                          # non-string element
        c = rng.choice(comps)
        c[3] = rng.choice(["A:x", "A:1:x", "A:x:1"])
    elif k == 10 and d["units"] and rng.chance(35):                 # a target named like a unit (known finding: kept rare)
        un = rng.choice(d["units"])[1]
        if d["targets"] and rng.chance(50):
            t = rng.choice(d["targets"])
            if un not in [x[1] for x in d["targets"]]:
                t[1] = un
        elif un not in [x[1] for x in d["targets"]]:
            d["targets"].append(["t", un, 2, "S:%d" % un, 1, 0])
    elif k in (11, 12) and rng.chance(40):                          # empty document
        d["units"], d["targets"] = [], []
    return d


def show(d):
    parts = ["D %d %d" % (d["syn"], d["top"])]
    for u in d["units"]:
        parts.append("u %d %d %s %d %d %d" % tuple(u[1:]))
    for t in d["targets"]:
        parts.append("t %d %d %s %d %d" % tuple(t[1:]))
    return " , ".join(parts)


def gen_case(rng):
    n = rng.weighted([(1, 10), (2, 25), (3, 30), (4, 20), (5, 15)])
    docs = []
    base = None
    for _ in range(n):
        if base is None or rng.chance(20):
            d = fresh_doc(rng)
        else:
            d = mutate_valid(rng, base)
        base = d
        if rng.chance(30):
            d = break_doc(rng, d)
            if rng.chance(50):
                base = d          # the operator keeps editing the broken file
        docs.append(show(d))
    return ";".join(docs)


def small_universe():
    """every document over two unit names (absent / bmp / mrt / filter<-other / shorthand rib<-other) and one target
    (absent / null<-1 / null<-2 / file<-1): 100 documents"""
    def unit(n, other, k):
        return [None, "u %d 1 - 1 0 1" % n, "u %d 4 - 1 0 1" % n, "u %d 2 A:%d 1 0 1" % (n, other), "u %d 3 A:%d 1 2 1" % (n, other)][k]
    docs = []
    for a in range(5):
        for b in range(5):
            for t in (None, "t 11 2 S:1 1 0", "t 11 2 S:2 1 0", "t 11 0 S:1 1 2"):
                parts = ["D 1 1"] + [x for x in (unit(1, 2, a), unit(2, 1, b), t) if x]
                docs.append(" , ".join(parts))
    return docs


def gen(rng, tier):
    n = 4000 if tier == "quick" else 40000
    for _ in range(n):
        yield gen_case(rng)
    if tier != "quick":
        # exhaustive small scope: every ordered pair of reloads over the 100-document universe
        docs = small_universe()
        for d1 in docs:
            for d2 in docs:
                yield d1 + ";" + d2


def nontrivial(case, out):
    toks = out.split()
    oks = [i for i, t in enumerate(toks) if t == "ok"]
    errs = [i for i, t in enumerate(toks) if t == "E"]
    return len(oks) >= 2 or (bool(oks) and any(e > oks[0] for e in errs))


def classify(case, out):
    toks = out.split()
    ks = ["loads=%d" % case.count("D ")]
    if "E" in toks:
        ks.append("some-load-fails")
    if "PANIC" in toks:
        ks.append("panic")
    if "ok" in toks:
        ks.append("some-load-succeeds")
    if any(t.startswith("~") for t in toks):
        ks.append("reconfigure")
    if any(t.startswith("-u") or t.startswith("-t") for t in toks):
        ks.append("terminate")
    if "vRIB" in out:
        ks.append("vrib-expansion")
    oks = [i for i, t in enumerate(toks) if t == "ok"]
    if oks and any(t == "E" and i > oks[0] for i, t in enumerate(toks)):
        ks.append("fail-after-success")
    if "<-?" in out or ",?" in out:
        ks.append("dangling-link")
    for tag, pat in (("syntax", "D 0"), ("bad-sources-value", " B "), ("non-string-source", "x")):
        if pat in case:
            ks.append("malformed:" + tag)
    return ks


def corpus():
    return [
        # the manager tests' scenarios
        "D 1 1 , u 1 1 - 1 0 1 , u 2 1 - 1 0 1 , t 11 2 S:2 1 0",
        "D 1 1 , u 1 1 - 1 0 1 , t 11 2 S:1 1 0;D 1 1 , u 1 1 - 1 0 1 , t 11 2 S:1 1 0 , t 12 2 S:1 1 0;D 1 1 , u 1 1 - 1 0 2 , t 12 2 S:1 1 0",
        # full pipeline with a shorthand rib, then the shorthand is removed, then retyped
        "D 1 1 , u 1 1 - 1 0 7 , u 2 3 A:1 1 3 4 , u 3 2 A:2 1 0 1 , t 11 2 S:2 1 0 , t 12 0 S:3 1 5 , t 13 1 A:2:3 1 6;"
        "D 1 1 , u 1 1 - 1 0 7 , u 2 3 A:1 1 0 4 , u 3 2 A:2 1 0 2 , t 11 2 S:2 1 0 , t 12 0 S:3 1 5;"
        "D 1 1 , u 1 0 - 1 0 7 , u 2 2 A:1 1 0 4 , t 11 2 S:2 1 0 , t 12 1 A:2 1 5",
        # defect (a), fixed: sources = 3 / non-string element is a load error, not a panic
        "D 1 1 , u 1 1 - 1 0 7 , t 11 2 S:1 1 0;D 1 1 , u 1 1 - 1 0 7 , u 2 2 B 1 0 7 , t 11 2 S:1 1 0;D 1 1 , u 1 1 B 1 0 7 , t 11 2 A:1:x 1 0;D 1 1 , u 1 1 - 1 0 7 , t 11 2 B 1 0",
        # defect (b), fixed: a load that fails inside deserialisation after a phantom source was read does not poison the next one
        "D 1 1 , u 1 1 - 1 0 7 , u 2 3 A:9 1 0 1 , u 3 9 - 1 0 1 , t 11 2 S:1 1 0;D 1 1 , u 1 1 - 1 0 7 , t 11 2 S:1 1 0",
        "D 1 1 , u 1 1 - 1 0 7 , u 2 1 - 1 0 1 , u 3 9 - 1 0 1 , t 11 2 S:2 1 0;D 1 1 , u 1 1 - 1 0 7 , u 2 1 - 1 0 1 , t 11 2 S:1 1 0",
        # defect (c), fixed: a failed prepare leaves no gate behind that would start an unused unit later
        "D 1 1 , u 1 1 - 1 0 7 , u 2 1 - 1 0 7 , u 3 1 - 1 0 7 , t 11 2 A:1:2:3:9 1 0;D 1 1 , u 1 1 - 1 0 7 , u 2 1 - 1 0 7 , u 3 1 - 1 0 7 , t 11 2 A:1 1 0",
        # known finding: a unit and a target of one name started together
        "D 1 1 , u 1 1 - 1 0 7 , t 1 2 S:1 1 0",
        # ... but reached in two steps it works
        "D 1 1 , u 1 1 - 1 0 7 , t 11 2 S:1 1 0;D 1 1 , u 1 1 - 1 0 7 , t 11 2 S:1 1 0 , t 1 2 S:1 1 0",
        # a unit consumed only by an unused unit is started
        "D 1 1 , u 1 1 - 1 0 7 , u 2 2 A:1 1 0 1 , u 3 1 - 1 0 2 , t 11 2 S:3 1 0",
    ]


def known_signature(k, engine, case, model, spec, impl):
    """C13-same-name-panic: the minimised case panics in the model at the same load as in the implementation, where the
    spec asks for a successful load, and some load names a unit and a target alike."""
    import vcommon as V          # lib/ is on sys.path when ./check loads the plugin
    if engine == "e2e":
        # C13-vrib-query-todo (class KV): every token that departs from the spec is the one the model gives - v:STALL at the
        # query of a generated vRIB about a prefix the physical RIB holds a record of, `x` for the ops the engine then skips
        # C13-bgp-reload-end-unheard (class KU): a RIB answer in which routes of a BGP session that the reload ended still read active
        if k.get("class") == "KU":
            return V.explained_by(model, spec, impl, {"KU"})
        return k.get("class") == "KV" and V.explained_by(model, spec, impl, {"KV"})
    if k.get("id") != "C13-same-name-panic" or engine != "c13":
        return False
    if "PANIC" not in model.split() or "PANIC" in spec.split() or not V.obs_match(model, impl):
        return False
    for op in case.split(";"):
        us = set(p.split()[1] for p in op.split(",") if p.split()[:1] == ["u"])
        ts = set(p.split()[1] for p in op.split(",") if p.split()[:1] == ["t"])
        if us & ts:
            return True
    return False


ENGINES = [{"name": "c13", "gen": gen, "corpus": corpus, "nontrivial": nontrivial, "classify": classify, "shards": 8}]
from props.e2e_common import e2e_engine, E2E_TRUSTED
ENGINES.append(e2e_engine("C13"))   # reloads (ops L / H) of a real running pipeline: sessions and RIB contents survive, later routers are served
TRUSTED_BASE.append(E2E_TRUSTED)

# ---- established BGP sessions of a reconfigured bgp-tcp-in unit: engine `bgpend` (the real per-session Processor::process loop
# over a scripted session, design-notes/C07.md) with a profile of its own: an established session that announced routes is shown
# reconfigurations of every kind - the unit's main settings changed, nothing changed, this peer's entry changed, this peer removed,
# only ANOTHER peer's entry changed / added (`r other`) - between further UPDATEs. What C13 asks: a reconfiguration that concerns
# neither the main settings nor this peer leaves the session alone (no Disconnect, routes keep flowing, one withdrawal at the end).
from props import bgpend_common
import itertools

BGP_KINDS = ["r unit", "r same", "r peer", "r gone", "r other"]
BGP_PRE = "S 7 0 1;P 9 1,2 -;g;n;u 3 1,3 -"


def bgp_gen(rng, tier):
    quick = tier == "quick"
    # every sequence of 1-3 (thorough: 4) reconfigurations, with and without routes in between, then routes and the end
    for n in range(1, 4 if quick else 5):
        for seq in itertools.product(BGP_KINDS, repeat=n):
            yield ";".join([BGP_PRE] + list(seq) + ["u 4 2 1", "l 0"])
            if n <= 2:
                yield ";".join([BGP_PRE] + [x for r in seq for x in (r, "u 5 4 -")] + ["x"])
    for _ in range(700 if quick else 12000):
        ops = [f"S {rng.choice([7, 7, 3, 41])} 0 {1 if rng.chance(70) else 0}"]
        for i in range(rng.range(0, 2)):
            ops.append("P " + bgpend_common.routes(rng, 20 + i))
        for _ in range(rng.range(0, 2)):
            ops.append(rng.choice(["t", "k", "r other", "r same"]))
        ops += ["g", "n"]
        for _ in range(rng.range(2, 9)):
            r = rng.below(100)
            if r < 45:
                ops.append("u " + bgpend_common.routes(rng, rng.range(1, 9)))
            elif r < 70:
                ops.append("r other")
            elif r < 80:
                ops.append("r same")
            elif r < 87:
                ops.append("r peer")
            else:
                ops.append(rng.choice(["t", "k", "T"]))
        ex = rng.choice(bgpend_common.EXITS)
        if ex:
            ops.append(ex)
        yield ";".join(ops)


def bgp_corpus():
    return [
        # seeded C13-b2 (BgpTcpIn / PeerConfigs with a derived PartialEq: the whole [peers.*] table and filter_name became part of the
        # "main settings" comparison): a reload that adds / changes ANOTHER peer reset every established session of the unit
        BGP_PRE + ";r other;u 4 2 1;r other;r same;u 5 4 -;l 0",
        BGP_PRE + ";r other",
        # the reconfigurations that do concern the session: its own entry changed (told to disconnect, the loop goes on until the
        # session ends), removed, main settings changed
        BGP_PRE + ";r peer;u 4 2 1;e 0", BGP_PRE + ";r gone;u 4 2 1", BGP_PRE + ";r unit;u 4 2 1",
        # before the session is established
        "S 7 0 1;r other;g;r other;n;u 3 1 -;r other;l 1",
    ]


def bgp_nontrivial(case, out):
    t = out.split()
    used = next((int(x[5:]) for x in t if x.startswith("used:")), 0)
    evs = bgpend_common.events_of(case)[:used]
    return any(e.startswith("r ") for e in evs) and "w:s" in t


def bgp_classify(case, out):
    t = out.split()
    used = next((int(x[5:]) for x in t if x.startswith("used:")), 0)
    evs = bgpend_common.events_of(case)[:used]
    ks = []
    spared = [i for i, e in enumerate(evs) if e in ("r other", "r same")]
    if spared:
        ks.append("reconfiguration-spares-session")
        if any(e.startswith("u ") for e in evs[spared[0] + 1:]):
            ks.append("routes-after-spared-reconfiguration")
    if any(e == "r other" for e in evs):
        ks.append("other-peers-changed")
    cmds = next((x for x in t if x.startswith("cmds:")), "cmds:-")
    if "reconfiguration" in cmds or "deconfigured" in cmds:
        ks.append("session-reset-by-reconfiguration")
    return ks + bgpend_common.classify(case, out)[:1]


ENGINES.append({"name": "bgpend", "gen": bgp_gen, "corpus": bgp_corpus, "nontrivial": bgp_nontrivial, "classify": bgp_classify, "shards": 8})
TRUSTED_BASE.append(bgpend_common.BGPEND_TRUSTED)
ASSUMPTIONS = ASSUMPTIONS + bgpend_common.BGPEND_ASSUMPTIONS
RULE = RULE + ("; engine bgpend (C13 profile): an established BGP session that announced routes is shown every sequence of up to 3 (thorough: 4) "
               "reconfigurations of the five kinds (main settings changed / nothing changed / this peer's entry changed / this peer removed / only "
               "another peer's entry changed or added), and random scripts of UPDATEs, reconfigurations and every exit of the loop; non-trivial = a "
               "reconfiguration was seen by the loop and the session ended with its withdrawal")

# ---- field-level configuration defaults (seeded/C11-c2 showed the pattern: `#[serde(default = "fn")]` replaced by plain
# `#[serde(default)]` gives the default of the field's TYPE). Engine `confdef`: the tables of a bmp-tcp-in unit, a rib unit and an
# mqtt-out target with every presence pattern of the keys that have such a default, rendered as TOML text, loaded by the real
# loader; the settings each component is started / reconfigured with against Manager/ConfDefaultsModel.v.
# Engine `ribconf` (lib/props/c11.py): the rib unit's query_limits / http_api_path through a real running pipeline, start-up and reloads.
CD_STR = {"b0": ["/routers/", "/bmp/", "/r"], "b1": ["{sys_name}", "x{sys_name}", "router"], "r0": ["/prefixes/", "/rib/", "/p"],
          "m1": ["rotonda/{id}", "t/{id}", "topic"]}
CD_INT = {"m0": [0, 1, 2, 7, -1], "m2": [0, 1, 60, 3600], "m3": [0, 1, 5, 30], "m4": [0, 1, 1000, 65535]}
CD_BAD = {"m0": ["i2147483648", "sx", "o"], "m2": ["i-1", "s60", "o"], "m3": ["i-5", "s5", "o"], "m4": ["i65536", "i-1", "s9", "o"],
          "b0": ["i5", "o"], "b1": ["i5", "o"], "r0": ["i5", "o"], "m1": ["i5", "o"]}
CD_SLOTS = [("b", ["b0", "b1"]), ("r", ["r0"]), ("m", ["m0", "m1", "m2", "m3", "m4"])]


def cd_value(rng, slot, bad_pc):
    k = rng.below(100)
    if k < 45:
        return "-"
    if k < 45 + bad_pc:
        return rng.choice(CD_BAD[slot])
    if slot in CD_STR:
        return "s" + rng.choice(CD_STR[slot])
    return "i%d" % rng.choice(CD_INT[slot])


def cd_load(rng, bad_pc):
    return " , ".join("%s %s" % (c, " ".join(cd_value(rng, s, bad_pc) for s in slots)) for c, slots in CD_SLOTS)


def cd_gen(rng, tier):
    n = 300 if tier == "quick" else 5000
    for i in range(n):
        yield " ; ".join(cd_load(rng, 3 if rng.chance(70) else 12) for _ in range(rng.weighted([(1, 40), (2, 40), (3, 20)])))


def cd_corpus():
    """every presence pattern of the five mqtt-out keys (32) and of the bmp-tcp-in / rib keys (8), at start-up and as a reload
    after a load that sets everything; each key alone with a value of the wrong kind"""
    full = "b s/bmp/ srouter , r s/rib/ , m i1 st/{id} i7 i9 i10"
    setv = {"b0": "s/bmp/", "b1": "srouter", "r0": "s/rib/", "m0": "i1", "m1": "st/{id}", "m2": "i7", "m3": "i9", "m4": "i10"}
    cases = []
    def load(on):
        return " , ".join("%s %s" % (c, " ".join(setv[s] if s in on else "-" for s in slots)) for c, slots in CD_SLOTS)
    for mask in range(32):
        on = {"m%d" % k for k in range(5) if mask >> k & 1}
        cases.append(load(on))
        cases.append(full + " ; " + load(on))
    for mask in range(8):
        on = {s for k, s in enumerate(["b0", "b1", "r0"]) if mask >> k & 1}
        cases.append(load(on) + " ; " + full + " ; " + load(on))
    for slot, bads in sorted(CD_BAD.items()):
        for b in bads:
            one = " , ".join("%s %s" % (c, " ".join(b if s == slot else "-" for s in slots)) for c, slots in CD_SLOTS)
            cases.append(one + " ; " + full + " ; " + one)
    return cases


def cd_nontrivial(case, out):
    return "ok" in out.split() and " - " in case + " "


def cd_classify(case, out):
    ks = []
    verdicts = [t for t in out.split() if t in ("ok", "E")]
    for k, (ld, v) in enumerate(zip(case.split(";"), verdicts)):
        when = "start" if k == 0 else "reload"
        ks.append("load:%s:%s" % (when, "accepted" if v == "ok" else "refused"))
        for comp in ld.split(","):
            w = comp.split()
            if not w:
                continue
            for j, t in enumerate(w[1:]):
                ks.append("key:%s%d:%s" % (w[0], j, "unset" if t == "-" else "set"))
    return sorted(set(ks))


ENGINES.append({"name": "confdef", "gen": cd_gen, "corpus": cd_corpus, "nontrivial": cd_nontrivial, "classify": cd_classify, "shards": 4})
from props import c11 as _c11


def _ribconf_gen(rng, tier):
    n = 60 if tier == "quick" else 1000
    for i in range(n):
        yield _c11.conf_gen_case(rng, i)


ENGINES.append({"name": "ribconf", "gen": _ribconf_gen, "corpus": _c11.conf_corpus, "nontrivial": _c11.conf_nontrivial,
                "classify": _c11.conf_classify, "shards": 4, "timeout": 900})
TRUSTED_BASE.append("Rust harness engines `confdef` (as c13: real loader, recording stubs; the settings are read from the Debug rendering of the component handed to "
                    "the stubs, field by field) and `ribconf` (a real running pipeline: Manager::spawn, loopback HTTP; hook Manager::verif_settle only)")
RULE = RULE + ("; engine confdef: 1-3 loads of a file with a bmp-tcp-in unit, a rib unit and an mqtt-out target, each key with a documented non-type default "
               "unset (45 %) / set to a value of its kind / (3-12 %) to a value the deserialiser refuses; corpus = all 32 + 8 presence patterns at start-up and as a reload; "
               "engine ribconf: see C11")
EXTRAS = []

LEVEL_TEXT = ("Theorems over all abstract TOML documents and all histories of loads of the manager model (accepts exactly the valid "
              "documents, a failed load changes nothing, a successful load starts/stops/reconfigures exactly the difference and leaves "
              "running exactly the used units and all targets of the file wired as in the file, last successful file wins, no panic "
              "unless a unit and a target share a name - shown sharp; the three defects of the pinned code refuted by witnesses), "
              "kernel-checked, axiom-free; model tied to config.rs/manager.rs by differential execution of generated reload "
              "histories rendered as real TOML on every run.")
DESIGN_REF = "DESIGN.md section 6, C13"
LEVEL_NOTE = ("Partial: 'keeps its state (RIB contents, sessions)' is not modelled - the theorems show that the manager sends an unchanged "
              "component a Reconfigure and neither Terminate nor Spawn; spawn/reconfigure/terminate are recording stubs, no unit is run by the `c13` engine; the `e2e` engine reloads a real running pipeline "
              "(bmp-tcp-in -> rib) under traffic and checks from outside that sessions and RIB contents survive, that every reload's settings "
              "are adopted (router_id_template, listen port) and that routers connecting afterwards are served (design-notes/E2E.md). "
              "The `e2e` profile also runs a shorthand RIB with generated vRIBs and asks their HTTP endpoints before and after reloads (known finding "
              "C13-vrib-query-todo: a vRIB asked about a stored prefix never answers); the `bgpend` engine shows established BGP sessions of a "
              "reconfigured bgp-tcp-in unit every kind of reconfiguration: only those that change the main settings or the session's own peer entry "
              "reset it (C13_bgp_spared_reconfigurations_invisible). "
              "The `e2e` profile also takes an INGRESS unit out of the configuration and puts it back (a second bmp-tcp-in unit stays): the removal is exactly the "
              "withdrawal of the removed unit's sessions in every RIB unit that lives through the reload (C13_removed_unit_withdraws_its_routes, "
              "C13_removal_spares_other_ingresses, C13_removal_is_one_bulk_withdrawal), its router list goes with it, the unit that comes back is a new parent whose "
              "routers are new sources (C13_added_unit_is_a_new_parent, C13_router_of_added_unit_is_a_new_source); defect found and fixed: the RIB unit unsubscribed "
              "from a terminated source before that source had sent its withdrawals (C13-removal-unsubscribes-first, C13_legacy_removal_leaves_routes_refuted). "
              "Trusted: Coq kernel, ExtrOcamlBasic extraction + OCaml driver, Rust harness (TOML rendering, Debug-based read-out) and generators.")
TECHNIQUE = "Coq proof over load histories (closed form of one reload + induction) + model/implementation correspondence"
