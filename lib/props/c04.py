"""C04 — each NLRI of an UPDATE becomes exactly one route with that UPDATE's attributes."""
import vcommon as V

PROPS_FILE = "Props_C04.v"
RULE = ("UPDATE ASTs drawn at random (conventional withdrawn/NLRI, MP_REACH/MP_UNREACH for IPv4/IPv6 unicast/multicast and "
        "unsupported AFI/SAFIs, 0-12 prefixes per section with boundary lengths over-weighted, 0-8 attributes in random order, "
        "extended-length and odd flag bits, 2- and 4-octet AS_PATH, End-of-RIB forms), turned into bytes by the PROVED encoder "
        "(extracted), then decoded by the extracted independent decoder and by rotonda (from_octets + explode_*); plus "
        "non-canonical-but-legal PDUs and a malformed stream (bit flips, byte edits, length edits, truncation, extension). "
        "A case (1-3 PDUs) is non-trivial when at least one PDU yields at least one route; distinct = distinct case text. "
        "Engine c04json: UPDATEs with the four community attributes (COMMUNITIES, EXTENDED, IPv6 EXTENDED, LARGE) over-weighted, in any "
        "attribute order, repeated / empty / of a length that is no multiple of the member size, announcing 1-3 prefixes; the JSON serde "
        "makes of each announced route's attribute map is reduced to (element kinds in order, sorted community octets) and compared with "
        "BgpModel.json_shape; non-trivial there = the community list is not empty")
TRUSTED_BASE = [
    "Coq 8.16.1 kernel (coqc; coqchk in thorough); no native_compute",
    "extraction with ExtrOcamlBasic only; OCaml driver oracle/{conv,c04_util,eng_c04,eng_c04enc,oracle}.ml (hex/text conversion, FNV-1a digest of the attribute blob)",
    "Rust harness /verif/harness (engine c04) over rotonda::verif::bgp::{explode_announcements, explode_withdrawals} (feature verif-hooks) and routecore UpdateMessage::from_octets",
    "not modelled, only exercised: routecore 0.5.1 byte-level parser and inetnum Prefix (the Gallina decoder is an independent second decoder written from RFC 4271 4.3 / RFC 4760, not a model of them)",
    "python generator lib/props/c04.py (its ASTs are checked by the extracted wf predicate; bytes come from the proved encoder)",
]
ASSUMPTIONS = [
    "the harness hands the explode path exactly one framed message (framing by BGP / BMP / MRT record length is C06's business); the three ingress units all call explode_announcements then explode_withdrawals and drop the whole UPDATE on an error of either - the harness composes them the same way",
    "the attribute map of a route is observed as the raw attribute section it stores (length + FNV-1a 32 digest) and, in engine c04json, as the shape of its serde_json rendering (which elements, which communities); values of attributes other than the community octets are not compared",
    "ADD-PATH is not negotiated (SessionConfig::modern()/legacy() as used by all three ingress units)",
    "on malformed input acceptance and events must be equal too, with one tolerance: when an MP attribute of a family routecore parses but rotonda ignores (labelled unicast, VPN, flowspec, route target, VPLS, EVPN) has a non-empty NLRI field, the implementation may refuse what the decoder (which keeps that field opaque) accepts",
]

# ---------------------------------------------------------------- AST generation
V4_LENS = [0, 1, 7, 8, 9, 15, 16, 17, 23, 24, 25, 31, 32]
V6_LENS = [0, 1, 7, 8, 9, 32, 33, 47, 48, 63, 64, 65, 120, 127, 128]
FAMS = [(0, 32), (1, 32), (2, 128), (3, 128)]   # index -> maxlen ; 0=4u 1=4m 2=6u 3=6m
# unsupported AFI/SAFIs: unknown to routecore (any bytes may follow) ...
UNKNOWN_FAMS = [(1, 3), (1, 66), (2, 3), (3, 1), (0, 1), (16388, 71), (25, 1), (1, 134), (2, 129), (65535, 255)]
# ... and known to routecore but not turned into routes by rotonda (NLRI must parse there)
KNOWN_UNSUPPORTED = [(1, 4), (1, 128), (1, 132), (1, 133), (2, 4), (2, 128), (2, 133), (25, 65), (25, 70)]


def hexs(bs):
    return "".join("%02x" % b for b in bs) if bs else "-"


def gen_pfx(rng, maxlen, dirty=False):
    lens = V4_LENS if maxlen == 32 else V6_LENS
    ln = rng.choice(lens) if rng.chance(65) else rng.below(maxlen + 1)
    n = (ln + 7) // 8
    bs = [rng.below(256) for _ in range(n)]
    if n and ln % 8:
        keep = 0xFF << (8 - ln % 8) & 0xFF
        if dirty:
            bs[-1] = (bs[-1] & keep) | (1 + rng.below((1 << (8 - ln % 8)) - 1))
        else:
            bs[-1] &= keep
    return (ln, bs)


def pfx_pool(rng, maxlen):
    return [gen_pfx(rng, maxlen) for _ in range(rng.range(2, 10))]


def gen_pfxs(rng, maxlen, lo=0, hi=12):
    pool = pfx_pool(rng, maxlen)
    k = rng.weighted([(0, 15), (1, 25), (2, 15), (3, 10), (6, 15), (12, 20)])
    k = max(lo, min(hi, k if k < 3 else rng.range(3, k)))
    # drawn from a small pool: the PDU's own repetitions occur
    return [rng.choice(pool) if rng.chance(70) else gen_pfx(rng, maxlen) for _ in range(k)]


def show_pfx(p):
    return "%d/%s" % (p[0], hexs(p[1]))


def as_path(rng, four):
    out = []
    for _ in range(rng.range(0, 3)):
        n = rng.range(1, 5)
        out += [rng.choice([1, 2]), n]
        for _ in range(n):
            asn = rng.below(1 << 32) if four and rng.chance(40) else rng.range(1, 65534)
            out += list(asn.to_bytes(4 if four else 2, "big"))
    return out


def gen_plain_attrs(rng, four):
    """(flags, type, value) for non-MP attributes, unique types, semantically valid values"""
    rb = lambda n: [rng.below(256) for _ in range(n)]
    cands = [
        (0x40, 1, [rng.below(3)]),
        (0x40, 2, as_path(rng, four)),
        (0x40, 3, rb(4)),
        (0x80, 4, rb(4)),
        (0x40, 5, rb(4)),
        (0x40, 6, []),
        (0xC0, 7, rb(8 if four else 6)),
        (0xC0, 8, rb(4 * rng.range(1, 70 if rng.chance(10) else 6))),
        (0x80, 9, rb(4)),
        (0x80, 10, rb(4 * rng.range(1, 4))),
        (0xC0, 16, rb(8 * rng.range(1, 4))),
        (0xC0, 32, rb(12 * rng.range(1, 3))),
        (0xC0, 35, rb(4)),
        (0xC0, rng.range(40, 120), rb(rng.range(0, 20))),          # unknown optional transitive
        (0xC0, rng.range(129, 254), rb(rng.range(0, 300 if rng.chance(15) else 12))),
        (0x80, 121, rb(rng.range(0, 9))),                          # unknown optional non-transitive
    ]
    k = rng.range(0, 8)
    picked, seen = [], set()
    for _ in range(k):
        fl, ty, v = rng.choice(cands)
        if ty in seen:
            continue
        seen.add(ty)
        if rng.chance(12):
            fl |= 0x20                      # partial
        if rng.chance(5):
            fl |= 1 << rng.below(4)         # low bits: MUST be ignored when received
        if len(v) > 255 or rng.chance(20):
            fl |= 0x10                      # extended length
        picked.append("G %d %d %s" % (fl, ty, hexs(v)))
    return picked


def mpls_nlri(rng, v6):
    """a syntactically valid labelled-unicast NLRI: length = 24 + prefix bits, 3-byte label (bottom of stack), prefix"""
    ln, bs = gen_pfx(rng, 128 if v6 else 32)
    return [24 + ln, 0x01, 0xf4, 0x01] + bs


def gen_mp(rng, dirty=False):
    k = "sup" if dirty else rng.weighted([("sup", 70), ("unk", 18), ("known", 12)])
    if k == "sup":
        f, maxlen = rng.choice(FAMS)
        ps = gen_pfxs(rng, maxlen)
        if dirty:
            ps = ps + [gen_pfx(rng, maxlen, dirty=True)]
            while ps[-1][0] % 8 == 0:
                ps[-1] = gen_pfx(rng, maxlen, dirty=True)
        return "P %d %d %s" % (f, len(ps), " ".join(show_pfx(p) for p in ps)), f
    if k == "unk":
        afi, safi = rng.choice(UNKNOWN_FAMS)
        return "O %d %d %s" % (afi, safi, hexs([rng.below(256) for _ in range(rng.range(0, 24))])), None
    afi, safi = rng.choice(KNOWN_UNSUPPORTED)
    raw = []
    if safi == 4 and rng.chance(60):
        for _ in range(rng.range(1, 3)):
            raw += mpls_nlri(rng, afi == 2)
    return "O %d %d %s" % (afi, safi, hexs(raw)), None


def gen_reach(rng, dirty=False):
    mp, f = gen_mp(rng, dirty)
    nhl = rng.choice([4, 16, 32]) if rng.chance(85) else rng.range(0, 40)
    if f in (0, 1) and rng.chance(80):
        nhl = 4
    fl = 0x80 | (0x10 if rng.chance(35) else 0) | (0x40 if rng.chance(5) else 0)
    return "R %d %s %d %s" % (fl, hexs([rng.below(256) for _ in range(nhl)]), 0 if rng.chance(90) else rng.below(256), mp)


def gen_unreach(rng, dirty=False):
    mp, _ = gen_mp(rng, dirty)
    fl = 0x80 | (0x10 if rng.chance(35) else 0)
    return "N %d %s" % (fl, mp)


def gen_ast(rng, kind, four):
    """kind: canon | eor | trail | dupmp"""
    if kind == "eor":
        k = rng.below(3)
        if k == 0:
            return "U 0 0 0"
        if k == 1:
            return "U 0 1 N %d P %d 0 0" % (0x80 | (0x10 if rng.chance(30) else 0), rng.below(4))
        afi, safi = rng.choice(UNKNOWN_FAMS + KNOWN_UNSUPPORTED)
        return "U 0 1 N 128 O %d %d - 0" % (afi, safi)
    shape = rng.weighted([("conv", 30), ("mp", 30), ("mix", 40)])
    wd = gen_pfxs(rng, 32) if shape != "mp" and rng.chance(60) else []
    nlri = gen_pfxs(rng, 32) if shape != "mp" and rng.chance(75) else []
    attrs = gen_plain_attrs(rng, four)
    mps = []
    if shape != "conv":
        if rng.chance(75):
            mps.append(gen_reach(rng))
        if rng.chance(55) or not mps:
            mps.append(gen_unreach(rng))
    if kind == "dupmp":
        mps.append(gen_reach(rng) if rng.chance(50) and any(m.startswith("R") for m in mps) else gen_unreach(rng))
        if sum(1 for m in mps if m.startswith("N")) < 2 and sum(1 for m in mps if m.startswith("R")) < 2:
            mps.append(gen_unreach(rng))
    if kind == "trail":
        where = rng.below(4)
        if where == 0:
            mps.append(gen_reach(rng, dirty=True)) if not any(m.startswith("R") for m in mps) else wd.append(gen_dirty(rng))
        elif where == 1:
            mps.append(gen_unreach(rng, dirty=True)) if not any(m.startswith("N") for m in mps) else nlri.append(gen_dirty(rng))
        elif where == 2:
            wd.insert(rng.below(len(wd) + 1), gen_dirty(rng))
        else:
            nlri.insert(rng.below(len(nlri) + 1), gen_dirty(rng))
    for m in mps:
        attrs.insert(rng.below(len(attrs) + 1), m)
    return "U %d %s %d %s %d %s" % (len(wd), " ".join(show_pfx(p) for p in wd), len(attrs), " ".join(attrs),
                                    len(nlri), " ".join(show_pfx(p) for p in nlri))


def gen_dirty(rng):
    p = gen_pfx(rng, 32, dirty=True)
    while p[0] % 8 == 0:
        p = gen_pfx(rng, 32, dirty=True)
    return p


# ---------------------------------------------------------------- malformed stream
def fix_len(b):
    n = len(b)
    if n >= 18 and n < 65536:
        b[16], b[17] = n >> 8, n & 0xFF


def mutate(rng, hexstr):
    b = list(bytes.fromhex(hexstr))
    k = rng.weighted([("flip", 25), ("byte", 20), ("len", 20), ("trunc", 15), ("extend", 10), ("zero-len", 5), ("hdr", 5)])
    if k == "flip":
        for _ in range(rng.range(1, 2)):
            i = rng.range(16, len(b) - 1)
            b[i] ^= 1 << rng.below(8)
    elif k == "byte":
        i = rng.range(16, len(b) - 1)
        b[i] = rng.below(256)
    elif k == "len":
        wdl = (b[19] << 8 | b[20]) if len(b) > 20 else 0
        pos = rng.choice([17, 20, 22 + wdl])
        if pos < len(b):
            b[pos] = (b[pos] + rng.choice([1, 255, 2, 254, 8])) & 0xFF
    elif k == "trunc":
        cut = rng.range(1, min(12, max(1, len(b) - 19)))
        b = b[:len(b) - cut]
        if rng.chance(80):
            fix_len(b)
    elif k == "extend":
        b += [rng.below(256) for _ in range(rng.range(1, 6))]
        if rng.chance(80):
            fix_len(b)
    elif k == "zero-len":
        if len(b) > 22:
            b[19] = b[20] = 0
    else:
        i = rng.below(19)
        b[i] = rng.below(256)
    return k, "".join("%02x" % x for x in b)


# ---------------------------------------------------------------- cases
def gen(rng, tier, n=None):
    n = n or (2500 if tier == "quick" else 50000)
    plan = []   # per PDU: (kind, four)
    cases = []  # list of list of indices into plan
    for _ in range(n):
        k = rng.weighted([(1, 60), (2, 25), (3, 15)])
        idx = []
        for _ in range(k):
            kind = rng.weighted([("canon", 62), ("eor", 4), ("trail", 3), ("dupmp", 3), ("mut", 28)])
            idx.append(len(plan))
            plan.append((kind, rng.chance(65)))
        cases.append(idx)
    asts = [gen_ast(rng.fork("ast%d" % i), "canon" if k == "mut" else k, four) for i, (k, four) in enumerate(plan)]
    enc = V.run_lines(V.ORACLE, "c04enc", asts, shards=4)
    ops = []
    for i, ((kind, four), line) in enumerate(zip(plan, enc)):
        parts = line.split()
        if len(parts) != 3 or line.startswith("MODEL-ERROR"):
            raise V.CheckBroken(f"c04enc failed on AST {asts[i]!r}: {line}")
        wf, eor, hx = parts
        cfg = "m" if four else "l"
        if kind == "mut":
            mk, hx = mutate(rng.fork("mut%d" % i), hx)
            ops.append("w%s %s mut-%s" % (cfg, hx, mk))
        elif kind in ("canon", "eor"):
            if wf != "1":
                raise V.CheckBroken(f"generator produced a non-wf canonical AST: {asts[i]!r}")
            if kind == "eor" and eor != "1":
                raise V.CheckBroken(f"generator produced a non-EoR AST for the EoR stream: {asts[i]!r}")
            ops.append("s%s %s %s" % (cfg, hx, kind))
        else:
            if wf != "0":
                raise V.CheckBroken(f"generator produced a wf AST for the non-canonical stream {kind}: {asts[i]!r}")
            ops.append("s%s %s %s" % (cfg, hx, kind))
    for idx in cases:
        yield ";".join(ops[i] for i in idx)


def segments(obs):
    segs, cur = [], None
    for t in obs.split():
        if t == "|":
            cur = []
            segs.append(cur)
        elif cur is not None:
            cur.append(t)
    return [" ".join(s) for s in segs]


def nontrivial(case, out):
    return any((s.startswith("ok ") or s.startswith("ok,") or s.startswith("<ERR|ok,")) for s in segments(out))


def classify(case, out):
    ks = set()
    for op, seg in zip(case.split(";"), segments(out)):
        tag = op.split()[2] if len(op.split()) > 2 else "?"
        ks.add("pdu:" + (tag if not tag.startswith("mut-") else "mutated"))
        if tag.startswith("mut-"):
            ks.add(tag + (":decoder-rejects" if seg == "ERR" else ":decoder-accepts"))
            if seg.startswith("<"):
                ks.add("mutated:tolerance-for-opaque-family-used")
            continue
        toks = seg.replace(",", " ").split()
        if toks[:1] == ["ERR"]:
            ks.add("decoder-rejects")
        routes = [t for t in toks if t[:1] in "AW" and ":" in t]
        ks.add("routes:%s" % ("0" if not routes else "1" if len(routes) == 1 else "2-5" if len(routes) <= 5 else "6-12" if len(routes) <= 12 else ">12"))
        for t in routes:
            ks.add("fam:" + t[:3])
            ln = int(t.split(":")[1].split("/")[1])
            if ln in (0, 32, 128):
                ks.add("len:%d" % ln)
            elif ln % 8:
                ks.add("len:not-multiple-of-8")
        if len(set(routes)) < len(routes):
            ks.add("repeated-prefix-in-pdu")
        ks.add("cfg:" + ("4-octet" if op.split()[0].endswith("m") else "2-octet"))
    return sorted(ks)


def corpus():
    mk = "ff" * 16
    return [
        # empty UPDATE = IPv4 unicast End-of-RIB; MP_UNREACH-only End-of-RIB for IPv6 unicast
        "sm " + mk + "00170200000000 eor;sl " + mk + "001d0200000006800f03000201 eor",
        # witnesses of C04_trailing_bits_refuted and C04_duplicate_mp_refuted
        "sm " + mk + "001a0200000000090a81 trail",
        "sm " + mk + "00270200000010800f050002010820800f050002010830 dupmp",
        # 10.0.0.0/8 announced next to an MP_UNREACH_NLRI without prefixes: not an End-of-RIB marker (was dropped on the
        # BMP path during the dump phase before the fix of dumping.rs route_monitoring_preprocessing)
        "sm " + mk + "0023020000000a40010100800f03000201080a eorlike",
        # duplicate MP_UNREACH_NLRI whose third instance does not parse (prefix length 200) (C04_duplicate_mp_unparsed_refuted)
        "sm " + mk + "002c0200000015800f050002010820800f03000201800f04000201c8 dupmp",
        # labelled-unicast NLRI (AFI 1 / SAFI 4) announcing 72 prefix bits: routecore panics (known finding, C06's business)
        "wm " + mk + "00300200000019800e1600010404" "0a000001" "00" "6001f401" "0a0000000000000000 mplspanic",
        # the same next to an MP_UNREACH_NLRI of an AFI/SAFI unknown to routecore
        "sm " + mk + "0026020000000d40010100800f060019010a0b0c080a eorlike",
    ]


def known_signature(k, engine, case, model, spec, impl):
    """A failing case belongs to a known finding iff, on every PDU where the implementation differs from the
    RFC decoder, it behaves exactly like the decoder's Code mode, in the direction of that finding."""
    if engine not in ("c04", "c04bmp", "c04bgp", "c04json") or k.get("engine") != "c04":
        return False
    if k["signature"] == "labelled-nlri-panic":
        # the whole case line is lost when the implementation panics; the decoder must have flagged a PDU that
        # carries an opaque NLRI field of a family routecore parses (the only place where such a panic can come from)
        return (impl.startswith("PANIC range end index") and "out of range for slice of length" in impl
                and any(s.startswith("<ERR|") for s in segments(model)))
    ms, ss, is_ = segments(model), segments(spec), segments(impl)
    if not (len(ms) == len(ss) == len(is_)) or not ms:
        return False
    hit = False
    for m, s, i in zip(ms, ss, is_):
        if V.obs_match(s, i):
            continue
        if not V.obs_match(m, i):
            return False
        if k["signature"] == "trailing-bits":
            if not (i == "ERR" and m == "ERR" and s.startswith("ok")):
                return False
        elif k["signature"] == "duplicate-mp":
            if not (s == "ERR" and i.startswith("ok")):
                return False
        else:
            return False
        hit = True
    return hit


def gen_bmp(rng, tier):
    n = 400 if tier == "quick" else 8000
    for c in gen(rng, tier, n):
        yield c


# ---------------------------------------------------------------- the rendered form (engine c04json)
COMM_SIZE = {8: 4, 16: 8, 25: 20, 32: 12}


def gen_json_attrs(rng, four):
    """non-MP attributes for the JSON stream: the four community attributes over-weighted, in any order, now and then
    repeated, empty, or of a length that is no multiple of the member size; a few other attributes around them"""
    rb = lambda n: [rng.below(256) for _ in range(n)]
    pool8 = [[0xfd, 0xe8, 0, 1], [0xfd, 0xe8, 0, 2], [0xff, 0xff, 0xff, 0x01], [0xff, 0xff, 0xff, 0x02], [0, 0, 0, 5], [0xff, 0xff, 0, 9]]

    def comm(ty):
        k = COMM_SIZE[ty]
        n = rng.weighted([(0, 4), (1, 40), (2, 30), (3, 16), (6, 10)])
        v = []
        for _ in range(n):
            if ty == 8 and rng.chance(60):
                v += rng.choice(pool8)
            elif ty == 16 and rng.chance(50):
                v += [rng.choice([0, 1, 2, 0x40, 0x41, 3, 6]), rng.choice([2, 3, 4, 0x0b])] + rb(6)
            else:
                v += rb(k)
        if rng.chance(6):
            v = v + rb(rng.range(1, k - 1)) if rng.chance(50) or not v else v[:-rng.range(1, k - 1)]
        return (0xC0, ty, v)

    others = [
        lambda: (0x40, 1, [rng.below(3)]),
        lambda: (0x40, 2, as_path(rng, four)),
        lambda: (0x40, 3, rb(4)),
        lambda: (0x80, 4, rb(4)),
        lambda: (0x40, 5, rb(4)),
        lambda: (0x40, 6, []),
        lambda: (0xC0, 7, rb(8 if four else 6)),
        lambda: (0x80, 9, rb(4)),
        lambda: (0x80, 10, rb(4 * rng.range(1, 3))),
        lambda: (0xC0, 35, rb(4)),
        lambda: (0xC0, rng.range(40, 120), rb(rng.range(0, 9))),
        lambda: (0x40, 1, rb(2)),                      # ORIGIN of 2 octets: rendered as `invalid`
        lambda: (0x80, 4, rb(3)),
    ]
    picked, seen = [], set()
    for _ in range(rng.range(1, 7)):
        if rng.chance(62):
            fl, ty, v = comm(rng.choice([8, 8, 16, 32, 32, 25, 16]))
        else:
            fl, ty, v = rng.choice(others)()
        if ty in seen and not rng.chance(15):
            continue
        seen.add(ty)
        if len(v) > 255 or rng.chance(15):
            fl |= 0x10
        if rng.chance(8):
            fl |= 0x20
        picked.append("G %d %d %s" % (fl, ty, hexs(v)))
    return picked


def gen_json_ast(rng, four):
    attrs = gen_json_attrs(rng, four)
    nlri, wd, mps = [], [], []
    shape = rng.weighted([("conv", 45), ("mp", 35), ("mix", 15), ("none", 5)])
    if shape in ("conv", "mix"):
        nlri = gen_pfxs(rng, 32, lo=1, hi=3)
    if shape in ("mp", "mix"):
        f, maxlen = rng.choice(FAMS)
        ps = gen_pfxs(rng, maxlen, lo=1, hi=3)
        nhl = 4 if f in (0, 1) else 16
        mps.append("R %d %s 0 P %d %d %s" % (0x80 | (0x10 if rng.chance(30) else 0), hexs([rng.below(256) for _ in range(nhl)]),
                                             f, len(ps), " ".join(show_pfx(p) for p in ps)))
    if rng.chance(25):
        mps.append(gen_unreach(rng))
    if rng.chance(20):
        wd = gen_pfxs(rng, 32, hi=2)
    for m in mps:
        attrs.insert(rng.below(len(attrs) + 1), m)
    return "U %d %s %d %s %d %s" % (len(wd), " ".join(show_pfx(p) for p in wd), len(attrs), " ".join(attrs),
                                    len(nlri), " ".join(show_pfx(p) for p in nlri))


def gen_json(rng, tier):
    n = 1200 if tier == "quick" else 20000
    plan = [rng.chance(65) for _ in range(n)]      # four-octet AS?
    asts = [gen_json_ast(rng.fork("jast%d" % i), four) for i, four in enumerate(plan)]
    enc = V.run_lines(V.ORACLE, "c04enc", asts, shards=4)
    ops = []
    for i, (four, line) in enumerate(zip(plan, enc)):
        parts = line.split()
        if len(parts) != 3 or line.startswith("MODEL-ERROR") or parts[0] != "1":
            raise V.CheckBroken(f"c04enc failed on / rejected the AST {asts[i]!r}: {line}")
        ops.append("s%s %s json" % ("m" if four else "l", parts[2]))
    i = 0
    while i < len(ops):
        k = rng.weighted([(1, 75), (2, 25)])
        yield ";".join(ops[i:i + k])
        i += k


def nontrivial_json(case, out):
    return any(" c:" in s and not s.endswith("c:-") for s in segments(out))


def classify_json(case, out):
    ks = set()
    for seg in segments(out):
        toks = seg.split()
        if toks[:1] == ["ERR"]:
            ks.add("decoder-rejects")
            continue
        if toks[1:2] == ["-"]:
            ks.add("nothing-announced")
            continue
        kinds = toks[1][2:].split(",") if toks[1] != "k:-" else []
        comms = toks[2][2:].split(",") if toks[2] != "c:-" else []
        ks.add("communities:%s" % ("0" if not comms else "1" if len(comms) == 1 else "2-5" if len(comms) <= 5 else ">5"))
        for c in comms:
            ks.add("kind:" + {"s": "standard", "e": "extended", "l": "large", "x": "ipv6-extended"}.get(c[:1], "?"))
        if len({c[:1] for c in comms}) > 1:
            ks.add("several-community-attributes")
        if any(k in ("8", "16", "25", "32") for k in kinds):
            ks.add("community-attribute-of-odd-length-shown-as-element")
        if len(set(comms)) < len(comms):
            ks.add("repeated-community")
    return sorted(ks)


def corpus_json():
    mk = "ff" * 16
    return [
        # LARGE_COMMUNITY, EXTENDED COMMUNITIES, ORIGIN, NEXT_HOP, then COMMUNITIES (not in type-code order), 198.51.100.0/24
        "sm " + mk + "004b0200000030c0200c0000fde80000000100000002c010080002fde800000064400101004003040a000001c00808fde80001fde8000218c63364 json",
        # IPv6 address specific extended community before COMMUNITIES, an MP_UNREACH_NLRI in between, a 3-octet COMMUNITIES
        # attribute (an element of its own), an empty EXTENDED COMMUNITIES attribute
        "sm " + mk + "00530200000038c019140002000100000000000000000000000000000001800f03000201c00804ffffff01c00803010203400101004003040a000001c0100018c63364 json",
    ]


ENGINES = [{"name": "c04", "gen": gen, "corpus": corpus, "nontrivial": nontrivial, "classify": classify, "shards": 4},
           {"name": "c04json", "gen": gen_json, "corpus": corpus_json, "nontrivial": nontrivial_json, "classify": classify_json, "shards": 4},
           {"name": "c04bmp", "gen": gen_bmp, "corpus": corpus, "nontrivial": nontrivial, "classify": classify, "shards": 4},
           {"name": "c04bgp", "gen": gen_bmp, "corpus": corpus, "nontrivial": nontrivial, "classify": classify, "shards": 4}]

LEVEL_TEXT = ("Theorems over all well-formed UPDATE ASTs of an independent RFC 4271/4760 codec in Coq (encode/decode round trip incl. "
              "flags, extended length, MP_REACH/MP_UNREACH for four families and opaque other AFI/SAFIs; the derived events are exactly one "
              "announcement per reachable prefix carrying the UPDATE's attributes and one withdrawal per unreachable prefix; nothing invented "
              "or dropped; End-of-RIB and unsupported families yield nothing), kernel-checked, axiom-free; rotonda's from_octets + "
              "explode_announcements/explode_withdrawals are compared with the extracted decoder on thousands of PDUs produced by the proved encoder, "
              "on legal non-canonical PDUs and on a malformed stream, on every run.")
DESIGN_REF = "DESIGN.md section 6, C04"
LEVEL_NOTE = ("Trusted: Coq kernel, ExtrOcamlBasic extraction + OCaml driver, Rust harness and python generator. The decoder is a second, "
              "independent decoder, not a model of routecore; two deviations of the implementation from the RFCs (non-zero trailing prefix bits "
              "rejected; duplicate MP attribute tolerated) are formalised as the decoder's Code mode, proved to differ (C04_*_refuted), "
              "reproduced on the real code and listed as known findings in the routecore/inetnum dependency.")
TECHNIQUE = "Coq proof of codec round trip and event exactness + differential execution of an independent extracted decoder against the implementation"
