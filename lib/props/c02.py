"""C02 - losing a session withdraws exactly that session's routes and nothing else."""
from props.pipe_common import *
PROPS_FILE = "Props_C02.v"
RULE = ("random histories over peers drawn from a pool in which pairs differ in exactly one per-peer-header field (BGP id, policy flag, Adj-RIB-Out, "
        "distinguisher/type, address, AS), with Peer Down, Termination, connection loss and BGP session end at random points and the RIB queried "
        "before and after; non-trivial = a session-ending event happened while another source had routes")


def gen(rng, tier):
    n = 2500 if tier == "quick" else 40000
    for i in range(n):
        yield pipegen.gen_case(rng, peers=pipegen.ALL_PEERS if i % 2 == 0 else pipegen.DISTINCT_PEERS, flaps=True, reup=False,
                               metrics=False, bgp=True, length=(10, 50 if tier == "quick" else 150), queries=(3, 8))


def nontrivial(case, out):
    t = out.split()
    return any(x.startswith(("w:", "W:")) for x in t) and any(x.startswith("q:") and "," in x for x in t)


def corpus():
    return [
        # known finding C02-1: peers differing only in BGP id share an ingress id
        "C 0;I 0;U 0 0 0;U 0 1 0;R 0 0 0 3 1 0 -;D 0 1;Q 0 1",
        # ... or only in the pre/post-policy flag
        "C 0;I 0;U 0 0 0;U 0 2 0;R 0 0 0 3 1 0 -;R 0 2 0 4 1 0 -;Q 0 1",
        "C 0;C 1;I 0;I 1;U 0 0 0;U 1 0 0;R 0 0 0 1 1 0 -;R 1 0 0 2 1 0 -;X 0;Q 0 1",
        # the Peer Down of one peer withdraws that peer's routes and nobody else's, whatever its reason octet
    ] + [f"C 0;I 0;U 0 0 0;U 0 3 0;R 0 0 0 3 1,2 0 -;R 0 3 0 4 1 0 -;D 0 0 {r};Q 0 1;Q 0 2" for r in (0, 1, 2, 3, 4, 6, 200)]


ENGINES = [{"name": "pipe", "gen": gen, "corpus": corpus, "nontrivial": nontrivial, "classify": pipegen.classify, "shards": 12}]
from props.e2e_common import e2e_engine
ENGINES.append(e2e_engine("C02"))   # the same histories against a real pipeline over TCP/HTTP
from props import bgpend_common
ENGINES.append(bgpend_common.bgpend_engine())   # the END of a BGP session on the real Processor::process loop, every exit
_pipe_signature = known_signature_for({"K2", "KU"})   # KU: e2e, a BGP session ended by a reload whose Withdraw nobody heard


def known_signature(k, engine, case, mo, spec, im):
    return bgpend_common.known_signature(k, engine, case, mo, spec, im) or (engine != "bgpend" and _pipe_signature(k, engine, case, mo, spec, im))


TRUSTED_BASE = TRUSTED_BASE + [bgpend_common.BGPEND_TRUSTED]
ASSUMPTIONS = ASSUMPTIONS + bgpend_common.BGPEND_ASSUMPTIONS
RULE = RULE + ("; engine bgpend: every script of length <= 3 (thorough: 4) over the 13 events the loop of the BGP session processor can see, with and "
               "without an earlier session of the same peer, plus random longer sessions (routes announced and withdrawn, another source's routes in the "
               "RIB) ended by each exit; non-trivial = the session's withdrawal was sent and a route of the session reads withdrawn")
LEVEL_TEXT = ("BGP session end (Bgp/BgpSessionModel.v, the select! loop of Processor::process and the block after it): for EVERY script of loop events and "
              "however the session ends, the updates its processor sent leave every entry of every other ingress id as it was, and after a registered "
              "session every entry under its id reads withdrawn (C02_bgp_*). "
              "Theorems: a session-wide withdrawal (single and bulk) changes exactly the records of its ids and nothing else (frame, all RIB states); Peer Down "
              "emits exactly that peer's id, Termination exactly the up peers' ids; an ingress id answers one (parent, address, AS, RIB view) only; and the "
              "refutation: peers differing only in BGP id / policy flag / distinguisher share an id (known finding C02-1). Tied to the real code by generated "
              "histories over a peer pool whose members differ in single header fields.")
DESIGN_REF = "DESIGN.md section 6, C02"
LEVEL_NOTE = ("Trusted: as C01. The wire-level isolation statement holds only for peers with distinct (address, AS, RIB view) per router: C02_isolation_partial; the rest is known finding C02-1. On the pipeline model it is proved for every history in which no two wire identities share an ingress id "
              "(Pipe/PipeCompose.v: C02_isolation_by_wire_identity, C02_pipeline_isolation). The BGP session end is modelled at the level of the events its loop sees "
              "(session = routecore's Session as far as tick()/negotiated()/the message channel go; gate = the statuses process() returns): C02_bgp_session_touches_only_own "
              "holds for all scripts, C02_bgp_session_end_withdraws_own for sessions that keep routecore's side of the contract (bs_wf); tied to the real loop by engine bgpend. "
              "In `pipe`/`e2e` the BGP session end is still the harness's emulation; routecore's FSM and TCP are not modelled; known finding bgp-window "
              "(live_sessions bookkeeping, no route affected). "
              "The loss of ALL sessions of an ingress unit at once - a reload that takes the bmp-tcp-in unit out of the configuration - is exercised end to end with a second "
              "ingress unit to spare (engine `e2e`, ops J / JL): exactly the ids registered under the removed unit's connected routers are withdrawn, in every RIB unit "
              "(C02_removed_unit_withdraws_its_routes, C02_removal_spares_other_ingresses, C02_removal_is_one_bulk_withdrawal).")
TECHNIQUE = "Coq frame lemmas over the RIB model + refutation witness + model/implementation correspondence"
