"""The `bgpend` engine (the END of a BGP session) as an ENGINES entry for C02 and C07.

A case is a script of the events the `select!` loop of bgp_tcp_in `Processor::process` can see; the REAL loop is
driven to its end by it (hook `router_handler::verif_session_end`, facade rotonda::verif::bgp_session: a scripted
BgpSession that is the single source of events), whatever ends it. Observed: that `process` returns, how many events it
took, every update that left the gate, the keys left in live_sessions, the Disconnect commands sent to the session, and
- after the gate's updates were applied to a real RibUnitRunner that already holds the routes of another source - what
Rib::match_prefix shows for every prefix of the case. Model: coq/theories/Bgp/BgpSessionModel.v; grammar:
harness/src/engines/bgpend.rs."""
import os
import sys

sys.path.insert(0, os.path.dirname(os.path.dirname(os.path.abspath(__file__))))
import vcommon as V

BGPEND_TRUSTED = ("Rust harness engine `bgpend`: the real bgp_tcp_in Processor::process (select! loop, UPDATE arm with process_update, "
                  "SessionNegotiated arm with the live_sessions bookkeeping, the block after the loop) over a scripted BgpSession through the guarded "
                  "hook router_handler::verif_session_end; a real Gate whose updates are recorded by a direct-update Link (re-subscribed to the new "
                  "gate on a reconfiguration, as the links of a reloaded configuration are); real RibUnitRunner + Rib::match_prefix for the final "
                  "read-back; UPDATE octets from rotonda::bgp::encode; OCaml driver oracle/eng_bgpend.ml")
BGPEND_ASSUMPTIONS = [
    "bgpend: a session is what routecore's Session shows the loop: tick() returns Ok or Err; negotiated() turns Some during a tick() and stays "
    "Some; SessionNegotiated is sent at most once, after negotiated() was set, and UPDATEs reach the channel only after it (bs_wf); scripts "
    "that break this are still run and compared with the model, the property is only claimed for those that keep it",
    "bgpend: the scripted session makes one event available per loop iteration, so the order of the script is the order the loop sees the "
    "events in whatever order select! polls its branches; which of two simultaneously ready branches select! takes is the script's choice "
    "(every order is a script); the cancellation of a half-done gate.process() by another ready branch is not modelled",
    "bgpend: no Roto filter is installed (the bgp-in call site is C10's); the UPDATE that process_update refuses is in the model but could not "
    "be produced (routecore's from_octets validates the NLRI before a message is handed over)",
]

# the alphabet of the exhaustive sweep (fixed parameters)
ALPHABET = ["t", "g", "e 0", "n", "u 3 1,2 -", "k", "l 0", "x", "T", "r unit", "r same", "r peer", "r gone"]
EXITS = ["l 0", "l 1", "x", "e 0", "e 1", "e 2", "r unit", "r gone", ""]
FILLER = ["t", "g", "k", "T", "r same", "r peer"]


def sweep(length):
    """every script over ALPHABET of exactly this length"""
    if length == 0:
        yield []
        return
    for head in sweep(length - 1):
        for a in ALPHABET:
            yield head + [a]


def routes(rng, a):
    ann = sorted({rng.range(1, 6) for _ in range(rng.range(0, 3))})
    wd = sorted({rng.range(1, 6) for _ in range(rng.range(0, 2))}) if rng.chance(35) else []
    return f"{a} {','.join(map(str, ann)) or '-'} {','.join(map(str, wd)) or '-'}"


def random_case(rng):
    ops = [f"S {rng.choice([7, 7, 3, 41, 900 + rng.range(1, 9)])} {1 if rng.chance(25) else 0} {1 if rng.chance(70) else 0}"]
    for i in range(rng.range(0, 3)):
        ops.append("P " + routes(rng, 20 + i))
    if rng.chance(15):
        # anything at all, the session's contract included
        for _ in range(rng.range(1, 9)):
            a = rng.choice(ALPHABET + ["e 1", "e 2", "l 1"])
            ops.append("u " + routes(rng, rng.range(1, 9)) if a.startswith("u ") else a)
        return ";".join(ops)
    for _ in range(rng.range(0, 3)):
        ops.append(rng.choice(FILLER))
    ops.append("n")
    for _ in range(rng.range(0, 7)):
        ops.append("u " + routes(rng, rng.range(1, 9)) if rng.chance(60) else rng.choice(FILLER))
    ex = rng.choice(EXITS)
    if ex:
        ops.append(ex)
    for _ in range(rng.range(0, 2)):      # what comes after the end is not looked at
        ops.append(rng.choice(ALPHABET))
    return ";".join(ops)


def gen(rng, tier):
    quick = tier == "quick"
    for dup in (0, 1):
        for n in range(0, 4 if quick else 5):
            for s in sweep(n):
                yield ";".join([f"S 7 {dup} 1", "P 9 1 -"] + s)
    for _ in range(2500 if quick else 40000):
        yield random_case(rng)


def corpus():
    pre = "S 7 0 1;P 9 1,2 -;g;n;u 3 1,3 -;u 4 2 1"
    return [
        # a registered session that announced routes, ended by every exit of the loop (seeded changes C02-2, C07-2:
        # the cleanup was moved into the ConnectionLost arm)
        pre + ";l 0", pre + ";l 1", pre + ";x", pre, pre + ";e 0", pre + ";e 1", pre + ";e 2", pre + ";r unit", pre + ";r gone",
        pre + ";T;t;l 0", pre + ";T;e 0", pre + ";r peer;k;e 1", pre + ";r same;x",
        # a duplicate connection is rejected and leaves the first session's entry alone
        "S 7 1 1;g;n;u 3 1 -;l 0",
        # known finding bgp-window: the duplicate connection negotiates and fails before SessionNegotiated is handled
        "S 7 1 1;g;e 0", "S 7 1 0;g;r unit", "S 7 1 1;g;x",
        # never negotiated
        "S 7 1 1;t;e 0", "S 7 0 1;k;l 1",
    ]


def events_of(case):
    return [o.strip() for o in case.split(";") if o.strip() and o.strip()[0] not in "SP"]


def nontrivial(case, out):
    t = out.split()
    return "w:s" in t and any(x.startswith("q") and "s=W" in x for x in t)


def classify(case, out):
    t = out.split()
    used = next((int(x[5:]) for x in t if x.startswith("used:")), 0)
    evs = events_of(case)
    last = evs[used - 1] if 0 < used <= len(evs) else ""
    kind = {"l": "connection-lost", "x": "channel-closed", "e": "tick-error"}.get(last[:1], "")
    if last in ("r unit", "r gone"):
        kind = "reconfigured" if last == "r unit" else "deconfigured"
    if "cmds:" in out and "rejected" in out:
        kind = "rejected"
    if not kind:
        kind = "script-end(channel closed)" if used == len(evs) else "other"
    out_k = ["exit:" + kind]
    if "w:s" in t:
        out_k.append("withdrawn")
    return out_k


def known_signature(k, engine, case, mo, spec, im):
    """bgp-window: every departure from the property's reading is the live_sessions token of a case in the class
    BgpSessionModel.bs_known_window (oracle class KW), and there the implementation agrees with the model."""
    return engine == "bgpend" and k.get("class") == "KW" and V.explained_by(mo, spec, im, {"KW"})


def bgpend_engine():
    return {"name": "bgpend", "gen": gen, "corpus": corpus, "nontrivial": nontrivial, "classify": classify, "shards": 12}


# ---- C15 profile: the unit's own counters (src/units/bgp_tcp_in/status_reporter.rs, metrics.rs) after the session. Op `M` makes both
# sides print `met:lost=<n>,disc=<n>`: the oracle from BgpSessionModel.bsm_process, the harness from the Prometheus text the real
# BgpTcpInMetrics source renders. No earlier connection of the same peer is live (dup = 0), so the class of the recorded window finding
# of C02 / C07 is empty here and model = spec.
C15_ALPHABET = ["t", "g", "e 0", "n", "u 3 1 -", "k", "l 0", "l 1", "x", "T", "r unit", "r same", "r peer", "r gone", "r other"]
C15_EXITS = ["l 0", "l 0", "l 1", "x", "e 0", "e 1", "r unit", "r gone", ""]
C15_FILLER = ["t", "g", "k", "T", "T", "r same", "r peer", "r other"]


def sweep_over(alphabet, length):
    if length == 0:
        yield []
        return
    for head in sweep_over(alphabet, length - 1):
        for a in alphabet:
            yield head + [a]


def c15_random_case(rng):
    ops = [f"S {rng.choice([7, 3, 41])} 0 {1 if rng.chance(50) else 0}"]
    if rng.chance(20):
        for _ in range(rng.range(1, 9)):
            ops.append(rng.choice(C15_ALPHABET))
        return ";".join(ops + ["M"])
    for _ in range(rng.range(0, 3)):
        ops.append(rng.choice(C15_FILLER))
    if rng.chance(85):
        ops.append("n")
    for _ in range(rng.range(0, 6)):
        ops.append("u " + routes(rng, rng.range(1, 9)) if rng.chance(35) else rng.choice(C15_FILLER))
    ex = rng.choice(C15_EXITS)
    if ex:
        ops.append(ex)
    for _ in range(rng.range(0, 2)):      # never looked at, never counted
        ops.append(rng.choice(["l 0", "l 1", "T", "r gone", "t"]))
    return ";".join(ops + ["M"])


def gen_c15(rng, tier):
    quick = tier == "quick"
    for n in range(0, 3 if quick else 4):
        for s in sweep_over(C15_ALPHABET, n):
            yield ";".join(["S 7 0 1"] + s + ["M"])
    for _ in range(800 if quick else 20000):
        yield c15_random_case(rng)


def corpus_c15():
    est = "S 7 0 1;g;n;u 3 1,2 -"
    return [
        # seeded change C15-c2: peer_connection_lost(None) returned before the counter (None = rotonda's own PDU writer task noticed the
        # dead peer first)
        est + ";l 0;M", "S 7 0 1;l 0;M", est + ";T;t;l 0;M",
        est + ";l 1;M", est + ";x;M", est + ";e 0;M",
        # disconnects: Terminate (the loop goes on), this peer removed from the configuration; a changed main configuration or peer
        # entry sends Disconnect but counts nothing
        est + ";T;M", est + ";T;T;r gone;l 0;M", est + ";r gone;M", est + ";r unit;M", est + ";r peer;r same;r other;l 1;M",
        # what comes after the end is neither handled nor counted
        est + ";l 1;l 0;T;r gone;M",
    ]


def nontrivial_c15(case, out):
    import re
    m = re.search(r"met:lost=(\d+),disc=(\d+)", out)
    return bool(m) and (int(m.group(1)) + int(m.group(2)) >= 1)


def classify_c15(case, out):
    import re
    ks = classify(case, out)
    m = re.search(r"met:lost=(\d+),disc=(\d+)", out)
    if m:
        ks.append("lost-counted" if int(m.group(1)) else "not-lost")
        if int(m.group(2)):
            ks.append("disconnects-counted" if int(m.group(2)) == 1 else "disconnects-counted-twice-or-more")
        evs = events_of(case)
        used = next((int(x[5:]) for x in out.split() if x.startswith("used:")), 0)
        if 0 < used <= len(evs) and evs[used - 1] == "l 0":
            ks.append("lost-without-socket-address")
    return ks


def bgpend_c15_engine():
    return {"name": "bgpend", "gen": gen_c15, "corpus": corpus_c15, "nontrivial": nontrivial_c15, "classify": classify_c15, "shards": 12}


BGPEND_C15_TRUSTED = ("Rust harness engine `bgpend` (see C02/C07), op M: the real bgp_tcp_in Processor::process over a scripted BgpSession, reporting "
                      "through a child (add_child) of a BgpTcpInStatusReporter over BgpTcpInMetrics::new(&gate) as the unit builds them; the counters are "
                      "read from the text the real metrics::Source renders into a Prometheus Target, through the independent reader engines/promtext.rs")
BGPEND_C15_RULE = ("bgp-tcp-in unit counters: every script of length <= 2 (thorough: 3) over the 15 events the select! loop of Processor::process can see "
                   "(ConnectionLost with and without a socket address, Terminate, every kind of reconfiguration) plus random sessions that negotiate, take "
                   "routes, are told to shut down / reconfigured and end by every exit, with events behind the end; the rendered counters are read after "
                   "process() returned; non-trivial = a counter that moved")
