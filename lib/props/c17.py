"""C17 — output-stream messages reach their target once, in order, in a valid format."""
import vcommon as V

PROPS_FILE = "Props_C17.v"
RULE = ("random histories of gate updates (OutputStream updates with 0-4 messages of every record kind: routes with "
        "random attribute sets, peer-down, custom pairs, log entries with each optional field set or unset, custom texts "
        "over ASCII/control/non-ASCII characters) interleaved with Single/Bulk/Withdraw/WithdrawBulk/QueryResult/"
        "EndOfStream updates, run through the real file-out loop (all three formats, both ways of ending) and the real "
        "mqtt-out runner (random component names, topic templates with zero to several and partial {id} placeholders, "
        "calls on the shared ingress register BETWEEN the messages: new ingresses, ids registered without an entry, update_info of "
        "single fields and of several on known, unknown and never registered ids, nearly half of the cases concentrating on two ids; "
        "reconfigurations of template and QoS); a file case is non-trivial when the file has at least two lines and the history mixes "
        "output-stream updates with other updates or has several of them; an mqtt case when at least one message is "
        "published and at least one is not addressed to the target; distinct = distinct case text")
TRUSTED_BASE = [
    "Coq 8.16.1 kernel (coqc; coqchk in thorough); no native_compute",
    "extraction with ExtrOcamlBasic only; OCaml driver oracle/{conv,eng_c17file,eng_c17mqtt,oracle}.ml",
    "Rust harness /verif/harness (engines c17file, c17mqtt) over rotonda::verif::targets (feature verif-hooks): real FileRunner::run "
    "and MqttRunner::run driven through a real Gate; the MQTT client is a recording stand-in (no broker)",
    "harness parse-back of every line / payload (serde_json, csv) to a canonical record token, incl. its conventions for csv "
    "(no field names: bare number < 1000 = MED, >= 1000 = LOCAL_PREF)",
    "modelled, not verified: src/targets/file/target.rs (OutputStream arm of the run loop), src/targets/mqtt/target.rs "
    "(output_stream_message_to_msg, direct_update, publish arm, reconfigure), src/ingress.rs (Register::get/update_info as the shared "
    "state mqtt-out reads; the same model as C14's, proved equivalent: C17_register_is_the_C14_register); NOT modelled, only exercised: the bytes serde_json/csv print "
    "(roto_runtime/types.rs and payload.rs Serialize impls), tokio, BufWriter, the gate",
]
ASSUMPTIONS = [
    "a rendered record is an opaque one-line symbol in the model; that the real rendering is one line and parses back to the record is checked "
    "by the harness on every generated line, not proved",
    "which routes the csv serializer rejects (extended communities, malformed attributes) is an input of the model (rt_csv_ok), computed by the oracle "
    "driver from the attribute kinds; confirmed against the implementation on every csv case",
    "UTF-8 encodes U+000A as byte 10 and nothing else as byte 10, so lines of code points are lines of bytes",
    "the target is observed after all updates have been consumed (file: Terminate once the link queue is drained, or the gate going away; "
    "mqtt: after the publish queue is drained). Updates still queued when Terminate arrives are discarded by both targets (select prefers the command); "
    "that shutdown race is outside the model",
    "mqtt: the order of direct_update calls is the emission order (one gate, sequential sender)",
    "mqtt: the register and the configuration change BETWEEN direct_update calls (the harness calls update_info between gate updates, as an "
    "ingress unit does before it emits; Gate::update_data awaits direct_update, so the emission is the moment of the lookup). An update_info "
    "racing with one direct_update call from another thread is ordered by the register's RwLock either before or after each get; that race is not exercised",
    "mqtt: a Reconfigure is exercised at quiet moments only (the harness waits until everything emitted so far is published, sends the command, and "
    "waits until the target has handled it). That a message still queued at that moment keeps its topic and gets the new QoS is what the model says "
    "(and the code: topic fixed in direct_update, QoS read in the publish arm); it is proved about the model, not exercised",
]

LETTERS = [ord(c) for c in "abcdefghijklmnopqrstvwxyzABCXYZ"]          # no 'u': the text "null" would parse as a record
OTHERS = [ord(c) for c in "0123456789 ,;:\"'{}[]()<>/\\|=+-_.!?#%&*@^~`$"] + [9, 13, 0, 1, 27, 127, 160, 233, 955, 8232, 8364, 65279, 65533, 128512, 1114111]


def text(rng, allow_nl=False, maxlen=12):
    n = rng.below(maxlen + 1)
    if n == 0:
        return "e"
    cs = [rng.choice(LETTERS)] + [rng.choice(LETTERS if rng.chance(40) else OTHERS) for _ in range(n - 1)]
    # keep one letter somewhere so that a text line never looks like a csv/json record
    k = rng.below(len(cs))
    cs[0], cs[k] = cs[k], cs[0]
    if allow_nl:
        cs.insert(rng.below(len(cs) + 1), 10)
    return ".".join(str(c) for c in cs)


def attrs(rng, allow_bad=False):
    a = []
    if rng.chance(60):
        a.append("o%d" % rng.below(3))
    if rng.chance(55):
        a.append("p" + "-".join(str(rng.choice([1, 64512, 65000, 65001, 4200000000])) for _ in range(rng.range(1, 4))))
    if rng.chance(45):
        a.append("n%d" % rng.below(256))
    if rng.chance(35):
        a.append("m%d" % rng.below(1000))
    if rng.chance(35):
        a.append("l%d" % rng.choice([1000, 1001, 65536, 4294967295]))
    if rng.chance(15):
        a.append("t")
    if allow_bad and rng.chance(50):
        a.append(rng.choice(["x64-1", "x192-8-0-1"]))
    if rng.chance(40):
        a.append("c" + "-".join(str(rng.choice([(64512 + rng.below(1000)) * 65536 + rng.below(100), 4294967041, 4294967042]))
                                for _ in range(rng.range(1, 3))))
    if allow_bad and rng.chance(50):
        a.append("e" + "-".join("%d_%d" % (rng.choice([196072, 196073]), rng.below(1000)) for _ in range(rng.range(1, 2))))
    return "+".join(a) if a else "0"


def route(rng, allow_none=True, allow_bad=False):
    if allow_none and rng.chance(25):
        return "-"
    fam = rng.below(4)
    ln = rng.below(33) if fam % 2 == 0 else rng.choice([0, 1, 16, 32, 48, 64, 127, 128])
    idx = 0 if ln == 0 else rng.below(min(1 << ln, 60000))
    return "R%d,%d,%d,%s" % (fam, idx, ln, attrs(rng, allow_bad))


def opt(rng, f, p=50):
    return str(f()) if rng.chance(p) else "-"


def entry_fields(rng):
    return ",".join([
        str(rng.choice([0, 1, 1700000000000001, 253402300799999999, rng.below(1 << 40)])),
        opt(rng, lambda: rng.choice([0, 65000, 4294967295])), opt(rng, lambda: rng.choice([1, 65001])),
        opt(rng, lambda: rng.below(40)), str(rng.below(500)), str(rng.below(500)),
        opt(rng, lambda: rng.below(500)), opt(rng, lambda: rng.below(6)),
        opt(rng, lambda: rng.below(500)), opt(rng, lambda: rng.below(6))])


def ing(rng):
    return "-" if rng.chance(45) else str(rng.below(4))


def info_fields(rng, single=False):
    """the 8 fields of an IngressInfo; `single`: exactly one field set (what an update of an existing entry
    typically is: bmp Initiation adds the name, a reconnect refreshes the address)"""
    def val(i):
        return str(rng.below(3 if i == 4 else 4))
    if single:
        k = rng.choice([0, 2, 3, 4, 6, 6, 6, 7, 1, 5])
        return " ".join(val(i) if i == k else "-" for i in range(8))
    return " ".join(val(i) if rng.chance(45) else "-" for i in range(8))


def register_op(rng, ids=4):
    """a call of an ingress unit on the shared register"""
    k = rng.weighted([("ing", 25), ("reg", 15), ("G1", 40), ("G", 20)] if ids > 2 else [("ing", 8), ("reg", 7), ("G1", 55), ("G", 30)])
    if k == "ing":
        return "ing " + info_fields(rng)
    if k == "reg":
        return "reg"
    return "G %d %s" % (rng.below(ids), info_fields(rng, single=(k == "G1")))


def msg(rng, defects, names=(0,), topics=False):
    k = rng.weighted([("r", 30), ("d", 15), ("u", 15), ("e", 40)])
    if k == "r":
        return "%s:%s:%s" % (rng.choice("pcao"), route(rng, allow_bad=defects), ing(rng))
    if k == "d":
        topic = text(rng, maxlen=6) if not topics or rng.chance(70) else rng.choice(["123.105.100.125", "120.123.105.100.125", "123", "e"])
        return "d:%d:%s:%d:%d:%s" % (rng.choice(names), topic, rng.below(8), rng.choice([0, 65000, 4200000000]), ing(rng))
    if k == "u":
        return "u:%d:%d:%s" % (rng.choice([0, 1, 7, 4294967295]), rng.choice([0, 9, 4294967295]), ing(rng))
    custom = "-" if rng.chance(45) else text(rng, allow_nl=defects and rng.chance(60))
    return "e:%s:%s:%s" % (entry_fields(rng), custom, ing(rng))


def other_update(rng):
    k = rng.weighted([("S", 30), ("B", 20), ("W", 20), ("WB", 10), ("Q", 10), ("U", 10)])
    if k == "S":
        return "S " + route(rng, allow_none=False)
    if k == "B":
        return "B " + " ".join(route(rng, allow_none=False) for _ in range(rng.range(0, 3)))
    if k == "W":
        return "W %s" % ing(rng) + (" %d" % rng.below(6) if rng.chance(40) else "")
    if k == "WB":
        return "WB " + " ".join(str(rng.below(4)) for _ in range(rng.range(0, 3)))
    if k == "Q":
        return "Q"
    return "U %d" % rng.below(4)


def gen_file_case(rng, defects):
    ops = ["fmt " + rng.choice(["json", "jsonmin", "csv"]), "end " + rng.choice("TG")]
    regs = rng.chance(25)
    for _ in range(rng.range(1, 8)):
        if regs and rng.chance(25):
            ops.append(register_op(rng))
        elif rng.chance(62):
            ops.append(("O " + " ".join(msg(rng, defects) for _ in range(rng.weighted([(0, 5), (1, 40), (2, 30), (3, 15), (4, 10)])))).strip())
        else:
            ops.append(other_update(rng))
    return ";".join(ops)


TPL_PIECES = ["114.111.116.111.110.100.97.47", "123.105.100.125", "123", "105.100.125", "123.105", "47", "120", "125", "123.123.105.100.125", "233"]


def gen_mqtt_case(rng, defects):
    ops = []
    # nearly half of the cases concentrate on one or two ingress ids whose entry keeps changing between their messages
    focus = rng.chance(45)
    name = rng.choice([0, 0, 0, 0, 0, 0, 0, 0, 1, 4] if focus else [0, 0, 0, 0, 0, 0, 1, 3, 4])
    if name or rng.chance(30):
        ops.append("name %d" % name)
    if rng.chance(55):
        ops.append("tpl " + ".".join(rng.choice(TPL_PIECES) for _ in range(rng.range(1, 5))))
    if rng.chance(40):
        ops.append("qos %d" % rng.below(3))
    early = defects and rng.chance(50)
    if early:
        ops.append("early")
    names = [name, name, 0, 1, 2, 3, 4]
    for _ in range(rng.weighted([(0, 35), (1, 35), (2, 30)])):
        ops.append("reg" if rng.chance(25) else "ing " + info_fields(rng))
    for _ in range(rng.range(4, 12) if focus else rng.range(1, 8)):
        r = rng.below(100)
        if r < (40 if focus else 22):
            ops.append(register_op(rng, 2 if focus else 4))
        elif r < (46 if focus else 28) and not early:
            ops.append("R %s %d" % (".".join(rng.choice(TPL_PIECES) for _ in range(rng.range(1, 4))), rng.below(3)))
        elif r < 82:
            n = rng.weighted([(0, 5), (1, 40), (2, 30), (3, 15), (4, 10)])
            ms = [msg(rng, False, names, topics=True) for _ in range(n)]
            if focus:
                # point most messages at one of the first two ids
                ms = [":".join(m.split(":")[:-1] + [str(rng.below(2))]) if rng.chance(75) else m for m in ms]
            ops.append(("O " + " ".join(ms)).strip())
        else:
            ops.append(other_update(rng))
    return ";".join(ops)


def gen_file(rng, tier):
    n = 1500 if tier == "quick" else 30000
    for i in range(n):
        yield gen_file_case(rng, defects=(i < 4))


def gen_mqtt(rng, tier):
    n = 1500 if tier == "quick" else 30000
    for i in range(n):
        yield gen_mqtt_case(rng, defects=(i < 2))


def _ops(case):
    return [o.split() for o in case.split(";") if o.strip()]


def nontrivial_file(case, out):
    ops = _ops(case)
    n_out = sum(1 for o in ops if o[0] == "O" and len(o) > 1)
    n_other = sum(1 for o in ops if o[0] in ("S", "B", "W", "WB", "Q", "U"))
    return len(out.split()) >= 3 and (n_out >= 2 or (n_out >= 1 and n_other >= 1))


def nontrivial_mqtt(case, out):
    ops = _ops(case)
    nmsg = sum(len(o) - 1 for o in ops if o[0] == "O")
    npub = out.split().count("P")
    return npub >= 1 and nmsg > npub


def classify_file(case, out):
    ks = []
    for o in _ops(case):
        if o[0] == "fmt":
            ks.append("fmt=" + o[1])
        if o[0] == "end":
            ks.append("end=" + o[1])
    toks = out.split()
    for pre, name in (("R-", "line:route-none"), ("R4", "line:route-v4"), ("R6", "line:route-v6"), ("D", "line:peer-down"),
                      ("U", "line:custom-pair"), ("E", "line:entry"), ("T", "line:text")):
        if any(t.startswith(pre) for t in toks):
            ks.append(name)
    ks.append("lines=%s" % ("0" if len(toks) <= 1 else "1-3" if len(toks) <= 4 else "4-9" if len(toks) <= 10 else "10+"))
    if any(o[0] in ("S", "B", "W", "WB", "Q", "U") for o in _ops(case)):
        ks.append("interleaved-route-traffic")
    return ks


def classify_mqtt(case, out):
    ks = []
    ops = _ops(case)
    toks = out.split()
    npub = toks.count("P")
    nmsg = sum(len(o) - 1 for o in ops if o[0] == "O")
    ks.append("published=%s" % ("0" if npub == 0 else "1-3" if npub <= 3 else "4+"))
    if nmsg > npub:
        ks.append("some-not-addressed")
    if any(t.startswith("i=I") for t in toks):
        ks.append("ingress-info-attached")
    if any(o[0] == "tpl" for o in ops):
        ks.append("custom-template")
    if any(o[0] == "name" for o in ops):
        ks.append("other-component-name")
    if any(o[0] == "early" for o in ops):
        ks.append("early-traffic")
    if any(o[0] == "R" for o in ops):
        ks.append("reconfigured")
    # register traffic between the messages of one ingress id
    nreg, seen, touched = 0, set(), set()
    for o in ops:
        if o[0] in ("ing", "reg"):
            nreg += 1
        elif o[0] == "G":
            k = int(o[1])
            key = k if k < nreg else 1000000 + k
            if key in seen:
                touched.add(key)
        elif o[0] == "O":
            for m in o[1:]:
                t = m.split(":")[-1]
                if t == "-":
                    continue
                k = int(t)
                key = k if k < nreg else 1000000 + k
                if key in touched:
                    ks.append("metadata-changed-between-messages-of-an-id")
                seen.add(key)
    if any(o[0] == "reg" for o in ops):
        ks.append("id-registered-without-entry")
    return sorted(set(ks))


def corpus_file():
    hist = ("O p:-:- p:R0,5,24,o1+p65000-65001+n3+m10+l1000+t+c4259840001-4294967041:- u:7:9:-;S R0,1,8,0;"
            "O d:0:104.105:2:65001:- d:0:104.105:3:65001:- e:1700000000000001,65000,-,3,1,0,2,1,-,-:-:- e:1,-,-,-,0,0,-,-,-,-:104.105:-;"
            "W -;O c:R1,5,48,0:- a:R2,3,8,o0:- e:0,-,-,-,0,0,-,-,-,-:e:-")
    cs = ["fmt %s;end %s;%s" % (f, e, hist) for f in ("json", "jsonmin", "csv") for e in "TG"]
    cs += [
        # C17-entry-dropped (repaired by the fix: commit): an entry without custom text must be written
        "fmt json;O u:1:1:-;O e:1700000000000001,65000,-,3,1,0,2,1,-,5:-:-;O u:2:2:-",
        "fmt jsonmin;O e:5,-,7,-,0,9,-,-,3,-:-:-",
        "fmt csv;O e:5,-,7,-,0,9,-,-,3,-:-:- e:6,1,2,3,4,5,6,0,8,1:-:-",
        # C17-csv-panic (repaired by the fix: commit): the target must survive a record csv cannot serialise ...
        "fmt csv;O u:1:1:-;O p:R0,5,24,e196072_5:-;O u:2:2:-",
        "fmt csv;end G;O u:1:1:- p:R0,5,24,x192-8-0-1:- u:2:2:-",
        # known findings: custom text with a newline; csv cannot represent some routes
        "fmt json;O e:1,-,-,-,0,0,-,-,-,-:104.10.105:-",
        "fmt csv;O e:1,-,-,-,0,0,-,-,-,-:10:- u:1:2:-",
        # only route traffic
        "S R0,1,8,0;W 0;Q;U 1;WB 0 1;B R0,1,8,0 R1,1,8,0;O",
        # file-out attaches no ingress metadata: whatever happens to the register, the lines are the records
        "fmt json;ing 1 - 2 - - - 3 -;O u:1:1:0;G 0 - - - - - - 0 -;O u:2:2:0 d:0:104.105:2:65001:0;reg;G 1 1 1 1 1 1 1 1 1;O u:3:3:1",
        # exotic but valid texts
        "fmt json;O e:1,-,-,-,0,0,-,-,-,-:34.123.125.92.13.9.0.233.8364.128512.65279:-",
        "fmt csv;O e:1,-,-,-,0,0,-,-,-,-:34.97.44.34.34.98:- e:1,-,-,-,0,0,-,-,-,-:97.44.98:-",
    ]
    return cs


def corpus_mqtt():
    return [
        "ing 1 - 2 65000 0 - 3 -;O p:-:0 p:R0,5,24,o1+p65000-65001+e196072_5:1 u:7:9:-;S R0,1,8,0;ing - 0 3 - 2 4 - 5;"
        "O d:0:104.105:2:65001:1 d:1:104.105:3:65001:- e:1700000000000001,65000,-,3,1,0,2,1,-,-:-:0 e:1,-,-,-,0,0,-,-,-,-:104.10.105:-;W -;O c:R1,5,48,0:- a:R2,3,8,o0:-",
        "name 1;tpl 97.123.105.100.125.47.123.105.100.125.123.105;qos 1;O d:1:123.105.100.125:2:1:- d:0:120:2:2:- d:1:e:2:3:-",
        "name 4;tpl 120;qos 0;O d:4:120:2:1:- u:1:1:-",
        "name 3;O d:0:120:2:1:- d:3:120:2:2:- u:1:1:-",
        "O u:1:1:5;ing 1 1 1 1 1 1 1 1;O u:2:2:0 u:3:3:1",
        # known finding C17-mqtt-no-client
        "early;O u:1:1:- u:2:2:-;O u:3:3:-",
        # the register is shared, changing state (seeded change C17-b2: a remembered copy of an id's metadata).
        # a bmp router: unit + address when it connects, its name with the Initiation message; then a second router
        "ing 1 - 2 - - - - -;O d:0:104.105:2:65001:0;G 0 - - - - - - 3 -;O d:0:104.105:2:65001:0;ing - - - - - - 2 -;"
        "O d:0:104.105:2:65001:1 d:0:104.105:2:65001:0",
        # an id that is registered but has no entry yet, then gets one, field by field
        "reg;O u:1:1:0;G 0 1 - - - - - - -;O u:2:2:0;G 0 - - 5 - - - - -;O u:3:3:0;G 0 - - - - - - - -;O u:4:4:0",
        # an id nobody handed out gets an entry all the same (update_info inserts)
        "O u:1:1:2;G 2 - - - 65000 - - - -;O u:2:2:2 u:3:3:1",
        # two ids, fields overwritten and added in turn, both in every update
        "ing 1 - - - - - 1 -;ing 2 - - - - - 2 -;O u:1:1:0 u:1:1:1;G 1 - - - - - - 3 -;O u:2:2:0 u:2:2:1;G 0 - - - - - - 0 3;"
        "O u:3:3:0 u:3:3:1;G 0 0 1 1 1 1 1 1 1;G 1 - - - - 2 - - -;O u:4:4:1 u:4:4:0",
        # a reconnecting router: same id, address and AS refreshed; route traffic in between
        "ing 2 - 4 65000 0 - 1 -;O p:R0,5,24,o1:0;S R0,1,8,0;G 0 - - 6 65001 - - - -;W 0;O p:R0,5,24,o1:0 e:1,-,-,-,0,0,-,-,-,-:-:0",
        # reconfiguration: the topic template is read when a message is emitted, the QoS when it is published
        "tpl 97.47.123.105.100.125;qos 0;O d:0:120:2:1:-;R 98.47.123.105.100.125 1;O d:0:120:2:2:-;R 99 2;O d:0:121:2:3:-",
        "name 1;ing 1 - - - - - - -;O d:1:120:2:1:0 d:0:120:2:1:0;R 123.105.100.125.47.123.105.100.125 1;G 0 - 7 - - - - - -;"
        "O d:1:120:2:2:0;R 123.105.100.125.47.123.105.100.125 1;O d:1:121:2:3:0",
    ]


def _texts(case):
    for o in _ops(case):
        if o[0] == "O":
            for m in o[1:]:
                f = m.split(":")
                if f[0] == "e" and f[2] not in ("-", "e"):
                    yield f[2].split(".")


def _routes(case):
    for o in _ops(case):
        if o[0] == "O":
            for m in o[1:]:
                f = m.split(":")
                if f[0] in "pcao" and f[1] != "-":
                    yield f[1]


def known_signature(k, engine, case, model, spec, impl):
    """Recognises exactly the classes of failing (minimised) cases recorded in known_findings/C17.json.
    In every class the implementation must still behave as the faithful model says."""
    if not V.obs_match(model, impl):
        return False
    ops = _ops(case)
    if k["id"] == "C17-newline":
        return engine == "c17file" and any("10" in t for t in _texts(case))
    if k["id"] == "C17-csv-route":
        csv = any(o[0] == "fmt" and o[1:] == ["csv"] for o in ops)
        bad = any(any(a[:1] in ("e", "x") for a in r.split(",")[3].split("+")) for r in _routes(case))
        return engine == "c17file" and csv and bad and not any("10" in t for t in _texts(case))
    if k["id"] == "C17-mqtt-no-client":
        return engine == "c17mqtt" and any(o[0] == "early" for o in ops)
    return False


ENGINES = [
    {"name": "c17file", "gen": gen_file, "corpus": corpus_file, "nontrivial": nontrivial_file, "classify": classify_file, "shards": 8},
    {"name": "c17mqtt", "gen": gen_mqtt, "corpus": corpus_mqtt, "nontrivial": nontrivial_mqtt, "classify": classify_mqtt, "shards": 8},
]
EXTRAS = []

LEVEL_TEXT = ("Theorems over all histories of gate updates for the file-out loop (content = every emitted message once, in order; route traffic "
              "invisible; later messages unaffected; lines per message; exact line count; one parse-back line per message for newline-free texts and "
              "csv-representable routes, shown false otherwise) and over all interleavings of updates, publish-loop steps, registrations and client "
              "hand-overs, update_info calls on the shared ingress register and reconfigurations for mqtt-out (exactly the addressed messages once, "
              "in order, when the loop publishes with a client; shown false otherwise; every published message, in every history, carries the ingress "
              "metadata and topic template of the moment it was emitted, never an older copy; register entry = merge of the update_info calls of that id; "
              "selection = name equality; topic template substitution), kernel-checked, axiom-free; model tied to src/targets/{file,mqtt}/target.rs by "
              "differential execution through the real run loops on every run. PARTIAL: serde/csv rendering is exercised (every line and payload "
              "parsed back), not proved.")
DESIGN_REF = "DESIGN.md section 6, C17"
LEVEL_NOTE = ("Trusted: Coq kernel, ExtrOcamlBasic extraction + OCaml driver, Rust harness (recording MQTT client, parse-back of lines) and generators. "
              "The bytes printed by serde_json/csv are not modelled; panics ('no message can stop the target') are exercised by the harness only. "
              "Two defects were repaired in the rotonda worktree (entries without custom text were dropped; csv serialisation error panicked the target); "
              "three are recorded as known findings (newline in custom text, csv cannot represent some routes, messages dequeued without an MQTT client are discarded).")
TECHNIQUE = "Coq proof by induction/invariant over update histories + model/implementation correspondence"
