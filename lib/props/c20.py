"""C20 — the MRT queue endpoint only enqueues files inside its configured directory."""
import os
import re

PROPS_FILE = "Props_C20.v"
RULE = ("each case is a directory tree (update dir, an outside area, prefix-named siblings, symlinks pointing inside, outside, "
        "back in, dangling, looping, chains around the 40-link limit) built on disk AND as a Coq term, one update_path "
        "configuration and 4-10 requests whose `file` value comes from a path grammar (known good / known escaping templates, "
        "random segments, '..', '.', '//', trailing slash, absolute, NUL, bad UTF-8) under random percent-encoding; a case is "
        "non-trivial when some request is accepted through '..', a symlink or an encoded byte, or is rejected because its "
        "resolved location is outside the directory, or when the tree changed between two requests and the same request got "
        "different answers before and after; a third of the cases are HISTORIES: tree operations (re-point a symlink - "
        "also the one that is update_path or a component of it -, remove, rename, replace a directory, create files and links) "
        "applied to the real directory between requests to ONE long-lived Processor; distinct = distinct case text")
TRUSTED_BASE = [
    "Coq 8.16.1 kernel (coqc; coqchk in thorough); no native_compute",
    "extraction with ExtrOcamlBasic only; OCaml driver oracle/{conv,eng_c20,oracle}.ml (builds the Coq tree term from the case line)",
    "Rust harness /verif/harness (engine c20) over rotonda::verif::mrt (feature verif-hooks): real api::Processor, real "
    "std::fs::canonicalize on a real directory tree under .cache/c20fs that is changed (symlink/rename/remove_dir_all) between "
    "requests to one long-lived Processor, capturing queue",
    "modelled, not verified: src/units/mrt_file_in/api.rs, get_param/extract_params/decoded_path of src/http.rs, "
    "url::form_urlencoded::parse, PathBuf::push / Path::ancestors / Path::is_relative, glibc realpath(3) (symlink budget 40)",
]
ASSUMPTIONS = [
    "std::fs::canonicalize behaves as glibc realpath over a tree of directories, regular files and symlinks (no hard links to "
    "directories, no mount points, no permissions, PATH_MAX/NAME_MAX not reached); tied to the real libc on every run",
    "names in the tree are arbitrary octet strings without '/' and NUL; the lossy UTF-8 conversion of the decoded parameter "
    "(String::from_utf8_lossy) is modelled (pc_utf8_lossy) and tied to the real one by requests with cut, overlong, surrogate and "
    "out-of-range sequences against files named U+FFFD; the same conversion of the PATH of the request is not modelled (it never "
    "creates or removes an ASCII byte and the endpoint prefix is ASCII)",
    "the tree changes BETWEEN requests (any number of times, any of the modelled operations), not during one: the window between "
    "the two canonicalize calls of one request, and between them and the unit's later File::open, is outside the model (TOCTOU)",
    "the working directory of the process and its ancestors are not renamed, removed or replaced while the unit runs",
    "the unit keeps the receiving end of its queue open; what it answers on the oneshot is a parameter of the request",
]

_SAFE = re.compile(r"^[A-Za-z0-9._/-]+$")


def root_dir():
    import vcommon as V
    r = os.path.realpath(os.path.join(V.CACHE, "c20fs"))
    os.makedirs(r, exist_ok=True)
    assert _SAFE.match(r) and "/.cache/c20fs" in r, "scratch root must be URL-safe: " + r
    return r


# ------------------------------------------------------------------ trees
BASE = ["D upd", "F upd/a.mrt", "D upd/sub", "F upd/sub/b.mrt", "D out", "F out/secret"]
EXTRA = [
    ["D upd2", "F upd2/x"], ["D up", "F up/x"], ["D upd-evil", "F upd-evil/x"],
    ["D upd/sub/deep", "F upd/sub/deep/c.mrt"], ["F upd/..."], ["F upd/..a"], ["D upd/.h", "F upd/.h/f"],
    ["F upd/updates.%E9.mrt", "L upd/latest.mrt updates.%E9.mrt"], ["D upd/d%FF", "F upd/d%FF/x.mrt", "L upd/dlnk d%FF", "L upd/dx d%FF/x.mrt"],
    ["D n%E9", "F n%E9/y.mrt", "L nlnk n%E9", "L upd/tonl ../n%E9"], ["F out/s%E9cret", "L upd/outlat ../out/s%E9cret"],
    ["F upd/%C3%A9.mrt"], ["F upd/%EF%BF%BD.mrt"], ["F upd/%EF%BF%BD%EF%BF%BD.mrt"], ["F upd/%F0%9F%92%A9.mrt"],
    ["F upd/sp%20ace"], ["F upd/pl+us"], ["F upd/pc%25t"], ["F upd/%2561.mrt"], ["D upd/a.mrt.d"], ["F upd/sub/a.mrt"],
]
LINKS = [
    "L upd/in sub/../a.mrt", "L upd/inabs @/upd/sub", "L upd/esc ../out", "L upd/escabs @/out", "L upd/escf ../out/secret",
    "L upd/dang nowhere", "L upd/dang2 ../out/nowhere", "L upd/loop1 loop2", "L upd/loop2 loop1", "L upd/self self",
    "L upd/dot .", "L upd/dotdot ..", "L upd/rootl /", "L upd/sub/up ../..", "L out/back ../upd", "L upd/viaout ../out/back/a.mrt",
    "L ulnk upd", "L ulnk2 @/upd/", "L upd/tsl sub/", "L upd/ftsl a.mrt/", "L upd/sib ../upd2", "L upd/sibabs @/upd-evil",
    "L upd/far ../../../../../../../../../../../../../../../..", "L upd/sub/home @", "L out/in2 @/upd/sub/b.mrt",
    "L upd/l%20sp sub", "L upd/etc /etc",
]
# names whose octets are not UTF-8 (asked for as such they arrive with U+FFFD, through a link they are reached), valid
# multi-byte names, and byte strings whose lossy reading is one / two U+FFFD (files with exactly those names exist)
OCTETS = ["latest.mrt", "dlnk/x.mrt", "dx", "updates.\xe9.mrt", "d\xff/x.mrt", "tonl/y.mrt", "outlat", "\xc3\xa9.mrt", "\xf0\x9f\x92\xa9.mrt",
          "\xff.mrt", "\xe2\x82.mrt", "\xf0\x9f\x92.mrt", "\xc2.mrt", "\xf5.mrt", "\x80.mrt", "\xe0\x80.mrt", "\xc0\xaf.mrt", "\xed\xa0.mrt",
          "\xf4\x90.mrt", "\xe2\x82\xe2\x82.mrt", "\xf0\x9f\xf0\x9f.mrt", "\xef\xbf\xbd.mrt", "\xef\xbf\xbd\xef\xbf\xbd.mrt", "\xc3.mrt\xa9"]
GOOD = ["a.mrt", "sub/b.mrt", "in", "inabs/b.mrt", "viaout", "sub/up/upd/a.mrt", "dot/a.mrt", "dotdot/upd/sub/b.mrt", "tsl/b.mrt",
        "sub/deep/c.mrt", "sub/deep/../b.mrt", "...", "..a", ".h/f", "sp ace", "pl+us", "pc%t", "%61.mrt", "sub/a.mrt", "sub", "", ".",
        "sub/home/upd/a.mrt", "l sp/b.mrt", "esc/back/a.mrt", "c3", "far/@/upd/a.mrt", "sub/..", "sub/up/out/back/sub/b.mrt"]
BAD = ["../out/secret", "esc/secret", "escabs/secret", "escf", "sub/up/out/secret", "dotdot/out/secret", "rootl/etc/passwd", "sib/x",
       "sibabs/x", "../upd2/x", "../upd-evil/x", "../up/x", "..", "../", "sub/../..", "dang", "dang2", "loop1", "self", "self/x", "ftsl",
       "a.mrt/", "a.mrt/.", "a.mrt/..", "a.mrt/x", "nosuch", "nosuch/..", "sub/nosuch/../b.mrt", "/etc/passwd", "@/upd/a.mrt",
       "@/out/secret", "etc/passwd", "far/etc/passwd", "sub/home/out/secret", "....", "sub/.../b.mrt", "esc", "rootl", "far",
       "../../../../../../../../../../../../../../../../../../etc/passwd", "a.mrt\x00", "\x00", "sub/\x00/b.mrt"]
SEGS = ["..", ".", "", "sub", "a.mrt", "b.mrt", "in", "esc", "out", "upd", "dot", "dotdot", "up", "deep", "nosuch", "secret", "back",
        "home", "x", "upd2", "rootl", "loop1", "tsl", "..."]
UPD = [("@/nlnk", 3), ("@/n%E9", 3), ("@/upd/d%FF", 2), ("@/upd/dlnk", 2), ("@/upd", 50), ("@/ulnk", 6), ("@/ulnk2", 4), ("@/upd/", 4), ("@/upd/sub/..", 4), ("@/./upd//", 3), ("upd", 4), ("./upd/.", 2),
       ("-", 6), ("@/nonexistent", 3), ("@/upd/a.mrt", 3), ("@/upd/sub", 5), ("@/out/back", 3), ("@/upd/loop1", 2), ("@", 3),
       ("@/upd/dang", 2), ("@/out", 2), ("@/upd%00", 1)]
PATHS = [("/mrt/u/queue", 88), ("/mrt/u/queue/", 2), ("/mrt/u/queuexyz", 2), ("/mrt/u/%71ueue", 2), ("/mrt/u/status", 1), ("/mrt/u/", 1),
         ("/mrt/other/queue", 1), ("/mrt/u/que", 1), ("/mrt/u/Queue", 1), ("/mrt/u", 1)]
JUNK = ["%zz", "%", "%2", "%c0%af", "%e2%80%ae", "%ff", "%00", "%2e%2e%2f", "%252e%252e", "..%5c", "%u002e"]


def enc_value(rng, s, p):
    """raw (on the wire) form of the byte string s; every byte may be percent-encoded"""
    out = []
    for ch in s.encode("latin-1"):
        c = chr(ch)
        if c == "@":
            out.append("@")          # placeholder for the scratch root, substituted by both engines
        elif c == " " and rng.chance(50):
            out.append("+")
        elif (c.isalnum() and ch < 128 or c in "._~/-") and not rng.chance(p):
            out.append(c)
        else:
            out.append(("%%%02X" if rng.chance(50) else "%%%02x") % ch)
    return "".join(out)


def gen_value(rng):
    k = rng.weighted([("good", 36), ("octets", 8), ("bad", 28), ("rand", 20), ("junk", 8)])
    if k == "good":
        v = rng.choice(GOOD)
    elif k == "octets":
        v = rng.choice(OCTETS)
    elif k == "bad":
        v = rng.choice(BAD)
    elif k == "rand":
        v = "/".join(rng.choice(SEGS) for _ in range(rng.range(1, 6)))
    else:
        v = enc_value(rng, rng.choice(GOOD[:10] + BAD[:8]), 0)
        j = rng.choice(JUNK)
        return rng.choice([v + j, j + v, v.replace("/", "/" + j, 1), v.replace("/", j, 1), j])
    # obfuscations that keep or change the meaning
    for _ in range(rng.below(3)):
        o = rng.below(8)
        if o == 0:
            v = "./" + v
        elif o == 1:
            v = "sub/../" + v
        elif o == 2:
            v = v.replace("/", "//", 1)
        elif o == 3:
            v = v + "/"
        elif o == 4:
            v = v + "/."
        elif o == 5:
            v = "sub/deep/../../" + v
        elif o == 6 and "/" in v:
            segs = v.split("/")
            segs[rng.below(len(segs))] = rng.choice(SEGS)
            v = "/".join(segs)
        elif o == 7:
            v = "/" + v
    return enc_value(rng, v, rng.choice([0, 0, 10, 40, 100]))


def gen_query(rng):
    v = gen_value(rng)
    k = rng.weighted([("plain", 80), ("none", 2), ("pre", 4), ("family", 3), ("fam-first", 2), ("amp", 2), ("noeq", 1), ("two", 2),
                      ("encname", 2), ("wrongname", 2)])
    return {"plain": "file=" + v, "none": "-", "pre": "x=1&y&file=" + v, "family": "file[v4]=" + v, "fam-first": "file]=a.mrt&file=" + v,
            "amp": "&&file=" + v + "&", "noeq": "file", "two": "file=" + v + "&file=a.mrt", "encname": "fi%6Ce=" + v,
            "wrongname": "File=" + v}[k]


# tree changes between requests on the template tree (each entry: ops carried out together)
MUT = [
    ["P ulnk out"], ["P ulnk upd/sub"], ["P ulnk2 @/out/"], ["P ulnk upd2"], ["P ulnk nowhere"], ["P ulnk upd"],
    ["M upd updold", "D upd", "F upd/a.mrt"], ["M upd updold", "D upd", "F upd/fresh.mrt"], ["X upd", "L upd out"],
    ["X upd", "D upd"], ["M upd updold", "L upd updold"], ["M upd updold", "L upd @/out"], ["M out upd/out"], ["M upd out/upd"],
    ["X upd/a.mrt"], ["F upd/new.mrt"], ["X upd/sub"], ["M upd/sub upd/sub2"], ["M out/secret upd/secret"],
    ["M upd/a.mrt out/a.mrt"], ["M upd/sub out/sub"], ["X upd/a.mrt", "L upd/a.mrt ../out/secret"], ["X upd/sub", "L upd/sub ../out"],
    ["P upd/in ../out/secret"], ["P upd/esc sub"], ["P upd/escabs @/upd/sub"], ["P upd/inabs @/out"], ["P upd/dang a.mrt"],
    ["P upd/dotdot ."], ["P upd/c0 ../out/secret"], ["P upd/c0 sub/b.mrt"], ["P out/back ../upd/sub"], ["P upd/sib sub"],
    ["X upd/esc", "D upd/esc", "F upd/esc/secret"], ["L upd/new ../out"], ["L upd/new2 sub"], ["X upd/in"], ["X out/back"],
    ["X out"], ["M out out2", "D out", "D out/back", "F out/back/a.mrt"], ["F out/nowhere"], ["D upd/nosuch", "F upd/nosuch/x"],
]


def gen_mutation(rng):
    return list(rng.choice(MUT))


def gen_case(rng, k, root):
    ops = ["R %s/%s" % (root, k)] + list(BASE)
    for e in EXTRA:
        if rng.chance(45):
            ops += e
    n = rng.below(7)
    chain = 0
    if rng.chance(8):
        chain = rng.range(37, 43)
    for i in range(max(n, 4)):
        ops.append("L upd/c%d %s" % (i, "a.mrt" if i == 0 else "c%d" % (i - 1)))
    for i in range(max(n, 4), chain):
        ops.append("L upd/c%d c%d" % (i, i - 1))
    for l in LINKS:
        if rng.chance(60):
            ops.append(l)
    ops.append("U " + rng.weighted(UPD))
    moving = rng.chance(30)             # the tree changes under the running processor
    asked = []
    for _ in range(rng.range(4, 10)):
        if rng.chance(6):
            ops.append("U " + rng.weighted(UPD))
        if moving and rng.chance(35):
            ops += gen_mutation(rng)
            if asked and rng.chance(70):
                ops.append(rng.choice(asked))      # the same request again, after the change
        m = rng.weighted([("GET", 94), ("POST", 3), ("HEAD", 2), ("PUT", 1)])
        q = gen_query(rng)
        if chain and rng.chance(50):
            q = "file=c%d" % rng.range(36, chain - 1)
        ops.append("Q %s %s %s %s" % (m, rng.weighted(PATHS), q, rng.weighted([("o", 80), ("e", 7), ("d", 6), ("s", 7)])))
        asked.append(ops[-1])
    return ";".join(ops)


# ------------------------------------------------------------------ histories: the deployment layouts whose resolution moves
def _q(v, mode="o"):
    return "Q GET /mrt/u/queue file=%s %s" % (v, mode)


LAYOUTS = [
    # `current -> dated directory`, update_path IS the link
    dict(tree=["D day1", "F day1/one.mrt", "D day2", "F day2/two.mrt", "D day3", "F day3/three.mrt", "F day3/one.mrt", "L current day1"],
         upd=["@/current", "@/current/", "current", "@/./current/.", "@/day1/../current"],
         files=["one.mrt", "two.mrt", "three.mrt", "../day1/one.mrt", "../day2/two.mrt", "../day3/one.mrt", "", ".", "..", "nosuch"],
         mut=[["P current day2"], ["P current day3"], ["P current day1"], ["P current @/day2"], ["P current day2/"], ["P current ./day3/."],
              ["P current nowhere"], ["P current ."], ["X current", "L current day2"], ["X current", "D current", "F current/one.mrt"],
              ["M current prev", "L current day3"], ["M day1 day1.old", "D day1", "F day1/fresh.mrt"], ["X day1"], ["F day2/one.mrt"],
              ["X day3/one.mrt"], ["M day2/two.mrt day1/two.mrt"], ["X current"], ["L current day2"]]),
    # update_path goes THROUGH a link: releases/current -> v1, update_path = releases/current/inbox
    dict(tree=["D rel", "D rel/v1", "D rel/v1/inbox", "F rel/v1/inbox/a.mrt", "D rel/v2", "D rel/v2/inbox", "F rel/v2/inbox/b.mrt",
               "F rel/v2/inbox/a.mrt", "D rel/v1/other", "F rel/v1/other/o.mrt", "L rel/cur v1", "L live rel/cur"],
         upd=["@/rel/cur/inbox", "@/live/inbox", "@/live/inbox/", "rel/cur/inbox", "@/rel/cur/other/../inbox"],
         files=["a.mrt", "b.mrt", "../other/o.mrt", "../../v1/inbox/a.mrt", "../../v2/inbox/b.mrt", "", "../inbox/a.mrt", "nosuch"],
         mut=[["P rel/cur v2"], ["P rel/cur v1"], ["P rel/cur @/rel/v2"], ["P live rel/v2"], ["P live rel/v1"], ["P live rel/cur"],
              ["P rel/cur nowhere"], ["M rel/v1 rel/v1.old", "M rel/v2 rel/v1"], ["X rel/v1/inbox", "L rel/v1/inbox ../v2/inbox"],
              ["X rel/v1/inbox", "L rel/v1/inbox other"], ["M rel/v1/inbox rel/v1/inbox.old", "D rel/v1/inbox", "F rel/v1/inbox/b.mrt"],
              ["X live", "D live", "D live/inbox", "F live/inbox/a.mrt"], ["M rel rel.old", "D rel", "L rel/cur ../rel.old/v2"],
              ["X rel/v2/inbox/a.mrt"], ["F rel/v1/inbox/b.mrt"]]),
    # a plain directory that is moved away and replaced
    dict(tree=["D spool", "F spool/a.mrt", "D spool/in", "F spool/in/b.mrt", "D archive", "F archive/old.mrt", "D priv", "F priv/key"],
         upd=["@/spool", "@/spool/", "spool", "@/spool/in/..", "@/spool/in"],
         files=["a.mrt", "in/b.mrt", "b.mrt", "new.mrt", "key", "old.mrt", "../archive/old.mrt", "../priv/key", "../spool.1/a.mrt", "", "in", ".."],
         mut=[["M spool spool.1", "D spool", "F spool/new.mrt"], ["M spool spool.1", "L spool priv"], ["M spool spool.1", "L spool spool.1"],
              ["M spool spool.1", "L spool archive"], ["X spool", "D spool"], ["X spool"], ["X spool", "F spool"], ["M spool spool.1"],
              ["M spool.1 spool"], ["X spool/in", "L spool/in ../priv"], ["X spool/in", "L spool/in ../archive"], ["M priv spool/in2"],
              ["M spool/in archive/in"], ["M archive/old.mrt spool/old.mrt"], ["F spool/new.mrt"], ["X spool/a.mrt"],
              ["X spool/a.mrt", "L spool/a.mrt ../priv/key"]]),
    # an archive copied from an old system: Latin-1 file names, a directory whose name is not UTF-8, links with names one can ask for
    dict(tree=["D arch", "F arch/updates.%E9.mrt", "L arch/latest.mrt updates.%E9.mrt", "D d%FF", "F d%FF/x.mrt", "D d%FF/s%E9", "F d%FF/s%E9/z.mrt",
               "L d%FF/sub s%E9", "L cur arch", "L arch/over ../d%FF"],
         upd=["@/cur", "@/arch", "@/d%FF", "@/arch/over", "@/d%FF/sub", "@/d%FF/s%E9/"],
         files=["latest.mrt", "x.mrt", "z.mrt", "sub/z.mrt", "updates.\xe9.mrt", "s\xe9/z.mrt", "over/x.mrt", "../d\xff/x.mrt", "../arch/latest.mrt", "", "sub"],
         mut=[["P cur d%FF"], ["P cur arch"], ["P cur d%FF/sub"], ["P arch/latest.mrt ../d%FF/x.mrt"], ["P arch/latest.mrt updates.%E9.mrt"],
              ["M arch/updates.%E9.mrt arch/u.mrt"], ["M arch/u.mrt arch/updates.%E9.mrt"], ["M d%FF dff", "L d%FF dff"], ["M d%FF/s%E9 arch/s%E9"],
              ["X arch/latest.mrt", "L arch/latest.mrt x%FE"], ["F arch/x%FE"], ["M arch arch%FC", "L arch arch%FC"], ["X cur", "L cur d%FF/s%E9"]]),
    # the unit is started before its directory exists, or while a component is still missing
    dict(tree=["D real", "D real/dir", "F real/dir/f.mrt", "D other", "D other/dir", "F other/dir/g.mrt"],
         upd=["@/late/dir", "@/lnk/dir", "@/lnk/dir/", "lnk/dir", "@/late"],
         files=["f.mrt", "g.mrt", "../../other/dir/g.mrt", "../../real/dir/f.mrt", "", "x.mrt", "dir/f.mrt"],
         mut=[["L lnk real"], ["L lnk other"], ["P lnk other"], ["P lnk real"], ["D late", "D late/dir", "F late/dir/f.mrt"], ["L late real"],
              ["L late other"], ["P late real"], ["X late"], ["X lnk"], ["M real late"], ["M late real"], ["M other late"], ["F late/x.mrt"],
              ["F real/dir/x.mrt"]]),
]


def gen_history_case(rng, k, root):
    """a long-lived processor over a tree whose resolution of update_path moves"""
    lay = rng.choice(LAYOUTS)
    ops = ["R %s/%s" % (root, k)]
    start_first = rng.chance(15)            # Processor::new before the tree exists
    if start_first:
        ops.append("U " + rng.choice(lay["upd"]))
    ops += lay["tree"]
    if rng.chance(25):
        ops += rng.choice(lay["mut"])
    if not start_first:
        ops.append("U " + rng.choice(lay["upd"]))
    asked = []
    for _ in range(rng.range(6, 16)):
        r = rng.below(100)
        if r < 30:
            ops += rng.choice(lay["mut"])
            for a in asked[-3:]:
                if rng.chance(60):
                    ops.append(a)               # the same requests again, after the change
        elif r < 34:
            ops.append("U " + rng.choice(lay["upd"] + ["-"]))   # the unit is restarted
        else:
            v = rng.choice(lay["files"])
            if rng.chance(15):
                v = rng.choice(["./", "x/../", "nosuch/../"]) + v
            ops.append(_q(enc_value(rng, v, rng.choice([0, 0, 0, 30])), rng.weighted([("o", 88), ("e", 4), ("d", 4), ("s", 4)])))
            asked.append(ops[-1])
    return ";".join(ops)


RNAMES = ["a", "b", "c", "d"]


def rand_path(rng, lo, hi, extra=()):
    return "/".join(rng.weighted([(rng.choice(RNAMES), 60), ("..", 22), (".", 8), ("", 4)] + list(extra)) for _ in range(rng.range(lo, hi)))


def gen_random_case(rng, k, root):
    """a random small tree over a 4-letter alphabet: nothing about its shape is known to the generator"""
    ops = ["R %s/%s" % (root, k)]
    dirs, every = [""], []
    for _ in range(rng.range(4, 14)):
        parent = rng.choice(dirs)
        name = rng.choice(RNAMES) if rng.chance(92) else rng.choice([".x", "a%20b", "...", "%E9", "b%FFc", "%C3%A9"])
        path = (parent + "/" + name) if parent else name
        kind = rng.weighted([("D", 40), ("F", 28), ("L", 32)])
        if path in every and rng.chance(90):
            continue            # mostly avoid ops the engines would ignore (an existing name)
        if kind == "D":
            ops.append("D " + path)
            dirs.append(path)
        elif kind == "F":
            ops.append("F " + path)
        else:
            t = rand_path(rng, 1, 4)
            if t in ("", "/"):
                t = "."
            pre = rng.weighted([("", 62), ("@/", 28), ("/", 10)])
            ops.append("L %s %s%s%s" % (path, pre, t, "/" if rng.chance(12) else ""))
        every.append(path)
    ops.append("U " + rng.weighted([("@/" + rng.choice(dirs[1:] or every), 50), ("@/" + rng.choice(every), 25),
                                    ("@/" + rng.choice(dirs[1:] or every) + "/" + rand_path(rng, 1, 2), 10),
                                    ("@", 5), (rng.choice(every), 7), ("-", 3)]))
    moving = rng.chance(40)
    asked = []
    for _ in range(rng.range(5, 12)):
        if moving and rng.chance(40):
            # a change the generator knows nothing about: whether it applies, and what it does to the answers, is the engines' business
            kind = rng.below(6)
            pth = lambda: "/".join(rng.choice(RNAMES) for _ in range(rng.range(1, 3)))
            tgt = lambda: rng.weighted([("", 62), ("@/", 28), ("/", 10)]) + (rand_path(rng, 1, 4).strip("/") or ".")
            if kind <= 1:
                ops.append("P %s %s" % (rng.choice(every) if rng.chance(70) else pth(), tgt()))
            elif kind == 2:
                ops.append("X %s" % (rng.choice(every) if rng.chance(70) else pth()))
            elif kind == 3:
                ops.append("M %s %s" % (rng.choice(every) if rng.chance(70) else pth(), pth()))
            elif kind == 4:
                ops.append("L %s %s" % (pth(), tgt()))
            else:
                ops.append("%s %s" % (rng.choice("DF"), pth()))
            if asked and rng.chance(60):
                ops.append(rng.choice(asked))
        v = rand_path(rng, 1, 5, extra=[("\xe9", 3), ("b\xffc", 2), ("\xc3\xa9", 3)])
        if rng.chance(10):
            v = "@/" + v
        if rng.chance(8):
            v += "/"
        ops.append("Q GET /mrt/u/queue file=%s %s" % (enc_value(rng, v, rng.choice([0, 0, 0, 30])), rng.weighted([("o", 90), ("e", 5), ("s", 5)])))
        asked.append(ops[-1])
    return ";".join(ops)


def gen(rng, tier):
    root = root_dir()
    n = 1000 if tier == "quick" else 20000
    for i in range(n):
        if i % 3 == 2:
            yield gen_random_case(rng, "g%d" % i, root)
        elif i % 3 == 1:
            yield gen_history_case(rng, "g%d" % i, root)
        else:
            yield gen_case(rng, "g%d" % i, root)


WHY = {0: "accept", 1: "reject:no-update_path", 2: "reject:update_path-unresolvable", 3: "reject:param-missing-or-family",
       4: "reject:absolute", 5: "reject:ENOENT", 6: "reject:ENOTDIR", 7: "reject:ELOOP", 8: "reject:NUL", 9: "reject:outside"}


def _results(out):
    t = out.split()
    return [(t[i], t[i + 1], t[i + 2]) for i in range(0, len(t) - 2, 3)]


def _is_utf8(tok):
    from urllib.parse import unquote_to_bytes
    try:
        unquote_to_bytes(tok).decode("utf-8")
        return True
    except UnicodeDecodeError:
        return False


_TREEOP = re.compile(r"^[DFLPXM] ")


def _answer_changed(case, out):
    """some request text occurs twice with a tree change in between and got different answers"""
    rs = _results(out)
    seen, i, changed = {}, 0, False
    for o in case.split(";"):
        if o.startswith("Q "):
            if i < len(rs):
                prev = seen.get(o)
                if prev is not None and prev[1] and prev[0] != rs[i][:2]:
                    changed = True
                seen[o] = [rs[i][:2], False]
            i += 1
        elif _TREEOP.match(o) and seen:
            for v in seen.values():
                v[1] = True
    return changed


def nontrivial(case, out):
    qs = [o for o in case.split(";") if o.startswith("Q ")]
    rs = _results(out)
    if _answer_changed(case, out):
        return True
    if any(enq != "-" and not _is_utf8(enq) for st, enq, why in rs):
        return True
    for q, (st, enq, why) in zip(qs, rs):
        if why.endswith(":9>"):
            return True
        if enq != "-" and (".." in q or "%" in q or " L " in case.replace(";", " ") and re.search(r"=(in|inabs|viaout|dot|tsl|c\d+|esc|far|sub/(up|home))", q)):
            return True
    return False


def classify(case, out):
    ks = set()
    for st, enq, why in _results(out):
        if st == "none":
            ks.add("not-handled")
            continue
        m = re.search(r":(\d+)>", why)
        if m:
            ks.add(WHY[int(m.group(1))])
        if enq != "-" and st == "400":
            ks.add("accepted-but-unit-failed")
        if enq.startswith("OUT:"):
            ks.add("enqueued-outside-scratch-root")
        if enq != "-" and not _is_utf8(enq):
            ks.add("enqueued-octets-not-utf8")
        if enq != "-":
            ks.add("enqueued-text-canonical" if all(e.endswith(":c") for e in enq.split(",")) else "enqueued-text-NOT-canonical")
    ops = case.split(";")
    firstq = next((i for i, o in enumerate(ops) if o.startswith("Q ")), len(ops))
    later = [o for o in ops[firstq:] if _TREEOP.match(o)]
    if later:
        ks.add("history:tree-changes-between-requests")
        if any(o.startswith("P ") for o in later):
            ks.add("history:link-repointed")
        if any(o.startswith("M ") for o in later):
            ks.add("history:renamed")
        if any(o.startswith("X ") for o in later):
            ks.add("history:removed")
        if _answer_changed(case, out):
            ks.add("history:same-request-different-answer")
    firstu = next((i for i, o in enumerate(ops) if o.startswith("U ")), len(ops))
    if any(_TREEOP.match(o) for o in ops[firstu:firstq]):
        ks.add("history:processor-built-before-tree-complete")
    if re.search(r"L upd/c4\d", case):
        ks.add("tree:chain>40")
    ks.add("tree:template" if ";D upd;" in case else "tree:layout" if re.search(r";D (day1|rel|spool|real);", case) else "tree:random")
    return sorted(ks)


def corpus():
    root = root_dir()
    t = ";".join(BASE + ["D upd2", "F upd2/x", "D upd-evil", "F upd-evil/x"] + LINKS)
    q = lambda v, m="o": "Q GET /mrt/u/queue file=%s %s" % (v, m)
    chain = ";".join("L upd/k%d %s" % (i, "a.mrt" if i == 0 else "k%d" % (i - 1)) for i in range(43))
    day = "D day1;F day1/one.mrt;D day2;F day2/two.mrt;L current day1"
    hist = [
        # the `current -> dated dir` layout re-pointed mid-history (seed C20-b1's demonstration): before, one.mrt is inside and
        # two.mrt is not; after, the other way round, and the old directory is only reachable by climbing out
        "R %s/h0;%s;U @/current;%s;%s;P current day2;%s;%s;%s;P current day1;%s;%s" % (
            root, day, q("one.mrt"), q("two.mrt"), q("one.mrt"), q("../day1/one.mrt"), q("two.mrt"), q("one.mrt"), q("two.mrt")),
        # the same through remove + symlink, link replaced by a real directory, link gone, link back
        "R %s/h1;%s;U @/current/;%s;X current;L current day2;%s;%s;X current;D current;F current/one.mrt;%s;%s;X current;%s;L current day1;%s" % (
            root, day, q("one.mrt"), q("one.mrt"), q("two.mrt"), q("one.mrt"), q("two.mrt"), q("one.mrt"), q("one.mrt")),
        # update_path THROUGH a link (rel/cur -> v1, and live -> rel/cur), re-pointed at either level
        "R %s/h2;D rel;D rel/v1;D rel/v1/inbox;F rel/v1/inbox/a.mrt;D rel/v2;D rel/v2/inbox;F rel/v2/inbox/b.mrt;L rel/cur v1;L live rel/cur;"
        "U @/live/inbox;%s;%s;P rel/cur v2;%s;%s;%s;P live rel/v1;%s;%s" % (
            root, q("a.mrt"), q("b.mrt"), q("a.mrt"), q("b.mrt"), q("../../v1/inbox/a.mrt"), q("a.mrt"), q("b.mrt")),
        # a plain directory moved away and replaced by a new one / by a link to a private area / by a link to its old self
        "R %s/h3;D spool;F spool/a.mrt;D priv;F priv/key;U @/spool;%s;M spool spool.1;D spool;F spool/new.mrt;%s;%s;%s;"
        "X spool;L spool priv;%s;%s;X spool;L spool spool.1;%s;%s" % (
            root, q("a.mrt"), q("a.mrt"), q("new.mrt"), q("../spool.1/a.mrt"), q("key"), q("a.mrt"), q("a.mrt"), q("key")),
        # files and links come and go inside a directory that stays: created file accepted, removed file refused, an inside link
        # re-pointed outside, a sub-directory replaced by a link to outside
        "R %s/h4;%s;U @/upd;%s;F upd/new.mrt;%s;X upd/a.mrt;%s;%s;P upd/in ../out/secret;%s;%s;X upd/sub;L upd/sub ../out;%s;%s;P upd/esc sub/..;%s" % (
            root, t, q("new.mrt"), q("new.mrt"), q("a.mrt"), q("in"), q("in"), q("sub/b.mrt"), q("sub/b.mrt"), q("sub/secret"), q("esc/a.mrt")),
        # the processor is built BEFORE its directory exists, behind a component that is a link made later, then re-pointed
        "R %s/h5;U @/lnk/dir;%s;D real;D real/dir;F real/dir/f.mrt;D other;D other/dir;F other/dir/g.mrt;%s;L lnk real;%s;%s;P lnk other;%s;%s;"
        "U @/lnk/dir;%s" % (root, q("f.mrt"), q("f.mrt"), q("f.mrt"), q("g.mrt"), q("f.mrt"), q("g.mrt"), q("g.mrt")),
        # relative update_path (resolved against the working directory at every request), `..` out of a re-pointed link
        "R %s/h6;%s;D day2/sub;L day1/up ..;U current;%s;%s;P current day2/sub;%s;%s;%s" % (
            root, day, q("one.mrt"), q("up/day2/two.mrt"), q("one.mrt"), q("../two.mrt"), q("")),
        # tree ops the file system refuses are skipped by both sides: re-point of a non-link, rename onto an existing name,
        # rename into itself, remove of a missing name, create below a link, empty / dot components
        "R %s/h7;%s;U @/current;%s;P day1 day2;M day1 day2;M day1 day1/x;X nosuch;F current/via-link;D day1//x;D day1/./x;D day1/../x;F day1/%%00;%s;"
        "M day1 day2/moved;%s;%s" % (root, day, q("one.mrt"), q("one.mrt"), q("one.mrt"), q("../day2/moved/one.mrt")),
    ]
    lat = "D upd;F upd/updates.%E9.mrt;L upd/latest.mrt updates.%E9.mrt;D out;F out/s%E9cret;L upd/outlat ../out/s%E9cret"
    octets = [
        # seed C20-c2's demonstration: an ASCII-named link to a Latin-1 named file inside (accepted, whatever the unit answers), the name
        # itself asked for as %E9 (arrives as U+FFFD: not found), a link to a Latin-1 named file outside (refused)
        "R %s/n0;%s;U @/upd;%s;%s;%s;%s;%s;%s;%s" % (root, lat, q("latest.mrt"), q("latest.mrt", "s"), q("latest.mrt", "e"), q("latest.mrt", "d"),
                                                     q("updates.%E9.mrt"), q("outlat"), q("./latest.mrt")),
        # update_path resolves to a directory whose name is not UTF-8 (through a link, and configured as such): every valid request
        "R %s/n1;D d%%FF;F d%%FF/x.mrt;L ulnk d%%FF;U @/ulnk;%s;%s;U @/d%%FF;%s;%s;U @/d%%FF/;%s" % (root, q("x.mrt"), q(""), q("x.mrt"), q("nosuch"), q("./x.mrt")),
        # a non-UTF-8 name in an intermediate component of the resolved location
        "R %s/n2;D upd;D upd/m%%E9;F upd/m%%E9/f.mrt;L upd/mid m%%E9;L upd/direct m%%E9/f.mrt;U @/upd;%s;%s;%s;%s" % (
            root, q("mid/f.mrt"), q("direct"), q("m%E9/f.mrt"), q("mid")),
        # the lossy reading of the parameter: valid multi-byte names are asked for directly; FF, a cut 3-byte and a cut 4-byte sequence are ONE
        # U+FFFD each (the file named EF BF BD is found), E0 80 / C0 AF / ED A0 / F4 90 are TWO
        "R %s/n3;D upd;F upd/%%C3%%A9.mrt;F upd/%%F0%%9F%%92%%A9.mrt;F upd/%%EF%%BF%%BD.mrt;F upd/%%EF%%BF%%BD%%EF%%BF%%BD.mrt;U @/upd;%s" % (
            root, ";".join(q(v) for v in ["%C3%A9.mrt", "%F0%9F%92%A9.mrt", "%FF.mrt", "%E2%82.mrt", "%F0%9F%92.mrt", "%C2.mrt", "%80.mrt", "%E0%80.mrt",
                                          "%C0%AF.mrt", "%ED%A0.mrt", "%F4%90.mrt", "%EF%BF%BD.mrt", "%F5%F5.mrt", "%F8%88%80%80%80.mrt"])),
        # ... and histories: the Latin-1 file renamed to ASCII and back under a link that stays, `cur` re-pointed to the non-UTF-8 directory
        "R %s/n4;D arch;F arch/updates.%%E9.mrt;L arch/latest.mrt updates.%%E9.mrt;D d%%FF;F d%%FF/x.mrt;L cur arch;U @/cur;%s;M arch/updates.%%E9.mrt arch/u.mrt;%s;"
        "P arch/latest.mrt u.mrt;%s;P cur d%%FF;%s;%s" % (root, q("latest.mrt"), q("latest.mrt"), q("latest.mrt"), q("x.mrt"), q("latest.mrt")),
    ]
    return hist + octets + [
        # inside: plain, via '..', via links (relative, absolute, out-and-back), encoded
        "R %s/c0;%s;U @/upd;%s;%s;%s;%s;%s;%s;%s" % (root, t, q("a.mrt"), q("sub/../sub//b.mrt"), q("in"), q("inabs/b.mrt"), q("viaout"),
                                                       q("%73ub%2Fb.mrt"), q("sub/up/upd/a.mrt")),
        # escapes: '..', links, absolute, prefix-named siblings, encoded dots and slashes
        "R %s/c1;%s;U @/upd;%s;%s;%s;%s;%s;%s;%s;%s" % (root, t, q("../out/secret"), q("esc/secret"), q("escabs/secret"), q("escf"),
                                                          q("@/out/secret"), q("../upd2/x"), q("sibabs/x"), q("%2e%2e%2Fout%2fsecret")),
        # dangling, loops, file used as directory, NUL, bad UTF-8, empty value (the directory itself)
        "R %s/c2;%s;U @/upd;%s;%s;%s;%s;%s;%s;%s;%s;%s" % (root, t, q("dang"), q("loop1"), q("self/x"), q("a.mrt/"), q("a.mrt/.."), q("a.mrt%00"),
                                                             q("%c0%af..%c0%afout"), q(""), q("ftsl")),
        # update_path: through a link, with '..', relative, a file, missing, none
        "R %s/c3;%s;U @/ulnk;%s;%s;U @/upd/sub/..;%s;U upd;%s;U @/upd/a.mrt;%s;U @/nonexistent;%s;U -;%s" % (
            root, t, q("a.mrt"), q("../out/secret"), q("a.mrt"), q("sub/b.mrt"), q(""), q("a.mrt"), q("a.mrt")),
        # the 40-link budget of realpath: k39 needs 40 links (ok), k40 needs 41 (ELOOP)
        "R %s/c4;%s;%s;U @/upd;%s;%s;%s;%s" % (root, ";".join(BASE), chain, q("k38"), q("k39"), q("k40"), q("k42")),
        # dispatch and parameter forms; what the unit answers
        # a small random-shaped tree: nested links, a link climbing out and back, update_path through a link
        "R %s/c6;D a;D a/b;F a/b/c;L a/d b/../b;L b @/a/d/;L a/b/a ../..;L c b/a/../../a;U @/b;Q GET /mrt/u/queue file=c o;"
        "Q GET /mrt/u/queue file=a/a/d/c o;Q GET /mrt/u/queue file=a/c o;Q GET /mrt/u/queue file=../../c/b/c o;Q GET /mrt/u/queue file=a/b o" % root,
        "R %s/c5;%s;U @/upd;Q POST /mrt/u/queue file=a.mrt o;Q GET /mrt/u/status file=a.mrt o;Q GET /mrt/u/%%71ueue file=a.mrt o;"
        "Q GET /mrt/u/queue - o;Q GET /mrt/u/queue file[x]=a.mrt o;Q GET /mrt/u/queue file]=q&file=a.mrt o;Q GET /mrt/u/queue x=1&&file=a.mrt&file=../out/secret o;"
        "%s;%s;%s" % (root, t, q("a.mrt", "e"), q("a.mrt", "d"), q("a.mrt", "s")),
    ]


ENGINES = [{"name": "c20", "gen": gen, "corpus": corpus, "nontrivial": nontrivial, "classify": classify, "shards": 8}]
EXTRAS = []

LEVEL_TEXT = ("Theorems over every file-system tree (directories, files, symlinks incl. loops and dangling), every configured directory "
              "text, every query string, and every HISTORY of tree changes (create, remove, rename, re-point a symlink - at, above or below "
              "the configured directory), processor restarts and requests: what is enqueued for a request lies under what the configured "
              "directory resolves to at the time of that request, a name inside that is accepted, one outside refused; resolving the "
              "directory once is refuted. Per request: acceptance implies that the enqueued path is the realpath of dir/file, is not a symlink and lies "
              "below the resolved directory through real directory entries only, and the path TEXT put on the queue is byte for byte its own "
              "canonicalisation (observed per entry next to where it resolves); every other request is a 400 with an empty queue; "
              "kernel-checked, axiom-free. The model (query parsing, percent-decoding, push, realpath with its 40-link budget, ancestors) "
              "is tied to the real Processor and the real libc on a real directory tree by differential execution on every run.")
DESIGN_REF = "DESIGN.md section 6, C20"
LEVEL_NOTE = ("Trusted: Coq kernel, ExtrOcamlBasic extraction + OCaml driver, Rust harness and generators; realpath/OS behaviour is modelled "
              "(assumption list) and only sampled against the real libc; time-of-check/time-of-use between canonicalize and the unit's "
              "File::open and 'never panics' are exercised, not proved.")
TECHNIQUE = "Coq proof over a file-system model with POSIX path resolution + model/implementation correspondence on real directory trees"
