"""C20 — the MRT queue endpoint only enqueues files inside its configured directory."""
import os
import re

PROPS_FILE = "Props_C20.v"
RULE = ("each case is a directory tree (update dir, an outside area, prefix-named siblings, symlinks pointing inside, outside, "
        "back in, dangling, looping, chains around the 40-link limit) built on disk AND as a Coq term, one update_path "
        "configuration and 4-10 requests whose `file` value comes from a path grammar (known good / known escaping templates, "
        "random segments, '..', '.', '//', trailing slash, absolute, NUL, bad UTF-8) under random percent-encoding; a case is "
        "non-trivial when some request is accepted through '..', a symlink or an encoded byte, or is rejected because its "
        "resolved location is outside the directory; distinct = distinct case text")
TRUSTED_BASE = [
    "Coq 8.16.1 kernel (coqc; coqchk in thorough); no native_compute",
    "extraction with ExtrOcamlBasic only; OCaml driver oracle/{conv,eng_c20,oracle}.ml (builds the Coq tree term from the case line)",
    "Rust harness /verif/harness (engine c20) over rotonda::verif::mrt (feature verif-hooks): real api::Processor, real "
    "std::fs::canonicalize on a real directory tree under .cache/c20fs, capturing queue",
    "modelled, not verified: src/units/mrt_file_in/api.rs, get_param/extract_params/decoded_path of src/http.rs, "
    "url::form_urlencoded::parse, PathBuf::push / Path::ancestors / Path::is_relative, glibc realpath(3) (symlink budget 40)",
]
ASSUMPTIONS = [
    "std::fs::canonicalize behaves as glibc realpath over a tree of directories, regular files and symlinks (no hard links to "
    "directories, no mount points, no permissions, PATH_MAX/NAME_MAX not reached); tied to the real libc on every run",
    "names in the tree are ASCII: the lossy UTF-8 conversion of the decoded parameter never creates or removes an ASCII byte, "
    "so a non-ASCII component can only fail to exist",
    "the file system does not change between the endpoint's canonicalize and the unit's later File::open (TOCTOU is outside the model)",
    "the unit keeps the receiving end of its queue open; what it answers on the oneshot is a parameter of the request",
]

_SAFE = re.compile(r"^[A-Za-z0-9._/-]+$")


def root_dir():
    import vcommon as V
    r = os.path.realpath(os.path.join(V.CACHE, "c20fs"))
    os.makedirs(r, exist_ok=True)
    assert _SAFE.match(r) and "/.cache/c20fs" in r, "scratch root must be URL-safe: " + r
    return r


# ------------------------------------------------------------------ trees
BASE = ["D upd", "F upd/a.mrt", "D upd/sub", "F upd/sub/b.mrt", "D out", "F out/secret"]
EXTRA = [
    ["D upd2", "F upd2/x"], ["D up", "F up/x"], ["D upd-evil", "F upd-evil/x"],
    ["D upd/sub/deep", "F upd/sub/deep/c.mrt"], ["F upd/..."], ["F upd/..a"], ["D upd/.h", "F upd/.h/f"],
    ["F upd/sp%20ace"], ["F upd/pl+us"], ["F upd/pc%25t"], ["F upd/%2561.mrt"], ["D upd/a.mrt.d"], ["F upd/sub/a.mrt"],
]
LINKS = [
    "L upd/in sub/../a.mrt", "L upd/inabs @/upd/sub", "L upd/esc ../out", "L upd/escabs @/out", "L upd/escf ../out/secret",
    "L upd/dang nowhere", "L upd/dang2 ../out/nowhere", "L upd/loop1 loop2", "L upd/loop2 loop1", "L upd/self self",
    "L upd/dot .", "L upd/dotdot ..", "L upd/rootl /", "L upd/sub/up ../..", "L out/back ../upd", "L upd/viaout ../out/back/a.mrt",
    "L ulnk upd", "L ulnk2 @/upd/", "L upd/tsl sub/", "L upd/ftsl a.mrt/", "L upd/sib ../upd2", "L upd/sibabs @/upd-evil",
    "L upd/far ../../../../../../../../../../../../../../../..", "L upd/sub/home @", "L out/in2 @/upd/sub/b.mrt",
    "L upd/l%20sp sub", "L upd/etc /etc",
]
GOOD = ["a.mrt", "sub/b.mrt", "in", "inabs/b.mrt", "viaout", "sub/up/upd/a.mrt", "dot/a.mrt", "dotdot/upd/sub/b.mrt", "tsl/b.mrt",
        "sub/deep/c.mrt", "sub/deep/../b.mrt", "...", "..a", ".h/f", "sp ace", "pl+us", "pc%t", "%61.mrt", "sub/a.mrt", "sub", "", ".",
        "sub/home/upd/a.mrt", "l sp/b.mrt", "esc/back/a.mrt", "c3", "far/@/upd/a.mrt", "sub/..", "sub/up/out/back/sub/b.mrt"]
BAD = ["../out/secret", "esc/secret", "escabs/secret", "escf", "sub/up/out/secret", "dotdot/out/secret", "rootl/etc/passwd", "sib/x",
       "sibabs/x", "../upd2/x", "../upd-evil/x", "../up/x", "..", "../", "sub/../..", "dang", "dang2", "loop1", "self", "self/x", "ftsl",
       "a.mrt/", "a.mrt/.", "a.mrt/..", "a.mrt/x", "nosuch", "nosuch/..", "sub/nosuch/../b.mrt", "/etc/passwd", "@/upd/a.mrt",
       "@/out/secret", "etc/passwd", "far/etc/passwd", "sub/home/out/secret", "....", "sub/.../b.mrt", "esc", "rootl", "far",
       "../../../../../../../../../../../../../../../../../../etc/passwd", "a.mrt\x00", "\x00", "sub/\x00/b.mrt"]
SEGS = ["..", ".", "", "sub", "a.mrt", "b.mrt", "in", "esc", "out", "upd", "dot", "dotdot", "up", "deep", "nosuch", "secret", "back",
        "home", "x", "upd2", "rootl", "loop1", "tsl", "..."]
UPD = [("@/upd", 50), ("@/ulnk", 6), ("@/ulnk2", 4), ("@/upd/", 4), ("@/upd/sub/..", 4), ("@/./upd//", 3), ("upd", 4), ("./upd/.", 2),
       ("-", 6), ("@/nonexistent", 3), ("@/upd/a.mrt", 3), ("@/upd/sub", 5), ("@/out/back", 3), ("@/upd/loop1", 2), ("@", 3),
       ("@/upd/dang", 2), ("@/out", 2), ("@/upd%00", 1)]
PATHS = [("/mrt/u/queue", 88), ("/mrt/u/queue/", 2), ("/mrt/u/queuexyz", 2), ("/mrt/u/%71ueue", 2), ("/mrt/u/status", 1), ("/mrt/u/", 1),
         ("/mrt/other/queue", 1), ("/mrt/u/que", 1), ("/mrt/u/Queue", 1), ("/mrt/u", 1)]
JUNK = ["%zz", "%", "%2", "%c0%af", "%e2%80%ae", "%ff", "%00", "%2e%2e%2f", "%252e%252e", "..%5c", "%u002e"]


def enc_value(rng, s, p):
    """raw (on the wire) form of the byte string s; every byte may be percent-encoded"""
    out = []
    for ch in s.encode("latin-1"):
        c = chr(ch)
        if c == "@":
            out.append("@")          # placeholder for the scratch root, substituted by both engines
        elif c == " " and rng.chance(50):
            out.append("+")
        elif (c.isalnum() and ch < 128 or c in "._~/-") and not rng.chance(p):
            out.append(c)
        else:
            out.append(("%%%02X" if rng.chance(50) else "%%%02x") % ch)
    return "".join(out)


def gen_value(rng):
    k = rng.weighted([("good", 40), ("bad", 30), ("rand", 22), ("junk", 8)])
    if k == "good":
        v = rng.choice(GOOD)
    elif k == "bad":
        v = rng.choice(BAD)
    elif k == "rand":
        v = "/".join(rng.choice(SEGS) for _ in range(rng.range(1, 6)))
    else:
        v = enc_value(rng, rng.choice(GOOD[:10] + BAD[:8]), 0)
        j = rng.choice(JUNK)
        return rng.choice([v + j, j + v, v.replace("/", "/" + j, 1), v.replace("/", j, 1), j])
    # obfuscations that keep or change the meaning
    for _ in range(rng.below(3)):
        o = rng.below(8)
        if o == 0:
            v = "./" + v
        elif o == 1:
            v = "sub/../" + v
        elif o == 2:
            v = v.replace("/", "//", 1)
        elif o == 3:
            v = v + "/"
        elif o == 4:
            v = v + "/."
        elif o == 5:
            v = "sub/deep/../../" + v
        elif o == 6 and "/" in v:
            segs = v.split("/")
            segs[rng.below(len(segs))] = rng.choice(SEGS)
            v = "/".join(segs)
        elif o == 7:
            v = "/" + v
    return enc_value(rng, v, rng.choice([0, 0, 10, 40, 100]))


def gen_query(rng):
    v = gen_value(rng)
    k = rng.weighted([("plain", 80), ("none", 2), ("pre", 4), ("family", 3), ("fam-first", 2), ("amp", 2), ("noeq", 1), ("two", 2),
                      ("encname", 2), ("wrongname", 2)])
    return {"plain": "file=" + v, "none": "-", "pre": "x=1&y&file=" + v, "family": "file[v4]=" + v, "fam-first": "file]=a.mrt&file=" + v,
            "amp": "&&file=" + v + "&", "noeq": "file", "two": "file=" + v + "&file=a.mrt", "encname": "fi%6Ce=" + v,
            "wrongname": "File=" + v}[k]


def gen_case(rng, k, root):
    ops = ["R %s/%s" % (root, k)] + list(BASE)
    for e in EXTRA:
        if rng.chance(45):
            ops += e
    n = rng.below(7)
    chain = 0
    if rng.chance(8):
        chain = rng.range(37, 43)
    for i in range(max(n, 4)):
        ops.append("L upd/c%d %s" % (i, "a.mrt" if i == 0 else "c%d" % (i - 1)))
    for i in range(max(n, 4), chain):
        ops.append("L upd/c%d c%d" % (i, i - 1))
    for l in LINKS:
        if rng.chance(60):
            ops.append(l)
    ops.append("U " + rng.weighted(UPD))
    for _ in range(rng.range(4, 10)):
        if rng.chance(6):
            ops.append("U " + rng.weighted(UPD))
        m = rng.weighted([("GET", 94), ("POST", 3), ("HEAD", 2), ("PUT", 1)])
        q = gen_query(rng)
        if chain and rng.chance(50):
            q = "file=c%d" % rng.range(36, chain - 1)
        ops.append("Q %s %s %s %s" % (m, rng.weighted(PATHS), q, rng.weighted([("o", 80), ("e", 7), ("d", 6), ("s", 7)])))
    return ";".join(ops)


RNAMES = ["a", "b", "c", "d"]


def rand_path(rng, lo, hi, extra=()):
    return "/".join(rng.weighted([(rng.choice(RNAMES), 60), ("..", 22), (".", 8), ("", 4)] + list(extra)) for _ in range(rng.range(lo, hi)))


def gen_random_case(rng, k, root):
    """a random small tree over a 4-letter alphabet: nothing about its shape is known to the generator"""
    ops = ["R %s/%s" % (root, k)]
    dirs, every = [""], []
    for _ in range(rng.range(4, 14)):
        parent = rng.choice(dirs)
        name = rng.choice(RNAMES) if rng.chance(92) else rng.choice([".x", "a%20b", "..."])
        path = (parent + "/" + name) if parent else name
        kind = rng.weighted([("D", 40), ("F", 28), ("L", 32)])
        if path in every and rng.chance(90):
            continue            # mostly avoid ops the engines would ignore (an existing name)
        if kind == "D":
            ops.append("D " + path)
            dirs.append(path)
        elif kind == "F":
            ops.append("F " + path)
        else:
            t = rand_path(rng, 1, 4)
            if t in ("", "/"):
                t = "."
            pre = rng.weighted([("", 62), ("@/", 28), ("/", 10)])
            ops.append("L %s %s%s%s" % (path, pre, t, "/" if rng.chance(12) else ""))
        every.append(path)
    ops.append("U " + rng.weighted([("@/" + rng.choice(dirs[1:] or every), 50), ("@/" + rng.choice(every), 25),
                                    ("@/" + rng.choice(dirs[1:] or every) + "/" + rand_path(rng, 1, 2), 10),
                                    ("@", 5), (rng.choice(every), 7), ("-", 3)]))
    for _ in range(rng.range(5, 12)):
        v = rand_path(rng, 1, 5)
        if rng.chance(10):
            v = "@/" + v
        if rng.chance(8):
            v += "/"
        ops.append("Q GET /mrt/u/queue file=%s %s" % (enc_value(rng, v, rng.choice([0, 0, 0, 30])), rng.weighted([("o", 90), ("e", 5), ("s", 5)])))
    return ";".join(ops)


def gen(rng, tier):
    root = root_dir()
    n = 1000 if tier == "quick" else 20000
    for i in range(n):
        if i % 3 == 2:
            yield gen_random_case(rng, "g%d" % i, root)
        else:
            yield gen_case(rng, "g%d" % i, root)


WHY = {0: "accept", 1: "reject:no-update_path", 2: "reject:update_path-unresolvable", 3: "reject:param-missing-or-family",
       4: "reject:absolute", 5: "reject:ENOENT", 6: "reject:ENOTDIR", 7: "reject:ELOOP", 8: "reject:NUL", 9: "reject:outside"}


def _results(out):
    t = out.split()
    return [(t[i], t[i + 1], t[i + 2]) for i in range(0, len(t) - 2, 3)]


def nontrivial(case, out):
    qs = [o for o in case.split(";") if o.startswith("Q ")]
    rs = _results(out)
    for q, (st, enq, why) in zip(qs, rs):
        if why.endswith(":9>"):
            return True
        if enq != "-" and (".." in q or "%" in q or " L " in case.replace(";", " ") and re.search(r"=(in|inabs|viaout|dot|tsl|c\d+|esc|far|sub/(up|home))", q)):
            return True
    return False


def classify(case, out):
    ks = set()
    for st, enq, why in _results(out):
        if st == "none":
            ks.add("not-handled")
            continue
        m = re.search(r":(\d+)>", why)
        if m:
            ks.add(WHY[int(m.group(1))])
        if enq != "-" and st == "400":
            ks.add("accepted-but-unit-failed")
        if enq.startswith("OUT:"):
            ks.add("enqueued-outside-scratch-root")
        if enq != "-":
            ks.add("enqueued-text-canonical" if all(e.endswith(":c") for e in enq.split(",")) else "enqueued-text-NOT-canonical")
    if re.search(r"L upd/c4\d", case):
        ks.add("tree:chain>40")
    ks.add("tree:random" if ";D upd;" not in case else "tree:template")
    return sorted(ks)


def corpus():
    root = root_dir()
    t = ";".join(BASE + ["D upd2", "F upd2/x", "D upd-evil", "F upd-evil/x"] + LINKS)
    q = lambda v, m="o": "Q GET /mrt/u/queue file=%s %s" % (v, m)
    chain = ";".join("L upd/k%d %s" % (i, "a.mrt" if i == 0 else "k%d" % (i - 1)) for i in range(43))
    return [
        # inside: plain, via '..', via links (relative, absolute, out-and-back), encoded
        "R %s/c0;%s;U @/upd;%s;%s;%s;%s;%s;%s;%s" % (root, t, q("a.mrt"), q("sub/../sub//b.mrt"), q("in"), q("inabs/b.mrt"), q("viaout"),
                                                       q("%73ub%2Fb.mrt"), q("sub/up/upd/a.mrt")),
        # escapes: '..', links, absolute, prefix-named siblings, encoded dots and slashes
        "R %s/c1;%s;U @/upd;%s;%s;%s;%s;%s;%s;%s;%s" % (root, t, q("../out/secret"), q("esc/secret"), q("escabs/secret"), q("escf"),
                                                          q("@/out/secret"), q("../upd2/x"), q("sibabs/x"), q("%2e%2e%2Fout%2fsecret")),
        # dangling, loops, file used as directory, NUL, bad UTF-8, empty value (the directory itself)
        "R %s/c2;%s;U @/upd;%s;%s;%s;%s;%s;%s;%s;%s;%s" % (root, t, q("dang"), q("loop1"), q("self/x"), q("a.mrt/"), q("a.mrt/.."), q("a.mrt%00"),
                                                             q("%c0%af..%c0%afout"), q(""), q("ftsl")),
        # update_path: through a link, with '..', relative, a file, missing, none
        "R %s/c3;%s;U @/ulnk;%s;%s;U @/upd/sub/..;%s;U upd;%s;U @/upd/a.mrt;%s;U @/nonexistent;%s;U -;%s" % (
            root, t, q("a.mrt"), q("../out/secret"), q("a.mrt"), q("sub/b.mrt"), q(""), q("a.mrt"), q("a.mrt")),
        # the 40-link budget of realpath: k39 needs 40 links (ok), k40 needs 41 (ELOOP)
        "R %s/c4;%s;%s;U @/upd;%s;%s;%s;%s" % (root, ";".join(BASE), chain, q("k38"), q("k39"), q("k40"), q("k42")),
        # dispatch and parameter forms; what the unit answers
        # a small random-shaped tree: nested links, a link climbing out and back, update_path through a link
        "R %s/c6;D a;D a/b;F a/b/c;L a/d b/../b;L b @/a/d/;L a/b/a ../..;L c b/a/../../a;U @/b;Q GET /mrt/u/queue file=c o;"
        "Q GET /mrt/u/queue file=a/a/d/c o;Q GET /mrt/u/queue file=a/c o;Q GET /mrt/u/queue file=../../c/b/c o;Q GET /mrt/u/queue file=a/b o" % root,
        "R %s/c5;%s;U @/upd;Q POST /mrt/u/queue file=a.mrt o;Q GET /mrt/u/status file=a.mrt o;Q GET /mrt/u/%%71ueue file=a.mrt o;"
        "Q GET /mrt/u/queue - o;Q GET /mrt/u/queue file[x]=a.mrt o;Q GET /mrt/u/queue file]=q&file=a.mrt o;Q GET /mrt/u/queue x=1&&file=a.mrt&file=../out/secret o;"
        "%s;%s;%s" % (root, t, q("a.mrt", "e"), q("a.mrt", "d"), q("a.mrt", "s")),
    ]


ENGINES = [{"name": "c20", "gen": gen, "corpus": corpus, "nontrivial": nontrivial, "classify": classify, "shards": 8}]
EXTRAS = []

LEVEL_TEXT = ("Theorems over every file-system tree (directories, files, symlinks incl. loops and dangling), every configured directory "
              "text, every query string: acceptance implies that the enqueued path is the realpath of dir/file, is not a symlink and lies "
              "below the resolved directory through real directory entries only, and the path TEXT put on the queue is byte for byte its own "
              "canonicalisation (observed per entry next to where it resolves); every other request is a 400 with an empty queue; "
              "kernel-checked, axiom-free. The model (query parsing, percent-decoding, push, realpath with its 40-link budget, ancestors) "
              "is tied to the real Processor and the real libc on a real directory tree by differential execution on every run.")
DESIGN_REF = "DESIGN.md section 6, C20"
LEVEL_NOTE = ("Trusted: Coq kernel, ExtrOcamlBasic extraction + OCaml driver, Rust harness and generators; realpath/OS behaviour is modelled "
              "(assumption list) and only sampled against the real libc; time-of-check/time-of-use between canonicalize and the unit's "
              "File::open and 'never panics' are exercised, not proved.")
TECHNIQUE = "Coq proof over a file-system model with POSIX path resolution + model/implementation correspondence on real directory trees"
