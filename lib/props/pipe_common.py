"""Shared pieces of the plugins that use the `pipe` engine (C01 C02 C03 C05 C15)."""
import sys, os
sys.path.insert(0, os.path.dirname(os.path.dirname(os.path.abspath(__file__))))
import vcommon as V
from gens import pipegen

TRUSTED_BASE = [
    "Coq 8.16.1 kernel (coqc; coqchk in thorough); no native_compute",
    "extraction with ExtrOcamlBasic only; OCaml driver oracle/{conv,eng_pipe,oracle}.ml",
    "Rust harness /verif/harness engine `pipe`: real BmpState (facade rotonda::verif::bmp::Session), real RibUnitRunner::process_update and Rib::match_prefix (rotonda::verif::rib), real bgp Processor::process_update (rotonda::verif::bgp); BMP/BGP bytes of the abstract ops from rotonda::bgp::encode; the UPDATE octets of the wire-level ops (RB/AB, used by C01) from C04's proved encoder (oracle c04enc) and malformed variants of its output",
    "emulated in the harness, not exercised: the accept loops' router / BGP-session id assignment and the post-loop cleanup of a lost BMP connection (covered by C14 and C07)",
    "modelled, not verified: src/units/bmp_tcp_in/state_machine/*, src/units/rib_unit/{rib.rs,unit.rs}, src/ingress.rs; rotonda-store is modelled as a finite map plus a withdrawn-id set; routecore parsing is not modelled (C04)",
]
ASSUMPTIONS = [
    "the abstract ops (R/A) are IPv4 unicast on the byte level (the test encoder of the repository does not produce usable MP_REACH); UPDATEs of all four families, End-of-RIB forms and malformed UPDATEs enter through the wire-level ops RB/AB (C01), interpreted in the model by C04's decoder in the implementation's mode (Pipe/PipeRaw.v); PDUs in the classes of C04's findings / tolerance are left to C04",
    "HashMap iteration order is arbitrary: id lists are compared as sorted sets",
    "the attribute set of a route is identified by its octets: named by the number of the abstract op that produced exactly these octets, else by length and FNV-1a 32 of the octets",
]


def known_signature_for(classes):
    def known_signature(k, engine, case, mo, spec, im):
        return k.get("class") in classes and V.explained_by(mo, spec, im, {k.get("class")} | set(k.get("also", [])))
    return known_signature
