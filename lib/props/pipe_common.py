"""Shared pieces of the plugins that use the `pipe` engine (C01 C02 C03 C05 C15)."""
import sys, os
sys.path.insert(0, os.path.dirname(os.path.dirname(os.path.abspath(__file__))))
import vcommon as V
from gens import pipegen

TRUSTED_BASE = [
    "Coq 8.16.1 kernel (coqc; coqchk in thorough); no native_compute",
    "extraction with ExtrOcamlBasic only; OCaml driver oracle/{conv,eng_pipe,oracle}.ml",
    "Rust harness /verif/harness engine `pipe`: real BmpState (facade rotonda::verif::bmp::Session), real RibUnitRunner::process_update and Rib::match_prefix (rotonda::verif::rib), real bgp Processor::process_update (rotonda::verif::bgp); BMP/BGP bytes from rotonda::bgp::encode",
    "emulated in the harness, not exercised: the accept loops' router / BGP-session id assignment and the post-loop cleanup of a lost BMP connection (covered by C14 and C07)",
    "modelled, not verified: src/units/bmp_tcp_in/state_machine/*, src/units/rib_unit/{rib.rs,unit.rs}, src/ingress.rs; rotonda-store is modelled as a finite map plus a withdrawn-id set; routecore parsing is not modelled (C04)",
]
ASSUMPTIONS = [
    "IPv4 unicast only on the byte level of this engine (the test encoder of the repository does not produce usable MP_REACH); other families are covered at RIB level and by C04",
    "HashMap iteration order is arbitrary: id lists are compared as sorted sets",
    "the attribute set of a route is identified by the first hop of its AS path",
]


def known_signature_for(classes):
    def known_signature(k, engine, case, mo, spec, im):
        return k.get("class") in classes and V.explained_by(mo, spec, im, {k.get("class")} | set(k.get("also", [])))
    return known_signature
