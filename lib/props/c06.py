"""C06 - no bytes from a peer or file can panic or wedge a receiver: the BMP connection (engine bstream), the BGP receiver (bgprx), the MRT reader (mrtrx)."""
from props.bstream_common import *
PROPS_FILE = "Props_C06.v"
RULE = ("hostile byte streams through the real BMP connection handler: valid multi-message streams with mutated length / version / type / flag / "
        "inner bytes, truncations, concatenations and duplications of frames, length fields smaller than the header (0..4, the repaired panic) or "
        "larger than the data, every message type carrying arbitrary payload bytes, pure random bytes; read errors of every io::ErrorKind class "
        "interleaved; end of file or unit shutdown at the end; bytes handed out in random chunk sizes. Observable = panicked / wedged / stuck?, "
        "what ended the reads, how many read events were consumed, shape of the final cleanup (and the full update trace where every frame is known). "
        "A second family of cases (1 200 quick / 30 000 thorough) is structurally valid: Initiation, Peer Ups with and without the Graceful Restart capability, "
        "Route Monitoring messages whose UPDATE octets come from C04's proved encoder (oracle c04enc: announcements / withdrawals of the four families, "
        "End-of-RIB forms, unknown AFI/SAFIs, and the degenerate-but-valid shapes: MP_REACH_NLRI without NLRI alone / next to withdrawals / of an unknown family, "
        "MP_UNREACH_NLRI without NLRI, attributes only, the empty UPDATE), statistics, peer downs, termination, bursts of 5-14 messages the state machine "
        "rejects (more than the 10 recent parse errors the router's page keeps); one in five then gets a byte mutation. An HTTP client (op G: GET router list, "
        "GET the router's page, render the metrics, through the real request processors) visits after the last byte, between messages or anywhere: expected "
        "a page each time, listing min(#rejected, 10) parse errors oldest first - never a panic. "
        "A case is non-trivial when at least one complete header was read and the stream is not a pristine valid one; distinct = distinct case text. "
        "Engine bgprx (BGP receiver): a BGP peer over real loopback TCP against the real handle_connection: OPEN / KEEPALIVE, UPDATEs of C04's proved encoder, "
        "KEEPALIVEs, NOTIFICATIONs, then a frame routecore refuses (unknown type, ROUTE-REFRESH, 18-octet frame, KEEPALIVE with a body, cut UPDATE / OPEN, wrong "
        "marker), a length field below 18, a partial frame, FIN or RST - whole update trace compared; and mutated / truncated / duplicated / random streams and "
        "hostile handshakes - compared: no panic, handle_connection returned, live_sessions as found, trace empty or ending with the session's Withdraw. "
        "Engine mrtrx (MRT reader): dump and update files (plain, gzip, bzip2) cut inside any record, with unsupported types / subtypes, lengths beyond the "
        "file, broken or shortened compressed streams, trailing garbage, random octets, empty files, flipped octets; an earlier good file must keep its routes, a "
        "later one must be imported exactly, every enqueuer answered, the queue alive at the end")


def mutate(rng, items, bounds):
    """bounds: offsets where a well-formed frame starts."""
    items = list(items)
    k = rng.weighted([("len", 30), ("ver", 8), ("type", 14), ("flag", 10), ("byte", 18), ("trunc", 10), ("dup", 5), ("short", 15), ("ins", 6)])
    b = rng.choice(bounds) if bounds else 0
    if k == "len" and b + 5 <= len(items):
        mode = rng.below(4)
        cur = int.from_bytes(bytes(items[b + 1:b + 5]), "big")
        new = [rng.below(5), cur + rng.range(-8, 40), rng.below(1 << 16), rng.next() & 0xFFFFFFFF][mode]
        items[b + 1:b + 5] = list((max(0, new) & 0xFFFFFFFF).to_bytes(4, "big"))
    elif k == "short" and b + 5 <= len(items):
        items[b + 1:b + 5] = [0, 0, 0, rng.below(5)]
    elif k == "ver" and b < len(items):
        items[b] = rng.below(256)
    elif k == "type" and b + 5 < len(items):
        items[b + 5] = rng.choice([0, 1, 2, 3, 4, 5, 6, 7, 255, rng.below(256)])
    elif k == "flag" and b + 7 < len(items):
        items[b + 6 + rng.below(2)] = rng.below(256)
    elif k == "byte" and items:
        for _ in range(rng.range(1, 4)):
            items[rng.below(len(items))] = rng.below(256)
    elif k == "trunc" and items:
        items = items[:rng.below(len(items))]
    elif k == "dup" and bounds:
        e = rng.choice(bounds)
        lo, hi = min(b, e), max(b, e)
        items = items[:hi] + items[lo:hi] + items[hi:]
    elif k == "ins":
        pos = rng.below(len(items) + 1)
        items[pos:pos] = [rng.below(256) for _ in range(rng.range(1, 12))]
    return items


def gen(rng, tier):
    quick = tier == "quick"
    streams = [valid_stream_descrs(rng, npeers=rng.range(1, 3), nmsgs=rng.range(2, 8), terminate=rng.chance(30)) for _ in range(12 if quick else 60)]
    streams.append(["I", "U.0.1", "R.0.0.1.1+2.0.-", "S.0", "E.0.0", "N.0", "D.0", "X"])
    pool = render(sorted({d for s in streams for d in s}))
    n = 4000 if quick else 150000
    for i in range(n):
        mode = rng.weighted([("mut", 60), ("random", 12), ("typed", 14), ("shorts", 14)])
        table = {}
        if mode == "mut":
            s = rng.choice(streams)
            table = {pool[d]: d for d in s}
            items, bounds = [], []
            for d in s:
                bounds.append(len(items))
                items += list(bytes.fromhex(pool[d]))
            for _ in range(rng.range(1, 3)):
                items = mutate(rng, items, [b for b in bounds if b < len(items)])
        elif mode == "random":
            items = [rng.below(256) for _ in range(rng.range(0, 80))]
            if items and rng.chance(70):
                items[0] = 3
        elif mode == "typed":
            # every BMP message type carrying arbitrary payload bytes, correctly framed
            items = []
            for _ in range(rng.range(1, 5)):
                body = [rng.below(256) for _ in range(rng.range(0, 90))]
                items += [3] + list((6 + len(body)).to_bytes(4, "big")) + [rng.below(8)] + body
        else:
            # a valid prefix, then a header whose length field is smaller than the header
            s = rng.choice(streams)
            table = {pool[d]: d for d in s}
            items = []
            for d in s[:rng.below(len(s) + 1)]:
                items += list(bytes.fromhex(pool[d]))
            items += [rng.choice([3, 3, 0, 255]), 0, 0, 0, rng.below(5)] + [rng.below(256) for _ in range(rng.below(10))]
        for _ in range(rng.weighted([(0, 50), (1, 30), (3, 20)])):
            items.insert(rng.below(len(items) + 1), rng.choice(KINDS))
        yield make_case(Stream(items), table, rng.chance(20), rng)


# ---------------------------------------------------------------- structurally valid streams, UPDATEs from C04's proved encoder
# Route Monitoring messages carry the octets `oracle c04enc` makes of an UPDATE AST: ordinary announcements / withdrawals of
# the four families (lib/gens/pipegen.raw_ast) and the degenerate-but-valid shapes a byte mutator never arrives at - an
# MP_REACH_NLRI without NLRI (known and unknown AFI/SAFI, alone or next to withdrawals), an MP_UNREACH_NLRI without NLRI,
# attributes only, the empty UPDATE - for peers whose Peer Up carried the Graceful Restart capability and for peers without.
# The streams also hold the messages the state machine answers with InvalidMessage (each one a recent-parse-error entry of
# the router's page), in bursts of more than the 10 the page keeps, and the HTTP client's visits (`G`).
from gens import pipegen


def degenerate_ast(rng):
    k = rng.weighted([("reach0", 40), ("reach0-wd", 12), ("reach0-unk", 10), ("reach0-unreach", 10), ("unreach0", 10), ("attrs", 10), ("empty", 8)])
    if k == "empty":
        return "U 0 0 0"
    if k == "unreach0":
        return "U 0 1 N %d P %d 0 0" % (0x80 | (0x10 if rng.chance(25) else 0), rng.below(4))
    attrs = pipegen._raw_attrs(rng, False)
    if k == "attrs":
        return "U 0 %d %s 0" % (len(attrs), " ".join(attrs))
    fam = rng.below(4)
    wd = []
    if k == "reach0-unk":
        afi, safi = rng.choice(pipegen.UNKNOWN_FAMS)
        reach = "R 128 0a000001 0 O %d %d -" % (afi, safi)
    else:
        reach = pipegen._mp("R", fam, [], rng)
    attrs.insert(rng.below(len(attrs) + 1), reach)
    if k == "reach0-wd":
        wd = pipegen._pick(rng, 0)
    if k == "reach0-unreach":
        f2 = rng.below(4)
        attrs.insert(rng.below(len(attrs) + 1), pipegen._mp("N", f2, pipegen._pick(rng, f2) if rng.chance(60) else [], rng))
    return "U %d %s %d %s 0" % (len(wd), " ".join(wd), len(attrs), " ".join(attrs))


def update_pool(rng, n):
    """n UPDATE PDUs (hex) from the proved encoder: half ordinary, half degenerate."""
    asts = []
    for i in range(n):
        if i % 2:
            asts.append(degenerate_ast(rng))
        else:
            asts.append(pipegen.raw_ast(rng, rng.weighted([("ann", 40), ("wd", 25), ("both", 15), ("eor", 8), ("eorlike", 6), ("unk", 6)]))[0])
    enc = V.run_lines(V.ORACLE, "c04enc", asts, shards=4)
    out = []
    for a, e in zip(asts, enc):
        parts = e.split()
        if len(parts) != 3 or parts[0] != "1":
            raise V.CheckBroken(f"c04enc failed on / rejected the AST {a!r}: {e}")
        out.append(parts[2])
    return out


def wire_descrs(rng, updates):
    peers = rng_sample(rng, pipegen.DISTINCT_PEERS if rng.chance(80) else list(range(10)), rng.range(1, 3))
    others = [p for p in range(10) if p not in peers]
    d = ["I"] if rng.chance(95) else []
    up = set()
    for p in peers:
        d.append("U.%d.%d" % (p, rng.weighted([(1, 60), (0, 40)])))
        up.add(p)

    def invalid_one():
        # what the state machine answers with InvalidMessage
        k = rng.weighted([("D", 40), ("RB", 35), ("N", 15), ("U", 10)])
        if k == "D":
            return "D.%d" % rng.choice(others)
        if k == "RB":
            return "RB.%d.%s" % (rng.choice(others), rng.choice(updates))
        if k == "N" and up:
            return "N.%d" % rng.choice(sorted(up))
        if up:
            return "U.%d.%d" % (rng.choice(sorted(up)), rng.below(2))
        return "D.%d" % rng.choice(others)
    for _ in range(rng.range(2, 14)):
        k = rng.weighted([("RB", 60), ("burst", 10), ("inv", 10), ("E", 5), ("S", 3), ("D", 5), ("U", 5), ("X", 2)])
        p = rng.choice(sorted(up)) if up and rng.chance(90) else rng.choice(peers)
        if k == "RB":
            d.append("RB.%d.%s" % (p, rng.choice(updates)))
        elif k == "burst":
            d += [invalid_one() for _ in range(rng.range(5, 14))]
        elif k == "inv":
            d.append(invalid_one())
        elif k == "E":
            d.append("E.%d.%d" % (p, rng.below(4)))
        elif k == "S":
            d.append("S.%d" % p)
        elif k == "D":
            d.append("D.%d" % p)
            up.discard(p)
        elif k == "U":
            d.append("U.%d.%d" % (p, rng.below(2)))
            up.add(p)
        else:
            d.append("X")
            up.clear()
    return d


def gen_wire(rng, tier):
    quick = tier == "quick"
    updates = update_pool(rng.fork("updates"), 300 if quick else 3000)
    n = 1200 if quick else 30000
    plans = [wire_descrs(rng, updates) for _ in range(n)]
    plans.append(["I", "U.0.1"] + ["D.5"] * 25)     # more invalid messages than the page keeps
    pool = render(sorted({d for s in plans for d in s}))
    for s in plans:
        table = {pool[d]: d for d in s}
        items, bounds = [], []
        for d in s:
            bounds.append(len(items))
            items += list(bytes.fromhex(pool[d]))
        if rng.chance(20):
            items = mutate(rng, items, [b for b in bounds if b < len(items)])
            bounds = [b for b in bounds if b < len(items)]
        if rng.chance(15):
            items.insert(rng.below(len(items) + 1), rng.choice(KINDS))
        # the HTTP client: after the last byte (the common case), between two messages, anywhere
        where = []
        if rng.chance(85):
            where.append(len(items))
        if rng.chance(35) and bounds:
            where.append(rng.choice(bounds))
        if rng.chance(10):
            where.append(rng.below(len(items) + 1))
        for w in sorted(where, reverse=True):
            items.insert(w, GET)
        yield make_case(Stream(items), table, rng.chance(20), rng)


def gen_bmpwire(rng, tier):
    """hostile variants of sessions whose frames come from the PROVED BMP encoder (oracle bmpenc); where every frame the receiver
    hands to the parser is one of them (or trivially unparsable) the model decodes for itself (`T *`, C06_wire_*), else shape mode"""
    quick = tier == "quick"
    streams, pool = [], {}
    for i in range(6 if quick else 40):
        d, pl = wire_stream(rng.fork("bw%d" % i), nmsgs=rng.range(2, 7), terminate=rng.chance(30), tag="%d." % i)
        streams.append(d)
        pool.update(pl)
    for i in range(600 if quick else 20000):
        s = rng.choice(streams)
        table = {pool[d]: d for d in s}
        items, bounds = [], []
        for d in s:
            bounds.append(len(items))
            items += list(bytes.fromhex(pool[d]))
        k = rng.weighted([("errs", 45), ("cut", 25), ("mut", 20), ("short", 10)])
        if k == "mut":
            items = mutate(rng, items, [b for b in bounds if b < len(items)])
        elif k == "cut":
            items = items[:rng.below(len(items) + 1)]
        elif k == "short":
            items = items[:rng.choice(bounds)] + [3, 0, 0, 0, rng.below(5)] + [rng.below(256) for _ in range(rng.below(10))]
        for _ in range(rng.weighted([(0, 25), (1, 35), (2, 25), (4, 15)])):
            items.insert(rng.below(len(items) + 1), rng.choice(KINDS))
        if rng.chance(30):
            items.insert(rng.below(len(items) + 1), GET)
        yield make_case(Stream(items), table, rng.chance(20), rng)


def gen_all(rng, tier):
    yield from gen(rng, tier)
    yield from gen_wire(rng.fork("wire"), tier)
    yield from gen_bmpwire(rng.fork("bmpwire"), tier)


def nontrivial(case, out):
    t = out.split()
    pos = next((int(x[4:]) for x in t if x.startswith("pos:")), 0)
    return pos >= 5


def corpus_wire():
    """seeded C06-3: Initiation, Peer Up with Graceful Restart, a Route Monitoring UPDATE whose MP_REACH_NLRI (IPv6 unicast) has no
    NLRI; the same for a peer without Graceful Restart; seeded C06-2: 12 Peer Downs for a peer that never came up, the page asked after each
    of the last three."""
    reach0 = "ffffffffffffffffffffffffffffffff003c02000000254001010040020602010000fbf4800e150002011020010db800000000000000000000000100"
    attrs_only = "ffffffffffffffffffffffffffffffff0024020000000d4001010040020602010000fbf4"
    mc = "ffffffffffffffffffffffffffffffff0033020000001c4001010040020602010000fbf4800e0c000102040a00000100100a01"
    out = []
    for s, gets in ((["I", "U.0.1", "RB.0." + reach0, "RB.0." + mc], [4]),
                    (["I", "U.5.0", "RB.5." + reach0, "RB.5." + attrs_only, "RB.5." + mc], [5]),
                    (["I"] + ["D.7"] * 12, [11, 12, 13])):
        pool = render(sorted(set(s)))
        items = []
        for k, d in enumerate(s):
            if k in gets:
                items.append(GET)
            items += list(bytes.fromhex(pool[d]))
        if len(s) in gets:
            items.append(GET)
        out.append(make_case(Stream(items), {pool[d]: d for d in s}, False, None))
    return out


def corpus():
    return [
        # known finding peerup-capability-panic: Initiation, then a Peer Up whose received OPEN has a capability of declared length 1 in 2 bytes
        "B 03000000100400020001720001000164;B 03000000840300000000000000000000000000000000000000000000c00002010000fde9000000016abd85ea00076b170000000000000000000000000a0000012b0b11d7ffffffffffffffffffffffffffffffff001d0104006f00000000000000ffffffffffffffffffffffffffffffff0023010400de00000000000006020440010000",
        # C06_short_length_refuted: five bytes whose length field says 4 / 0 (panicked bmp_read before aa7f1e5)
        "B 0300000004",
        "B 0300000000",
        "B 03000000;B 03",
        # length 5 and 6: framed, rejected by the parser, reading goes on
        "B 0300000005;B 0300000006aa;B 03000000070455",
        # larger than the data
        "B 030000ffff04aabb",
        "B 030000ffff04aabb;Z hang",
        # over the cap: not executed
        "B 03ffffffff",
        "E wouldblock",
        "E other;E timedout;E interrupted;E unexpectedeof;B 0300000006",
        # the HTTP client on a connection that has said nothing yet, and after a framing error ended it
        "G;Z hang",
        "G;B 0300000004;G",
    ] + corpus_wire()


ENGINES = [{"name": "bstream", "gen": gen_all, "corpus": corpus, "nontrivial": nontrivial, "classify": classify, "shards": 12}]
# the BGP receiver: hostile octets through the real handle_connection over loopback TCP (UPDATEs from the same pool of C04's encoder)
from props import bgprx_common
ENGINES.append(bgprx_common.engine(update_pool))
_bstream_signature = known_signature


def known_signature(k, engine, case, mo, spec, im):
    return bgprx_common.known_signature(k, engine, case, mo, spec, im) or _bstream_signature(k, engine, case, mo, spec, im)


# the MRT reader: hostile files (cut, damaged headers, broken compression, random octets) through the real mrt-file-in unit
from props import mrtrx_common
ENGINES.append(mrtrx_common.engine())
EXTRAS = list(globals().get("EXTRAS", [])) + [bgprx_common.burst]
TRUSTED_BASE = TRUSTED_BASE + [bgprx_common.BGPRX_TRUSTED, mrtrx_common.MRTRX_TRUSTED]
ASSUMPTIONS = ASSUMPTIONS + bgprx_common.BGPRX_ASSUMPTIONS + mrtrx_common.MRTRX_ASSUMPTIONS
LEVEL_TEXT = ("Theorems over ALL scripts of read events and every parser, for the model of the BMP connection handler (framing, is_fatal table, read loop, "
              "message dispatch): no panic site is reachable in the repaired code; the read loop terminates on every script (end of file ends the session "
              "instead of being re-read); every connection ends in the post-loop cleanup; it ends only for end of file, unit shutdown, a fatal error kind or "
              "a length field smaller than the header - never for content the parser or state machine rejects; where it ends is independent of the parser; "
              "the recent-parse-errors buffer (a Vec and an index, as written) answers get() for every history of pushes with the last 10 entries in arrival "
              "order, so the router's page requested after any k read events of any script is a page with at most 10 entries (never a panic). "
              "Kernel-checked, axiom-free. The code before the repair: refuted by a 5-byte header with length < 5 (reproduced on the real code: panic at "
              "io.rs `&mut msg_buf[5..]`), and proved to have no other panic. Tied to the real read_from_router by thousands of hostile streams per run, each "
              "in its own task with a wedge/stuck watchdog. "
              "BGP receiver (Bgp/BgpRxModel.v): over ALL octet streams, every way the stream ends, EVERY function put in for routecore's parser and FSM (that sends no "
              "Message::Attributes) and every order in which the select! loop sees ticks and messages: no panic in rotonda's own code; the loop never runs out of events while "
              "the session still owes it its end; once the peer has closed or reset the connection handle_connection returns through the block after the loop - unless "
              "routecore itself panics - with the state BgpSessionModel gives for the events seen (Bulks of own routes, one Withdraw iff negotiated and not rejected, the key "
              "out of live_sessions); a refused frame is the last thing looked at; a length field below 18 parks the session until the stream ends; an accepted UPDATE leaves "
              "as one Bulk of exactly the events of C04's decoder. Refuted for the code before repair 89678d1 (the FSM lets go of the connection without ConnectionLost: the "
              "loop waited for ever) and, with routecore as observed, for a second OPEN (todo!() in routecore: known finding). "
              "MRT reader (Mrt/MrtModel.v): a hostile file is unreadable or a prefix of its records; C06_mrt_file_is_local: the queue behind it runs as on its own, its "
              "contribution is a prefix of the undamaged file's, the RIB is built from exactly these updates.")
DESIGN_REF = "DESIGN.md section 6, C06"
LEVEL_NOTE = ("Trusted: Coq kernel, extraction + OCaml driver, Rust harness and generators. PARTIAL: the insides of routecore's BMP/BGP parsers and of tokio are "
              "exercised on every case but not modelled, so 'no panic anywhere below' is explored, not proved - and it does not hold: routecore 0.5.1 panics on a second OPEN, "
              "on an OPEN with untidy capabilities, on a connection reset before the session exists (known findings, reproduced on every run); routecore's BGP FSM and MRT "
              "iterators are arguments / per-damage descriptions, tied to the real code by the engines only; timers, gate events during a BGP session (engine bgpend) and "
              "the accept loop are outside the BGP byte model; allocation of a hostile declared length (BMP: up to 4 GiB before any byte of the body arrives; MRT: a "
              "decompression bomb) is noted, not run.")
TECHNIQUE = ("Coq proof by induction over read-event scripts / octet streams / schedules (termination measure, unreachable panic sites, routecore as a function "
             "argument) + model/implementation correspondence on hostile BMP streams, BGP connections over loopback TCP and damaged MRT files")
