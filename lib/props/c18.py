"""C18 — the shared copy-on-write map (FrimMap) behaves like a sequential map under concurrency."""
import itertools

PROPS_FILE = "Props_C18.v"
RULE = ("engine c18: programs (all public FrimMap calls incl. entry().or_insert_with and is_empty) of 2-3 threads over 2-3 keys replayed on the real FrimMap under a chosen interleaving "
        "(every prefix schedule of bounded length for small program sets, random schedules for larger ones); a case is "
        "non-trivial when at least one compare-and-swap of an rcu writer failed and was retried (token x>0); engine c18seq: random single-thread call sequences, non-trivial when a "
        "remove or get finds a value; distinct = distinct case text")
TRUSTED_BASE = [
    "Coq 8.16.1 kernel (coqc; coqchk in thorough); no native_compute",
    "extraction with ExtrOcamlBasic only; OCaml driver oracle/{conv,eng_c18,eng_c18seq,oracle}.ml",
    "Rust harness /verif/harness (engines c18, c18seq, c18-stress) over rotonda::verif::frim (feature verif-hooks): "
    "controller/worker threads, the guarded pause point inside the rcu closures, the brute-force linearizability checker of the stress stage",
    "modelled, not verified: src/common/frim.rs; arc-swap's load/store/compare_and_swap are atomic steps of an interleaving "
    "(sequentially consistent) semantics, ptr_eq of the swapped Arc = equality of a stamp that every successful swap/store renews",
]
ASSUMPTIONS = [
    "ArcSwap::load, store and compare_and_swap are single atomic steps; memory-model effects below sequential consistency are not modelled",
    "thread-local code between two accesses of the shared cell commutes with the other threads (one scheduler step = one access)",
    "the predicate given to retain() is a pure function of key and value",
    "replace() is given a FrimMap built through the API (distinct keys)",
    "entry(k).or_insert_with(f): f is a pure function returning a value (the engines park the thread inside it); what the theorem "
    "promises for it is stated in call_ok: one lookup (occupied), or a lookup and later an insert of the caller's own value (vacant)",
]

KEYS = [1, 2]


def op_text(rng, fresh, keys=KEYS, weights=None):
    k = rng.choice(keys)
    kind = rng.weighted(weights or [("I", 22), ("R", 28), ("N", 16), ("G", 8), ("H", 4), ("L", 5), ("Z", 2), ("E", 9), ("T", 8), ("P", 8)])
    if kind == "I":
        fresh[0] += 1
        return "I %d %d" % (k, fresh[0])
    if kind == "R":
        return "R %d" % k
    if kind == "G":
        return "G %d" % k
    if kind == "H":
        return "H %d" % k
    if kind == "L":
        return "L"
    if kind == "E":
        return "E"
    if kind == "Z":
        return "Z"
    if kind == "N":
        fresh[0] += 1
        return "N %d %d" % (k, fresh[0])
    if kind == "T":
        p = rng.choice(["kle", "kgt", "kne", "vle", "vgt"])
        c = rng.choice(keys) if p[0] == "k" else rng.below(fresh[0] + 2)
        return "T %s %d" % (p, c)
    n = rng.range(0, 3)
    kv = []
    for _ in range(n):
        fresh[0] += 1
        kv.append("%d %d" % (rng.choice(keys + [3]), fresh[0]))
    return ("P " + " ".join(kv)).strip()


def programs(rng, nthreads, maxops, keys=KEYS):
    fresh = [10]
    items = []
    for k in keys:
        if rng.chance(55):
            fresh[0] += 1
            items.append("i %d %d" % (k, fresh[0]))
    for t in range(nthreads):
        for _ in range(rng.range(1, maxops)):
            items.append("p %d %s" % (t, op_text(rng, fresh, keys)))
    return items


# hand-picked program sets whose every schedule prefix is enumerated
SMALL = [
    ["i 1 7", "p 0 R 1", "p 1 R 1"],                              # the double remove
    ["p 0 I 1 7", "p 1 R 1", "p 1 R 1", "p 0 R 1"],
    ["i 1 7", "p 0 R 1", "p 0 G 1", "p 1 R 1", "p 1 I 1 8"],
    ["i 1 7", "i 2 9", "p 0 E", "p 1 R 1", "p 1 I 3 4"],            # iteration overtaken by writers
    ["i 1 7", "p 0 I 1 8", "p 1 I 1 9", "p 0 G 1", "p 1 G 1"],
    ["i 1 7", "i 2 9", "p 0 T kne 1", "p 1 I 1 8", "p 1 L"],
    ["i 1 7", "p 0 P 1 5 2 6", "p 1 R 1", "p 1 R 2"],               # store races with rcu
    ["i 1 7", "p 0 R 1", "p 1 P 1 5", "p 0 R 1"],
    ["i 1 7", "i 2 9", "p 0 T vgt 8", "p 1 R 2", "p 0 H 2"],
    ["p 0 I 1 7", "p 1 I 2 8", "p 0 L", "p 1 L"],
    ["i 1 7", "p 0 R 1", "p 1 R 1", "p 2 R 1"],
    ["i 1 7", "p 0 R 1", "p 1 R 1", "p 2 I 1 8"],
    # entry(k).or_insert_with(): two tasks, one absent key (C18_entry_race / C18_entry_append_refuted)
    ["p 0 N 1 7", "p 1 N 1 8", "p 0 L", "p 1 R 1", "p 1 G 1"],
    ["p 0 N 1 7", "p 1 N 1 8", "p 2 L", "p 2 R 1", "p 2 G 1"],
    ["i 2 9", "p 0 N 1 7", "p 0 G 1", "p 1 R 1", "p 1 I 1 8", "p 1 E"],        # vacant entry overtaken by remove / insert
    ["i 1 7", "p 0 N 1 8", "p 0 Z", "p 1 R 1", "p 1 N 1 9", "p 1 L"],          # occupied, removed, asked for again
    ["i 1 7", "p 0 N 2 7", "p 0 E", "p 1 P 2 5", "p 1 N 1 6", "p 1 H 2"],      # entry against the plain store of replace
    ["i 1 7", "i 2 9", "p 0 R 1", "p 1 I 3 8", "p 1 G 3", "p 0 L"],            # a write lands between a remove's load and its swap
]


def gen(rng, tier):
    # (1) exhaustive: every schedule prefix of length L over the threads of each small program set
    for items in SMALL:
        nt = 1 + max(int(x.split()[1]) for x in items if x.startswith("p "))
        L = (8 if nt == 2 else 6) if tier == "quick" else (11 if nt == 2 else 8)
        for sched in itertools.product(range(nt), repeat=L):
            yield ";".join(items + ["s %d" % t for t in sched])
    # (2) random programs, every schedule prefix of a shorter length
    nrand = 12 if tier == "quick" else 120
    for _ in range(nrand):
        items = programs(rng, 2, 2)
        for sched in itertools.product(range(2), repeat=7):
            yield ";".join(items + ["s %d" % t for t in sched])
    # (3) random programs of 2-3 threads with random schedules
    n = 2500 if tier == "quick" else 60000
    for _ in range(n):
        nt = rng.range(2, 3)
        items = programs(rng, nt, 3, keys=[1, 2] if rng.chance(70) else [1, 2, 3])
        sched = ["s %d" % rng.below(nt) for _ in range(rng.range(0, 16))]
        yield ";".join(items + sched)


def nontrivial(case, out):
    toks = out.split()
    return bool(toks) and toks[-1].startswith("x") and toks[-1] != "x0"


def classify(case, out):
    toks = out.split()
    ks = []
    x = toks[-1] if toks else "x0"
    ks.append("cas-failures=0" if x == "x0" else "cas-failures=1" if x == "x1" else "cas-failures>=2")
    nt = sum(1 for t in toks if t.startswith("T") and t[1:].isdigit())
    ks.append("threads=%d" % nt)
    if any(t.startswith("s") and t[1:].isdigit() for t in toks) and "R " in case:
        ks.append("remove-found")
    if "n" in toks:
        ks.append("lookup-or-remove-none")
    if any(t.startswith("[") for t in toks[:-2]):
        ks.append("iteration")
    ops = [o.split()[2] for o in case.split(";") if o.startswith("p ")]
    if "P" in ops:
        ks.append("replace")
    if "T" in ops:
        ks.append("retain")
    if "Z" in ops:
        ks.append("is_empty")
    entries = [o.split()[3:5] for o in case.split(";") if o.startswith("p ") and o.split()[2] == "N"]
    if entries:
        ks.append("entry")
        own = {}
        for k, v in entries:
            if ("v" + v) in toks:
                own[k] = own.get(k, 0) + 1
        if any(n >= 2 for n in own.values()):
            ks.append("entry: default function ran in two tasks for one key")
        if any(t.startswith("v") and t[1:].isdigit() and t[1:] not in [v for _, v in entries] for t in toks):
            ks.append("entry: occupied")
    return ks


def corpus():
    return [
        # C18_double_remove_refuted: both removers got Some(7) before the fix (commit in known_findings/C18.json)
        "p 0 I 1 7;p 1 R 1;p 2 R 1;s 0;s 0;s 1;s 2;s 2;s 1;s 1",
        "i 1 7;p 0 R 1;p 1 R 1;s 0;s 1;s 1;s 0;s 0",
        # C18_example
        "p 0 I 1 7;p 0 P 2 5 3 6;p 1 R 1;p 1 E;p 2 R 1;p 2 T kle 2;s 0;s 0;s 1;s 2;s 2;s 1;s 1",
        # iteration keeps its snapshot while writers go on
        "i 1 7;i 2 9;p 0 E;p 1 R 1;p 1 I 3 4;p 1 T kne 2;s 0;s 1;s 1;s 1;s 1;s 1;s 1;s 0",
        # C18_entry_race: two tasks find the same key vacant before either writes; both get their own value, the later insert
        # wins, ONE entry (C18_entry_append_refuted: an insert that does not filter the key out leaves two)
        "p 0 N 1 7;p 1 N 1 8;p 2 L;p 2 R 1;p 2 G 1;s 0;s 1;s 0;s 0;s 1;s 1;s 2;s 2;s 2;s 2",
        "i 9 90;p 0 N 1 10;p 1 N 1 20;p 0 G 1;p 0 L;p 0 E;p 0 R 1;p 0 G 1;p 0 R 1;p 0 L;s 0;s 1;s 1;s 1;s 0;s 0",
        # an entry found occupied; one found vacant whose key is filled and removed again before its insert lands
        "i 1 7;p 0 N 1 8;p 0 Z;p 1 N 2 9;p 2 I 2 5;p 2 R 2;p 2 Z;s 1;s 2;s 2;s 2;s 2;s 0;s 1;s 1",
        # the lost-write schedule: remove loads, another task's insert completes (and is seen), remove's swap must fail and
        # be redone on the new vector (a remove that publishes with a plain store wipes the insert out)
        "i 1 7;p 0 R 1;p 1 I 2 8;p 1 G 2;s 0;s 1;s 1;s 1;s 0;s 0",
        "i 1 7;p 0 R 1;p 0 G 2;p 0 E;p 1 I 2 8;s 0;s 1;s 1;s 0",
        # the same for retain against replace: the replaced content must not come back
        "i 1 7;i 2 9;p 0 T kne 1;p 0 E;p 1 P 7 70;p 1 E;s 0;s 1;s 1;s 1;s 0;s 0",
        "i 1 7;i 2 9;p 0 T kne 1;p 1 I 3 5;s 0;s 1;s 1;s 0",
    ]


def gen_seq(rng, tier):
    n = 1500 if tier == "quick" else 30000
    for i in range(n):
        fresh = [10]
        if i % 5 == 0:
            # more than 8 entries: the SmallVec spills to the heap
            keys = list(range(1, 16))
            w = [("I", 50), ("N", 10), ("R", 12), ("G", 8), ("H", 4), ("L", 5), ("Z", 1), ("E", 5), ("T", 2), ("P", 3)]
            yield ";".join(op_text(rng, fresh, keys, w) for _ in range(rng.range(12, 40)))
        else:
            keys = [1, 2, 3] if rng.chance(60) else list(range(1, 12))
            w = [("I", 26), ("N", 12), ("R", 20), ("G", 8), ("H", 6), ("L", 6), ("Z", 4), ("E", 6), ("T", 7), ("P", 5)]
            yield ";".join(op_text(rng, fresh, keys, w) for _ in range(rng.range(1, 30)))


def nontrivial_seq(case, out):
    return any(t.startswith("s") and t[1:].isdigit() for t in out.split())


def classify_seq(case, out):
    toks = out.split()
    ks = ["len<=8" if len(toks) <= 10 else "len<=20" if len(toks) <= 22 else "len>20"]
    if any(t.startswith("l") and t[1:].isdigit() and int(t[1:]) > 8 for t in toks) or (toks and toks[-1].count(":") > 8):
        ks.append("more-than-8-entries(heap SmallVec)")
    ops = [o.split()[0] for o in case.split(";") if o.strip()]
    if "P" in ops:
        ks.append("replace")
    if "T" in ops:
        ks.append("retain")
    if "N" in ops:
        ks.append("entry")
    if "Z" in ops:
        ks.append("is_empty")
    return ks


def corpus_seq():
    return [
        # the sequence of frim.rs's own unit test
        "L;E;I 1 1;L;I 1 2;L;I 3 4;L;I 5 6;L;E;R 1;L;R 1;L;T kle 3;L;P 1 1 2 2;L;E",
        "I 1 1;I 2 2;I 3 3;I 4 4;I 5 5;I 6 6;I 7 7;I 8 8;I 9 9;I 10 10;L;R 5;E;T vgt 4;E;G 9;H 1",
        # entry: vacant, occupied (keeps the value), removed and vacant again; is_empty
        "Z;N 1 5;N 1 6;G 1;L;Z;R 1;N 1 7;E;R 1;R 1;Z",
    ]


def stress(V, tier, seed):
    import subprocess
    rounds = 6000 if tier == "quick" else 150000
    args = [V.VH, "c18-stress", "3", "4", str(rounds), str(seed & 0xffffffff)]
    p = subprocess.run(args, stdout=subprocess.PIPE, text=True, timeout=3000)
    out = p.stdout.strip()
    r = {"name": "c18-stress", "evaluations": rounds,
         "coverage": {"threads": 3, "ops_per_thread": 4, "rounds": rounds, "result": out[:300],
                      "judge": "exhaustive linearizability search of each recorded call/return history against a BTreeMap"},
         "failures": []}
    if not out.startswith("ok"):
        r["failures"].append({"what": "free-running threads produced a history that is not linearizable: " + out[:1500],
                              "kind": "property", "replay_cmd": " ".join(args)})
    return r


ENGINES = [
    {"name": "c18", "gen": gen, "corpus": corpus, "nontrivial": nontrivial, "classify": classify, "shards": 6},
    {"name": "c18seq", "gen": gen_seq, "corpus": corpus_seq, "nontrivial": nontrivial_seq, "classify": classify_seq, "shards": 2},
]
EXTRAS = [stress]

LEVEL_TEXT = ("Theorems over ALL interleavings (any number of threads, any programs, any schedule) of a stamped-cell model of "
              "FrimMap's ArcSwap::rcu writers, single-load readers, single-store replace and entry().or_insert_with (a lookup, then - if vacant - "
              "an rcu insert of its own): the calls ordered by their "
              "effective access form a legal history of a sequential finite map with each call's effect between its call and "
              "return (forward simulation, invariant proof), iteration returns exactly the map state at its guard(), removes "
              "that return a value never outnumber the (re)introductions of the key by more than one; the pre-fix remove() is "
              "proved non-linearizable by a 7-step witness, and so is filling a vacant entry by an append that does not filter the key out "
              "(two entries for one key). Kernel-checked, axiom-free. The model is tied to "
              "src/common/frim.rs by replaying thousands of schedules deterministically on the real FrimMap through a pause "
              "point inside the rcu closures.")
DESIGN_REF = "DESIGN.md section 6, C18"
LEVEL_NOTE = ("Trusted: Coq kernel, ExtrOcamlBasic extraction + OCaml driver, Rust harness (controller threads, pause hook, stress "
              "linearizability checker) and generators; atomicity and sequential consistency of arc-swap's load/store/"
              "compare_and_swap are assumed (the stamp models ptr_eq); the free-running multi-thread stress is supporting "
              "exploration only.")
TECHNIQUE = "Coq proof by forward simulation / invariant over all schedules + deterministic schedule replay against the implementation"
