"""The `mrtrx` engine (C06, MRT reader): hostile MRT files through the real mrt-file-in unit.

The harness writes real files with C16's encoders (plain, gzip, bzip2), damages them as the case says, and feeds them to the
real unit (HTTP queue endpoint, queue, MrtInRunner::run, process_file in a task of its own, gate) with a real RIB unit behind
the gate - see harness/src/engines/mrtrx.rs for the grammar. Model: Mrt/MrtModel.v: a hostile file is `unreadable` or `the
parser stops at record r` (file_of_hfile); C06_mrt_file_is_local. Expected is the model part of engine c16 on the files as the
parser gets through them (oracle/eng_mrtrx.ml); for damage whose reading is not predictable (a flipped octet, a length field
that lands inside the file) the hostile batch is compared up to the updates of the records in front of the damage (`HK n`).
Every case ends with files that must be imported as if nothing had happened (the queue consumer survives), every enqueuer
must get its answer, and at the very end one more file is enqueued and answered (`alive:1`)."""
import os
import subprocess
import sys

sys.path.insert(0, os.path.dirname(os.path.dirname(os.path.abspath(__file__))))
import vcommon as V

MRTRX_TRUSTED = ("Rust harness engine `mrtrx`: C16's MRT / BGP encoders and unit fixture (real api::Processor, queue, MrtInRunner::run, process_file, Gate, "
                 "RibUnitRunner) plus the damage ops (cut inside a record, header fields overwritten, octets flipped / appended, compressed stream cut or "
                 "corrupted, raw octets); every batch awaited for at most 10 s (`]STUCK`); OCaml driver oracle/eng_mrtrx.ml, which maps each kind of "
                 "damage to `unreadable` / `the parser stops at record r` / `intact` (from reading routecore 0.5.1's mrt.rs and flate2 / bzip2; checked "
                 "against the real code on every case, not proved) and runs C16's model on the result")
MRTRX_ASSUMPTIONS = [
    "mrtrx: what routecore's MRT iterators make of damaged octets is described per kind of damage (an unsupported type or a length beyond the file makes "
    "CommonHeader::parse fail: UpdateIterator fuses, RibEntryIterator / TableDumpIterator unwrap and panic inside the per-file task; an unknown BGP4MP "
    "subtype reaches todo!()); the MRT model itself starts at the records the parser gets through",
    "mrtrx: arbitrary damage (flipped octets, length fields that land inside the file) is compared only up to the records in front of it, plus the "
    "liveness and the locality observables (later files imported exactly, earlier routes unchanged, every enqueuer answered)",
    "mrtrx: a decompression bomb (the whole file is decompressed into memory before it is parsed) and a file that changes under the memory map are not run",
]

DUMP_PEERS = [0, 1, 2, 3, 4]      # pool peers of the hostile / early files; the probe uses peer 7, the early good file peer 5


def dump_file(rng, comp):
    peers = []
    for _ in range(rng.range(1, 3)):
        p = rng.choice(DUMP_PEERS)
        if p not in peers:
            peers.append(p)
    recs = ["I " + ",".join(map(str, peers))]
    used = set()
    for _ in range(rng.range(1, 4)):
        fam = rng.below(2)
        pfx = rng.range(20, 40)
        if (fam, pfx) in used:
            continue
        used.add((fam, pfx))
        es, seen = [], set()
        for _ in range(rng.range(1, len(peers))):
            i = rng.below(len(peers))
            if i in seen:
                continue
            seen.add(i)
            es.append("%d:%d" % (i, rng.range(1, 30)))
        recs.append("T %d %d %s" % (fam, pfx, ",".join(es)))
    return {"comp": comp, "recs": recs, "kind": "dump", "prefixes": sorted(used)}


def update_file(rng, comp):
    recs, used, seen_peers = [], set(), set()
    for _ in range(rng.range(1, 5)):
        k = rng.weighted([("M", 70), ("K", 12), ("S", 18)])
        p = rng.choice(DUMP_PEERS)
        v = rng.choice([4, 4, 14, 2, 12])
        if k == "M":
            af = rng.below(2)
            pfx = rng.range(40, 60)
            used.add((af, pfx))
            if rng.chance(25) and used:
                wf, wp = rng.choice(sorted(used))
                recs.append("M %d %d %d %d %d %d %d" % (v, p, af, rng.range(1, 30), pfx, wf, wp))
            else:
                recs.append("M %d %d %d %d %d 0 -" % (v, p, af, rng.range(1, 30), pfx))
            seen_peers.add(p)
        elif k == "K":
            recs.append("K %d %d %s" % (v, p, rng.choice(["o", "k", "n", "g", "x"])))
        else:
            old, new = rng.choice([(6, 1), (6, 1), (1, 6), (3, 4), (6, 6)])
            recs.append("S %d %d %d %d" % (rng.choice([2, 4, 12, 14]), p, old, new))
    return {"comp": comp, "recs": recs, "kind": "upd", "prefixes": sorted(used)}


def n_updates(f, r):
    """update tokens the records in front of record r produce (shape mode): one per RIB entry of a dump, one per UPDATE;
    a state change counts only when it withdraws - the generator does not count it and stops counting there"""
    if f["kind"] == "dump":
        return sum(len(x.split()[3].split(",")) for x in f["recs"][1:r]) if r >= 1 else 0
    n = 0
    for x in f["recs"][:r]:
        t = x.split()
        if t[0] == "M":
            n += 1
        elif t[0] == "S" and t[3] == "6" and t[4] == "1":
            break
    return n


def layout(cases):
    """record sizes per file of each case, through the harness"""
    p = subprocess.run([V.VH, "mrtrx-layout"], input="\n".join(cases) + "\n", stdout=subprocess.PIPE, text=True, timeout=300)
    lines = p.stdout.split("\n")[:len(cases)]
    if len(lines) != len(cases):
        raise V.CheckBroken("vh mrtrx-layout failed")
    return [[[int(x) for x in f.split(",") if x] for f in l.split("|")] for l in lines]


def file_ops(f, damage=()):
    return ";".join(["F " + f["comp"]] + f["recs"] + list(damage))


PROBE_PEER = 7


def wrap(rng, hostile_ops, f, exact, extra_q=True):
    """a case around a hostile file: optionally an earlier good file, the hostile file in a batch of its own (or, exact mode,
    sharing the batch with a good file behind it), then the probe file and the queries"""
    ops, qs = [], []
    if rng.chance(50):
        a, pfx = rng.range(1, 30), rng.range(60, 70)
        ops += ["F p", "M 4 5 0 %d %d 0 -" % (a, pfx), "W"]
        qs.append("Q 0 %d" % pfx)
    ops.append(hostile_ops)
    pa, ppfx = rng.range(1, 30), rng.range(1, 15)
    if exact and rng.chance(30):
        # same batch: the queue goes on with the next file
        ops += ["F %s" % rng.choice("pgb"), "M 4 %d 0 %d %d 0 -" % (PROBE_PEER, pa, ppfx)]
    else:
        ops += ["W", "F %s" % rng.choice("pgb"), "M 4 %d 0 %d %d 0 -" % (PROBE_PEER, pa, ppfx)]
    qs.append("Q 0 %d" % ppfx)
    if exact and extra_q:
        for fam, pfx in f["prefixes"][:3]:
            qs.append("Q %d %d" % (fam, pfx))
    return ";".join(ops + qs)


def gen(rng, tier):
    quick = tier == "quick"
    n = 900 if quick else 12000
    # base files and their layouts
    bases = []
    for _ in range(60 if quick else 400):
        comp = rng.weighted([("p", 50), ("g", 25), ("b", 25)])
        bases.append(dump_file(rng, comp) if rng.chance(50) else update_file(rng, comp))
    bases = [b for b in bases if len(b["recs"]) >= 2]
    sizes = [l[0] for l in layout([file_ops(b) for b in bases])]
    for b, s in zip(bases, sizes):
        b["sizes"] = s
    for _ in range(n):
        f = rng.choice(bases)
        nrec = len(f["recs"])
        k = rng.weighted([("cut", 28), ("field", 22), ("comp", 14), ("append", 6), ("raw", 8), ("empty", 4), ("flip", 12), ("smallfield", 6)])
        if k in ("comp",) and f["comp"] == "p":
            k = "cut"
        if k == "cut":
            r = rng.below(nrec)
            yield wrap(rng, file_ops(f, ["HT %d %d" % (r, rng.below(f["sizes"][r]))]), f, True)
        elif k == "field":
            r = rng.below(nrec)
            t = f["recs"][r].split()[0]
            opts = [("typ", rng.choice([0, 11, 12, 32, 48, 99, 65535])), ("len", rng.choice([4000000000, 4294967295, 70000 + rng.below(1000)]))]
            if t in ("M", "K", "S"):
                opts.append(("sub", rng.choice([6, 7, 8, 99, 65535])))
            if t == "T":
                opts.append(("sub", rng.choice([0, 7, 99])))
                opts.append(("alen", rng.choice([65535, 60000])))
            fld, v = rng.choice(opts)
            yield wrap(rng, file_ops(f, ["HM %d %s %d" % (r, fld, v)]), f, True)
        elif k == "comp":
            d = rng.weighted([("drop", 50), ("xor", 50)])
            dmg = "HC %d" % rng.range(1, 40) if d == "drop" else ("HX 0 255" if rng.chance(30) else "HX %d %d" % (rng.range(1, 7), rng.range(1, 255)))
            yield wrap(rng, file_ops(f, [dmg]), f, True)
        elif k == "append":
            yield wrap(rng, file_ops(f, ["HA " + "ff" * rng.range(1, 30)]), f, True)
        elif k == "raw":
            b = bytearray(rng.below(256) for _ in range(rng.range(1, 90)))
            if len(b) >= 6 and int.from_bytes(b[4:6], "big") in (13, 16, 17):
                b[4] ^= 0x40
            g = {"comp": rng.choice("pgb"), "recs": [], "prefixes": []}
            yield wrap(rng, "F %s;HR %s" % (g["comp"], bytes(b).hex()), g, True)
        elif k == "empty":
            g = {"comp": rng.choice("pgb"), "recs": [], "prefixes": []}
            yield wrap(rng, ("F %s" % g["comp"]) if g["comp"] == "p" or rng.chance(50) else ("F %s;HR -" % g["comp"]), g, True)
        elif k == "flip":
            total = sum(f["sizes"])
            off = rng.below(total)
            r, acc = 0, 0
            while acc + f["sizes"][r] <= off:
                acc += f["sizes"][r]
                r += 1
            yield wrap(rng, file_ops(f, ["HF %d %d" % (off, rng.range(1, 255)), "HK %d" % n_updates(f, r)]), f, False)
        else:
            r = rng.below(nrec)
            t = f["recs"][r].split()[0]
            opts = [("len", rng.below(60))]
            if t == "T":
                opts += [("alen", rng.below(40)), ("sub", rng.choice([2, 3, 4, 5, 6]))]
            if t in ("M", "K", "S"):
                opts.append(("sub", rng.choice([0, 1, 4, 5])))
            fld, v = rng.choice(opts)
            yield wrap(rng, file_ops(f, ["HM %d %s %d" % (r, fld, v), "HK %d" % n_updates(f, r)]), f, False)
    if not quick:
        # every prefix length of a small dump file and of a small update file, plain and compressed
        small = [{"comp": c, "recs": ["I 0,1", "T 0 21 0:3,1:4", "T 1 22 1:5"], "kind": "dump", "prefixes": [(0, 21), (1, 22)]} for c in "pg"]
        small += [{"comp": c, "recs": ["M 4 0 0 3 41 0 -", "S 4 0 6 1", "M 14 1 1 4 42 0 -", "K 2 2 k"], "kind": "upd", "prefixes": [(0, 41), (1, 42)]} for c in "pb"]
        for f, s in zip(small, [l[0] for l in layout([file_ops(b) for b in small])]):
            for r, size in enumerate(s):
                for kk in range(size):
                    yield wrap(rng, file_ops(f, ["HT %d %d" % (r, kk)]), f, True)


def corpus():
    probe = "W;F p;M 4 7 0 9 1 0 -;Q 0 1"
    d = "F p;I 0,1;T 0 21 0:3,1:4;T 0 22 0:7"
    u = "F p;M 4 0 0 3 41 0 -;M 4 0 0 4 42 0 -;S 4 0 6 1"
    return [
        d + ";" + probe + ";Q 0 21;Q 0 22",                                   # undamaged, for reference
        d + ";HT 2 5;" + probe + ";Q 0 21;Q 0 22",                            # cut inside the second RIB record
        d + ";HT 0 9;" + probe + ";Q 0 21",                                   # cut inside the peer index table's header
        d + ";HM 1 typ 99;" + probe + ";Q 0 21",
        d + ";HM 2 alen 60000;" + probe + ";Q 0 21;Q 0 22",
        d.replace("F p", "F g") + ";HC 4;" + probe + ";Q 0 21",               # gzip without the end of its trailer
        d.replace("F p", "F b") + ";HX 2 255;" + probe + ";Q 0 21",           # bzip2 with a damaged end-of-stream block
        d.replace("F p", "F g") + ";HA 00112233;" + probe + ";Q 0 21",        # octets behind a complete gzip member
        u + ";HT 1 30;" + probe + ";Q 0 41;Q 0 42",
        u + ";HM 1 sub 7;" + probe + ";Q 0 41;Q 0 42",                        # BGP4MP_MESSAGE_AS4_LOCAL: todo!() in routecore
        u + ";HM 1 len 2;HK 1;" + probe,                                      # a length field that lands inside the record
        "F p;" + probe, "F g;HR -;" + probe,                                  # empty files
        "F p;HR 00112233445566778899aabbccddeeff0011223344;" + probe,
        "F p;M 4 5 0 2 60 0 -;W;" + d + ";HT 1 20;F p;M 4 7 0 9 1 0 -;Q 0 1;Q 0 60;Q 0 21",   # earlier routes stay, the queue goes on in the same batch
    ]


def nontrivial(case, out):
    return any(o.strip().startswith("H") for o in case.split(";"))


def classify(case, out):
    ks = []
    for o in case.split(";"):
        t = o.split()
        if t and t[0].startswith("H") and t[0] != "HK":
            ks.append({"HT": "cut", "HM": "field:" + (t[2] if len(t) > 2 else ""), "HF": "flip", "HA": "append", "HC": "comp-cut", "HX": "comp-xor", "HR": "raw"}.get(t[0], t[0]))
        if t and t[0] == "F":
            ks.append("file:" + t[1])
    ks.append("shape" if "HK" in case else "exact")
    return sorted(set(ks))


def engine():
    return {"name": "mrtrx", "gen": gen, "corpus": corpus, "nontrivial": nontrivial, "classify": classify, "shards": 12, "timeout": 1500}
