"""C03 - routes announced after a session comes back are active again."""
from props.pipe_common import *
PROPS_FILE = "Props_C03.v"
RULE = ("random histories with 1-3 down/up cycles per peer, router and BGP session (Peer Down / Termination / connection loss / session end followed by "
        "Peer Up / reconnect) and announcements before, between and after; non-trivial = a query after a re-announcement following an outage")


def gen(rng, tier):
    n = 2500 if tier == "quick" else 40000
    for i in range(n):
        yield pipegen.gen_case(rng, peers=pipegen.DISTINCT_PEERS[:4], flaps=True, reup=True, metrics=False, bgp=True,
                               length=(12, 60 if tier == "quick" else 160), queries=(3, 8))


def nontrivial(case, out):
    t = out.split()
    down = False
    for x in t:
        if x.startswith(("w:", "W:")):
            down = True
        if down and x.startswith("u:") and not x.startswith("u:0a"):
            return True
    return False


def corpus():
    return [
        # known finding C03-1: announce, Peer Down, Peer Up, announce again -> still withdrawn
        "C 0;I 0;U 0 0 0;R 0 0 0 3 1 0 -;D 0 0;U 0 0 0;R 0 0 0 4 1 0 -;Q 0 1",
        # router reconnect reuses the ids too
        "C 0;I 0;U 0 0 0;R 0 0 0 3 1,2 0 -;X 0;C 0;I 0;U 0 0 0;R 0 0 0 4 1 0 -;Q 0 1;Q 0 2",
        # a BGP session gets a fresh id per connection: active again
        "O 0;A 0 0 1 1 0 -;Z 0;O 0;A 0 0 2 1 0 -;Q 0 1",
        # a Peer Down takes the peer down whatever its reason octet says (RFC 9069's 6, reserved 0, unassigned): routes from
        # before the outage that are not re-announced stay withdrawn
    ] + [f"C 0;I 0;U 0 0 0;U 0 3 0;R 0 0 0 3 1,2 0 -;R 0 3 0 3 1 0 -;D 0 0 {r};Q 0 1;Q 0 2;U 0 0 0;R 0 0 0 4 1 0 -;Q 0 1;Q 0 2"
         for r in (0, 1, 2, 3, 4, 6, 7, 255)]


ENGINES = [{"name": "pipe", "gen": gen, "corpus": corpus, "nontrivial": nontrivial, "classify": pipegen.classify, "shards": 12}]
from props.e2e_common import e2e_engine
ENGINES.append(e2e_engine("C03"))   # the same histories against a real pipeline over TCP/HTTP
known_signature = known_signature_for({"K3"})
LEVEL_TEXT = ("The property is REFUTED on the faithful model (C03_flap_refuted) and the failure class is characterised exactly: every failing (history, query) "
              "is an announcement after a session-wide withdrawal of a reused ingress id, and then the answer is 'withdrawn' with the new attributes "
              "(C03_failure_class_exact, C03_known_class_behaviour). Proved to hold: not-re-announced routes stay withdrawn; sources with fresh ids (BGP) are exact. "
              "Known finding C03-1 is reproduced on the real code on every run.")
DESIGN_REF = "DESIGN.md section 6, C03"
LEVEL_NOTE = ("Trusted: as C01. The defect is recorded, not repaired: clearing rotonda-store's withdrawn marker safely needs a per-id sweep of the store (see DESIGN.md). "
              "The outage 'the bmp-tcp-in unit is taken out of the configuration by a reload and put back by a later one' is exercised end to end (engine `e2e`, ops J / JL): "
              "the removal withdraws the routes of every session of the unit (C03_removed_unit_withdraws_its_routes; seeded C03-b1), the unit that comes back is a new parent, "
              "its routers get ids no source had (C03_router_of_added_unit_is_a_new_source), so their re-announced routes are active and C03-1 does not apply to them.")
TECHNIQUE = "Coq refutation witness + exact characterisation of the failure class by induction over update histories + correspondence"
