"""Engine `c12tcp` of C12: RAW HTTP/1.x request bytes over loopback TCP to the HTTP server of a real pipeline.

Case = ops separated by `;`:
  K <piece> ...   one new connection, the pieces (one attempted request each) written back to back;
                  piece = hex[+hex..] (`+`: flush and pause, the request arrives in several segments),
                  `~` in front of the last piece: the request is cut there, the client then closes its sending half
  B               a BMP router connects and stays silent (its info endpoint shadows /routers/<name>)
  T <tags>        label for the evidence distribution (ignored by both sides)
Expectation (oracle/eng_c12tcp.ml): Http/WireModel.v (httparse + hyper Server::parse + http::Uri, per connection) decides which
bytes become which request and which are refused how; Http/DispatchModel.v answers the delivered ones.

The request parts (paths, queries, Accept-Encoding values) are those of engine c12's generator; on top of them the wire-level
shapes: method tokens, request-target forms, raw bytes, lengths around hyper's limits (URI 65534, 100 headers, header name 64 KiB,
read buffer 417792), versions, line endings, header syntax, obs-text / control bytes, duplicates, Connection / HTTP/1.0
keep-alive, Content-Length / Transfer-Encoding, pipelining, split writes, cut requests."""

from urllib.parse import unquote_to_bytes

CRLF = b"\r\n"

METHODS_OK = [b"POST", b"HEAD", b"PUT", b"DELETE", b"OPTIONS", b"PATCH", b"TRACE", b"CONNECT", b"get", b"GETX", b"GE", b"M-SEARCH", b"G.E_T",
              b"G!T*+-.^_`|~9", b"A" * 15, b"B" * 16, b"Q" * 300, b"HEAD", b"HEAD"]
# tokens httparse takes but http::Method refuses (# $ % & '), bytes httparse refuses, nothing at all
METHODS_BAD = [b"G#T", b"GE$T", b"G%T", b"G&T", b"G'T", b"G(T", b"G)ET", b"GE,T", b"G/T", b"G:T", b"G@T", b"G[T", b"G\"T", b"G{T}", b"G\xc3\x89T", b"G\x00T",
               b"G\x7fT", b"GET\t", b"", b"\tGET", b"G\xffT"]

AUTH_OK = [b"localhost", b"LOCALHOST:8080", b"127.0.0.1:80", b"[::1]", b"[::1]:8080", b"u:p@h", b"u%20x:p@h:1", b"a.b-c_d~e", b"h:", b"x@[fe80::1%25eth0]:1",
           b"1:2:3:4:5:6:7:8@h", b"h!$&'()*+,;="]
AUTH_BAD = [b"", b"h:1:2", b"[::1", b"::1]", b"[[::1]]", b"u@", b"h%20x", b"h x", b"h\\x", b"h<x>", b"h^x", b"h|x", b"[::1]%25", b"1:2:3:4:5:6:7:8:9:10",
            b"h\"x\"", b"h{x}", b"h`x"]
SCHEMES = [b"http://", b"http://", b"https://", b"HTTP://", b"hTTpS://", b"ftp://", b"a+b-c.d~e://", b"://", b"x" * 64 + b"://", b"x" * 65 + b"://", b"ws://"]

VERSIONS_BAD = [b"HTTP/1.2", b"HTTP/2.0", b"HTTP/0.9", b"HTTP/1.10", b"http/1.1", b"HTTP/1.", b"HTTP/1", b"HTTP/11", b"HTTP/1.1 ", b" HTTP/1.1", b"HTTP/1.1\t", b"",
                b"HTTP /1.1", b"HTTP/3", b"HTCPCP/1.0", b"HTTP/1.1x", b"XTTP/1.1"]

CONN = [b"close", b"Close", b"keep-alive", b"Keep-Alive", b"foo, CLOSE ", b"close, keep-alive", b"keep-alive, close", b"upgrade", b"closed", b"close\xff", b"\xe9", b"", b",close,",
        b"close;q=1", b"TE, close", b"keep-alive\t"]


def hx(b):
    return b.hex() if b else "_"


def parse_q(op):
    """an op of engine c12's generator (`Q m hexpath hexquery headers`) -> (method index, path, query or None, [(name, value)])"""
    t = op.split()
    un = lambda h: b"" if h in ("-", "_") else bytes.fromhex(h)
    hs = []
    if len(t) > 4 and t[4] != "-":
        for nv in t[4].split(","):
            n, v = nv.split(":", 1)
            hs.append((n.encode(), un(v)))
    return int(t[1]), un(t[2]), (None if t[3] == "-" else un(t[3])), hs


class Req:
    """a request under construction; bytes() puts it on the wire"""

    def __init__(self, method, target, version=b"HTTP/1.1", headers=None, eol=CRLF, body=b""):
        self.method, self.target, self.version, self.headers, self.eol, self.body = method, target, version, list(headers or []), eol, body
        self.sp1 = self.sp2 = b" "
        self.lead = b""
        self.raw_lines = None      # header lines given verbatim (without line ends) instead of (name, value) pairs
        self.end = None            # the line end of the empty line if it differs

    def lines(self):
        if self.raw_lines is not None:
            return list(self.raw_lines)
        return [n + b": " + v for n, v in self.headers]

    def bytes(self):
        out = self.lead + self.method + self.sp1 + self.target + self.sp2 + self.version + self.eol
        for l in self.lines():
            out += l + self.eol
        return out + (self.eol if self.end is None else self.end) + self.body


def base_parts(rng, base, regs, router):
    """path, query, headers from engine c12's generator (with its mutations); with a router connected also its info pages"""
    if router and rng.chance(30):
        name = rng.choice([b"127.0.0.10", b"127.0.0.10", b"127.0.0.11", b"nope", b"", b"127.0.0.10 ", b"127.0.0.1", b"rtr-%C3%A9", b"127%2E0.0.10", b"127.0.0.10%2F"])
        tail = rng.choice([b"", b"", b"/prefixes/x", b"/flags/y", b"/prefixes/", b"/flags/a/prefixes/b", b"/x", b"/"])
        return b"/routers/" + name.replace(b" ", b"%20") + tail, None, []
    while True:
        m, path, query, hs = parse_q(base.gen_request(rng, regs))
        dec = unquote_to_bytes(path)
        if router and dec.startswith(b"/routers/") and dec[9:10].isdigit():
            continue        # the ingress ids the unit hands out are not part of the case
        return path, query, hs


def gen_req(rng, base, regs, router, big_budget):
    """one request: (Req, shape tag, kind) with kind 'plain' | 'alone' (must be the only piece of an unsplit connection) | 'last'"""
    path, query, hs = base_parts(rng, base, regs, router)
    target = path + (b"?" + query if query is not None else b"")
    headers = ([(rng.choice([b"Host", b"host", b"HOST"]), rng.choice([b"localhost", b"x", b"127.0.0.1:8080", b""]))] if rng.chance(70) else []) + hs
    r = Req(b"GET" if rng.chance(88) else rng.choice(METHODS_OK), target, b"HTTP/1.1" if rng.chance(93) else b"HTTP/1.0", headers)
    shape = rng.weighted([("plain", 44), ("method", 7), ("form", 9), ("bytes", 5), ("long", 5), ("version", 5), ("eol", 5), ("hsyntax", 6), ("hbytes", 4),
                          ("hmany", 3), ("hhuge", 2), ("conn", 5), ("framing", 4), ("body", 2)])
    kind = "plain"
    if shape == "method":
        r.method = rng.choice(METHODS_OK) if rng.chance(45) else rng.choice(METHODS_BAD)
        if rng.chance(8):
            r.sp1 = rng.choice([b"  ", b"\t", b""])
    elif shape == "form":
        f = rng.weighted([("abs", 50), ("star", 12), ("auth", 18), ("rel", 20)])
        if f == "abs":
            auth = rng.choice(AUTH_OK) if rng.chance(65) else rng.choice(AUTH_BAD)
            rest = rng.weighted([(target, 70), (b"", 10), (b"?" + (query or b"x=1"), 10), (b"#f", 5), (target[1:], 5)])
            r.target = rng.choice(SCHEMES) + auth + rest
        elif f == "star":
            r.target = rng.choice([b"*", b"*", b"**", b"*?x", b"*/status", b"/*"])
            if rng.chance(50):
                r.method = b"OPTIONS"
        elif f == "auth":
            r.target = rng.choice(AUTH_OK + AUTH_BAD[1:] + [b"localhost:80", b"status", b"metrics", b":", b"@", b"[", b"%", b"a", b"~"])
            if rng.chance(40):
                r.method = b"CONNECT"
        else:
            r.target = rng.choice([b"status", b"a/b", b"./status", b"../status", b"?x=1", b"#x", b"%2Fstatus", b"status?x", b"\\status", b"//status", b"///", b"/?", b"/#", b"/?#", b"/??", b"/#?"])
    elif shape == "bytes":
        i = rng.below(len(r.target) + 1)
        ins = rng.choice([b"\xc3\xa9", b"\xe2\x82\xac", b"\xff", b"\xc3", b"\x80", b" ", b"\t", b"\x7f", b"\x01", b"\x00", b"<", b">", b"\\", b"^", b"`", b"#frag", b"#", b"\"", b"{}", b"|",
                          b"\x0b", b"\x1f", b"%", b"%zz", b"\r", b"\xf0\x9f\x98\x80"])
        r.target = r.target[:i] + ins + r.target[i:]
    elif shape == "long":
        # around hyper's MAX_URI_LEN (65534) and, rarely, its read buffer (417792)
        opts = [(3000, 20), (8200, 10), (20000, 10), (65533, 8), (65534, 14), (65535, 14), (66000, 6), (100000, 4)]
        if big_budget[0] > 0:
            opts += [(300000, 3), (417700, 2), (430000, 3)]
        n = rng.weighted(opts)
        if n >= 300000:
            big_budget[0] -= 1
        where = rng.weighted([("path", 50), ("query", 30), ("pct", 10), ("rib", 10)])
        if where == "path":
            r.target = b"/" + b"a" * (n - 1)
        elif where == "query":
            r.target = rng.choice([b"/status?", b"/metrics?x=", b"/routers/?sort_by="])
            r.target += b"a" * max(0, n - len(r.target))
        elif where == "pct":
            r.target = (b"/" + b"%C3%A9" * (n // 6 + 1))[:n]
        else:
            r.target = (b"/prefixes/1.2.3.0/24?select[peer_as]=AS1" + b"x" * n)[:n]      # (not digits: the model's numbers are exact)
    elif shape == "version":
        r.version = rng.choice(VERSIONS_BAD)
        if rng.chance(10):
            r.sp2 = rng.choice([b"  ", b"\t"])
    elif shape == "eol":
        e = rng.weighted([("lf", 40), ("lead", 25), ("mixed", 15), ("cr", 20)])
        if e == "lf":
            r.eol = b"\n"
        elif e == "lead":
            r.lead = rng.choice([b"\r\n", b"\n", b"\r\n\r\n", b"\n\r\n", b"\r\n\n", b"\r\r\n", b"\r", b" \r\n", b"\n" * 50])
            kind = "alone"
        elif e == "mixed":
            r.eol, r.end = rng.choice([(b"\n", b"\r\n"), (CRLF, b"\n"), (b"\n", b"\n\r")])
            kind = "alone"          # hyper's quick end-of-head scan misses LF CR LF after a partial read: single small write only
        else:
            r.eol = rng.choice([b"\r", b"\r\r\n", b"\n\r", b"\r\n "])
            kind = "alone"
    elif shape == "hsyntax":
        ae = rng.choice(base.AE)
        r.raw_lines = r.lines()
        bad = rng.choice([b"Accept-Encoding : " + ae, b" Accept-Encoding: " + ae, b"\tX: y", b"Accept-Encoding", b": " + ae, b"Accept-Encoding:" + ae, b"Accept-Encoding:\t \t" + ae + b" \t ",
                          b"Accept-Encoding:", b"Accept-Encoding: ", b"X:\t", b"Accept(Encoding: " + ae, b"Accept-Enc\xc3\xa9ding: " + ae, b"Accept Encoding: " + ae, b"X: a\r b",
                          b"X: a\x00b", b"X-!#$%&'*+-.^_`|~: y", b"X\x00: y", b"=: y", b"X:: y", b"Accept-Encoding: " + ae + b"\r\n continued", b"Accept-Encoding: " + ae + b"\r\n\tcontinued",
                          b"X: y\n", b"\x7f: y", b"X;y: z", b"\"X\": y"])
        r.raw_lines.insert(rng.below(len(r.raw_lines) + 1), bad)
    elif shape == "hbytes":
        v = bytearray(rng.choice(base.AE) or b"x")
        i = rng.below(len(v) + 1)
        v[i:i] = rng.choice([b"\xc3\xa9", b"\xff", b"\x80", b"\xe9", b"\x01", b"\x7f", b"\x00", b"\x1f", b"\t", b"\x0b", b"\x0c", b"\r", b"\xa0"])
        r.headers.insert(rng.below(len(r.headers) + 1), (rng.choice([b"Accept-Encoding", b"accept-encoding", b"X-Thing", b"Connection", b"Host"]), bytes(v)))
    elif shape == "hmany":
        w = rng.weighted([("dupe", 40), ("count", 40), ("name", 20)])
        if w == "dupe":
            a, b = rng.choice(base.AE), rng.choice(base.AE)
            r.headers += [(b"Accept-Encoding", a), (rng.choice([b"accept-encoding", b"Accept-Encoding", b"ACCEPT-ENCODING"]), b)] + ([(b"Host", b"y"), (b"Host", b"z")] if rng.chance(40) else [])
        elif w == "count":
            n = rng.choice([98, 99, 100, 101, 102, 150])
            r.headers = r.headers[:3]
            r.headers += [(b"X-%d" % i, b"v") for i in range(n - len(r.headers))]
            if rng.chance(40):
                r.headers[-1] = (b"Accept-Encoding", b"gzip")
        else:
            n = rng.choice([300, 8000, 65535, 65536, 70000])
            r.headers.append((b"X" * n, b"y"))
    elif shape == "hhuge":
        opts = [(9000, 30), (20000, 30), (100000, 20)]
        if big_budget[0] > 0:
            opts += [(300000, 10), (420000, 10), (1000000, 6)]
        n = rng.weighted(opts)
        if n >= 300000:
            big_budget[0] -= 1
        unit = rng.choice([b"a", b"gzip,", b"\xe9"])
        r.headers.insert(rng.below(len(r.headers) + 1), (b"X-Big", (unit * (n // len(unit) + 1))[:n]))
        if rng.chance(50):
            r.headers.append((b"Accept-Encoding", b"gzip"))
    elif shape == "conn":
        for _ in range(rng.range(1, 2)):
            r.headers.insert(rng.below(len(r.headers) + 1), (rng.choice([b"Connection", b"connection", b"CONNECTION"]), rng.choice(CONN)))
        if rng.chance(40):
            r.version = b"HTTP/1.0"
        if rng.chance(15):
            r.headers.append((b"Upgrade", rng.choice([b"websocket", b"h2c"])))
        if rng.chance(10):
            r.headers.append((b"Expect", rng.choice([b"100-continue", b"100-Continue", b"x"])))
    elif shape == "framing":
        f = rng.choice([[(b"Content-Length", b"0")], [(b"Content-Length", b"0"), (b"content-length", b"0")], [(b"Content-Length", b"x")], [(b"Content-Length", b"+0")], [(b"Content-Length", b"")],
                        [(b"Content-Length", b"0"), (b"Content-Length", b"1")], [(b"Content-Length", b"0, 0")], [(b"Content-Length", b"99999999999999999999999")],
                        [(b"Content-Length", b"18446744073709551615")], [(b"Content-Length", b"18446744073709551614")], [(b"Content-Length", b"00")], [(b"Content-Length", b"0x0")],
                        [(b"Transfer-Encoding", b"gzip")], [(b"Transfer-Encoding", b"chunked, gzip")], [(b"Transfer-Encoding", b"chunked\xff")], [(b"Transfer-Encoding", b"")],
                        [(b"Content-Length", b"x"), (b"Transfer-Encoding", b"chunked")], [(b"Transfer-Encoding", b"identity")], [(b"TRANSFER-ENCODING", b"Chunked"), (b"Transfer-Encoding", b"x")]])
        if any(n.lower() == b"transfer-encoding" for n, _ in f) and rng.chance(30):
            r.version = b"HTTP/1.0"
        r.headers += f
        if any(v in (b"18446744073709551614",) for _, v in f):
            kind = "last"
    else:
        if shape == "body":
            kind = "last"
            b = rng.choice([b"abc", b"x" * 2000, b"{\"a\": 1}", b"GET /status HTTP/1.1\r\n\r\n"])
            f = rng.weighted([("cl", 40), ("short", 15), ("chunked", 30), ("te-cl", 15)])
            if f == "cl":
                r.headers.append((b"Content-Length", b"%d" % len(b)))
                r.body = b
            elif f == "short":
                r.headers.append((b"Content-Length", b"%d" % (len(b) + 10)))
                r.body = b
            elif f == "chunked":
                r.headers.append((rng.choice([b"Transfer-Encoding", b"transfer-encoding"]), rng.choice([b"chunked", b"gzip, chunked", b"Chunked"])))
                r.body = b"%x\r\n" % len(b) + b + b"\r\n0\r\n\r\n"
            else:
                r.headers += [(b"Transfer-Encoding", b"chunked"), (b"Content-Length", b"x")]
                r.body = b"0\r\n\r\n"
            if rng.chance(50):
                r.method = rng.choice([b"POST", b"PUT"])
            if rng.chance(20):
                r.headers.append((b"Expect", b"100-continue"))
    return r, shape, kind


def split_piece(rng, b):
    """the bytes of a piece in 2-3 segments"""
    if len(b) < 2:
        return [b]
    cuts = sorted({rng.range(1, len(b) - 1) for _ in range(rng.range(1, 2))})
    out, last = [], 0
    for c in cuts:
        out.append(b[last:c])
        last = c
    out.append(b[last:])
    return out


STATUS = "K " + hx(b"GET /status HTTP/1.1\r\nHost: localhost\r\n\r\n")


def gen_case(rng, base, big_budget):
    router = rng.chance(20)
    regs = [("rib", "/prefixes/"), ("routers", "/routers/")]
    ops, tags = (["B"] if router else []), set(["router"] if router else [])
    for _ in range(rng.range(3, 8)):
        pieces, total, alone = [], 0, False
        want = rng.weighted([(1, 45), (2, 25), (3, 15), (4, 10), (6, 5)])
        for k in range(want):
            r, shape, kind = gen_req(rng, base, regs, router, big_budget)
            b = r.bytes()
            if kind == "alone" and (pieces or len(b) > 8000):
                continue
            tags.add(shape)
            segs = [b]
            if kind != "alone" and rng.chance(14) and len(b) < 70000:
                segs = split_piece(rng, b)
                tags.add("split")
            pieces.append("+".join(hx(s) for s in segs))
            total += len(b)
            if kind in ("alone", "last") or total > 200000:
                break
        if not pieces:
            continue
        # the last request of the connection cut short
        if rng.chance(9) and kind != "last":
            r, shape, _ = gen_req(rng, base, regs, router, [0])
            b = r.bytes()
            head = len(b) - len(r.body)
            cutb = b[:rng.below(min(head, 4000))]
            pieces.append("~" + hx(cutb))
            tags.add("cut")
            tags.add(shape)
        if len(pieces) > 1:
            tags.add("pipelined")
        ops.append("K " + " ".join(pieces))
    ops.append(STATUS)
    return ";".join(["T " + ",".join(sorted(tags))] + ops)


def gen(rng, tier):
    from props import c12 as base
    n = 70 if tier == "quick" else 1500
    big = [4 if tier == "quick" else 60]
    for _ in range(n):
        yield gen_case(rng, base, big)


def K(*pieces):
    ps = []
    for p in pieces:
        if isinstance(p, tuple):
            ps.append("~" + hx(p[0]))
        elif isinstance(p, list):
            ps.append("+".join(hx(s) for s in p))
        else:
            ps.append(hx(p))
    return "K " + " ".join(ps)


def one(line):
    return line + b"\r\n\r\n"


# hand-written probes (every one was first run against hyper to see what it does: design-notes/C12.md, c12tcp)
REQUEST_LINES = [
    b"GET /status HTTP/1.1", b"GET /status HTTP/1.0", b"GET  /status HTTP/1.1", b"GET /status  HTTP/1.1", b"GET /status HTTP/1.1 ", b"GET /status HTTP/1.2", b"GET /status HTTP/2.0",
    b"GET /status HTTP/0.9", b"GET /status http/1.1", b"GET /status", b"GET", b" GET /status HTTP/1.1", b"get /status HTTP/1.1", b"G!#$%&'*+-.^_`|~9 /status HTTP/1.1", b"G!*+-.^_`|~9 /status HTTP/1.1",
    b"G(T /status HTTP/1.1", b"G\xc3\xa9T /status HTTP/1.1", b"GET\t/status HTTP/1.1", b"AVERYLONGMETHODNAMEOFMORETHANFIFTEENBYTES /status HTTP/1.1", b"OPTIONS * HTTP/1.1", b"GET * HTTP/1.1",
    b"GET ** HTTP/1.1", b"GET http://localhost/status HTTP/1.1", b"GET HTTP://LOCALHOST/status HTTP/1.1", b"GET http://localhost HTTP/1.1", b"GET http://localhost?x HTTP/1.1",
    b"GET http://localhost:8080/status?x#y HTTP/1.1", b"GET https://[::1]:80/status HTTP/1.1", b"GET http://u:p@h/status HTTP/1.1", b"GET http:///status HTTP/1.1", b"GET http:// HTTP/1.1",
    b"GET ftp://h/status HTTP/1.1", b"GET ://h/status HTTP/1.1", b"GET localhost:80 HTTP/1.1", b"GET localhost HTTP/1.1", b"CONNECT localhost:80 HTTP/1.1", b"GET status HTTP/1.1", b"GET a/b HTTP/1.1",
    b"GET ?x HTTP/1.1", b"GET #x HTTP/1.1", b"GET /status#frag HTTP/1.1", b"GET /status?a#frag HTTP/1.1", b"GET /status? HTTP/1.1", b"GET /status?a?b HTTP/1.1", b"GET /st\xc3\xa9 HTTP/1.1",
    b"GET /st\xff HTTP/1.1", b"GET /status?\xc3\xa9 HTTP/1.1", b"GET /st\x7f HTTP/1.1", b"GET /st\x01 HTTP/1.1", b"GET /st<> HTTP/1.1", b"GET /st\"{}|^`\\ HTTP/1.1", b"GET /st{}\"| HTTP/1.1",
    b"GET /status/graph HTTP/1.1", b"GET /routers/ HTTP/1.1", b"GET /prefixes/1.2.3.0/24 HTTP/1.1", b"GET /prefixes/1.2.3.0/24?select[peer_as]=a%C3%A9 HTTP/1.1", b"GET /prefixes/1.2.3.0/24?select[ HTTP/1.1",
    b"GET /prefixes/1.2.3.0/24?select%5B=1 HTTP/1.1", b"HEAD /status HTTP/1.1", b"HEAD /status HTTP/1.0", b"PRI * HTTP/2.0",
]
HEADER_BLOCKS = [
    b"Host: x\r\nAccept-Encoding: gzip", b"Accept-Encoding:gzip", b"Accept-Encoding: \t gzip \t ", b"Accept-Encoding : gzip", b" Accept-Encoding: gzip", b"Accept-Encoding: gzip\r\n foo", b"Accept-Encoding",
    b": gzip", b"Accept-Encoding:", b"Accept-Encoding: g\xc3\xa9", b"Accept-Encoding: gzip\xff", b"Accept-Encoding: gz\x01ip", b"Accept-Encoding: gz\x7fip", b"Accept-Encoding: gz\x00ip",
    b"Accept-Encoding: gz\rip", b"Accept-Encoding: gzip\n", b"Accept-Encoding: deflate\r\nAccept-Encoding: gzip", b"Accept-Encoding: gzip\r\nAccept-Encoding: deflate", b"ACCEPT-ENCODING: gzip",
    b"Accept-Enc\xc3\xa9ding: gzip", b"Accept(Encoding: gzip", b"Content-Length: 0", b"Content-Length: x", b"Content-Length: +3", b"Content-Length: 0\r\nContent-Length: 0",
    b"Content-Length: 3\r\nContent-Length: 4", b"Content-Length: 99999999999999999999999", b"Content-Length: 18446744073709551615", b"Transfer-Encoding: gzip", b"Transfer-Encoding: chunked, gzip",
    b"Content-Length: x\r\nTransfer-Encoding: chunked", b"Connection: upgrade\r\nUpgrade: websocket", b"Upgrade: h2c\r\nConnection: Upgrade, HTTP2-Settings\r\nHTTP2-Settings: AAMAAABkAAQCAAAAAAIAAAAA",
    b"Expect: 100-continue",
]


def corpus():
    g = lambda p, v=b"HTTP/1.1", h=b"": b"GET " + p + b" " + v + b"\r\n" + (h + b"\r\n" if h else b"") + b"\r\n"
    st, nope = g(b"/status"), g(b"/nope")
    cases = []
    # request lines and header blocks, one connection each, a handful per case
    conns = [K(one(l)) for l in REQUEST_LINES] + [K(g(b"/status", h=h)) for h in HEADER_BLOCKS]
    for i in range(0, len(conns), 8):
        cases.append(";".join(["T corpus"] + conns[i:i + 8] + [STATUS]))
    cases += [
        # line ends: bare LF, empty lines in front, a bare CR
        ";".join(["T corpus,eol", K(b"GET /status HTTP/1.1\n\n"), K(b"GET /status HTTP/1.1\nHost: x\n\n"), K(b"\r\n\r\nGET /status HTTP/1.1\r\n\r\n"), K(b"\n\nGET /status HTTP/1.1\r\n\r\n"),
                  K(b"\r\rGET /status HTTP/1.1\r\n\r\n"), K(b"GET /status HTTP/1.1\n\r\n"), K(b"GET /status HTTP/1.1\r\nHost: x\n\r\n"), STATUS]),
        # lengths: request-target 65534 / 65535, 100 / 101 header lines, header name 65535 / 65536, values of 100 000 and 400 000 bytes
        ";".join(["T corpus,long", K(b"GET /" + b"a" * 65533 + b" HTTP/1.1\r\n\r\n"), K(b"GET /" + b"a" * 65534 + b" HTTP/1.1\r\n\r\n"), K(b"GET /status?" + b"a" * 65000 + b" HTTP/1.1\r\n\r\n"),
                  K(b"A" * 70000 + b" /status HTTP/1.1\r\n\r\n"), K(g(b"/status", h=b"\r\n".join([b"X: y"] * 100))), K(g(b"/status", h=b"\r\n".join([b"X: y"] * 101))),
                  K(g(b"/status", h=b"A" * 65535 + b": y")), K(g(b"/status", h=b"A" * 65536 + b": y")), STATUS]),
        ";".join(["T corpus,long", K(g(b"/status", h=b"X: " + b"a" * 100000 + b"\r\nAccept-Encoding: gzip")), K(g(b"/status", h=b"X: " + b"a" * 400000 + b"\r\nAccept-Encoding: gzip")),
                  K(b"GET /" + b"a" * 300000 + b" HTTP/1.1\r\n\r\n"), STATUS]),
        # more than the read buffer: 431, or what the head says when it arrives in one piece
        ";".join(["T corpus,long", K(g(b"/status", h=b"X: " + b"a" * 1000000 + b"\r\nAccept-Encoding: gzip")), K(b"GET /" + b"a" * 500000 + b" HTTP/1.1\r\n\r\n"), K((b"GET /" + b"a" * 500000,)), STATUS]),
        # pipelining and keep-alive: HTTP/1.0, Connection headers, a refused request in the middle, bodies
        ";".join(["T corpus,pipelined", K(st, nope, b"POST / HTTP/1.1\r\n\r\n"), K(g(b"/status", b"HTTP/1.0"), nope), K(g(b"/status", b"HTTP/1.0", b"Connection: keep-alive"), g(b"/nope", b"HTTP/1.0"), nope),
                  K(g(b"/status", b"HTTP/1.0", b"Connection: Keep-Alive, foo"), nope), K(g(b"/status", h=b"Connection: close"), nope), K(g(b"/status", h=b"Connection: foo, CLOSE "), nope),
                  K(g(b"/status", h=b"Connection: close\xff"), nope), K(g(b"/status", h=b"Connection: close\r\nConnection: keep-alive"), nope), STATUS]),
        ";".join(["T corpus,pipelined", K(g(b"/status", h=b"Connection: keep-alive\r\nConnection: close"), nope), K(g(b"/status", h=b"Connection: upgrade\r\nUpgrade: websocket"), nope),
                  K(g(b"/status", h=b"Expect: 100-continue"), nope), K(b"CONNECT h:1 HTTP/1.1\r\n\r\n", nope), K(b"HEAD /status HTTP/1.1\r\n\r\n", nope), K(g(b"/status", h=b"Content-Length: 0"), nope),
                  K(st, b"GET /no pe HTTP/1.1\r\n\r\n", st), K(b"\r\nGET /status HTTP/1.1\r\n\r\n", b"\r\n\r\nGET /nope HTTP/1.1\r\n\r\n"), STATUS]),
        ";".join(["T corpus,body", K(g(b"/status", h=b"Content-Length: 3") + b"abc", nope), K(g(b"/status", h=b"Transfer-Encoding: chunked") + b"0\r\n\r\n", nope), K(g(b"/status", h=b"Content-Length: 3")),
                  K(b"POST /status HTTP/1.1\r\nContent-Length: 3\r\n\r\nabc"), K(g(b"/status", h=b"Transfer-Encoding: gzip, chunked") + b"3\r\nabc\r\n0\r\n\r\n"),
                  K(g(b"/status", b"HTTP/1.0", b"Transfer-Encoding: chunked") + b"0\r\n\r\n"), K(g(b"/status", h=b"Transfer-Encoding: chunked\r\nContent-Length: x") + b"0\r\n\r\n"), STATUS]),
        # a request cut mid-header, then a second connection; nothing at all; a malformed head that is cut
        ";".join(["T corpus,cut", K((b"GET /status HTTP/1.1\r\nHost",)), K(st), K(st, (b"GET /nope HTTP/1.1\r\nHost: x",)), K(st, (b"GET /no\x01pe HTTP/1.1\r\nHost: x",)), K((b"",)), K((b"\r\n",)), K((b"G",)),
                  K((b"GET /status HTTP/1.1\r\n\r",)), K((b"GET /status HTTP/1.1\r\nAccept-Encoding: gzip\r\n",)), STATUS]),
        # the same request in two and three segments, split inside the method, the target, a header name, the empty line
        ";".join(["T corpus,split", K([b"GE", b"T /status HTTP/1.1\r\n\r\n"]), K([b"GET /sta", b"tus HTTP/1.1\r\nAccept-Enc", b"oding: gzip\r\n\r\n"]), K([b"GET /status HTTP/1.1\r\n\r", b"\n"]),
                  K([b"GET /status HTTP/1.1\r\n", b"\r\n"], nope), K(st, [b"GET /no pe HTTP/1.1\r\n", b"\r\n"]), K([b"GET /st\x01", b"atus HTTP/1.1\r\n\r\n"]), K([b"GET /status HTTP/1.", b"1\r\nX: " + b"a" * 20000, b"\r\n\r\n"]), STATUS]),
        # the panics C12 found in-process, over the wire (regression cases for the fixes) and the known gzip;q=0 finding
        ";".join(["T corpus,handler", K(g(b"/status", h=b"accept-encoding: g\xc3\xa9")), K(g(b"/status/graphaaaaaaa%C3%A9/traces/1")), K(g(b"/status/graph")), K(g(b"/status/graph/traces/3")),
                  K(g(b"/prefixes/1.2.3.0/24?select[peer_as]=a%C3%A9")), K(g(b"/prefixes/1.2.3.0/24?select[community]=0x000000000000000%C3%A900000000000000000000000")),
                  K(g(b"/prefixes/2804:1398:100::/48")), K(g(b"/prefixes/10.0.0.0/8?include=moreSpecifics&format=dump")), K(g(b"/routers/?sort_by=state&sort_order=desc")), K(g(b"/routers/?sort_by=x")),
                  K(g(b"/metrics", h=b"Accept-Encoding: gzip")), K(g(b"/%6Detrics", b"HTTP/1.0", b"Accept-Encoding: gzip")), STATUS]),
        ";".join(["T corpus,gzip-q0", K(g(b"/status", h=b"Accept-Encoding: gzip;q=0")), STATUS]),
        # a silent router is connected: its info page answers below /routers/ in front of the router list
        ";".join(["T corpus,router", "B", K(g(b"/routers/")), K(g(b"/routers/127.0.0.10")), K(g(b"/routers/127.0.0.10/prefixes/x")), K(g(b"/routers//prefixes/x")), K(g(b"/routers//flags/y")),
                  K(g(b"/routers/nope")), K(g(b"/routers/127.0.0.11")), K(g(b"/routers/127.0.0.10/")), K(g(b"/routers/127%2E0.0.10"), g(b"/routers/?sort_by=addr")), STATUS]),
    ]
    return cases


def nontrivial(case, out):
    toks = out.split("|||")[0].split()
    return len(set(toks)) >= 3 and any(t[:3].isdigit() for t in toks)


def classify(case, out):
    ks = set()
    mo = out.split("|||")[0].split()
    for t in mo:
        if t.startswith("<"):
            ks.add("open:" + t)
        elif t.endswith(",-,e") and t[:3] in ("400", "414", "431"):
            ks.add("hyper-answers:" + t[:3])
        elif t[:3].isdigit():
            ks.add("handler-answers:" + t[:3])
            if ",gzip" in t:
                ks.add("gzip")
        else:
            ks.add(t)
    for o in case.split(";"):
        if o.startswith("T "):
            ks.update("shape:" + x for x in o[2:].split(","))
    return sorted(ks)


def engine():
    return {"name": "c12tcp", "gen": gen, "corpus": corpus, "nontrivial": nontrivial, "classify": classify, "shards": 8, "timeout": 600}
