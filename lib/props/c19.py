"""C19 — text supplied by routers is always escaped in HTML and metrics output."""
PROPS_FILE = "Props_C19.v"
RULE = ("cases build 1-4 routers whose Initiation TLVs (sysName, sysDescr, free-form strings), parse-error texts and "
        "request paths are assembled from HTML/exposition metacharacters, entities, multi-byte characters placed around "
        "the 60-character truncation point, invalid UTF-8 and path separators; every case renders the router list page, "
        "router info pages (by id / sysName / address / router id / with a /flags/ or /prefixes/ focus) and the metrics; "
        "a case is non-trivial when a rendered page carries at least one metacharacter in a router-controlled field; "
        "distinct = distinct case text")
TRUSTED_BASE = [
    "Coq 8.16.1 kernel (coqc; coqchk in thorough); no native_compute",
    "extraction with ExtrOcamlBasic only; OCaml driver oracle/{conv,eng_c19,eng_c19tok,oracle}.ml",
    "Rust harness /verif/harness (engines c19, c19raw) over rotonda::verif::bmp_http (feature verif-hooks): BMP Initiation "
    "encoder, percent-encoder, port of the model's tokenizer (cross-checked on every run against the extracted one on the real pages)",
    "the tokenizer of EscapeModel.v as the definition of 'structure of the document': a simplification of the WHATWG "
    "tokenizer (no comments, CDATA, raw-text elements); text content is compared by containment after decoding character references",
    "modelled, not verified: router_list/{request,response}.rs, router_info/{request,response}.rs, util.rs format_source_id, "
    "metrics.rs label writer; html-escape 0.2.13 encode_safe / encode_double_quoted_attribute (their tables are mirrored and exercised on every case); "
    "hyper's Uri parser and percent-decoding are exercised, not modelled",
]
ASSUMPTIONS = [
    "a router-controlled string is any list of Unicode scalar values (what String::from_utf8_lossy yields for any byte string); "
    "the generator's claim about the lossy decoding of invalid UTF-8 is checked against the real state machine on every case",
    "label values are config- or id-derived on this tree (proved for the model of format_source_id; the label writer itself does not escape)",
    "volatile page text (timestamps, counters) is not compared; tags, attribute names, attribute values and the presence of every router string are",
]

# ---------------------------------------------------------------- generator
PIECES = ["<script>", "</script>", "<", ">", "\"", "'", "&", "/", "&amp;", "&lt", "&#x27;", "&#", "</td><td>", "</pre>",
          "<img src=x onerror=alert(1)>", "\"><b>", "' onmouseover='x", "javascript:", "\n", "\t", " ", "|", "\\", "\\\"",
          "é", "ß", "漢", "字", "😀", " ", "‮", "�", "a", "b", "router", "rtr-1", "AS65000", "10.0.0.1",
          "/flags/", "/prefixes/", "%3C", "?x=1", "#f", ";", "=", "{sys_name}", "}", "{", ",", "\",x=\"", "\r", "\x00", "\x7f"]
BAD_BYTES = [b"\xff", b"\xc3", b"\xe2\x82", b"\xf0\x9f\x98", b"\xc0\xaf", b"\xed\xa0\x80", b"\xf5\x80\x80\x80", b"\x80", b"\xe9"]


def cps_tok(s):
    return ".".join("%x" % ord(c) for c in s)


def ufield(s):
    return "u" + cps_tok(s)


def text(rng, maxlen=40):
    n = rng.weighted([(0, 6), (1, 14), (2, 20), (3, 20), (5, 20), (9, 20)])
    s = "".join(rng.choice(PIECES) for _ in range(n))
    if rng.chance(25):
        # place something interesting around the truncation point of the list page
        pad = rng.range(50, 66)
        s = rng.choice(["a", "é", "<", "漢", "&", "😀", "'"]) * pad + s
    return s[:maxlen * 6]


def tlv(rng):
    """-> (field token, decoded text)"""
    s = text(rng)
    if rng.chance(12):
        b = s.encode("utf-8")
        k = rng.below(len(b) + 1)
        b = b[:k] + rng.choice(BAD_BYTES) + b[k:]
        d = b.decode("utf-8", "replace")
        return "b%s:%s" % (b.hex(), cps_tok(d)), d
    return ufield(s), s


def tlvs(rng, lo, hi_w):
    n = rng.weighted(hi_w)
    n = max(lo, n)
    items = [tlv(rng) for _ in range(n)]
    return (",".join(t for t, _ in items) if items else "-"), "|".join(d for _, d in items)


APIS = ["/routers/", "/routers/", "/routers/", "/bmp-routers/", "/r\"x/", "/a&b<c>/", "/r/"]
TPLS = ["{sys_name}", "{sys_name}", "{sys_name}", "rtr-{sys_name}", "{router_ip}-{router_port}-{sys_name}", "fixed", "{sys_name}{sys_name}",
        "r_{sys_name}_{router_ip}"]


def fsi(tpl, rid):
    return tpl.replace("{sys_name}", str(rid)).replace("{router_ip}", "IP").replace("{router_port}", "PORT")


SORT_KEYS = ["addr", "sys_name", "sys_desc", "state", "peers_up", "peers_up_eor_capable", "peers_up_dumping", "peers_up_eor_capable_pc",
             "peers_up_dumping_pc", "invalid_messages", "soft_parse_errors", "hard_parse_errors"]


def qvalue(rng, good):
    """a query value: an accepted keyword, or text made of markup pieces (sometimes invalid UTF-8)"""
    if rng.chance(35):
        return ufield(rng.choice(good))
    if rng.chance(10):
        return tlv(rng)[0]
    t = text(rng, 12)
    if rng.chance(20):
        t = rng.choice(good) + t
    return ufield(t.encode("utf-8", "replace").decode("utf-8"))


def gen_query(rng):
    """Q op: decoded query pairs for GET <api>?..; the rejected value is what the 400 answer quotes"""
    pairs = []
    if rng.chance(75):
        name = rng.weighted([("sort_by", 85), ("sort_by[<b>]", 8), ("sort_by]x", 4), ("sort-by", 3)])
        pairs += [ufield(name), qvalue(rng, SORT_KEYS)]
    if rng.chance(55):
        pairs += [ufield(rng.weighted([("sort_order", 90), ("sort_order[\"]", 10)])), qvalue(rng, ["asc", "desc"])]
    if rng.chance(15):
        pairs += [ufield(rng.choice(["x", "<i>", "sort"])), qvalue(rng, ["1"])]
    if rng.chance(20) and len(pairs) >= 4:
        pairs = pairs[2:4] + pairs[0:2] + pairs[4:]
    if not pairs:
        pairs = [ufield("sort_by"), ufield("<script>alert(1)</script>")]
    return "Q " + " ".join(pairs)


def gen_case(rng):
    ops = []
    api, tpl = "/routers/", "{sys_name}"
    if rng.chance(35):
        api, tpl = rng.choice(APIS), rng.choice(TPLS)
        ops.append("C %s %s" % (ufield(api), ufield(tpl)))
    routers = []
    for i in range(rng.weighted([(1, 50), (2, 25), (3, 15), (4, 10)])):
        addr = "-" if rng.chance(15) else "10.%d.%d.%d" % (rng.below(3), rng.below(256), rng.below(256))
        r = {"id": i + 1, "addr": addr, "name": "", "init": False, "peers": []}
        if rng.chance(85):
            nt, nd = tlvs(rng, 0, [(1, 85), (2, 10), (0, 5)])
            dt, _ = tlvs(rng, 0, [(1, 85), (2, 10), (0, 5)])
            et, _ = tlvs(rng, 0, [(0, 50), (1, 25), (2, 15), (3, 10)])
            ops.append("R %s %s %s %s" % (addr, nt, dt, et))
            r["name"], r["init"] = nd, True
        else:
            ops.append("N %s" % addr)
        routers.append(r)
    for k, r in enumerate(routers):
        if r["init"]:
            ne = rng.weighted([(0, 50), (1, 20), (3, 15), (12, 15)])
            for _ in range(ne):
                ops.append("E %d %s %s" % (k, rng.choice("sh"), ufield(text(rng, 20))))
            for j in range(rng.weighted([(0, 45), (1, 35), (2, 15), (3, 5)])):
                p = ("10.9.%d.%d" % (k, j + 1), 65000 + j)
                r["peers"].append(p)
                ops.append("P %d %s %d" % (k, p[0], p[1]))
    renders = []
    for _ in range(rng.range(2, 6)):
        kind = rng.weighted([("L", 22), ("Q", 18), ("I", 47), ("M", 9), ("W", 4)])
        if kind == "L":
            renders.append("L")
        elif kind == "Q":
            renders.append(gen_query(rng))
        elif kind == "M":
            renders.append("M")
        elif kind == "W":
            renders.append("W " + ufield(rng.choice(["r1", "7", "rtr-3", "IP-PORT-2", "a b", "x=y", "{z}", "é", fsi(tpl, rng.below(5))])))
        else:
            k = rng.below(len(routers))
            r = routers[k]
            by = rng.weighted([("id", 30), ("name", 35), ("addr", 10), ("rid", 10), ("junk", 10), ("other", 5)])
            suffix = {"id": str(r["id"]), "name": r["name"], "addr": "" if r["addr"] == "-" else r["addr"],
                      "rid": fsi(tpl, r["id"]), "junk": text(rng, 10), "other": str(r["id"] % len(routers) + 1)}[by]
            if rng.chance(35):
                key = "%s/AS%d/[01, 02, 03, 04]" % rng.choice(r["peers"]) if r["peers"] and rng.chance(70) else text(rng, 8)
                suffix += rng.choice(["/flags/", "/flags/", "/prefixes/"]) + key
            # the request target must survive the server's UTF-8 round trip
            suffix = suffix.encode("utf-8", "replace").decode("utf-8")
            renders.append("I %d %s" % (k, ufield(suffix)))
    return ";".join(ops + renders)


def gen(rng, tier):
    n = 2500 if tier == "quick" else 50000
    for _ in range(n):
        yield gen_case(rng)


META = {0x3c, 0x3e, 0x22, 0x27, 0x26}


def has_meta(case):
    for op in case.split(";"):
        t = op.split()
        if t and t[0] in ("R", "E", "I", "Q"):
            for f in t[1:]:
                for g in f.split(","):
                    cp = g.split(":", 1)[1] if g.startswith("b") and ":" in g else (g[1:] if g.startswith("u") else "")
                    if any(int(h, 16) in META for h in cp.split(".") if h and all(c in "0123456789abcdef" for c in h)):
                        return True
    return False


def nontrivial(case, out):
    return ("L200" in out or "I200" in out or "Q200" in out or "Q400" in out) and has_meta(case)


def classify(case, out):
    ks = []
    toks = out.split()
    for p in ("L200:html", "I200:html", "I-", "Q200:html", "Q-"):
        if p in toks:
            ks.append("page:" + p)
    if any(t.startswith("Q400:") for t in toks):
        ks.append("error-answer:400")
        if any(op.startswith("Q ") and has_meta(op) for op in case.split(";")):
            ks.append("error-answer-quotes-markup")
    if any(t.startswith("M:") for t in toks):
        ks.append("metrics")
    if any(t.startswith("W:") for t in toks):
        ks.append("label-writer")
    if has_meta(case):
        ks.append("metachar-in-field")
    if ":" in case and any(f.startswith("b") for op in case.split(";") for f in " ".join(op.split()[1:]).replace(",", " ").split()):
        ks.append("invalid-utf8")
    if "td[colspan]" in out:
        ks.append("focus-expanded")
    if case.startswith("C "):
        ks.append("custom-config")
    if ";P " in case:
        ks.append("peers")
    if ";N " in case or case.startswith("N "):
        ks.append("router-not-initiated")
    if case.count(";E ") > 10:
        ks.append("error-ring-wrapped")
    n = sum(1 for op in case.split(";") if op.startswith("R ") and any(len(f.split(".")) > 60 for f in op.split()[2:4]))
    if n:
        ks.append("truncated-tlv")
    return ks


def corpus():
    return [
        # the witnesses of the defects found on e224a89 (see design-notes/C19.md), now repaired
        "R 10.0.0.1 u3c.73.3e u64 -;L;I 0 u31;M;W u61",
        "R 10.0.0.1 ue9.e9.e9.e9.e9.e9.e9.e9.e9.e9.e9.e9.e9.e9.e9.e9.e9.e9.e9.e9.e9.e9.e9.e9.e9.e9.e9.e9.e9.e9.e9 u64 -;L",
        "R 10.0.0.1 u3c.3c.3c.3c.3c.3c.3c.3c.3c.3c.3c.3c.3c.3c.3c.3c u64 -;L",
        "R 10.0.0.1 u22.3e.3c.69.6d.67.20.73.72.63.3d.78.3e u3c.2f.70.72.65.3e u3c.62.3e;P 0 10.0.0.9 65001;E 0 h u3c.69.3e;"
        "I 0 u22.3e.3c.69.6d.67.20.73.72.63.3d.78.3e;L",
        "R 10.0.0.1 u72.31 u64 u65.31,u65.32;N 10.0.0.2;N -;E 0 h u62.61.64;E 0 s u73;P 0 10.0.0.9 65001;L;I 0 u31;I 0 u72.31;"
        "I 0 u31.30.2e.30.2e.30.2e.31;I 1 u32;I 0 u39;M",
        "R 10.0.0.1 u72.31 u64 -;P 0 10.0.0.9 65001;I 0 u31.2f.66.6c.61.67.73.2f.31.30.2e.30.2e.30.2e.39.2f.41.53.36.35.30.30.31."
        "2f.5b.30.31.2c.20.30.32.2c.20.30.33.2c.20.30.34.5d",
        "C u2f.72.22.78.2f u72.74.72.2d.7b.73.79.73.5f.6e.61.6d.65.7d;R 10.0.0.1 bff3c:fffd.3c u27 -;L;I 0 u72.74.72.2d.31;M",
    ]


_corpus0 = corpus


def corpus():
    h = ufield("<img src=x onerror=alert(1)>")
    return _corpus0() + [
        # every answer of the list endpoint, not only the page: the 400 quotes the rejected value (seeded C19-c2: as text/html)
        "Q %s %s;Q %s %s;Q %s %s %s %s;Q %s %s;L" % (ufield("sort_by"), h, ufield("sort_order"), h, ufield("sort_by"), ufield("addr"),
                                                   ufield("sort_order"), ufield("\"><b>"), ufield("sort_by"), ufield("peers_up")),
        "R 10.0.0.1 u3c.73.3e u64 -;N 10.0.0.2;Q %s %s %s %s;Q %s %s;Q %s bff3c:fffd.3c;Q %s %s" % (
            ufield("sort_by"), ufield("sys_name"), ufield("sort_order"), ufield("desc"), ufield("sort_by[<b>]"), ufield("</pre><script>"),
            ufield("sort_by"), ufield("sort_order"), ufield("")),
        "C u2f.72.22.78.2f u72.74.72.2d.7b.73.79.73.5f.6e.61.6d.65.7d;R 10.0.0.1 u72 u64 -;Q %s %s;Q %s %s" % (
            ufield("sort_by"), ufield("state"), ufield("sort_by"), ufield("&lt;'\"")),
    ]


def tokenizer_crosscheck(V, tier, seed):
    """The pages the implementation returned, tokenised by the tokenizer extracted from Coq,
    must give the chunks the Rust engine printed."""
    rng = V.Rng(seed).fork("c19-cross")
    cases = corpus() + [gen_case(rng) for _ in range(300 if tier == "quick" else 3000)]
    raw = V.run_lines(V.VH, "c19raw", cases, shards=4)
    coq = V.run_lines(V.ORACLE, "c19tok", raw, shards=4)
    rust = V.run_lines(V.VH, "c19", cases, shards=4)
    fails = []
    pages = 0
    import re
    # the two runs are separate processes: wall-clock timestamps of parse errors differ (visible only if markup was injected)
    ts = re.compile(r"\d{4}-\d\d-\d\d(T|%20;)\d\d:\d\d:\d\d(\.\d+)?(%2b;00:00|%20;UTC)")
    for c, a, b in zip(cases, coq, rust):
        a, b = ts.sub("TS", a), ts.sub("TS", b)
        keep = [t for t in b.split() if t.startswith("T=") or t in ("L-", "I-", "Q-", "Lpanic", "Ipanic", "Qpanic")]
        pages += sum(1 for t in b.split() if t.startswith(("L200", "I200", "Q200")))
        if a.split() != keep and len(fails) < 3:
            fails.append({"what": "tokenizer port disagrees with the extracted tokenizer on a real page", "kind": "correspondence",
                          "case": c, "coq": a[:2000], "rust": " ".join(keep)[:2000], "suffix": "no-failing-input-found"})
    return {"name": "c19-tokenizer-crosscheck", "evaluations": len(cases), "coverage": {"cases": len(cases), "pages": pages}, "failures": fails}


ENGINES = [{"name": "c19", "gen": gen, "corpus": corpus, "nontrivial": nontrivial, "classify": classify, "shards": 8}]
EXTRAS = [tokenizer_crosscheck]

LEVEL_TEXT = ("Theorems over all strings (lists of Unicode scalar values) and all numbers of routers, parse errors and peers: encode_safe "
              "output contains no HTML metacharacter and only complete entities and decodes back to the input; a template whose fields are all "
              "escaped for their context keeps its tag skeleton for all field values, instantiated for the router list page and the router info "
              "page (through its request processor); the router label of /metrics does not depend on router text and a quote-free label set is "
              "read back exactly; refutations for the code as found (raw interpolation, byte slicing of escaped text). Kernel-checked, axiom-free; "
              "model tied to the code by differential rendering of thousands of generated router/request combinations on every run.")
DESIGN_REF = "DESIGN.md section 6, C19"
LEVEL_NOTE = ("Trusted: Coq kernel, ExtrOcamlBasic extraction + OCaml driver, Rust harness (BMP encoder, tokenizer port cross-checked against the "
              "extracted tokenizer on the real pages) and generators; 'structure' is defined by the model's simplified HTML tokenizer; html-escape, "
              "hyper and percent-decoding are exercised, not verified.")
TECHNIQUE = "Coq proof (template/tokenizer simulation argument, induction over strings and page lists) + model/implementation correspondence"
