"""C19 — text supplied by routers is always escaped in HTML and metrics output."""
PROPS_FILE = "Props_C19.v"


def gen(rng, tier):
    return []


def corpus():
    return ["R 10.0.0.1 u3c.73.3e u64 -;L;I 0 u31;M;W u61"]


def nontrivial(case, out):
    return True


ENGINES = [{"name": "c19", "gen": gen, "corpus": corpus, "nontrivial": nontrivial, "shards": 4}]
RULE = "x"
TRUSTED_BASE = []
ASSUMPTIONS = []
