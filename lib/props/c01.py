"""C01 - RIB content equals the replay of every peer's announce/withdraw stream."""
from props.pipe_common import *
PROPS_FILE = "Props_C01.v"
RULE = ("random histories of UPDATEs (announce / withdraw / both for one prefix in one UPDATE / unparsable) from several BMP peers on 1-2 routers and "
        "BGP sessions over a pool of 6 prefixes and 5 attribute sets, queried for random prefixes in between and for all at the end; "
        "non-trivial = some query shows two or more sources or a withdrawn entry")


def gen(rng, tier):
    n = 2500 if tier == "quick" else 40000
    # two cases in three also carry UPDATEs from the wire: octets from C04's proved encoder (all four families,
    # MP_REACH / MP_UNREACH / conventional, End-of-RIB forms, unknown AFI/SAFIs) and malformed variants of them
    wire = [i % 3 != 0 for i in range(n)]
    plans = [pipegen.raw_plan(rng.fork("raw%d" % i)) if wire[i] else [] for i in range(n)]
    hexes = pipegen.encode_plans(V, rng.fork("enc"), plans)
    for i in range(n):
        yield pipegen.gen_case(rng, peers=pipegen.DISTINCT_PEERS, flaps=(i % 4 == 0), reup=False, metrics=False, bgp=True,
                               length=(8, 50 if tier == "quick" else 150), queries=(3, 8), raw=hexes[i] or None)


def nontrivial(case, out):
    return any(t.startswith("q:") and ("," in t or "=W" in t) for t in out.split())


def corpus():
    return [
        # fixed C01-1: one UPDATE withdrawing and announcing the same prefix ended withdrawn
        "C 0;I 0;U 0 0 0;R 0 0 0 3 1 0 -;R 0 0 0 4 1 0 1;Q 0 1",
        "O 0;A 0 0 1 1,2 0 -;A 0 0 2 2 0 1,2;Q 0 1;Q 0 2",
        "C 0;I 0;U 0 0 0;U 0 5 0;R 0 0 0 1 1,2 0 -;R 0 5 0 2 1 0 -;B 0 0;R 0 0 0 3 - 0 2;Q 0 1;Q 0 2",
    ]


ENGINES = [{"name": "pipe", "gen": gen, "corpus": corpus, "nontrivial": nontrivial, "classify": pipegen.classify, "shards": 12}]
known_signature = known_signature_for(set())
LEVEL_TEXT = ("Theorem over all update histories of the RIB model: what a query shows for (family, prefix, source) is the last event of that source for "
              "that prefix (exact characterisation including the sticky session-wide withdrawal), one entry per source, overlap ends announced, an "
              "unparsable UPDATE changes nothing, frame. Kernel-checked, axiom-free; tied to the real state machine + RIB unit + store by generated "
              "histories of real BMP/BGP bytes whose RIB answers are compared with the model and with the property's own reading (an ideal RIB keyed "
              "by wire identity).")
DESIGN_REF = "DESIGN.md section 6, C01"
LEVEL_NOTE = ("Trusted: Coq kernel, extraction + OCaml driver, Rust harness. The end-to-end statement (wire identity level) is proved on the pipeline model "
              "(Pipe/PipeCompose.v, C01_pipeline_refines_ideal / C01_pipeline_rib_answer: every history below the u32 id counter with BMP router keys below "
              "1000 and announced families below 4, outside the classes of known findings C02-1 and C03-1) and is checked on the implementation by the "
              "correspondence engine against the executable spec.")
TECHNIQUE = "Coq proof by induction over update histories (refinement to a last-event spec) + model/implementation correspondence"
