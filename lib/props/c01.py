"""C01 - RIB content equals the replay of every peer's announce/withdraw stream."""
from props.pipe_common import *
PROPS_FILE = "Props_C01.v"
RULE = ("random histories of UPDATEs (announce / withdraw / both for one prefix in one UPDATE / unparsable) from several BMP peers on 1-2 routers and "
        "BGP sessions over a pool of 6 prefixes and 5 attribute sets, queried for random prefixes in between and for all at the end; in two cases of "
        "three also UPDATE octets from C04's proved encoder handed to BMP peers / BGP sessions (IPv4/IPv6 unicast/multicast over a pool of 10 "
        "prefixes shared with the abstract ops, MP_REACH / MP_UNREACH / conventional fields, End-of-RIB forms, unknown AFI/SAFIs) and malformed "
        "variants (an MP attribute whose last NLRI is spoilt behind a good one; C04's mutations), every pool prefix queried; plus MRT update files "
        "through C16's engine (a prefix withdrawn and announced by one UPDATE in a third of the UPDATEs; in two cases of three also UPDATE "
        "octets inside the BGP4MP records: C04's encoder, its malformed variants, and UPDATEs malformed in exactly one half - a spoilt NLRI "
        "inside MP_UNREACH_NLRI / MP_REACH_NLRI next to a good other half); "
        "non-trivial = some query shows two or more sources or a withdrawn entry")


def gen(rng, tier):
    n = 2500 if tier == "quick" else 40000
    # two cases in three also carry UPDATEs from the wire: octets from C04's proved encoder (all four families,
    # MP_REACH / MP_UNREACH / conventional, End-of-RIB forms, unknown AFI/SAFIs) and malformed variants of them
    wire = [i % 3 != 0 for i in range(n)]
    plans = [pipegen.raw_plan(rng.fork("raw%d" % i)) if wire[i] else [] for i in range(n)]
    hexes = pipegen.encode_plans(V, rng.fork("enc"), plans)
    for i in range(n):
        yield pipegen.gen_case(rng, peers=pipegen.DISTINCT_PEERS, flaps=(i % 4 == 0), reup=False, metrics=False, bgp=True,
                               length=(8, 50 if tier == "quick" else 150), queries=(3, 8), raw=hexes[i] or None)


# ---- the third ingest path: MRT update files. C16 owns the model of the unit (Mrt/*) and its engine `c16`; C01 drives
# that engine with ITS histories: per-peer streams of UPDATEs over few prefixes, a prefix often withdrawn and announced
# by one UPDATE (RFC 4271 4.3: ends announced), every prefix queried. No dump files, no state changes: those are C16's.
MRT_PEERS = [0, 2, 3, 5]     # pairwise different address and AS (harness/src/engines/c16.rs POOL)


def gen_mrt(rng, tier):
    n = 250 if tier == "quick" else 4000
    # two cases in three also take UPDATEs as octets (op MB of engine c16): from C04's proved encoder and malformed variants,
    # above all UPDATEs that are malformed in exactly ONE half - 'an UPDATE that fails to parse changes nothing at all'
    from props import c16 as C16
    rawn = [i for i in range(n) if i % 3 != 0]
    hexes = dict(zip(rawn, C16.encode_raw(rng.fork("mrtenc"), [C16.raw_plan16(rng.fork("mrtraw%d" % i)) for i in rawn])))
    for i in range(n):
        raw = hexes.get(i) or None
        ops = []
        for _f in range(rng.range(1, 3)):
            ops.append("F " + rng.choice("pgb"))
            for _m in range(rng.range(1, 7)):
                p = rng.choice(MRT_PEERS)
                v = rng.weighted([(4, 60), (14, 15), (2, 15), (12, 10)])
                if v % 10 == 2 and p == 5:
                    v += 2                                    # a four-octet AS does not fit an AS2 record
                if raw and rng.chance(55):
                    ops.append("MB %d %d %s" % (v, p, rng.choice(raw)))
                    continue
                af = rng.weighted([(0, 75), (1, 25)])
                ps = sorted({rng.below(4) for _ in range(rng.weighted([(0, 15), (1, 45), (2, 30), (3, 10)]))})
                ws = sorted({rng.below(4) for _ in range(rng.weighted([(0, 35), (1, 40), (2, 25)]))})
                if ps and rng.chance(35):
                    ws = sorted(set(ws) | {rng.choice(ps)})   # the overlap
                ops.append("M %d %d %d %d %s %d %s" % (v, p, af, rng.below(10), ",".join(map(str, ps)) or "-", af, ",".join(map(str, ws)) or "-"))
            if rng.chance(40):
                ops.append("Q %d %d" % (rng.below(2), rng.below(4)))
        ops += ["Q %d %d" % (af, x) for af in (0, 1) for x in range(4)]
        if raw:
            ops += ["QX 0 " + x for x in pipegen.V4POOL[2:]] + ["QX 1 " + x for x in pipegen.V6POOL[1:]]
        yield ";".join(ops)


def nontrivial_mrt(case, out):
    return any(t.startswith("q:p") for t in out.split())


def classify_mrt(case, out):
    ks = {"mrt-update-file"}
    from props import c16 as C16
    for o in case.split(";"):
        t = o.split()
        if t and t[0] == "MB":
            ks.add("update-octets-half-malformed:" + C16.HALF_HEX[t[3]] if t[3] in C16.HALF_HEX else "update-octets")
            continue
        if t and t[0] == "M" and t[5] != "-" and t[7] != "-" and set(t[5].split(",")) & set(t[7].split(",")):
            ks.add("prefix-withdrawn-and-announced-in-one-update")
    if any(t.startswith("q:") and "=W" in t for t in out.split()):
        ks.add("query-shows-withdrawn")
    return sorted(ks)


def corpus_mrt():
    return ["F p;M 4 0 0 3 1,2 0 -;M 4 0 0 4 1 0 1,2;M 4 2 1 5 1 1 -;Q 0 1;Q 0 2;Q 1 1",
            # UPDATEs that fail to parse in ONE half (a 200-bit NLRI inside MP_UNREACH_NLRI next to a conventional announcement of
            # 10.9.8.0/24 and 10.9.9.0/24 ... inside MP_REACH_NLRI next to a conventional withdrawal of 10.9.9.0/24) change nothing
            "F p;MB 4 0 ffffffffffffffffffffffffffffffff003302000000144001010040020602010000fde9400304c0000201180a0908180a0909;MB 4 0 ffffffffffffffffffffffffffffffff003f02000000244001010040020602010000fde9400304c0000201800f0d0002014020010db800000001c8180a0908;MB 4 0 ffffffffffffffffffffffffffffffff004a020004180a0909002f4001010040020602010000fde9800e1f0002011020010db8000000000000000000000001004020010db800000001c8;M 4 0 0 4 1 0 -;QX 0 24/0a0908;QX 0 24/0a0909;Q 0 1"]


def nontrivial(case, out):
    return any(t.startswith("q:") and ("," in t or "=W" in t) for t in out.split())


def corpus():
    return [
        # fixed C01-1: one UPDATE withdrawing and announcing the same prefix ended withdrawn
        "C 0;I 0;U 0 0 0;R 0 0 0 3 1 0 -;R 0 0 0 4 1 0 1;Q 0 1",
        "O 0;A 0 0 1 1,2 0 -;A 0 0 2 2 0 1,2;Q 0 1;Q 0 2",
        "C 0;I 0;U 0 0 0;U 0 5 0;R 0 0 0 1 1,2 0 -;R 0 5 0 2 1 0 -;B 0 0;R 0 0 0 3 - 0 2;Q 0 1;Q 0 2",
    ]


ENGINES = [{"name": "pipe", "gen": gen, "corpus": corpus, "nontrivial": nontrivial, "classify": pipegen.classify, "shards": 12},
           {"name": "c16", "gen": gen_mrt, "corpus": corpus_mrt, "nontrivial": nontrivial_mrt, "classify": classify_mrt, "shards": 8, "timeout": 1500}]
from props.e2e_common import e2e_engine
ENGINES.append(e2e_engine("C01"))   # the same histories against a real pipeline over TCP/HTTP
known_signature = known_signature_for(set())
LEVEL_TEXT = ("Theorem over all update histories of the RIB model: what a query shows for (family, prefix, source) is the last event of that source for "
              "that prefix (exact characterisation including the sticky session-wide withdrawal), one entry per source, overlap ends announced, an "
              "unparsable UPDATE changes nothing, frame. Kernel-checked, axiom-free; tied to the real state machine + RIB unit + store by generated "
              "histories of real BMP/BGP bytes whose RIB answers are compared with the model and with the property's own reading (an ideal RIB keyed "
              "by wire identity). UPDATEs taken from the wire are interpreted by C04's decoder inside the pipeline model (injective numbering of wire "
              "prefixes, one payload per route event, an UPDATE that does not decode is a no-op), all four families.")
DESIGN_REF = "DESIGN.md section 6, C01"
LEVEL_NOTE = ("Trusted: Coq kernel, extraction + OCaml driver, Rust harness. The end-to-end statement (wire identity level) is proved on the pipeline model "
              "(Pipe/PipeCompose.v, C01_pipeline_refines_ideal / C01_pipeline_rib_answer: every history below the u32 id counter with BMP router keys below "
              "1000 and announced families below 4, outside the classes of known findings C02-1 and C03-1) and is checked on the implementation by the "
              "correspondence engine against the executable spec.")
TECHNIQUE = "Coq proof by induction over update histories (refinement to a last-event spec) + model/implementation correspondence"
