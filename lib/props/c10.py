"""C10 — a Roto filter's verdict is honoured and its predicates mean what they say."""
import os
import sys

sys.path.insert(0, os.path.dirname(os.path.dirname(os.path.abspath(__file__))))
import vcommon as V  # noqa: E402

PROPS_FILE = "Props_C10.v"
RULE = ("filter programs drawn from a grammar over the registered methods (nested if/else to depth 3, and/or/not, "
        "let-bound constants of every literal type, all six log methods, early accept/reject) over small shared pools "
        "of AS numbers, communities, attribute codes and prefixes, so predicates hit often; each program is compiled "
        "by roto from its printed source and run on 6-12 generated routes / UPDATEs / BMP messages (c10), on UPDATE "
        "streams through the real RIB unit (c10rib; routes with a Fresh and with an Mrt context), on scripted BGP sessions through the real Processor::process and on real "
        "BGP sessions over loopback TCP with peers of several ASes (c10bgp) and on BMP sessions with all seven RFC 7854 message types through the real router handler "
        "(c10bmp, with the handler's received / processed / invalid counters); nearly half of the bmp-in / bgp-in programs start with a clause on prov.peer_asn() "
        "so that verdict and output depend on the provenance the call site hands over; a "
        "case is non-trivial when its inputs get both verdicts or at least one output entry; distinct = distinct case text")
TRUSTED_BASE = [
    "Coq 8.16.1 kernel (coqc; coqchk in thorough); no native_compute",
    "extraction with ExtrOcamlBasic only; OCaml driver oracle/{conv,c10lib,eng_c10,eng_c10rib,eng_c10bgp,eng_c10bmp,oracle}.ml",
    "Rust harness engines c10/c10rib/c10bgp/c10bmp: print Roto source from the program text, compile it with roto 0.4.0 against "
    "create_runtime() through a file as the manager does (facade rotonda::verif::filter), build UPDATE / BMP bytes, call the "
    "typed functions as the units do, drive the real RibUnitRunner::process_update (filter installed with the guarded setter) "
    "the real bgp Processor::process session loop and the real bmp RouterHandler::process_msg, capture the gate output with a direct-update link; "
    "c10bmp builds Route Mirroring octets itself (common header type 6, the per-peer header octets of the test encoder, one TLV) and reads the handler's "
    "counters from the Prometheus text of its metrics (harness reader promtext); c10bgp plays a BGP peer over loopback TCP (OPEN with or without the "
    "4-octet capability, KEEPALIVE, UPDATEs, FIN) against the real handle_connection (hook verif_connection_filtered::start_filtered)",
    "modelled, not verified: src/roto_runtime/{runtime,types}.rs, the call sites in rib_unit/unit.rs, "
    "bmp_tcp_in/router_handler.rs, bgp_tcp_in/router_handler.rs; roto's compiler and routecore's parsers are exercised, not modelled",
]
ASSUMPTIONS = [
    "the Roto fragment is the one of the grammar (no match, no records/lists, no string methods, no LogEntry builder)",
    "IPv4 unicast on the byte level; attribute sets are those the harness encoder writes (ORIGIN, AS_PATH with sequences and sets, "
    "NEXT_HOP, MED, LOCAL_PREF, ATOMIC_AGGREGATE, COMMUNITIES, LARGE_COMMUNITIES, OTC, one unknown type)",
    "the bgp-in call site is driven through a scripted session (guarded hook): established session with routecore's NegotiatedConfig::dummy(), "
    "the UPDATEs of the case, then connection lost; the BGP FSM and the TCP side are not exercised",
    "contains_large_community cannot be reached from a script: create_runtime registers no way to make a LargeCommunity value",
    "real BGP sessions (c10bgp, op A): one session per case, the peer configured by address with any AS, no timers fire within a case; the session ends "
    "with the peer's FIN, which routecore queues behind the UPDATEs it has handed over (the loop handles them in order)",
    "Route Mirroring is to the session state machine what a Statistics Report is (ignored while dumping / updating, invalid before Initiation and after "
    "Termination); its TLVs are not looked at by anything in rotonda",
]

ASNS = [65001, 65002, 65003, 64512, 174, 4200000001, 12345]
ASNS16 = [65001, 65002, 65003, 64512, 174, 12345]
COMMS = [0xFFFF029A, 0xFFFFFF01, (65001 << 16) | 100, 7, (174 << 16) | 666]
LCOMMS = ["65001:1:2", "4200000001:0:9", "174:3:3"]
EXTRA = [4, 5, 6, 35, 99]
CODES = [1, 2, 3, 4, 5, 6, 8, 32, 35, 99, 14]


def pfx(a, b, c, d, l):
    return (((a << 24) | (b << 16) | (c << 8) | d) << 6) | l


PFXS = [pfx(10, 1, 0, 0, 16), pfx(10, 2, 0, 0, 16), pfx(185, 49, 141, 0, 24), pfx(10, 1, 0, 0, 24), pfx(0, 0, 0, 0, 0),
        pfx(192, 0, 2, 128, 25)]
TYPES = {"asn": ASNS, "com": COMMS, "u8": CODES, "u32": [0, 1, 5, 9, 4000000000], "pfx": PFXS}


def arg(rng, ty, env):
    cands = [i for i, t in enumerate(env) if t == ty]
    if cands and rng.chance(55):
        return "$%d" % rng.choice(cands)
    return "#%d" % rng.choice(TYPES[ty])


def gen_pred(rng, kind, env):
    ps = [("asc", 20), ("aso", 15), ("com", 15), ("att", 15)]
    if kind == "rib":
        ps += [("pfx", 25)]
    else:
        ps += [("pasn", 12), ("nann", 8), ("nwd", 6)]
    if kind == "bmp":
        ps += [("ibgp", 10), ("rm", 8), ("pd", 8)]
    p = rng.weighted(ps)
    if p in ("asc", "aso", "ibgp", "pasn"):
        return [p, arg(rng, "asn", env)]
    if p == "com":
        return [p, arg(rng, "com", env)]
    if p == "att":
        return [p, arg(rng, "u8", env)]
    if p == "pfx":
        return [p, arg(rng, "pfx", env)]
    if p in ("nann", "nwd"):
        return [p, rng.choice(["eq", "ne", "lt", "le", "gt", "ge"]), str(rng.below(4))]
    return [p]


def gen_cond(rng, kind, env, depth):
    k = rng.weighted([("pred", 50), ("not", 12 if depth else 0), ("and", 14 if depth else 0), ("or", 14 if depth else 0),
                      ("t", 3), ("f", 3)])
    if k == "pred":
        return gen_pred(rng, kind, env)
    if k in ("t", "f"):
        return [k]
    if k == "not":
        return ["not"] + gen_cond(rng, kind, env, depth - 1)
    return [k] + gen_cond(rng, kind, env, depth - 1) + gen_cond(rng, kind, env, depth - 1)


def gen_ocall(rng, env, peerdown):
    k = rng.weighted([("prefix", 18), ("asn", 18), ("origin", 18), ("comm", 18), ("custom", 18), ("peerdown", peerdown)])
    if k == "prefix":
        return [k, arg(rng, "pfx", env)]
    if k in ("asn", "origin"):
        return [k, arg(rng, "asn", env)]
    if k == "comm":
        return [k, arg(rng, "com", env)]
    if k == "custom":
        return [k, arg(rng, "u32", env), arg(rng, "u32", env)]
    return [k]


def gen_block(rng, kind, env, depth, mode, budget, peerdown):
    """One block in prefix notation. mode: 'ret' = every path must end in accept/reject (the filter body, and both
    sides of an if/else that ends such a body); 'any' = statement context, may end in a verdict; 'nodiv' = statement
    context in which roto's type checker must not see a return: roto 0.4.0 calls an if/ELSE diverging as soon as ONE
    side returns and rejects any statement after it as unreachable, so an if/else that is followed by something has
    'nodiv' sides (an if without else never counts as diverging, its block is free)."""
    def cond():
        return gen_cond(rng, kind, env, 2)

    def sub(m, d=depth - 1):
        return gen_block(rng, kind, env, d, m, rng.below(3), peerdown)
    if budget <= 0:
        if mode == "ret":
            if depth > 0 and rng.chance(60):
                return ["if"] + cond() + sub("ret") + sub("ret") + ["end"]
            return ["ret", rng.choice(["A", "R"])]
        if mode == "any":
            k = rng.weighted([("end", 60), ("ret", 25), ("ifelse", 15 if depth > 0 else 0)])
            if k == "ret":
                return ["ret", rng.choice(["A", "R"])]
            if k == "ifelse":
                # both sides return: roto 0.4.0 mis-lowers an if/else of which only one side returns
                # (cranelift verifier panic at compile time), so that shape is never generated
                return ["if"] + cond() + sub("ret") + sub("ret") + ["end"]
        return ["end"]
    k = rng.weighted([("out", 40), ("let", 22), ("if", 38 if depth > 0 else 0)])
    if k == "out":
        return ["out"] + gen_ocall(rng, env, peerdown) + gen_block(rng, kind, env, depth, mode, budget - 1, peerdown)
    if k == "let":
        ty = rng.choice(["asn", "com", "u8", "u32", "pfx"])
        return ["let", ty, str(rng.choice(TYPES[ty]))] + gen_block(rng, kind, env + [ty], depth, mode, budget - 1, peerdown)
    if rng.chance(50):
        head = ["if"] + cond() + sub("any") + ["end"]
    else:
        head = ["if"] + cond() + sub("nodiv") + sub("nodiv")
    return head + gen_block(rng, kind, env, depth, mode, budget - 1, peerdown)


def gen_prog(rng, kind, peerdown):
    return " ".join(gen_block(rng, kind, [], 3, "ret", rng.range(1, 5), peerdown))


def prov_clause(rng, asns):
    """A leading statement whose effect depends on prov.peer_asn() only: an else-less `if` (never 'diverging' for
    roto 0.4.0) on the peer AS - or on its negation - that logs and/or returns. With it in front, verdict AND output
    of the filter depend on the provenance the call site hands over, whatever the message is."""
    a = "#%d" % rng.choice(asns)
    cond = ["pasn", a] if rng.chance(75) else ["not", "pasn", a]
    outs = []
    for _ in range(rng.below(3)):
        outs += ["out"] + rng.choice([["asn", a], ["custom", "#%d" % rng.choice(TYPES["u32"]), "#%d" % rng.choice(TYPES["u32"])],
                                      ["origin", a]])
    k = rng.weighted([("ret", 70), ("log", 30)])
    if k == "log" and not outs:
        outs = ["out", "asn", a]
    tail = ["ret", rng.choice(["R", "R", "A"])] if k == "ret" else ["end"]
    return " ".join(["if"] + cond + outs + tail + ["end"])


def gen_attrs(rng, legacy=False):
    if rng.chance(12):
        path = "-"
    elif legacy:
        path = "s" + ".".join(str(rng.choice(ASNS16)) for _ in range(rng.range(1, 4)))
    else:
        segs = []
        for _ in range(rng.range(1, 3)):
            segs.append(("t" if rng.chance(18) else "s") + ".".join(str(rng.choice(ASNS)) for _ in range(rng.range(1, 4))))
        path = "+".join(segs)
    comms = ".".join(str(rng.choice(COMMS)) for _ in range(rng.below(4))) or "-"
    lcomms = ".".join(rng.choice(LCOMMS) for _ in range(rng.below(3))) if rng.chance(30) else "-"
    lcomms = lcomms or "-"
    extra = ".".join(str(c) for c in EXTRA if rng.chance(25)) or "-"
    return "/".join([path, comms, lcomms, extra])


def gen_input(rng, kind):
    if kind == "rib":
        return "R %d %s" % (rng.choice(PFXS), gen_attrs(rng))
    if kind == "bgp":
        return "G %d %s %d %d" % (rng.choice(ASNS), gen_attrs(rng), rng.below(4), rng.below(3))
    k = rng.weighted([("rm", 52), ("pd", 10), ("pu", 8), ("stats", 9), ("mirror", 9), ("init", 6), ("term", 6)])
    if k == "rm":
        legacy = rng.chance(25)
        return "M rm %d %d %s %d %d" % (rng.choice(ASNS16 if legacy else ASNS), 1 if legacy else 0, gen_attrs(rng, legacy),
                                        rng.below(4), rng.below(3))
    asn = 0 if k in ("init", "term") else rng.choice(ASNS)
    return "M %s %d 0 -/-/-/- 0 0" % (k, asn)


def gen_c10(rng, tier):
    n = 1800 if tier == "quick" else 30000
    for i in range(n):
        kind = ["rib", "bgp", "bmp"][i % 3]
        prog = gen_prog(rng, kind, peerdown=8)
        if kind != "rib" and rng.chance(30):
            prog = prov_clause(rng, ASNS + [0]) + " " + prog
        ins = [gen_input(rng, kind) for _ in range(rng.range(6, 12))]
        yield ";".join(["F %s %s" % (kind, prog)] + ins)


def nontrivial_c10(case, out):
    toks = out.split()
    return (any(t.startswith("A[") for t in toks) and any(t.startswith("R[") for t in toks)) or any("[]" not in t for t in toks)


def classify_c10(case, out):
    ks = [case.split()[1]]
    full = case
    case = case.split(";")[0] + " "
    toks = out.split()
    if any(t.startswith("A[") for t in toks) and any(t.startswith("R[") for t in toks):
        ks.append("both-verdicts")
    if any(not t.endswith("[]") for t in toks):
        ks.append("has-output")
    if " let " in case:
        ks.append("let")
    if case.count(" if ") >= 3:
        ks.append("if>=3")
    for w in ("asc", "aso", "com", "att", "pfx", "ibgp", "pasn", "nann", "nwd", " rm ", " pd ", "peerdown"):
        if " " + w.strip() + " " in case:
            ks.append("uses-" + w.strip())
    if " 1 s" in full and case.startswith("F bmp"):
        ks.append("legacy-as-input")
    return ks


def corpus_c10():
    P = PFXS[2]
    return [
        # the packaged example filters (etc/examples/filters.roto.example)
        "F rib let u8 35 let pfx %d if pfx $1 out prefix $1 end end if att $0 ret A ret R end;R %d s65001.65002/7/-/35;R %d s65001/-/-/-;R %d s65001/-/-/35"
        % (P, P, P, PFXS[0]),
        "F bgp let asn 65536 let com 4294902426 if aso $0 out origin $0 end end if com $1 out comm $1 end end ret A;"
        "G 65001 s65001.65536/4294902426/-/- 1 0;G 65001 s65536.65001/7/-/- 2 1;G 65001 -/-/-/- 0 2",
        "F bmp let asn 12345 let asn 65536 let com 4294902426 if pd out peerdown end end if ibgp $0 ret R if asc $1 out asn $1 end end if com $2 out comm $2 end end ret A end;"
        "M pd 65001 0 -/-/-/- 0 0;M rm 12345 0 s65536/-/-/- 1 0;M rm 65001 0 s65001.65536/4294902426/-/- 1 0;M init 0 0 -/-/-/- 0 0;M rm 65001 0 s65001/-/-/- 0 2",
        # peer_asn / is_ibgp on every message type, Route Mirroring included
        "F bmp if pasn #12345 out asn #12345 ret R end if ibgp #65001 out custom #1 #1 end end ret A;M stats 12345 0 -/-/-/- 0 0;"
        "M mirror 12345 0 -/-/-/- 0 0;M mirror 65001 0 -/-/-/- 0 0;M pd 12345 0 -/-/-/- 0 0;M pu 12345 0 -/-/-/- 0 0;M init 0 0 -/-/-/- 0 0;"
        "M term 0 0 -/-/-/- 0 0;M rm 12345 0 s65001/-/-/- 1 0;M stats 65001 0 -/-/-/- 0 0",
        # the refuted lemma: AS-path predicate of a bmp-in filter on a 2-octet peer's message
        "F bmp if asc #65001 ret R end ret A;M rm 65002 1 s65001.65002/-/-/- 1 0;M rm 65002 0 s65001.65002/-/-/- 1 0",
        # AS_SET as origin, empty path, attribute codes
        "F rib if aso #65002 ret A if asc #65002 ret R ret A end end;R %d s65001+t65002.65003/-/-/-;R %d s65001.65002/-/-/-;R %d -/-/-/99"
        % (PFXS[0], PFXS[0], PFXS[1]),
    ]


def gen_c10rib(rng, tier):
    n = 1000 if tier == "quick" else 20000
    for _ in range(n):
        prog = "none" if rng.chance(8) else gen_prog(rng, "rib", peerdown=6)
        ops = ["F rib %s" % prog]
        tag = 1
        pool = [rng.choice(PFXS) for _ in range(3)]
        for _ in range(rng.range(3, 9)):
            ann = sorted({rng.choice(pool) for _ in range(rng.below(4))})
            wd = sorted({rng.choice(pool) for _ in range(rng.below(3))} - set(ann)) if rng.chance(40) else []
            ops.append("U %d %d %s %s %s" % (rng.range(1, 3), tag, gen_attrs(rng), ",".join(map(str, ann)) or "-",
                                             ",".join(map(str, wd)) or "-"))
            tag += 1
            if rng.chance(18):
                # a route of an MRT table dump (mrt-file-in): Update::Single, provenance in an MrtContext
                ops.append("M %d %d %s %d" % (rng.range(1, 3), tag, gen_attrs(rng), rng.choice(pool)))
                tag += 1
            if rng.chance(50):
                ops.append("Q %d" % rng.choice(pool))
        for p in sorted(set(pool)):
            ops.append("Q %d" % p)
        yield ";".join(ops)


def nontrivial_rib(case, out):
    toks = out.split()
    fw = [t for t in toks if t.startswith("fwd:")]
    return any(t != "out:[]" for t in toks if t.startswith("out:")) or (any(t == "fwd:[]" for t in fw) and any(t != "fwd:[]" for t in fw))


def classify_rib(case, out):
    ks = ["no-filter" if case.startswith("F rib none") else "filter"]
    toks = out.split()
    fw = [t for t in toks if t.startswith("fwd:")]
    if any(t == "fwd:[]" for t in fw):
        ks.append("all-rejected-update")
    if any(("+" in t or "-1" in t) and t != "fwd:[]" for t in fw):
        ks.append("forwarded")
    n_in = sum(len(o.split()[4].split(",")) for o in case.split(";") if o.startswith("U ") and o.split()[4] != "-")
    n_fw = sum(t.count("+") for t in fw)
    if 0 < n_fw < n_in:
        ks.append("partly-filtered")
    if any(t.startswith("out:[") and t != "out:[]" for t in toks):
        ks.append("has-output")
    if any("W" in t for t in toks if t.startswith("q:")):
        ks.append("withdrawn-in-rib")
    if any(o.startswith("M ") for o in case.split(";")):
        ks.append("mrt-context-route")
    return ks


def corpus_c10rib():
    P, P2 = PFXS[0], PFXS[3]
    return [
        # the refuted lemma: log_peer_down at the rib unit
        "F rib out peerdown out custom #1 #2 ret A;U 1 5 s65002/-/-/- %d -;Q %d" % (P, P),
        # reject leaves the earlier route in place; withdrawals (no attributes) pass a has_attribute filter or not
        "F rib if asc #65001 out asn #65001 ret R end out custom #1 #2 if pfx #%d out prefix #%d end end ret A;"
        "U 1 5 s65002/-/-/- %d,%d -;U 1 6 s65001/-/-/- %d -;U 2 7 s65003/7/-/- - %d;Q %d;Q %d;U 1 8 -/-/-/- - %d,%d;Q %d;Q %d"
        % (P, P, P, P2, P, P, P, P2, P, P2, P, P2),
        "F rib none;U 1 5 s65002/-/-/- %d,%d -;Q %d" % (P, P2, P),
        # routes of an MRT table dump (RouteContext::Mrt): filtered, logged with their own ingress id, stored
        "F rib if asc #65001 out asn #65001 ret R end out custom #1 #2 ret A;M 1 5 s65002/-/-/- %d;M 2 6 s65001/-/-/- %d;M 2 7 s65003/-/-/- %d;"
        "U 1 8 s65003/-/-/- %d -;Q %d" % (P, P, P, P, P),
        "F rib if att #35 ret A ret R end;U 1 1 s65001/-/-/35 %d -;U 1 2 s65001/-/-/- %d -;U 1 3 s65001/-/-/35 - %d;Q %d;Q %d" % (P, P2, P, P, P2),
    ]


def gen_c10bmp(rng, tier):
    n = 1000 if tier == "quick" else 20000
    for _ in range(n):
        prog = "none" if rng.chance(8) else gen_prog(rng, "bmp", peerdown=12)
        if prog != "none" and rng.chance(65):
            # session messages pass, so that the session gets far enough for the filter to matter on routes
            prog = "if not or rm pd ret A end " + prog
        if prog != "none" and rng.chance(45):
            # verdict and output depend on the provenance: the peer AS of one of the three peers, AS0 (what a
            # message without per-peer header carries), or an AS nobody has
            prog = prov_clause(rng, [65001, 65001, 65002, 174, 174, 0, 12345]) + " " + prog
        ops = ["F bmp %s" % prog, "I"] if rng.chance(92) else ["F bmp %s" % prog]
        tag = 1
        pool = [rng.choice(PFXS) for _ in range(3)]
        up = set()
        for _ in range(rng.range(4, 12)):
            k = rng.weighted([("U", 20), ("R", 40), ("D", 10), ("S", 10), ("X", 10), ("I", 4), ("T", 4)])
            if k in ("I", "T"):
                ops.append(k)
                continue
            peer = rng.below(3)
            if k == "R" and up and rng.chance(85):
                peer = rng.choice(sorted(up))
            if k == "U":
                up.add(peer)
            if k == "D":
                up.discard(peer)
            if k == "R":
                ann = sorted({rng.choice(pool) for _ in range(rng.below(4))})
                wd = sorted({rng.choice(pool) for _ in range(rng.below(3))} - set(ann)) if rng.chance(40) else []
                ops.append("R %d %d %s %s %s" % (peer, tag, gen_attrs(rng, legacy=(peer == 1)), ",".join(map(str, ann)) or "-",
                                                 ",".join(map(str, wd)) or "-"))
                tag += 1
            else:
                ops.append("%s %d" % (k, peer))
        yield ";".join(ops)


def nontrivial_bmp(case, out):
    toks = out.split()
    return any(t.startswith("out:[") and t != "out:[]" for t in toks) or any(t.startswith("upd:[") and t != "upd:[]" for t in toks)


def classify_bmp(case, out):
    ks = ["no-filter" if case.startswith("F bmp none") else "filter"]
    toks = out.split()
    if any(t.startswith("upd:[+") or t.startswith("upd:[-") for t in toks):
        ks.append("routes-forwarded")
    if any(t.startswith("upd:[w#") for t in toks):
        ks.append("peer-down-withdraw")
    if any(t.startswith("upd:[W#") for t in toks):
        ks.append("termination-withdraw")
    if any(t.startswith("out:[") and t != "out:[]" for t in toks):
        ks.append("has-output")
    if "ph:0" in toks[-1:]:
        ks.append("never-initiated")
    if any(t == "ph:2" for t in toks):
        ks.append("reached-updating")
    if any(o.startswith("R 1 ") for o in case.split(";")):
        ks.append("legacy-peer-route")
    if any(o.startswith("S ") for o in case.split(";")):
        ks.append("statistics-report")
    if any(o.startswith("X ") for o in case.split(";")):
        ks.append("route-mirroring")
    if " pasn " in case.split(";")[0]:
        ks.append("reads-provenance")
        # a per-peer message the state machine ignores whose output shows what the filter made of the provenance
        ops = case.split(";")[1:]
        for k, o in enumerate(ops):
            if o[:2] in ("S ", "X ") and 4 * k < len(toks) and toks[4 * k] != "out:[]":
                ks.append("provenance-output-on-stats-or-mirror")
                break
    return ks


def corpus_c10bmp():
    P, P2 = PFXS[0], PFXS[3]
    return [
        # the refuted lemma on the real unit: peer 1 has no 4-octet capability
        "F bmp if asc #65001 ret R end ret A;I;U 1;R 1 7 s65001.65003/-/-/- %d -" % P,
        "F bmp if pd out peerdown end end if asc #65001 out asn #65001 ret R end ret A;I;U 0;U 1;R 0 5 s65001.65003/-/-/- %d -;"
        "R 0 6 s65003/-/-/- %d -;R 1 7 s65001.65003/-/-/- %d -;R 1 8 s65003/-/-/- %d %d;S 0;D 1;R 1 9 s65003/-/-/- %d -;T;S 0"
        % (P, P2, P, P2, P, P2),
        "F bmp none;I;U 0;U 1;R 0 5 s65001.65003/-/-/- %d -;R 1 7 s65001.65003/-/-/- %d -;D 0;T" % (P, P),
        # a filter that rejects the Initiation message: the session never leaves Initiating
        "F bmp if rm ret A end ret R;I;U 0;R 0 5 s65001.65003/-/-/- %d -" % P,
        # log_peer_down on a message that is not a Peer Down Notification
        "F bmp out peerdown ret A;I;U 0;D 0",
        # "reject and log everything about AS65001": every message type about the peer, Statistics Report and Route
        # Mirroring included, is logged and kept from the state machine (processed counter); other peers' pass
        "F bmp let asn 65001 if pasn $0 out asn $0 ret R ret A end;I;U 0;U 2;R 0 5 s65001.65003/-/-/- %d -;S 0;X 0;S 2;X 2;D 0;D 2;T" % P,
        # messages without a per-peer header carry the connection's provenance: AS0
        "F bmp if pasn #0 out custom #1 #2 end end if pasn #174 out custom #5 #9 ret R end ret A;I;S 2;X 2;S 0;X 1;T",
        # Statistics Report / Route Mirroring before Initiation: invalid for the state machine if the filter lets them through
        "F bmp if pasn #65002 ret R end ret A;S 1;X 1;S 0;X 0;I;X 0",
    ]


def gen_c10bgp(rng, tier):
    n = 800 if tier == "quick" else 16000
    for _ in range(n):
        prog = "none" if rng.chance(8) else gen_prog(rng, "bgp", peerdown=6)
        # one case in four is a REAL session (loopback TCP, routecore's FSM): a peer of some AS - 2-octet with or
        # without the 4-octet capability, 4-octet, the unit's own AS (iBGP) - so that the provenance comes from what
        # the session negotiated; the others use the scripted session (NegotiatedConfig::dummy(), AS12345)
        real = rng.chance(25)
        peer = rng.choice([65001, 174, 65000, 4200000001, 4200000001, 12345, 64512, 23456]) if real else 12345
        four = 1 if peer >= 65536 or rng.chance(60) else 0
        if prog != "none" and rng.chance(60 if real else 45):
            # verdict and output depend on the session's provenance: the peer's AS, the unit's own AS (65000), AS0,
            # AS_TRANS, an AS of the pools
            prog = prov_clause(rng, [peer, peer, peer, 65000, 0, 23456, 65001, 174]) + " " + prog
        ops = ["F bgp %s" % prog] + (["A %d %d" % (peer, four)] if real else [])
        pool = [rng.choice(PFXS) for _ in range(3)]
        for tag in range(1, rng.range(2, 7)):
            ann = sorted({rng.choice(pool) for _ in range(rng.below(4))})
            wd = sorted({rng.choice(pool) for _ in range(rng.below(3))} - set(ann)) if rng.chance(40) else []
            ops.append("G %d %s %s %s" % (tag, gen_attrs(rng, legacy=(real and not four)), ",".join(map(str, ann)) or "-",
                                          ",".join(map(str, wd)) or "-"))
        yield ";".join(ops)


def nontrivial_bgp(case, out):
    return "O[" in out or ("U[" in out and out.count("U[") < case.count(";G "))


def classify_bgp(case, out):
    ks = ["no-filter" if case.startswith("F bgp none") else "filter"]
    nu, ng = out.count("U["), case.count(";G ")
    if ";A " in case:
        ks.append("real-session")
        ks.append("real-session:" + ("as4-peer" if int(case.split(";")[1].split()[1]) >= 65536 else
                                     "as2-peer-with-capability" if case.split(";")[1].split()[2] == "1" else "as2-peer"))
    ks.append("all-accepted" if nu == ng else "all-rejected" if nu == 0 else "some-rejected")
    if "O[" in out:
        ks.append("has-output")
    if "O[]" in out:
        ks.append("empty-output-stream-update")
    if " pasn " in case.split(";")[0]:
        ks.append("reads-provenance")
    for o in case.split(";")[1:]:
        f = o.split()
        if f[0] == "G":
            ks.append("update:" + ("empty" if f[3] == "-" and f[4] == "-" else "withdraw-only" if f[3] == "-" else
                                   "announce-only" if f[4] == "-" else "both"))
    return sorted(set(ks))


def corpus_c10bgp():
    P, P2 = PFXS[0], PFXS[3]
    return [
        "F bgp if pasn #12345 out custom #1 #1 end end if asc #65001 out asn #65001 out peerdown ret R end ret A;"
        "G 5 s65001.65003/-/-/- %d -;G 6 s65003/-/-/- %d,%d -;G 7 -/-/-/- - %d" % (P, P2, P, P),
        "F bgp none;G 5 s65001.65003/-/-/- %d -" % P,
        # "reject and log everything from AS12345" / from the unit's own AS: every kind of UPDATE of the session
        # (announcements, withdrawals only, both, none) gets the verdict of the session's peer AS
        "F bgp if pasn #65000 out custom #9 #9 ret R end let asn 12345 if pasn $0 out asn $0 ret R ret A end;"
        "G 5 s65001.65003/-/-/- %d -;G 6 -/-/-/- - %d;G 7 s65003/-/-/- %d %d;G 8 -/-/-/- - -" % (P, P, P2, P),
        # real sessions: a 4-octet AS peer (My AS = AS_TRANS, the AS in the capability), a 2-octet peer without the
        # capability (AS_PATH with 2-octet AS numbers), a peer of the unit's own AS
        "F bgp if pasn #23456 out custom #2 #3 end end let asn 4200000001 if pasn $0 out asn $0 ret R ret A end;A 4200000001 1;"
        "G 5 s4200000001.65003/-/-/- %d -;G 6 -/-/-/- - %d;G 8 -/-/-/- - -" % (P, P),
        "F bgp if asc #65003 out asn #65003 end end if pasn #174 out custom #1 #1 ret A end ret R;A 174 0;G 5 s174.65003/-/-/- %d -;G 6 s174/7/-/- %d %d" % (P, P2, P),
        "F bgp if pasn #65000 out custom #9 #9 ret R end ret A;A 65000 1;G 5 s65001.65003/-/-/- %d -" % P,
        "F bgp none;A 65001 1;G 5 s65001.65003/-/-/- %d -;G 6 -/-/-/- - %d" % (P, P),
        "F bgp if not pasn #12345 out custom #1 #1 ret R end ret A;G 5 s65001.65003/-/-/- %d -;G 6 -/-/-/- - %d;G 8 -/-/-/- - -" % (P, P),
        "F bgp let asn 65536 let com 4294902426 if aso $0 out origin $0 end end if com $1 out comm $1 end end ret A;"
        "G 1 s65001.65536/4294902426/-/- %d -;G 2 s65536.65001/7/-/- %d %d" % (P, P2, P),
    ]


def known_signature(k, engine, case, mo, spec, im):
    """A failing (minimised) case belongs to a recorded finding iff every token where the implementation departs from the
    property's answer agrees with the model and is explained by the recorded classes, and the finding's own class is
    among the classes that explain it."""
    if k.get("engine", engine) not in (engine, "*"):
        return False
    if not V.explained_by(mo, spec, im, {k.get("class")} | set(k.get("also", []))):
        return False
    used = set()
    for a, b, c in zip(spec.split(), im.split(), V.classes_of(mo, spec).split()):
        if not V.tokens_match(a, b):
            used.add(c)
    return any(k.get("class") in u for u in used)


ENGINES = [
    {"name": "c10", "gen": gen_c10, "corpus": corpus_c10, "nontrivial": nontrivial_c10, "classify": classify_c10, "shards": 4},
    {"name": "c10rib", "gen": gen_c10rib, "corpus": corpus_c10rib, "nontrivial": nontrivial_rib, "classify": classify_rib, "shards": 4},
    {"name": "c10bgp", "gen": gen_c10bgp, "corpus": corpus_c10bgp, "nontrivial": nontrivial_bgp, "classify": classify_bgp, "shards": 4,
     "shrink": True},
    {"name": "c10bmp", "gen": gen_c10bmp, "corpus": corpus_c10bmp, "nontrivial": nontrivial_bmp, "classify": classify_bmp, "shards": 4},
]

from props.e2e_common import e2e_engine, E2E_TRUSTED   # noqa: E402
# which script a unit's filter comes from: a real pipeline (Manager, bmp-tcp-in, rib units, HTTP) started with a roto_script, the
# script edited / renamed / removed, reloads that start a second RIB unit; RIB answers over HTTP (design-notes/E2E.md)
ENGINES.append(e2e_engine("C10"))
TRUSTED_BASE.append(E2E_TRUSTED)

LEVEL_TEXT = ("Theorems over ALL filter functions, units and renderings for the three call sites (reject is a no-op, accept equals the "
              "unfiltered unit, no filter accepts, outputs leave once, in call order, ahead of the message's own effect), over all "
              "programs of a deep embedding of the Roto fragment (verdict totality, entries = calls on the path taken, predicate "
              "characterisations), kernel-checked, axiom-free; two departures of the code from the property proved as _refuted "
              "lemmas with _partial theorems; model tied to the code by running generated programs, compiled by roto, against the evaluator.")
DESIGN_REF = "DESIGN.md section 6, C10"
LEVEL_NOTE = ("Trusted: Coq kernel, ExtrOcamlBasic extraction + OCaml driver, Rust harness (program printer, byte encoders) and generators. "
              "roto's compiler and routecore's parsers are on the implementation side of the diff, not modelled.")
TECHNIQUE = "Coq proof over a deep embedding (structural induction on programs, parametric call-site theorems) + model/implementation correspondence"
