"""C11 — RIB HTTP answers match what is stored, incl. more/less specifics and filters."""
import os
import sys
sys.path.insert(0, os.path.dirname(os.path.dirname(os.path.abspath(__file__))))
import vcommon as V

PROPS_FILE = "Props_C11.v"
RULE = ("RIB populations built from nested and sibling prefix families (random walks below a random root, v4 and v6, lengths on and off the "
        "store's stride boundaries, host routes), 2-4 peers (registered with/without remote AS, unregistered), active / withdrawn / session-lost "
        "routes, a share of cases with multicast routes; 4-10 GET queries per case over the parameter grammar (include, details, select/discard "
        "with as_path / peer_as / community, filter_op, sort, format; valid, invalid, duplicated, unknown, bracket and percent-encoding quirks; "
        "~70% of the announcements carry 1-4 DIFFERENT community attributes (COMMUNITIES, EXTENDED, IPv6 extended, LARGE; 1-3 members each; in type-code order or shuffled, "
        "sometimes in front of ORIGIN), and ~70% of the cases get 2-5 queries whose filters have a chosen truth value for one stored route: a community out of its first / middle / last "
        "community attribute (first / last member; names, AS:tag, hex, rt:/ro:, large) or one it does not carry, its AS path or another, its peer AS or another, select and discard, any and all; "
        "configured limits; in ~45% of the cases 1-3 reconfigurations of the limits while the API object exists, each followed by a "
        "moreSpecifics query around the new limit); a case is non-trivial when at least one answer is a 200 with a non-empty section; distinct = distinct case text")
TRUSTED_BASE = [
    "Coq 8.16.1 kernel (coqc; coqchk in thorough); no native_compute",
    "extraction with ExtrOcamlBasic only; OCaml driver oracle/{conv,eng_ribquery,eng_ribqueryx,oracle}.ml",
    "Rust harness /verif/harness engines `ribquery` / `ribqueryx` (one implementation run; the oracle of ribqueryx expects the model's token where a recorded finding "
    "class explains a departure from the property, so any other disagreement is examined first): real RibUnitRunner::process_update fed by real bgp_tcp_in process_update on hand-made UPDATE bytes, "
    "real PrefixesApi::process_request built by PrefixesApi::new over the runner's own Arc<ArcSwap<QueryLimits>> (facade rotonda::verif::ribquery, feature verif-hooks; op R stores new limits into that cell as RibUnitRunner::run does on GateStatus::Reconfiguring - the run loop itself is not executed), hyper Request/Response in process",
    "modelled, not verified: src/units/rib_unit/http/{request,response,types}.rs, Rib::match_prefix, QueryLimits, src/http.rs query parameter helpers; "
    "rotonda-store 0.4.1 is modelled as a finite map + withdrawn-id set, its exact/less-specific answers as set comprehensions, its more-specifics "
    "iterator as the node-local procedure of NodeMoreSpecificChildIter; url::form_urlencoded as in C20; routecore/inetnum text parsers for AS numbers and communities",
]
ASSUMPTIONS = [
    "the textual form of the queried prefix is not modelled: a request carries address bits and a length, the harness renders them with std's Display; "
    "Prefix::from_str is taken to reject exactly a length beyond the family's and non-zero host bits",
    "community attributes of the populations are well-formed (length a multiple of the member size); a malformed one is C04's subject",
    "lossy UTF-8 conversion of decoded parameter text is the identity in the model (never creates or removes an ASCII byte, so no keyword or number is affected)",
    "community text: dotted-quad global administrators (rt:1.2.3.4:5) are not modelled and not generated; a non-ASCII filter value is refused before any parser sees it (request.rs), which the model reaches through the parsers refusing it",
    "the order of entries inside a section is not observed (sorted multiset); `sort` only reorders inside a one-element list in the code",
    "every announcement carries a unique MED, used as the identity of its attribute set in observations",
    "HTTP dispatch (method, path prefix, the 3-segment ingress-id query) belongs to C12 and is not part of the line protocol",
]

# 's' = an AS_SET segment, 'n' = the AS_SEQUENCE is cut here into two segments (invisible in the hops)
PATHS = ["-", "65001", "65001,65002", "65002,65001", "65001,s", "65001,65002,65003", "65002",
         "65001,n,65002", "65001,65002,n,65003", "65002,n,65001", "65001,n,65002,n,65003", "s,65001", "65001,s,65002", "65001,65002,s", "4200000001,65001"]
COMMS = ["-", "4259840100", "4259840100,4259840200", "4294967041", "4294902426", "4259840200"]
ASNS = ["65001", "65002", "65001", "-", "x"]

# ---- communities: (kind letter of the case grammar, octets as hex, the texts a filter can name it by; [] = no text reaches it)
# kind: s COMMUNITIES(8)  e EXTENDED COMMUNITIES(16)  x IPv6 extended(25)  l LARGE_COMMUNITY(32)
KIND_CODE = {"s": 8, "e": 16, "x": 25, "l": 32}
CPOOL = {
    "s": [("fde80064", ["65000:100", "AS65000:100", "0xFDE80064", "0xfde80064", "65000:0100"]),
          ("fde800c8", ["65000:200", "as65000:200", "0xFDE800C8"]),
          ("ffffff01", ["NO_EXPORT", "no_export", "NoExport", "65535:65281", "0xFFFFFF01", "AS65535:65281"]),
          ("ffffff02", ["NO_ADVERTISE", "noadvertise", "65535:65282", "0xffffff02"]),
          ("ffff029a", ["BLACKHOLE", "blackhole", "65535:666", "0xFFFF029A"]),
          ("ffffff04", ["NOPEER", "no_peer", "65535:65284"]),
          ("00000064", ["0:100", "0x64", "0x0000000000000064", "0x00000064"])],
    "e": [("0002fde800000064", ["rt:65000:100", "rt:AS65000:100", "0x0002FDE800000064", "0x" + "0" * 24 + "0002FDE800000064"]),
          ("0003fde800000064", ["ro:65000:100", "0x0003fde800000064"]),
          ("0202fa56ea010007", ["rt:4200000001:7", "rt:as4200000001:7", "0x0202FA56EA010007"]),
          ("0002fde8000000c8", ["rt:65000:200", "0x2FDE8000000C8"]),
          ("43020000000000ff", ["0x43020000000000FF"]),
          ("0000000000000064", [])],          # "0x0000000000000064" is read as the STANDARD community 0:100
    "l": [("0000fde80000000100000002", ["65000:1:2", "AS65000:1:2", "65000:01:2"]),
          ("000000220000010000000200", ["34:256:512", "as34:256:512"]),
          ("fa56ea0100000000ffffffff", ["4200000001:0:4294967295"]),
          ("0000fde80000000100000003", ["65000:1:3"])],
    "x": [("000220010db80000000000000000000000010064", ["0x000220010db80000000000000000000000010064", "0x000220010DB80000000000000000000000010064"]),
          ("000320010db800000000000000000000000100c8", ["0x000320010db800000000000000000000000100c8"]),
          ("0000000000000000000000000002fde800000064", [])],   # 40 digits with leading zeros are read as an EXTENDED community
}
# filter text -> (kind, octets) as routecore's Community::from_str reads it (first of standard, large, extended, IPv6 extended)
TEXT_COMM = {}
for _k in ("x", "e", "l", "s"):
    for _hex, _texts in CPOOL[_k]:
        for _t in _texts:
            TEXT_COMM[_t] = (_k, _hex)


def gen_comms(rng):
    """the community-carrying attributes of one announcement: (case token, [(kind, [octets])] in UPDATE order)"""
    if rng.chance(30):
        tok = rng.choice(COMMS)
        return tok, ([] if tok == "-" else [("s", ["%08x" % int(c) for c in tok.split(",")])])
    nk = rng.weighted([(1, 20), (2, 40), (3, 28), (4, 12)])
    kinds = ["s", "e", "x", "l"]
    for i in range(3, 0, -1):
        j = rng.below(i + 1)
        kinds[i], kinds[j] = kinds[j], kinds[i]
    kinds = kinds[:nk]
    if rng.chance(50):      # the order of the type codes (what a well-behaved speaker sends)
        kinds.sort(key=lambda k: KIND_CODE[k])
    if rng.chance(8):       # the same attribute twice (routecore takes it; every one of them is searched)
        kinds.insert(rng.range(0, len(kinds)), rng.choice(kinds))
    attrs = []
    for k in kinds:
        pool = [h for h, _ in CPOOL[k]]
        n = min(len(pool), rng.weighted([(0, 4), (1, 38), (2, 34), (3, 24)]))   # 0: an attribute without members
        members = []
        while len(members) < n:
            m = rng.choice(pool)
            if m not in members:
                members.append(m)
        attrs.append((k, members))
    items = [("%s=%s" % (k, ",".join(ms))) if not (k == "s" and ms and rng.chance(40)) else ",".join(str(int(m, 16)) for m in ms) for k, ms in attrs]
    if rng.chance(30):
        items.insert(rng.range(0, len(items)), "*")
    return "/".join(items), attrs


def comm_text(rng, kind, octets):
    """a filter text that names this community; None if no text reaches it"""
    for h, texts in CPOOL[kind]:
        if h == octets and texts:
            return rng.choice(texts)
    return None


def gen_targeted(rng, route, asns, af_tok):
    """a query on the prefix of [route] whose filters are chosen with a known truth value FOR THAT ROUTE:
    a community from a chosen position (first / middle / last attribute, first / last member) or one it does not carry,
    its AS path or another, its peer's AS or another; select and discard; any / all"""
    peer, fam, ptoken, path, cattrs = route
    nf = rng.weighted([(1, 45), (2, 40), (3, 15)])
    parts = []
    want_comm = True
    for i in range(nf):
        kind = "community" if (i == 0 and want_comm) else rng.choice(["community", "as_path", "peer_as"])
        truth = rng.chance(60)
        val = None
        if kind == "community":
            if truth and cattrs:
                ai = rng.choice([0, len(cattrs) - 1, len(cattrs) // 2, rng.below(len(cattrs))])
                k, ms = cattrs[ai]
                if ms:
                    val = comm_text(rng, k, rng.choice([ms[0], ms[-1]]))
            if val is None:
                # one the route does not carry, by preference of a kind it does carry (so the attribute is there, the member not)
                carried = {(k, m) for k, ms in cattrs for m in ms}
                cands = [(k, h) for k in ([k for k, _ in cattrs] or ["s", "l", "e"]) for h, texts in CPOOL[k] if texts and (k, h) not in carried]
                if not cands or rng.chance(25):
                    cands = [(k, h) for k in CPOOL for h, texts in CPOOL[k] if texts and (k, h) not in carried]
                k, h = rng.choice(cands)
                val = comm_text(rng, k, h)
        elif kind == "as_path":
            hops = [h for h in path.split(",") if h != "n"]
            if truth and path != "-" and "s" not in hops:
                val = ",".join(("AS" + h) if rng.chance(15) else h for h in hops)
            elif path != "-" and len(hops) >= 2 and "s" not in hops and rng.chance(50):
                # almost the path: without its last hop / its first hop (what a filter that stops early would accept)
                val = ",".join(hops[:-1] if rng.chance(50) else hops[1:])
            else:
                val = rng.choice(["65003", "65001,65003", "65002,65002"])
        else:
            a = asns[peer] if peer < len(asns) else "x"
            val = a if (truth and a not in ("-", "x")) else "65003"
        parts.append("%s[%s]=%s" % (rng.choice(["select", "discard"]), kind, val))
    k = rng.below(100)
    if k < 35:
        parts.append("filter_op=all")
    elif k < 60:
        parts.append("filter_op=any")
    if rng.chance(25):
        parts.append("include=" + rng.choice(["lessSpecifics", "lessSpecifics,moreSpecifics", "moreSpecifics"]))
    for i in range(len(parts) - 1, 0, -1):
        j = rng.below(i + 1)
        parts[i], parts[j] = parts[j], parts[i]
    return "Q %s %s %s" % (af_tok, ptoken, "&".join(parts))


SEL_GOOD = [
    ("as_path", "65001"), ("as_path", "65001,65002"), ("as_path", "65002,65001"), ("as_path", "AS65001,as65002"), ("as_path", "65002"),
    ("as_path", "65001,65002,65003"), ("as_path", "+65001"), ("as_path", "065001"), ("as_path", "4200000001,65001"), ("as_path", "AS4200000001,65001"),
    ("peer_as", "65001"), ("peer_as", "65002"), ("peer_as", "AS65001"), ("peer_as", "65003"),
    ("community", "65000:100"), ("community", "65000:200"), ("community", "AS65000:100"), ("community", "NO_EXPORT"), ("community", "blackhole"),
    ("community", "0xFDE80064"), ("community", "0xFFFFFF01"), ("community", "65000:100:1"), ("community", "rt:65000:100"), ("community", "NoExport"),
    ("community", "0x0002FDE800000064"), ("community", "65000:0100"),
    ("community", "65000:1:2"), ("community", "34:256:512"), ("community", "AS65000:1:2"), ("community", "ro:65000:100"), ("community", "rt:4200000001:7"),
    ("community", "65535:65281"), ("community", "65535:666"), ("community", "NO_ADVERTISE"), ("community", "0xFFFF029A"), ("community", "0x0000000000000064"),
    ("community", "0x000220010db80000000000000000000000010064"), ("community", "0x0000000000000000000000000002FDE800000064"), ("community", "0:100"),
]
SEL_BAD = [
    ("as_path", ""), ("as_path", "65001,"), ("as_path", "x"), ("as_path", "4294967296"), ("as_path", "65001,,65002"), ("as_path", "AS"),
    ("as_path", "%E2%82%AC"), ("as_path", "-1"),
    ("peer_as", ""), ("peer_as", "65001,65002"), ("peer_as", "peer"), ("peer_as", "%C3%A9%C3%A9%C3%A9"), ("peer_as", "%E2%82%AC1"),
    ("community", ""), ("community", "65536:1"), ("community", "foo"), ("community", "1:2:3:4"), ("community", "0x"), ("community", "rt:1"),
    ("community", "0x1FFFFFFFFFFFFFFFF"),
    ("foo", "1"), ("", "1"),
]


def hexaddr(bits, v6):
    width = 128 if v6 else 32
    b = (bits + [0] * width)[:width]
    v = 0
    for x in b:
        v = (v << 1) | x
    return ("%032x" if v6 else "%08x") % v


def ptok(bits, v6):
    return "%s/%d" % (hexaddr(bits, v6), len(bits))


def gen_pool(rng, v6):
    """nested and sibling prefixes below a random root"""
    width = 128 if v6 else 32
    base = ([0, 0, 1, 0, 0, 0, 0, 0, 0, 0, 0, 0, 0, 0, 0, 1, 0, 0, 0, 0, 1, 1, 0, 1, 1, 0, 1, 1, 1, 0, 0, 0] if v6
            else [0, 0, 0, 0, 1, 0, 1, 0])
    rootlen = rng.range(3, 40) if v6 else rng.range(2, 14)
    root = (base + [rng.below(2) for _ in range(64)])[:rootlen]
    pool = [root]
    n = rng.range(3, 12)
    for _ in range(n):
        k = rng.below(100)
        parent = rng.choice(pool)
        if k < 45:      # a child some bits further down
            maxext = width - len(parent)
            if maxext <= 0:
                continue
            ext = min(maxext, rng.choice([1, 1, 2, 3, 4, 5, 6, 8, 8, 12, 16]))
            p = parent + [rng.below(2) for _ in range(ext)]
        elif k < 65:    # a sibling
            if not parent:
                continue
            p = parent[:-1] + [1 - parent[-1]]
        elif k < 75:    # a host route
            p = (parent + [rng.below(2) for _ in range(width)])[:width]
        elif k < 90:    # an ancestor
            if len(parent) < 2:
                continue
            p = parent[:rng.range(1, len(parent) - 1)]
        else:           # the neighbour subtree a few bits up (adjacent child slot of the store's node)
            if len(parent) < 4:
                continue
            cut = rng.range(1, 3)
            up = parent[:-cut]
            v = int("".join(map(str, up)), 2) + 1
            if v >= (1 << len(up)):
                continue
            p = [int(c) for c in bin(v)[2:].zfill(len(up))] + [rng.below(2) for _ in range(cut + rng.below(6))]
            p = p[:width]
        if p not in pool:
            pool.append(p)
    return pool


def gen_query_string(rng, clean):
    parts = []
    k = rng.below(100)
    if k < 25:
        pass
    elif k < 45:
        parts.append("include=lessSpecifics")
    elif k < 65:
        parts.append("include=moreSpecifics")
    elif k < 85:
        parts.append("include=" + rng.choice(["lessSpecifics,moreSpecifics", "moreSpecifics,lessSpecifics", "moreSpecifics,moreSpecifics"]))
    elif k < 92 and not clean:
        parts.append("include=" + rng.choice(["", "foo", "lessSpecifics,", "morespecifics", "lessSpecifics,foo", "less%53pecifics"]))
    else:
        parts.append(rng.choice(["include[x]=moreSpecifics", "include]=lessSpecifics", "include=less%53pecifics", "%69nclude=moreSpecifics"]))
    nf = rng.weighted([(0, 30), (1, 35), (2, 25), (3, 10)])
    for _ in range(nf):
        mode = rng.choice(["select", "discard"])
        fam, val = rng.choice(SEL_GOOD) if clean or rng.chance(88) else rng.choice(SEL_BAD)
        form = rng.below(100)
        if form < 85 or clean:
            parts.append("%s[%s]=%s" % (mode, fam, val))
        elif form < 90:
            parts.append("%s]%s=%s" % (mode, fam, val))
        elif form < 94:
            parts.append("%s%%5B%s%%5D=%s" % (mode, fam, val))
        elif form < 97:
            parts.append("%s=%s" % (mode, val))
        else:
            parts.append("%s[%s][x]=%s" % (mode, fam, val))
    k = rng.below(100)
    if k < 20:
        parts.append("filter_op=any")
    elif k < 45:
        parts.append("filter_op=all")
    elif k < 49 and not clean:
        parts.append("filter_op=" + rng.choice(["", "ALL", "both", "any,all"]))
    if rng.chance(10):
        parts.append("details=" + ("communities" if clean or rng.chance(70) else rng.choice(["", "all", "communities,x"])))
    if rng.chance(10):
        parts.append("sort=" + rng.choice(["/prefix", "/ingress_id,/status", "", "x"]))
    if rng.chance(6):
        parts.append("format=" + ("dump" if rng.chance(50) else rng.choice(["json", "", "DUMP"])))
    if not clean:
        if rng.chance(5):
            parts.append(rng.choice(["foo=1", "includes=moreSpecifics", "limit=10", "=1", "x", "Include=lessSpecifics"]))
        if rng.chance(4) and parts:
            parts.append(rng.choice(parts))      # a duplicated parameter
        if rng.chance(4):
            parts.append("")                     # '&&'
    # order is free
    for i in range(len(parts) - 1, 0, -1):
        j = rng.below(i + 1)
        parts[i], parts[j] = parts[j], parts[i]
    q = "&".join(parts)
    return q if q else ("-" if not parts else "&")


def gen_case(rng, i):
    v6 = rng.chance(35)
    af = 1 if v6 else 0
    multicast = (i % 7 == 3)
    ops = []
    if rng.chance(30):
        ops.append("L %d %d" % (rng.choice([0, 4, 8, 9, 12, 16, 24, 33]), rng.choice([0, 16, 19, 20, 32, 48, 129])))
    npeers = rng.range(2, 4)
    asns = [rng.choice(ASNS) for _ in range(npeers)]
    if "x" in asns and rng.chance(50):
        asns[asns.index("x")] = "65002"
    for k, a in enumerate(asns):
        if a != "x":
            ops.append("P %d %s" % (k, a))
    pool = gen_pool(rng, v6)
    tag = 0
    nops = rng.range(len(pool), 3 * len(pool))
    announced = []
    routes = []       # unicast announcements with what a filter can see of them
    pop = []
    for _ in range(nops):
        k = rng.below(100)
        if k < 78 or not announced:
            p = rng.choice(pool)
            peer = rng.below(npeers)
            fam = af + (2 if multicast and rng.chance(35) else 0)
            tag += 1
            path = rng.choice(PATHS)
            ctok, cattrs = gen_comms(rng)
            pop.append("A %d %d %s %d %s %s" % (peer, fam, ptok(p, v6), tag, path, ctok))
            announced.append((peer, fam, p))
            if fam == af:
                routes.append((peer, fam, ptok(p, v6), path, cattrs))
        elif k < 92:
            peer, fam, p = rng.choice(announced)
            if rng.chance(15):
                peer = rng.below(npeers)
            pop.append("W %d %d %s" % (peer, fam, ptok(p, v6)))
        else:
            peer = rng.below(npeers)
            pop.append("D %d %s" % (peer, rng.choice(["-", str(af), str(af + 2)])))
    nq = rng.range(4, 10)
    width = 128 if v6 else 32
    queries = []
    for _ in range(nq):
        k = rng.below(100)
        p = rng.choice(pool)
        if k < 50:
            q = p
        elif k < 80:
            q = p[:rng.range(0, len(p))]
        elif k < 92:
            q = (p + [rng.below(2) for _ in range(rng.range(1, 6))])[:width]
        else:
            q = None
        if q is None:
            # not a prefix: host bits set, or a length beyond the family's
            if rng.chance(70) and len(p) < width:
                full = (p + [1] + [0] * width)[:width]
                tok = "%s/%d" % (hexaddr(full, v6), len(p))
            else:
                tok = "%s/%d" % (hexaddr(p, v6), width + rng.range(1, 3))
        else:
            tok = ptok(q, v6)
        queries.append("Q %d %s %s" % (6 if v6 else 4, tok, gen_query_string(rng, clean=rng.chance(60))))
    # filters with a known truth value for one stored route: a community out of EACH of its community attributes
    # (first / middle / last attribute, first / last member), its path, its peer's AS - select and discard, any and all
    if routes and rng.chance(70):
        multi = [r for r in routes if len(r[4]) >= 2]
        for _ in range(rng.range(2, 5)):
            route = rng.choice(multi) if multi and rng.chance(75) else rng.choice(routes)
            queries.insert(rng.range(0, len(queries)), gen_targeted(rng, route, asns, "6" if v6 else "4"))
    # reconfigurations while the API object exists (op R: the new limits go into the cell the runner shares with its
    # PrefixesApi, the API is not rebuilt), each followed by a moreSpecifics query whose length lies around the new limit:
    # the answer must follow the limits in force (C11_limit_is_current), both when they are tightened and when relaxed
    if rng.chance(45):
        for _ in range(rng.range(1, 3)):
            p = rng.choice(pool)
            q = p[:rng.range(0, len(p))] if rng.chance(50) else p
            lim = max(0, min(width + 1, len(q) + rng.choice([-3, -1, 0, 0, 1, 1, 2, 6])))
            other = rng.choice([0, 8, 19, 24])
            r = "R %d %d" % ((other, lim) if v6 else (lim, other))
            inc = rng.choice(["include=moreSpecifics", "include=moreSpecifics", "include=lessSpecifics,moreSpecifics",
                              "include=moreSpecifics&filter_op=all", "include=lessSpecifics"])
            pos = rng.range(0, len(queries))
            queries[pos:pos] = [r, "Q %d %s %s" % (6 if v6 else 4, ptok(q, v6), inc)]
    # some queries in the middle of the population, most at the end
    cut = rng.range(len(pop) // 2, len(pop))
    early = queries[:rng.below(3)]
    return ";".join(ops + pop[:cut] + early + pop[cut:] + queries[len(early):])


def gen(rng, tier):
    """engine ribquery: expected = the property's answer (recorded findings show up here)"""
    n = 400 if tier == "quick" else 4000
    for i in range(n):
        yield gen_case(rng, i)


def gen_bulk(rng, tier):
    """engine ribqueryx: expected = the property's answer, except where a recorded finding explains the
    model's departure (then the model's answer), so any other disagreement is examined first"""
    n = 2500 if tier == "quick" else 40000
    for i in range(n):
        yield gen_case(rng, i)


def nontrivial(case, out):
    return any(t.startswith("200:") and "@" in t for t in out.split())


def classify(case, out):
    ks = []
    toks = [t for t in out.split() if t != "-"]
    for t in toks:
        if t == "400":
            ks.append("q:400")
        elif t == "200:dump":
            ks.append("q:dump")
        elif t.startswith("200:"):
            ks.append("q:200")
            if ":l[" in t:
                ks.append("q:less" + ("-nonempty" if ":l[]" not in t else "-empty"))
            if ":m[" in t:
                ks.append("q:more" + ("-nonempty" if ":m[]" not in t else "-empty"))
            if "=W" in t:
                ks.append("q:shows-withdrawn")
    if any(o.startswith("A ") and ",n," in o for o in case.split(";")):
        ks.append("case:as-path-in-several-sequence-segments")
    for kw in ("select[as_path]", "select[peer_as]", "select[community]", "discard[as_path]", "discard[peer_as]", "discard[community]",
               "filter_op=all", "filter_op=any"):
        if kw in case:
            ks.append("case:" + kw)
    # community attributes of the stored routes, and where the communities named by the filters live
    routes = []
    for o in case.split(";"):
        f = o.split()
        if f and f[0] == "A" and len(f) >= 7 and f[6] != "-":
            attrs = []
            for item in f[6].split("/"):
                if item == "*":
                    continue
                if "=" in item:
                    k, vals = item.split("=", 1)
                    attrs.append((k, [v for v in vals.split(",") if v]))
                    if not vals:
                        ks.append("case:community-attribute-without-members")
                else:
                    attrs.append(("s", ["%08x" % int(c) for c in item.split(",")]))
            routes.append(attrs)
            if len(attrs) >= 2:
                ks.append("case:route-with-%d-community-attributes" % len(attrs))
                codes = [KIND_CODE[k] for k, _ in attrs]
                if len(set(codes)) < len(codes):
                    ks.append("case:community-attribute-twice")
                ks.append("case:community-attributes-" + ("in-type-order" if codes == sorted(codes) else "shuffled"))
            if f[6].split("/")[0] != "*" and "*" in f[6].split("/"):
                ks.append("case:community-attribute-before-origin")
            for k, _ in attrs:
                ks.append("case:community-kind-" + k)
    for o in case.split(";"):
        f = o.split()
        if f and f[0] == "Q" and len(f) >= 4:
            for part in f[3].split("&"):
                for mode in ("select", "discard"):
                    pre = mode + "[community]="
                    if part.startswith(pre) and part[len(pre):] in TEXT_COMM:
                        k, h = TEXT_COMM[part[len(pre):]]
                        ks.append("q:%s-community-kind-%s" % (mode, k))
                        for attrs in routes:
                            for ai, (ak, ms) in enumerate(attrs):
                                if ak == k and h in ms:
                                    pos = "only" if len(attrs) == 1 else ("first" if ai == 0 else ("last" if ai == len(attrs) - 1 else "middle"))
                                    ks.append("q:%s-community-in-%s-attribute" % (mode, pos))
    ks.append("case:v6" if ";Q 6" in case or case.startswith("Q 6") else "case:v4")
    if any(o.startswith("A ") and o.split()[2] in ("2", "3") for o in case.split(";")):
        ks.append("case:multicast")
    if case.startswith("L "):
        ks.append("case:limits-configured")
    if ";R " in case:
        ks.append("case:limits-reconfigured")
    return ks


def corpus():
    return [
        # fixed C11-phantom-entry: a withdrawal for a prefix that was never announced left an empty entry in the store, which ended
        # the store's walk over the less specific prefixes: the /8 (resp. /32) above it was no longer shown for queries below it
        "A 0 0 c0000000/8 10 65002 -;W 0 0 c0800000/10;Q 4 c0990000/19 include=lessSpecifics;Q 4 c0800000/10 include=lessSpecifics;Q 4 c0990000/19 include=lessSpecifics,moreSpecifics",
        "A 0 1 20010db8000000000000000000000000/32 10 65002 -;W 1 1 20010db8800000000000000000000000/34;Q 6 20010db899a000000000000000000000/43 include=lessSpecifics",
        "A 0 0 c0000000/8 10 65002 -;A 1 0 c0800000/10 11 65001 -;W 0 0 c0a00000/12;W 1 0 c0a00000/12;Q 4 c0a80000/16 include=lessSpecifics;Q 4 c0a00000/12 -",
        # nested /8 /16 /24 + host route, two peers, one withdrawn, one session lost; every section
        "P 0 65001;P 1 65002;A 0 0 0a000000/8 1 65001,65002 4259840100;A 1 0 0a010000/16 2 65002 -;A 0 0 0a010100/24 3 - 4259840100,4259840200;"
        "A 1 0 0a010100/24 4 65001,s -;A 1 0 0a010101/32 5 65002 4294967041;Q 4 0a010000/16 include=lessSpecifics,moreSpecifics;"
        "Q 4 0a010100/24 -;W 0 0 0a010100/24;Q 4 0a010100/24 -;D 1 -;Q 4 0a010100/24 include=lessSpecifics;A 1 0 0a010100/24 6 65002 -;Q 4 0a010100/24 -",
        # the filter truth table on one prefix
        "P 0 65001;P 1 65002;P 2 -;A 0 0 0a000000/8 1 65001,65002 4259840100;A 1 0 0a000000/8 2 65001,65002 -;A 2 0 0a000000/8 3 65002 4259840100;A 3 0 0a000000/8 4 - 4294967041;"
        "Q 4 0a000000/8 select[as_path]=65001,65002;Q 4 0a000000/8 select[peer_as]=65001;Q 4 0a000000/8 select[community]=65000:100;"
        "Q 4 0a000000/8 discard[as_path]=65001,65002;Q 4 0a000000/8 select[as_path]=65001,65002&select[community]=65000:100&filter_op=all;"
        "Q 4 0a000000/8 select[as_path]=65001,65002&select[community]=65000:100;Q 4 0a000000/8 discard[as_path]=65001,65002&discard[community]=65000:100&filter_op=all;"
        "Q 4 0a000000/8 discard[as_path]=65001,65002&discard[community]=65000:100&filter_op=any;Q 4 0a000000/8 select[peer_as]=65002&discard[community]=NO_EXPORT&discard[community]=65000:100",
        # limits: defaults and configured, both families
        "P 0 65001;A 0 0 0a000000/7 1 65001 -;A 0 0 0a000000/9 2 65001 -;Q 4 0a000000/7 include=moreSpecifics;Q 4 0a000000/8 include=moreSpecifics;Q 4 0a000000/7 include=lessSpecifics;Q 4 0a000000/7 -",
        "L 16 32;P 0 65001;A 0 1 20010db8000000000000000000000000/32 1 65001 -;A 0 1 20010db8000100000000000000000000/48 2 65001 -;"
        "Q 6 20010db8000000000000000000000000/32 include=moreSpecifics;Q 6 20010db8000000000000000000000000/31 include=moreSpecifics;Q 6 20010db8000000000000000000000000/31 include=lessSpecifics",
        # limits changed while the API object exists (reconfiguration): tightened, then relaxed; the answer follows the limits in force
        "P 0 65001;A 0 0 0a000000/8 1 65001 -;A 0 0 0a000000/9 2 65001 -;Q 4 0a000000/8 include=moreSpecifics;R 16 19;Q 4 0a000000/8 include=moreSpecifics;"
        "Q 4 0a000000/16 include=moreSpecifics;Q 4 0a000000/8 include=lessSpecifics;R 4 19;Q 4 0a000000/8 include=moreSpecifics;Q 4 08000000/5 include=moreSpecifics;Q 4 00000000/3 include=moreSpecifics",
        "L 0 0;P 0 65001;A 0 1 20010db8000000000000000000000000/32 1 65001 -;A 0 1 20010db8000100000000000000000000/48 2 65001 -;Q 6 20010db8000000000000000000000000/32 include=moreSpecifics;"
        "R 0 48;Q 6 20010db8000000000000000000000000/32 include=moreSpecifics;Q 6 20010db8000100000000000000000000/48 include=moreSpecifics;R 0 32;Q 6 20010db8000000000000000000000000/32 include=moreSpecifics",
        # parameter handling
        "P 0 65001;A 0 0 0a000000/8 1 65001 -;Q 4 0a000000/8 foo=1;Q 4 0a000000/8 include=lessSpecifics&include=moreSpecifics;Q 4 0a000000/8 select=1;Q 4 0a000000/8 select[foo]=1;"
        "Q 4 0a000000/8 select]peer_as=65001;Q 4 0a000000/8 format=dump;Q 4 0a000000/8 format=xml;Q 4 0a000000/8 details=communities&sort=/prefix;Q 4 0a000000/8 filter_op=both;"
        "Q 4 0a000001/8 -;Q 4 0a000000/33 -;Q 4 0a000000/8 select[peer_as]=%E2%82%AC;Q 4 0a000000/8 select%5Bpeer_as%5D=AS65001&&filter_op=any",
        # known finding C11-1: multicast routes hidden
        "P 0 65001;A 0 2 0a000000/8 1 65001 -;A 0 2 0a010000/16 2 65001 -;Q 4 0a000000/8 -;Q 4 0a000000/8 include=moreSpecifics;A 0 0 0a000000/8 3 65001 -;Q 4 0a000000/8 -",
        # known finding C11-2: rotonda-store's more-specifics iterator misses and mis-includes
        "P 0 65001;A 0 0 0a010000/16 1 65001 -;Q 4 0a000000/8 include=moreSpecifics",
        "P 0 65001;A 0 0 0a400100/24 1 65001 -;Q 4 0a000000/10 include=moreSpecifics",
        "L 0 0;P 0 65001;A 0 0 09000100/24 1 65001 -;Q 4 0a000000/8 include=moreSpecifics",
        # communities in more than one attribute (seeded/C11-b1): BLACKHOLE + LARGE 34:256:512 on one route, NO_EXPORT on the other
        "P 0 65001;P 1 65002;A 0 0 c0000200/24 1 65001 s=ffff029a/l=000000220000010000000200;A 1 0 c0000200/24 2 65002 s=ffffff01;"
        "Q 4 c0000200/24 select[community]=BLACKHOLE;Q 4 c0000200/24 select[community]=NO_EXPORT;Q 4 c0000200/24 select[community]=34:256:512;"
        "Q 4 c0000200/24 discard[community]=34:256:512;Q 4 c0000200/24 discard[community]=BLACKHOLE;Q 4 c0000200/24 select[community]=65535:65281&select[community]=34:256:512;"
        "Q 4 c0000200/24 select[community]=65535:65281&select[community]=34:256:512&filter_op=all;Q 4 c0000200/24 discard[community]=0xFFFF029A&discard[community]=34:256:512&filter_op=all",
        # all four community attributes on one route, in type-code order (p0), reversed (p1), before ORIGIN (p2); a member of every
        # attribute, first and last; names and numbers; a community nobody carries; the same octets under another kind
        "P 0 65001;P 1 65002;P 2 65002;"
        "A 0 0 0a000000/8 1 65001 s=ffffff01,fde80064/e=0002fde800000064,0003fde800000064/x=000220010db80000000000000000000000010064/l=0000fde80000000100000002,000000220000010000000200;"
        "A 1 0 0a000000/8 2 65002 l=0000fde80000000100000002/x=000320010db800000000000000000000000100c8/e=0202fa56ea010007/s=fde800c8;"
        "A 2 0 0a000000/8 3 65001,65002 l=fa56ea0100000000ffffffff/*/e=0000000000000064/4259840100;"
        "Q 4 0a000000/8 select[community]=NO_EXPORT;Q 4 0a000000/8 select[community]=65000:100;Q 4 0a000000/8 select[community]=rt:65000:100;Q 4 0a000000/8 select[community]=ro:65000:100;"
        "Q 4 0a000000/8 select[community]=0x000220010db80000000000000000000000010064;Q 4 0a000000/8 select[community]=65000:1:2;Q 4 0a000000/8 select[community]=34:256:512;"
        "Q 4 0a000000/8 select[community]=65000:200;Q 4 0a000000/8 select[community]=rt:4200000001:7;Q 4 0a000000/8 select[community]=0x000320010db800000000000000000000000100c8;"
        "Q 4 0a000000/8 select[community]=4200000001:0:4294967295;Q 4 0a000000/8 discard[community]=65000:1:2;Q 4 0a000000/8 discard[community]=AS65000:100;"
        "Q 4 0a000000/8 select[community]=0x0000000000000064;Q 4 0a000000/8 select[community]=0:100;Q 4 0a000000/8 select[community]=65000:1:3;Q 4 0a000000/8 discard[community]=65000:1:3;"
        "Q 4 0a000000/8 select[community]=0x0000000000000000000000000002FDE800000064;Q 4 0a000000/8 select[community]=0x0002FDE800000064",
        # an attribute without members / the same attribute twice in front of the one that has the community
        "P 0 65001;A 0 0 0a000000/8 1 65001 l=/s=fde80064;A 0 0 0a000000/9 2 65001 s=ffffff01/e=0002fde800000064/s=fde80064;Q 4 0a000000/8 select[community]=65000:100;"
        "Q 4 0a000000/8 discard[community]=65000:100;Q 4 0a000000/9 select[community]=65000:100;Q 4 0a000000/9 discard[community]=65000:100;Q 4 0a000000/9 select[community]=NO_EXPORT",
        # a community of the LAST attribute together with the other filter kinds: every kind true and false, select / discard, any / all
        "P 0 65001;P 1 65002;A 0 0 0a000000/8 1 65001,65002 4294967041/e=0002fde800000064/l=0000fde80000000100000002;A 1 0 0a000000/8 2 65002 e=0003fde800000064/4259840100;"
        "Q 4 0a000000/8 select[community]=65000:1:2&select[as_path]=65001,65002&filter_op=all;Q 4 0a000000/8 select[community]=65000:1:2&select[as_path]=65002&filter_op=all;"
        "Q 4 0a000000/8 select[community]=65000:1:3&select[as_path]=65001,65002&filter_op=all;Q 4 0a000000/8 select[community]=65000:1:3&select[as_path]=65001,65002&filter_op=any;"
        "Q 4 0a000000/8 select[community]=65000:1:2&select[peer_as]=65002&filter_op=any;Q 4 0a000000/8 select[community]=65000:1:2&select[peer_as]=65002&filter_op=all;"
        "Q 4 0a000000/8 discard[community]=65000:1:2&discard[peer_as]=65001&filter_op=all;Q 4 0a000000/8 discard[community]=65000:1:2&discard[peer_as]=65002&filter_op=all;"
        "Q 4 0a000000/8 discard[community]=65000:1:2&discard[peer_as]=65002&filter_op=any;Q 4 0a000000/8 select[peer_as]=65001&discard[community]=65000:1:2;"
        "Q 4 0a000000/8 select[community]=65000:100&discard[community]=ro:65000:100;Q 4 0a000000/8 select[community]=65000:100&discard[community]=rt:65000:100;"
        "Q 4 0a000000/8 select[as_path]=65002&select[community]=65000:100&discard[peer_as]=65001&filter_op=all",
        # the AS path filter sees the whole path: cut into two / three AS_SEQUENCE segments, an AS_SET in front / in the middle / at the end
        "P 0 65001;P 1 65002;P 2 65002;P 3 65001;A 0 0 0a000000/8 1 65001,n,65002 -;A 1 0 0a000000/8 2 65001,65002 -;A 2 0 0a000000/8 3 65001,s,65002 -;A 3 0 0a000000/8 4 65001,n,65002,n,65003 -;"
        "A 4 0 0a000000/8 5 s,65001 -;A 5 0 0a000000/8 6 65001,65002,s -;"
        "Q 4 0a000000/8 select[as_path]=65001,65002;Q 4 0a000000/8 select[as_path]=65001;Q 4 0a000000/8 discard[as_path]=65001,65002;Q 4 0a000000/8 select[as_path]=65001,65002,65003;"
        "Q 4 0a000000/8 select[as_path]=65002;Q 4 0a000000/8 discard[as_path]=65001;Q 4 0a000000/8 select[as_path]=65001,65002&select[as_path]=65001,65002,65003",
        # regression of the two repaired defects: community filter, non-ASCII AS number
        "P 0 65001;A 0 0 0a000000/8 1 65001 4259840100;Q 4 0a000000/8 select[community]=65000:100;Q 4 0a000000/8 discard[community]=65000:100;Q 4 0a000000/8 select[peer_as]=%E2%82%AC;Q 4 0a000000/8 discard[as_path]=65001,%E2%82%AC",
    ]


def known_signature(k, engine, case, mo, spec, im):
    return k.get("class") is not None and V.explained_by(mo, spec, im, {k.get("class")} | set(k.get("also", [])))


ENGINES = [
    {"name": "ribqueryx", "gen": gen_bulk, "corpus": corpus, "nontrivial": nontrivial, "classify": classify, "shards": 8},
    {"name": "ribquery", "gen": gen, "corpus": corpus, "nontrivial": nontrivial, "classify": classify, "shards": 8},
]


# ======================================================================================================================
# engine ribconf: the rib unit's CONFIGURATION SURFACE - what the TOML file says is what the unit enforces
# (seeded/C11-c2: field-level `#[serde(default)]` gave /0 to the family whose key a partial table leaves out).
# Real TOML text -> real loader -> real Manager / rib unit / HTTP server; start-up and reloads.
# ======================================================================================================================
CONF_V4 = [0, 1, 4, 7, 8, 9, 12, 16, 19, 24, 31, 32]
CONF_V6 = [0, 1, 8, 16, 18, 19, 20, 32, 48, 64, 127, 128]
CONF_BAD = ["256", "-1", "300", "s9", "s19", "b", "f", "70000"]
CONF_PATHS = ["/prefixes/", "/rib1/", "/rib1", "/rib2//", "/prefixes", "/p/q/"]
CONF_BASES = ["/prefixes/", "/rib1/", "/rib2/", "/p/q/"]
CONF_DEFAULT = {4: 8, 6: 19}


def conf_norm(path):
    return (path if path != "-" else "/prefixes/").rstrip("/") + "/"


def conf_effective(ql):
    """where the generator AIMS its probes (the verdicts are the oracle's): the limits a table means, None = refused"""
    if ql == "-":
        return dict(CONF_DEFAULT)
    if ql == "e":
        return None
    f = ql.split("/")
    lim = {}
    for af, tok in ((4, f[1]), (6, f[2])):
        if tok == "-":
            lim[af] = CONF_DEFAULT[af]
        elif tok.lstrip("-").isdigit() and 0 <= int(tok) <= 255:
            lim[af] = int(tok)
        else:
            return None
    return lim


def conf_probes(rng, lim, base, all_of_them=False):
    """moreSpecifics requests at, above and below the limit in force and around the documented default, both families"""
    out = []
    for af in (4, 6):
        width = 32 if af == 4 else 128
        lens = {lim[af] - 1, lim[af], lim[af] + 1, 0, CONF_DEFAULT[af] - 1, CONF_DEFAULT[af]}
        lens = sorted(l for l in lens if 0 <= l <= width)
        if not all_of_them:
            keep = [l for l in lens if l in (lim[af] - 1, lim[af])]
            lens = sorted(set(keep + [rng.choice(lens)] + ([rng.choice(lens)] if rng.chance(50) else [])))
        for l in lens:
            inc = "m" if all_of_them or rng.chance(75) else rng.choice(["lm", "lm", "l", "-"])
            out.append("Q %d %d %s %s" % (af, l, inc, base))
    return out


def conf_gen_ql(rng):
    k = rng.below(100)
    if k < 10:
        return "-"
    if k < 17:
        return "e"
    vals = []
    for pool in (CONF_V4, CONF_V6):
        j = rng.below(100)
        if j < 40:
            vals.append("-")
        elif j < 88:
            vals.append(str(rng.choice(pool)))
        elif j < 92:
            vals.append(str(rng.choice([33, 129, 200, 255])))
        else:
            vals.append(rng.choice(CONF_BAD))
    return "m/%s/%s%s" % (vals[0], vals[1], "/x" if rng.chance(10) else "")


def conf_gen_case(rng, i):
    ops = []
    lim, base = None, None
    if rng.chance(8):
        ops.append("Q 4 0 m /prefixes/")      # nothing runs yet
    nloads = rng.weighted([(1, 25), (2, 40), (3, 25), (4, 10)])
    first_path = "-" if rng.chance(50) else rng.choice(CONF_PATHS)
    for _ in range(nloads):
        ql = conf_gen_ql(rng)
        if lim is not None and rng.chance(12):
            ql = rng.choice(["e", "m/%s/-" % rng.choice(CONF_BAD), "m/-/%s" % rng.choice(CONF_BAD)])   # a reload that must change nothing
        path = first_path if rng.chance(80) else rng.choice(["-"] + CONF_PATHS)   # a changed path is ignored by a running unit
        ops.append("C %d %s %s" % (rng.below(8), ql, path))
        eff = conf_effective(ql)
        if eff is not None:
            if lim is None:
                base = conf_norm(path)
            lim = eff
        if lim is None:
            if rng.chance(40):
                ops.append("Q %d 0 m %s" % (rng.choice([4, 6]), conf_norm(path)))
            continue
        ops += conf_probes(rng, lim, base)
        if rng.chance(25):
            other = rng.choice([b for b in CONF_BASES if b != base] + ([conf_norm(path)] if conf_norm(path) != base else []))
            ops.append("Q 4 %d m %s" % (lim[4], other))
    return ";".join(ops)


def conf_gen(rng, tier):
    n = 160 if tier == "quick" else 3000
    for i in range(n):
        yield conf_gen_case(rng, i)


def conf_corpus():
    """every presence pattern of the two keys x every way of writing the table down, at start-up and as a reload
    (after a start with other limits), probed around the limit in force and around the documented default"""
    cases = []
    class _R:     # the probes of the corpus are all of them: no randomness
        def choice(self, l): return l[0]
        def chance(self, p): return False
    r = _R()
    patterns = ["-", "m/-/-", "m/12/-", "m/-/32", "m/12/32", "m/0/-", "m/-/0", "m/12/-/x", "m/-/32/x"]
    for pat in patterns:
        for style in range(8):
            if pat == "-" and style > 0:
                continue
            lim = conf_effective(pat)
            cases.append(";".join(["C %d %s -" % (style, pat)] + conf_probes(r, lim, "/prefixes/", True)))
            cases.append(";".join(["C 0 m/20/40 /rib1", "Q 4 19 m /rib1/", "Q 6 39 m /rib1/", "C %d %s -" % (style, pat)] + conf_probes(r, lim, "/rib1/", True)
                                  + ["Q 4 8 m /prefixes/"]))
    # refused files: at start-up nothing runs; as a reload nothing changes
    for bad in ["e", "m/256/-", "m/-/-1", "m/s8/-", "m/-/b", "m/f/19", "m/8/300"]:
        for style in (0, 1, 2, 3):
            cases.append("C %d %s -;Q 4 0 m /prefixes/;C 0 m/-/32 -;Q 4 7 m /prefixes/;Q 4 8 m /prefixes/;Q 6 31 m /prefixes/;Q 6 32 m /prefixes/;"
                         "C %d %s /rib2/;Q 4 7 m /prefixes/;Q 4 8 m /prefixes/;Q 6 31 m /prefixes/;Q 6 32 m /prefixes/;Q 6 19 lm /prefixes/;Q 4 8 m /rib2/" % (style, bad, style, bad))
    # the demonstration of seeded/C11-c2
    cases.append("C 0 m/-/32 -;Q 4 0 m /prefixes/;Q 4 7 m /prefixes/;Q 4 8 m /prefixes/;Q 6 31 m /prefixes/")
    cases.append("C 0 m/16/- -;Q 6 16 m /prefixes/;Q 4 8 m /prefixes/;Q 4 16 m /prefixes/")
    return cases


def conf_nontrivial(case, out):
    t = out.split()
    return "ok" in t and any(x.startswith("200") and x.endswith("m") for x in t) and "400" in t


def conf_classify(case, out):
    ks = []
    loads = [o.split() for o in case.split(";") if o.startswith("C ")]
    toks = out.split()
    verdicts = [t for t in toks if t in ("ok", "E")]
    started = False
    for f, v in zip(loads, verdicts):
        ql = f[2]
        when = "reload" if started else "start"
        if ql in ("-", "e"):
            pat = {"-": "absent", "e": "table-without-more-specifics"}[ql]
        else:
            g = ql.split("/")
            kind = lambda x: "unset" if x == "-" else ("int" if x.lstrip("-").isdigit() and 0 <= int(x) <= 255 else "bad")
            pat = "v4-%s,v6-%s" % (kind(g[1]), kind(g[2]))
            if len(g) > 3:
                ks.append("conf:unknown-key")
        ks.append("conf:%s:%s:%s" % (when, pat, "accepted" if v == "ok" else "refused"))
        ks.append("conf:style-%d" % (int(f[1]) % 8))
        if f[3] != "-":
            ks.append("conf:path-set")
        if v == "ok":
            started = True
    for t in toks:
        if t not in ("ok", "E"):
            ks.append("q:" + t)
    return sorted(set(ks))


ENGINES.append({"name": "ribconf", "gen": conf_gen, "corpus": conf_corpus, "nontrivial": conf_nontrivial, "classify": conf_classify,
                "shards": 4, "timeout": 900})

LEVEL_TEXT = ("Theorems over ALL RIB contents, attribute tables, ingress registers, limits and raw query strings: the JSON answer's data / lessSpecifics / "
              "moreSpecifics are exactly the stored unicast entries whose prefix equals / strictly covers / is strictly covered by the queried one and "
              "that pass the select/discard filter (truth table proved separately), a more-specifics query shorter than the configured limit is refused, "
              "no phantom and no omission; kernel-checked, axiom-free. Two departures from the property are proved as refutations and recorded as known "
              "findings (multicast entries hidden; rotonda-store's more-specifics iterator), two defects were repaired (community filter never matched; "
              "non-ASCII AS number panicked). Model tied to the code by differential execution of thousands of generated (population, query) pairs per run.")
DESIGN_REF = "DESIGN.md section 6, C11"
LEVEL_NOTE = ("Trusted: Coq kernel, ExtrOcamlBasic extraction + OCaml driver, Rust harness and generators. The full exactness statement holds for RIBs "
              "without multicast routes and for queries on which the store's child-node iterator visits the right slots (hypotheses of the _partial theorems); "
              "the text form of the prefix, HTTP dispatch and hyper are not modelled.")
TECHNIQUE = "Coq proof over all RIB states and query strings (executable model of parser, filter and store answers) + refutation witnesses + model/implementation correspondence"
