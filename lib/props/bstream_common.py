"""Shared pieces of the plugins that use the `bstream` engine (C06, C07): rendering of
well-formed BMP messages through the harness (`vh bstream-render`, the repository's own
encoders), a framing walk used ONLY to build inputs (length capping, deciding whether the
parse table of a case is complete), and the case builders."""
import os
import subprocess
import sys

sys.path.insert(0, os.path.dirname(os.path.dirname(os.path.abspath(__file__))))
import vcommon as V

CAP = 1 << 20
KINDS = ["timedout", "interrupted", "notfound", "permissiondenied", "connectionrefused", "connectionreset",
         "connectionaborted", "notconnected", "addrinuse", "addrnotavailable", "brokenpipe", "alreadyexists",
         "wouldblock", "invalidinput", "invaliddata", "writezero", "unsupported", "unexpectedeof", "outofmemory",
         "other", "unlisted"]
NONFATAL = {"timedout", "interrupted", "other"}

TRUSTED_BASE = [
    "Coq 8.16.1 kernel (coqc; coqchk in thorough); no native_compute",
    "extraction with ExtrOcamlBasic only; OCaml driver oracle/{conv,eng_bstream,oracle}.ml",
    "Rust harness /verif/harness engine `bstream`: the real RouterHandler::read_from_router (io.rs bmp_read/BmpStream::next, the read loop, "
    "process_msg, the post-loop cleanup) over a scripted AsyncRead, through the facade rotonda::verif::bmp_stream (feature verif-hooks); the "
    "updates are captured by a real Link in direct-update mode; the connection objects are built as unit.rs builds them",
    "well-formed BMP messages come from the repository's test encoders (rotonda::bgp::encode) via `vh bstream-render`; the UPDATE octets of the "
    "`RB` frames come from C04's proved encoder (oracle c04enc) and are read on the model side by C04's decoder (Pipe/PipeRaw.raw_upd)",
    "op G: the real RouterListApi / RouterInfoApi process_request and the metrics sources, wired to the connection's own maps, state machine and "
    "metrics by StreamFixture::http_get_router_list / http_get_router_info (verif-hooks); each request in a task of its own (a panic = `panic`); "
    "every /metrics text is read by the harness's independent exposition-format reader (engines/promtext.rs): `m1` = well formed, and the text after "
    "the session gives the `K:` token (router's unit series gone, connection_lost_count, bmp_num_connected_routers) - model: BmpStreamModel.unit_final",
    "op H (back-pressure): the receiving end of the fixture's gate (a real Link in direct-update mode) stops taking updates "
    "(StreamFixture::hold_updates_after, verif-hooks); the run is on a current-thread tokio runtime with a PAUSED clock that carries the gate's tasks and "
    "every timer, the connection's future is driven by a 40-line executor of the harness on a thread of that runtime's blocking pool (a cloned Gate "
    "detaches with block_in_place, which a current-thread runtime refuses); tokio does not auto-advance the clock while that thread lives, the harness "
    "advances it by one hour once the session's thread and the runtime have nothing left to do, waits for both to settle again, then releases; trusted: "
    "tokio's paused clock fires every timer (tokio::time::timeout/sleep/interval) whose deadline has passed when it is advanced",
    "op L (register contention): a thread of the harness holds the ingress register's write lock (Register::verif_with_write_lock, verif-hooks) from the "
    "moment the reader reaches the op until connection_lost_count is 1 (the handler has left its read loop; its next use of the register is ids_for_parent) "
    "plus 15 ms, at most 400 ms: a handler that does not wait for the lock is over by then, one that waits is released",
    "modelled, not verified: src/units/bmp_tcp_in/{io.rs,router_handler.rs}; the state machine and the ingress register are the models of C05/C14; "
    "routecore's BMP/BGP parsers and tokio are exercised, never modelled: the parser is a parameter of the model and every theorem holds for every parser",
]
ASSUMPTIONS = [
    "a reader is a finite script of read events (a byte arrives / a read fails once with some io::ErrorKind) followed by end of file or by "
    "silence until the unit's gate is terminated; tokio's read_exact returns every error as is and loses the bytes of the interrupted read",
    "routecore's Message::from_octets returns (it is run on every frame, but its inside is not modelled); it only accepts type codes 0..6",
    "routecore's accessors on a message that from_octets accepted return; VIOLATED by the OPEN capability iterator of routecore 0.5.1 on a Peer Up "
    "with a truncated capability (known finding peerup-capability-panic, reproduced by a corpus case on every run)",
    "MessageType::Aborted is never produced (BmpState::_Aborted is never constructed in the code)",
    "frames that declare more than 1 MiB are not executed (bmp_read allocates the declared length before reading): noted, not run",
    "HashMap iteration order is arbitrary: id lists are compared as sorted lists of canonical names",
    "the HTTP client visits while the connection waits for its next read (between two reads): a request concurrent with process_msg is not explored; "
    "a visit after the session ended is not made (in production the router's endpoint is gone by then)",
    "back-pressure is the receiving unit not returning from direct_update; queue-mode links (unused in rotonda) are not exercised; one hold per case, "
    "of one virtual hour; the receiving end holds whole updates (a direct_update cancelled half-way through a RIB is C01/C12 territory)",
    "each Register method is one atomic step (C14's assumption): op L checks it for ids_for_parent at session end against a writer that is inside the register",
    "recent parse errors are one per InvalidMessage answer of the state machine (arrival numbers); an UPDATE re-parsed with the other AS width "
    "(soft fail) is not modelled - no generated well-formed stream produces one (it would show as a different e<count>); arrival order on the page is "
    "read off the entries' timestamps (wall clock, nanoseconds)",
]


def render(descrs):
    """descriptor -> hex of the BMP message, through the harness."""
    p = subprocess.run([V.VH, "bstream-render"], input="\n".join(descrs) + "\n", stdout=subprocess.PIPE, text=True, timeout=120)
    lines = p.stdout.split()
    if len(lines) != len(descrs):
        raise V.CheckBroken("vh bstream-render failed")
    return dict(zip(descrs, lines))


GET = "G"      # stream item: an HTTP client asks for the unit's pages at this point (no read event)
LOCK = "L"     # stream item: another party takes the ingress register's write lock at this point (no read event)


def HOLD(n):
    """stream item: from this point on the receiving end of the gate takes n more updates, then holds (no read event)"""
    return f"H {n}"


def is_marker(x):
    """stream items that are not read events (error kinds are lower case)"""
    return isinstance(x, str) and x[:1].isupper()


class Stream:
    """flat list of items: int (a byte), str (an error kind) or GET."""

    def __init__(self, items=None):
        self.items = list(items or [])

    def add_hex(self, h):
        self.items += list(bytes.fromhex(h))

    def add_bytes(self, b):
        self.items += list(b)

    def add_err(self, k):
        self.items.append(k)

    def walk(self, patch=True, stop_at_fatal=True):
        """RFC 7854 framing as the receiver does it (restart after a non-fatal error).
        Returns (frames, end). With patch, declared lengths above CAP are rewritten in place.
        stop_at_fatal=False reads on after every error, as the safety guard of the engines does."""
        it = self.items
        i, frames = 0, []
        while True:
            h, idx, restart = [], [], False
            while len(h) < 5:
                if i >= len(it):
                    return frames, "end"
                x = it[i]
                i += 1
                if is_marker(x):
                    continue
                if isinstance(x, str):
                    if x not in NONFATAL and stop_at_fatal:
                        return frames, "fatal"
                    restart = True
                    break
                h.append(x)
                idx.append(i - 1)
            if restart:
                continue
            ln = int.from_bytes(bytes(h[1:5]), "big")
            if ln < 5:
                if stop_at_fatal:
                    return frames, "short"
                continue
            if ln > CAP:
                if not patch:
                    return frames, "huge"
                ln = 6 + ln % 311
                for k, b in enumerate(ln.to_bytes(4, "big")):
                    it[idx[1 + k]] = b
                    h[1 + k] = b
            body = []
            while len(body) < ln - 5:
                if i >= len(it):
                    return frames, "end"
                x = it[i]
                i += 1
                if is_marker(x):
                    continue
                if isinstance(x, str):
                    if x not in NONFATAL and stop_at_fatal:
                        return frames, "fatal"
                    restart = True
                    break
                body.append(x)
            if restart:
                continue
            frames.append(bytes(h + body))

    def ops(self, rng=None):
        """B/E ops; consecutive bytes are split into random chunks when rng is given."""
        out, cur = [], []

        def flush():
            nonlocal cur
            b = bytes(cur)
            cur = []
            while b:
                n = len(b) if rng is None or rng.chance(40) else 1 + rng.below(min(len(b), 40))
                out.append("B " + b[:n].hex())
                b = b[n:]
        for x in self.items:
            if is_marker(x):
                flush()
                out.append(x)
            elif isinstance(x, str):
                flush()
                out.append("E " + x)
            else:
                cur.append(x)
        flush()
        return out


def trivially_unparsable(f):
    return len(f) < 6 or f[0] != 3 or f[5] > 6


def make_case(stream, table, hang, rng=None):
    """table: hex -> descriptor of the frames the generator knows. Full mode only if every frame the
    receiver will hand to the parser is known or trivially unparsable."""
    stream.walk(patch=True, stop_at_fatal=False)     # cap every length field any reading of the script could meet
    frames, _ = stream.walk(patch=False)
    used, full = {}, True
    for f in frames:
        h = f.hex()
        if h in table:
            used[h] = table[h]
        elif not trivially_unparsable(f):
            full = False
    ops = stream.ops(rng)
    if hang:
        ops.append("Z hang")
    if full and any(str(v).startswith("*") for v in table.values()):
        # frames from the proved encoder: no table, the model decodes for itself (BmpWireAbs.wire_msg)
        ops.insert(0, "T *")
    elif full:
        ops.insert(0, "T " + (",".join(f"{k}={v}" for k, v in used.items()) if used else "x=y"))
    return ";".join(ops)


# per-peer headers of gens/bmpwiregen.PPHS with V = 0 (the canonical names show an IPv4 address)
WIRE_PEERS = [0, 1, 3, 4, 5, 6, 8, 9, 10, 11, 12, 13, 14]


def wire_stream(rng, nmsgs=5, terminate=False, tag=""):
    """A valid session whose frames come from the PROVED encoder of Bmp/BmpWire.v (oracle bmpenc), every field varied as
    engine bmpwire does. Returns (descriptors, {descriptor: hex}); the descriptors `*<tag><n>` only name the frames."""
    from gens import bmpwiregen as W
    fixed, rnd = W.pdus(rng.fork("pdus"), 6)
    peers = rng_sample(rng, WIRE_PEERS, 2)
    asts = [W.init_ast(rng)]
    for p in peers:
        asts.append(W.up_ast(rng, p, rng.chance(50)))
    for _ in range(nmsgs):
        p = rng.choice(peers)
        k = rng.weighted([("R", 50), ("S", 8), ("M", 5), ("D", 12), ("U", 10), ("I", 5), ("X", 10)])
        if k == "R":
            asts.append(W.route_ast(rng, p, rng.choice(fixed if rng.chance(60) or not rnd else rnd), trail=rng.chance(10)))
        elif k == "S":
            asts.append(W.stats_ast(rng, p))
        elif k == "M":
            asts.append(W.mirror_ast(rng, p))
        elif k == "D":
            asts.append(W.down_ast(rng, p))
        elif k == "U":
            asts.append(W.up_ast(rng, p, rng.chance(50)))
        elif k == "I":
            asts.append(W.init_ast(rng))
        else:
            asts.append(W.route_ast(rng, rng.choice(WIRE_PEERS), fixed[0]))     # a peer that may not be up
    if terminate:
        asts.append(W.term_ast(rng))
    hexes = W.encode_asts(asts)
    descrs = [f"*{tag}{i}" for i in range(len(hexes))]
    return descrs, dict(zip(descrs, hexes))


def valid_stream_descrs(rng, npeers=2, nmsgs=8, terminate=False):
    """Initiation, Peer Ups, route traffic (announce / withdraw / End-of-RIB / unparsable UPDATE / stats / peer down)."""
    peers = rng_sample(rng, [0, 1, 2, 3, 4, 5, 6, 7, 8, 9], npeers)
    d = ["I"]
    for p in peers:
        d.append(f"U.{p}.{rng.below(2)}")
    for _ in range(nmsgs):
        p = rng.choice(peers)
        k = rng.weighted([("R", 50), ("W", 15), ("E", 8), ("N", 5), ("S", 7), ("D", 8), ("U", 7)])
        if k == "R":
            ps = "+".join(str(x) for x in sorted(set(rng.below(6) + 1 for _ in range(rng.range(1, 3)))))
            d.append(f"R.{p}.0.{rng.below(4)}.{ps}.0.-")
        elif k == "W":
            ws = "+".join(str(x) for x in sorted(set(rng.below(6) + 1 for _ in range(rng.range(1, 2)))))
            d.append(f"R.{p}.0.0.-.0.{ws}")
        elif k == "E":
            d.append(f"E.{p}.0")
        elif k == "N":
            d.append(f"N.{p}")
        elif k == "S":
            d.append(f"S.{p}")
        elif k == "D":
            d.append(f"D.{p}" + (f".{rng.choice([0, 1, 2, 3, 4, 6, 7, 255])}" if rng.chance(40) else ""))
        else:
            d.append(f"U.{p}.{rng.below(2)}")
    if terminate:
        d.append("X")
    return d


def rng_sample(rng, xs, n):
    xs = list(xs)
    out = []
    for _ in range(min(n, len(xs))):
        out.append(xs.pop(rng.below(len(xs))))
    return out


def classify(case, out):
    ks = []
    t = out.split()
    ks.append("mode-full" if "|" in t else "mode-shape")
    for x in t:
        if x.startswith("end:"):
            e = x[4:]
            ks.append("end-" + ("fatal-error" if e.startswith("e-") else e))
    if "W:[]" in t:
        ks.append("no-peer-registered")
    if any(x.startswith("W:[p") for x in t):
        ks.append("peers-withdrawn-at-end")
    if " E " in " " + case.replace(";", " ; "):
        ks.append("has-read-error")
    if "Z hang" in case:
        ks.append("unit-shutdown")
    gs = [x for x in t if x.startswith("g:")]
    if any(x != "g:-" for x in gs):
        ks.append("pages-asked")
    if "g:-" in gs:
        ks.append("pages-asked-too-late")
    if any(",e10," in x for x in gs):
        ks.append("page-lists-10-parse-errors")
    if "=RB." in case:
        ks.append("updates-from-c04-encoder")
    if out.strip() == "HUGE":
        ks.append("huge-skipped")
    for x in t:
        if x.startswith("h:"):
            ks.append({"h:W": "backpressure-held-the-withdrawbulk-of-the-cleanup", "h:eos": "backpressure-held-the-end-of-stream",
                       "h:-": "backpressure-nothing-to-hold"}.get(x, "backpressure-held-an-update-of-the-stream"))
        if x == "lk:1":
            ks.append("register-write-locked-at-session-end")
    return ks


# ---------------------------------------------------------------- known finding: Peer Up with a truncated capability
def stream_of_case(case):
    s = Stream()
    for op in case.split(";"):
        t = op.split()
        if len(t) == 2 and t[0] == "B":
            s.add_hex(t[1])
        elif len(t) == 2 and t[0] == "E":
            s.add_err(t[1])
        elif t == ["G"] or t == ["L"] or (len(t) == 2 and t[0] == "H"):
            s.items.append(" ".join(t))
    return s


def open_caps_malformed(msg):
    """msg: one BGP OPEN (19-byte header included). True iff a Capabilities parameter is not exactly tiled by
    (code, length, value) triples - what routecore 0.5.1 CapabilitiesIter::next unwraps on."""
    if len(msg) < 29 or msg[18] != 1:
        return False
    optlen = msg[28]
    p, end = 29, min(len(msg), 29 + optlen)
    while p + 2 <= end:
        typ, ln = msg[p], msg[p + 1]
        val = msg[p + 2:min(end, p + 2 + ln)]
        if typ == 2:
            q = 0
            while q < len(val):
                if q + 2 > len(val) or q + 2 + val[q + 1] > len(val):
                    return True
                q += 2 + val[q + 1]
        p += 2 + ln
    return False


def peer_up_with_truncated_capability(frame):
    if len(frame) < 6 + 42 + 20 + 19 or frame[0] != 3 or frame[5] != 3:
        return False
    p = 6 + 42 + 20
    for _ in range(2):                      # sent OPEN, received OPEN
        if p + 19 > len(frame):
            return False
        ln = int.from_bytes(frame[p + 16:p + 18], "big")
        if ln < 19:
            return False
        if open_caps_malformed(frame[p:p + ln]):
            return True
        p += ln
    return False


def known_signature(k, engine, case, mo, spec, im):
    """C06-peerup-capability-panic: the connection task panics inside routecore's OPEN capability iterator and the
    stream contains a Peer Up Notification whose OPEN has a capability running past its parameter."""
    if k.get("id") not in ("C06-peerup-capability-panic", "C07-peerup-capability-panic") or engine != "bstream":
        return False
    if not im.startswith("PANIC@routecore-0.5.1/src/bgp/message/open.rs:") or "PANIC" in spec:
        return False
    frames, _ = stream_of_case(case).walk(patch=False)
    return any(peer_up_with_truncated_capability(f) for f in frames)
