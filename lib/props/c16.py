"""C16 - MRT import reproduces the file: every entry and update, in order, per peer."""
import os
import sys

sys.path.insert(0, os.path.dirname(os.path.dirname(os.path.abspath(__file__))))
import vcommon as V  # noqa: E402
from gens import pipegen  # noqa: E402

PROPS_FILE = "Props_C16.v"
RULE = ("queues of 1-6 generated MRT files (TABLE_DUMP_V2 peer index table + RIB_IPV4/IPV6_UNICAST records; BGP4MP and BGP4MP_ET "
        "MESSAGE / MESSAGE_AS4 / STATE_CHANGE / STATE_CHANGE_AS4; OPEN/KEEPALIVE/NOTIFICATION/garbled messages and foreign TABLE_DUMP_V2 "
        "records interleaved; plain, gzip, bzip2; unreadable files in between) over a pool of 8 v4/v6 peers with AS2 and AS4 numbers, "
        "enqueued in batches through the real HTTP queue endpoint, RIB queried between batches; in one case of five the BGP4MP records also "
        "hold UPDATE octets from C04's proved encoder (IPv4/IPv6 unicast/multicast, MP_REACH / MP_UNREACH / conventional fields, End-of-RIB "
        "forms, unknown AFI/SAFIs) and malformed variants of them - above all UPDATEs that are malformed in exactly one half (the last NLRI "
        "inside MP_UNREACH_NLRI spoilt next to good conventional NLRI or a good MP_REACH_NLRI; the last NLRI inside MP_REACH_NLRI spoilt next "
        "to good withdrawn routes or a good MP_UNREACH_NLRI), C04's spoilt tails and mutations; in one case of five the queue holds REPEATS: "
        "a dump or update file comes again - the same path (request spelled plain, ./path, dir/../dir/name, dir//name) or the same octets under "
        "another name - behind nothing, a file that withdraws its routes, changes their attributes, takes its peer down (Established->Idle), an "
        "unrelated or unreadable file, in one batch of concurrent requests or one request after the other, or files of EQUAL NAME lie in "
        "update_path, a/, b/, a/b/, b/a/ with different content and are requested in turn (which routes arrive says which file was imported), a "
        "path is written again and queued; in a share of all cases the first batch is the unit's configured `filename` list, queued at start-up, "
        "instead of requests to the HTTP endpoint; a case is non-trivial when a query "
        "returns at least one entry; distinct = distinct case text")
TRUSTED_BASE = [
    "Coq 8.16.1 kernel (coqc; coqchk in thorough); no native_compute",
    "extraction with ExtrOcamlBasic only; OCaml driver oracle/{conv,eng_c16,oracle}.ml (case parsing, naming of ids by peer and rank, "
    "the property's reading as an update stream, classification of model/spec differences against the recorded findings)",
    "Rust harness /verif/harness engine c16: MRT/BGP byte encoders written for this engine, real mrt-file-in unit through "
    "rotonda::verif::mrt_import (HTTP queue Processor -> queue -> MrtInRunner::run -> process_file -> Gate), a real RibUnitRunner linked "
    "behind the gate as direct-update target, Rib::match_prefix for the queries",
    "op MB: the octets of the BGP message inside a BGP4MP record are read by C04's decoder (BgpModel.decode, the implementation's mode) through "
    "Pipe/PipeRaw.v (numbering of wire prefixes and attribute lists) on the model side and handed to the unit as they are on the other; "
    "lib/gens/pipegen.py (ASTs for oracle c04enc, the spoilt octet of the half-malformed UPDATEs, C04's mutations); PDUs on which C04's decoder "
    "and routecore are known to differ (C04's recorded findings and its one tolerance) are left out - they are C04's business",
    "emulated in the hook, not exercised: the first lines of MrtFileIn::run that take name / ingress register / HTTP registration from the Component",
    "modelled, not verified: src/units/mrt_file_in/unit.rs (process_file, process_message, process_state_change, run), src/ingress.rs, "
    "src/units/rib_unit; routecore's MRT and BGP parsers are NOT modelled - what they accept, skip or panic on is written into the model "
    "as observed (MrtModel.dump_walk) and tied by the correspondence check only",
]
ASSUMPTIONS = [
    "the BGP message inside a BGP4MP MESSAGE (AS2) record is encoded with four-octet AS paths, as the code assumes (it parses every record with SessionConfig::modern())",
    "abstract ops (M, T): one address family of announcements and one of withdrawals per UPDATE, attribute sets identified by the attribute octets the "
    "engine's encoder wrote for them; UPDATE octets (MB): any mix of families, attribute sets identified by length + FNV-1a of the stored octets",
    "which of bgp_msg(), explode_announcements, explode_withdrawals turns an undecodable UPDATE down is not modelled: since the repair of process_file "
    "each of them means 'logged and skipped' (checked on 300 half-malformed UPDATEs of every shape: all pass bgp_msg() and fail in exactly one explode)",
    "HashMap iteration order is arbitrary: where a lookup has several candidate ids the model lists all of them and the later RIB answers for that peer are not compared",
    "ids are named by the peer the register holds for them and, when a peer has several ids, by their rank in registration order",
    "files of one batch are enqueued by concurrent HTTP requests polled in file order; the unit consumes its queue sequentially",
    "a path that is written again is replaced (write aside, rename) only after the entries already queued under it have been imported: the queue "
    "holds names and the unit opens a file when its turn comes, so what an entry imports is what its path holds then (MrtModel.resolve over the "
    "tree as the driver wrote it); the tree is not changed between an entry's request and its import",
    "the configured `filename` list is queued by the hook verif_start exactly as MrtFileIn::run does (before the queue loop starts, no enqueuer); "
    "the RIB's link is connected to the gate before the unit starts, as the application's wait point guarantees; the end of the start-up list is "
    "awaited through one more entry (a path that does not exist) put on the queue behind it",
]

NPEERS = 8
SMALL_AS = [0, 1, 2, 3, 4, 7]   # pool peers whose AS fits in 16 bits


def upd(rng, fams=(0, 1)):
    af = rng.choice(fams)
    wf = af if rng.chance(80) else rng.choice(fams)
    na = rng.weighted([(0, 15), (1, 45), (2, 30), (3, 10)])
    nw = rng.weighted([(0, 55), (1, 35), (2, 10)])
    ps = sorted({rng.below(6) for _ in range(na)})
    ws = sorted({rng.below(6) for _ in range(nw)})
    return "%d %d %s %d %s" % (af, rng.below(10), ",".join(map(str, ps)) or "-", wf, ",".join(map(str, ws)) or "-")


def variant(rng, p):
    v = rng.weighted([(4, 60), (14, 15), (2, 15), (12, 10)])
    if v % 10 == 2 and p not in SMALL_AS:
        v += 2
    return v


# ---- UPDATEs as octets (op MB): from C04's proved encoder, and malformed variants of them
HALF_HEX = {}     # hex -> shape, of the half-malformed UPDATEs handed out (for the evidence's distribution)


def raw_plan16(rng):
    """the UPDATEs one case may put into its BGP4MP records: (ast, post) pairs for pipegen.encode_plans"""
    plan = []
    for _ in range(rng.range(4, 9)):
        k = rng.weighted([("half", 36), ("ann", 20), ("wd", 12), ("both", 10), ("tail", 8), ("mut", 6), ("eor", 3), ("unk", 3), ("eorlike", 2)])
        if k == "half":
            ast, post, shape = pipegen.half_ast(rng)
            plan.append((ast, post, shape))
        else:
            ast, post = pipegen.raw_ast(rng, k)
            plan.append((ast, post, None))
    return plan


def encode_raw(rng, plans):
    """per plan the list of hex strings (PDUs C04 keeps for itself are left out); remembers which are half-malformed"""
    kept = []
    hexes = pipegen.encode_plans(V, rng, [[(a, p) for a, p, _ in pl] for pl in plans], kept=kept)
    for pl, hs, js in zip(plans, hexes, kept):
        for h, j in zip(hs, js):
            if pl[j][2]:
                HALF_HEX[h] = pl[j][2]
    return hexes


def update_file(rng, peers, n=None, raw=None):
    ops = ["F " + rng.choice("pgb")]
    for _ in range(n if n is not None else rng.range(1, 8)):
        p = rng.choice(peers)
        k = rng.weighted([("M", 62), ("S", 16), ("K", 12), ("N", 10), ("MB", 70 if raw else 0)])
        if k == "MB":
            h = rng.choice(raw)
            ops.append("MB %d %d %s" % (variant(rng, p), p, h))
            if h in HALF_HEX and rng.chance(30):
                # nothing of such an UPDATE may be applied - not even the registration of its peer: an Established->Idle
                # of a peer that is only known from it finds nobody to withdraw
                ops.append("S %d %d 6 1" % (variant(rng, p), p))
        elif k == "M":
            ops.append("M %d %d %s" % (variant(rng, p), p, upd(rng)))
        elif k == "S":
            old, new = (6, 1) if rng.chance(60) else (rng.range(1, 6), rng.range(1, 6))
            ops.append("S %d %d %d %d" % (variant(rng, p), p, old, new))
        elif k == "K":
            ops.append("K %d %d %s" % (variant(rng, p), p, rng.choice("okngx")))
        else:
            ops.append("N %d" % rng.choice([1, 3, 5, 6]) if rng.chance(50) else "N 6")
    return ops


def dump_file(rng, peers):
    ops = ["F " + rng.choice("pgb"), "I " + (",".join(map(str, peers)) or "-")]
    if not peers:
        return ops
    for _ in range(rng.range(1, 6)):
        es = ["%d:%d" % (rng.below(len(peers)), rng.below(10)) for _ in range(rng.range(1, 3))]
        ops.append("T %d %d %s" % (rng.below(2), rng.below(6), ",".join(es)))
    return ops


def queries(rng, n):
    return ["Q %d %d" % (rng.below(2), rng.below(6)) for _ in range(n)]


def gen_case(rng, kind, raw=None):
    ops = []
    seen = set()
    nfiles = rng.range(1, 6)
    for i in range(nfiles):
        roll = rng.below(100)
        if kind == "clean":
            fresh = [p for p in range(NPEERS) if p not in seen]
            if roll < 35 and fresh:
                k = rng.range(0 if rng.chance(5) else 1, min(4, len(fresh)))
                ps = []
                for _ in range(k):
                    c = rng.choice([p for p in fresh if p not in ps])
                    ps.append(c)
                seen.update(ps)
                ops += dump_file(rng, ps)
            elif roll < 47:
                ops.append("X " + rng.choice("mgbd"))
            else:
                ps = [rng.below(NPEERS) for _ in range(rng.range(1, 3))]
                seen.update(ps)
                ops += update_file(rng, ps, raw=raw)
        elif kind == "redump":
            if roll < 55:
                ps = [rng.below(4) for _ in range(rng.range(1, 3))]
                ops += dump_file(rng, ps)
            else:
                ops += update_file(rng, [rng.below(4) for _ in range(2)], raw=raw)
        else:  # "stop": files routecore's iterator does not survive
            if roll < 50:
                ps = sorted({rng.below(NPEERS) for _ in range(rng.range(1, 3))})
                f = dump_file(rng, ps)
                bad = rng.weighted([("mixed", 40), ("foreign", 25), ("empty", 15), ("index", 20)])
                at = rng.range(2, len(f))
                if bad == "mixed":
                    f[at:at] = update_file(rng, ps, n=rng.range(1, 3))[1:]
                elif bad == "foreign":
                    f.insert(at, "N %d" % rng.choice([3, 5, 6]))
                elif bad == "empty":
                    f.insert(at, "T %d %d -" % (rng.below(2), rng.below(6)))
                else:
                    f.insert(at, "T %d %d %d:%d" % (rng.below(2), rng.below(6), len(ps) + rng.below(3), rng.below(10)))
                ops += f
            else:
                ops += update_file(rng, [rng.below(NPEERS) for _ in range(2)], raw=raw)
        if rng.chance(35):
            ops += queries(rng, rng.range(1, 2)) if rng.chance(70) else ["W"]
    ops += queries(rng, rng.range(2, 5))
    if raw:
        # the prefixes the octets name (two of them are the abstract ops' prefixes 1 and 2)
        ops += ["QX 0 " + x for x in pipegen.V4POOL] + ["QX 1 " + x for x in pipegen.V6POOL if rng.chance(60)]
    return ";".join(ops)


# ---- queues with repeats, trees with equal names (the queue holds NAMES; every entry is imported when its turn comes)
REPEAT_TAGS = {}    # case text -> what the generator put into it (for the evidence's distribution)
SUBS = ["-", "a", "b", "a.b", "b.a"]


def barrier_or_not(rng, ops, qs):
    """between two files: nothing (same batch: the requests are in flight together), a barrier, or queries"""
    r = rng.below(100)
    if r < 40:
        return
    if r < 55:
        ops.append("W")
    else:
        ops.extend(qs if rng.chance(70) else qs[:1])


def again(rng, ops, k, tags):
    """file k of the case once more: the same path (any spelling of the request), the same octets under another name"""
    if rng.chance(60):
        sp = rng.weighted([(0, 55), (1, 15), (2, 15), (3, 15)])
        ops.append("R %d %d" % (k, sp) if sp or rng.chance(50) else "R %d" % k)
        tags.add("again:same-path")
    else:
        ops.append("C %d" % k)
        tags.add("again:same-content-other-name")


def gen_repeat(rng, raw=None):
    ops, tags = [], set()
    nfiles = 0
    boot = rng.chance(30)
    fam = rng.below(2)
    p = rng.below(NPEERS)
    pfxs = sorted({rng.below(6) for _ in range(rng.range(1, 2))})
    plist = ",".join(map(str, pfxs))
    qs = ["Q %d %d" % (fam, x) for x in pfxs]
    place = (lambda: " %s %d" % (rng.choice(SUBS), rng.below(2))) if rng.chance(30) else (lambda: "")
    # something in front, sometimes
    if rng.chance(30):
        ops += update_file(rng, [p, rng.below(NPEERS)], n=rng.range(1, 3), raw=raw)
        nfiles += 1
    dump = rng.chance(30)
    a1 = rng.below(10)
    if dump:
        others = [q for q in range(NPEERS) if q != p]
        peers = [p] + ([rng.choice(others)] if rng.chance(40) else [])
        ops += ["F %s%s" % (rng.choice("pgb"), place()), "I " + ",".join(map(str, peers))]
        ops += ["T %d %d %s" % (fam, x, ",".join("%d:%d" % (i, (a1 + i) % 10) for i in range(len(peers)))) for x in pfxs]
        tags.add("repeated:dump-file")
    else:
        ops.append("F %s%s" % (rng.choice("pgb"), place()))
        ops.append("M %d %d %d %d %s %d -" % (variant(rng, p), p, fam, a1, plist, fam))
        if rng.chance(30):
            ops += update_file(rng, [p], n=rng.range(1, 2))[1:]
        tags.add("repeated:update-file")
    first = nfiles
    nfiles += 1
    if boot and rng.chance(50):
        ops.append("B")
        tags.add("configured-filename-list")
        boot = False
    else:
        barrier_or_not(rng, ops, qs)
    # what stands between the file and its return
    for _ in range(rng.weighted([(0, 15), (1, 65), (2, 20)])):
        k = rng.weighted([("withdraw", 35), ("attrs", 20), ("down", 20), ("other", 15), ("bad", 5), ("self", 5)])
        tags.add("between:" + k)
        if k == "withdraw":
            ops += ["F %s%s" % (rng.choice("pgb"), place()), "M %d %d %d 0 - %d %s" % (variant(rng, p), p, fam, fam, plist)]
        elif k == "attrs":
            ops += ["F %s%s" % (rng.choice("pgb"), place()), "M %d %d %d %d %s %d -" % (variant(rng, p), p, fam, (a1 + 1 + rng.below(8)) % 10, plist, fam)]
        elif k == "down":
            ops += ["F %s%s" % (rng.choice("pgb"), place()), "S %d %d 6 1" % (variant(rng, p), p)]
        elif k == "other":
            ops += update_file(rng, [rng.below(NPEERS)], n=rng.range(1, 3), raw=raw)
        elif k == "bad":
            ops.append("X " + rng.choice("mgbd"))
        else:
            again(rng, ops, first, tags)
            barrier_or_not(rng, ops, qs)
            continue
        nfiles += 1
        if boot and rng.chance(60):
            ops.append("B")
            tags.add("configured-filename-list")
            boot = False
        else:
            barrier_or_not(rng, ops, qs)
    if not any(t.startswith("between:") for t in tags):
        tags.add("between:nothing")
    again(rng, ops, first, tags)
    if boot:
        ops.append("B")
        tags.add("configured-filename-list")
    ops += qs
    # ... and once more, or another file of the case again
    if rng.chance(35):
        again(rng, ops, rng.below(nfiles) if rng.chance(50) else first, tags)
        ops += qs
    ops += queries(rng, rng.range(0, 2))
    case = ";".join(ops)
    REPEAT_TAGS[case] = sorted(tags)
    return case


def gen_tree(rng):
    """files of EQUAL NAME in different directories of update_path, each announcing the same prefixes with other attributes
    (or holding something else altogether): which routes arrive says which file was imported"""
    ops, tags = [], {"tree:equal-names"}
    fam = rng.below(2)
    p = rng.below(NPEERS)
    x = rng.below(6)
    base = rng.below(2)
    comp = rng.choice("pgb")
    subs = SUBS[:]
    subs.sort(key=lambda _: rng.below(1000))
    subs = subs[:rng.range(2, 4)]
    if "-" not in subs and rng.chance(60):
        subs[0] = "-"           # the name also exists directly in update_path
    boot = rng.chance(25)
    for i, sub in enumerate(subs):
        ops.append("F %s %s %d" % (comp if rng.chance(85) else rng.choice("pgb"), sub, base))
        r = rng.below(100)
        if r < 70:
            ops.append("M %d %d %d %d %d %d -" % (variant(rng, p), p, fam, (i + 1) % 10, x, fam))
        elif r < 85:
            ops.append("M %d %d %d 0 - %d %d" % (variant(rng, p), p, fam, fam, x))
        else:
            q = rng.below(NPEERS)
            ops += ["I %d" % q, "T %d %d 0:%d" % (fam, x, (i + 5) % 10)]
        if boot and i == len(subs) - 1:
            ops.append("B")
            tags.add("configured-filename-list")
        elif rng.chance(50):
            ops.append("Q %d %d" % (fam, x))
    ops.append("Q %d %d" % (fam, x))
    for _ in range(rng.range(1, 4)):
        k = rng.below(len(subs))
        ops.append("R %d %d" % (k, rng.below(4)))
        tags.add("again:same-path")
        if rng.chance(70):
            ops.append("Q %d %d" % (fam, x))
    if rng.chance(30):
        # one of the paths is written again (a mirror job replacing latest-update), then queued
        k = rng.below(len(subs))
        ops += ["F %s %s %d" % (comp, subs[k], base), "M %d %d %d %d %d %d -" % (variant(rng, p), p, fam, 9, x, fam)]
        tags.add("tree:path-written-again")
        if rng.chance(50):
            ops.append("R %d %d" % (rng.below(len(subs)), rng.below(4)))
    ops.append("Q %d %d" % (fam, x))
    case = ";".join(ops)
    REPEAT_TAGS[case] = sorted(tags)
    return case


def sprinkle(rng, case):
    """any generated case: now and then one of its files comes again somewhere behind it / its first barrier is the start-up list"""
    ops = case.split(";")
    starts = [i for i, o in enumerate(ops) if o.startswith(("F ", "X "))]
    tags = set()
    if starts and rng.chance(12):
        k = rng.below(len(starts))
        # behind file k: in front of any later file start, or at the end of the files
        cands = [i for i in starts[k + 1:]] + [max(i for i, o in enumerate(ops) if not o.startswith("Q")) + 1]
        at = rng.choice(cands)
        ops.insert(at, "R %d" % k if rng.chance(60) else "C %d" % k)
        tags.add("again:sprinkled")
    if rng.chance(8):
        bars = [i for i, o in enumerate(ops) if o.startswith(("W", "Q"))]
        if bars:
            ops.insert(bars[0], "B")
            tags.add("configured-filename-list")
    if rng.chance(10):
        # its files live in sub-directories
        for i in starts:
            if ops[i].startswith("F ") and len(ops[i].split()) == 2 and rng.chance(60):
                ops[i] += " %s %d" % (rng.choice(SUBS), 10 + i)
        tags.add("tree:sub-directories")
    case = ";".join(ops)
    if tags:
        REPEAT_TAGS[case] = sorted(tags)
    return case


def gen(rng, tier):
    n = 4000 if tier == "quick" else 40000
    # one case in five also takes UPDATEs as octets: from C04's proved encoder and malformed variants (half-malformed above all)
    rawn = [i for i in range(n) if i % 5 == 1]
    hexes = dict(zip(rawn, encode_raw(rng.fork("enc"), [raw_plan16(rng.fork("raw%d" % i)) for i in rawn])))
    for i in range(n):
        if i % 10 in (2, 5):
            r2 = rng.fork("rep%d" % i)
            yield gen_tree(r2) if i % 20 == 5 else gen_repeat(r2)
            continue
        kind = "clean" if i % 10 < 7 else ("redump" if i % 10 < 9 else "stop")
        yield sprinkle(rng.fork("spr%d" % i), gen_case(rng, kind, raw=hexes.get(i) or None))


def nontrivial(case, out):
    return any(t.startswith("q:p") for t in out.split())


def classify(case, out):
    ks = []
    toks = out.split()
    ops = [o.split() for o in case.split(";")]
    nf = sum(1 for o in ops if o and o[0] in ("F", "X"))
    ks.append("files=%s" % (nf if nf < 4 else "4+"))
    for o in ops:
        if not o:
            continue
        if o[0] == "F":
            ks.append({"p": "plain", "g": "gzip", "b": "bzip2"}[o[1]])
            if len(o) >= 4 and o[2] != "-":
                ks.append("file-in-sub-directory")
        elif o[0] == "R":
            ks.append("entry-again:same-path")
            if len(o) > 2 and o[2] != "0":
                ks.append("request-spelled:" + {"1": "./path", "2": "dir/../dir/name", "3": "dir//name"}[str(int(o[2]) % 4)])
        elif o[0] == "C":
            ks.append("entry-again:same-content-other-name")
        elif o[0] == "B":
            ks.append("start-up-filename-list")
        elif o[0] == "X":
            ks.append("unreadable-file")
        elif o[0] == "I":
            ks.append("dump-file")
        elif o[0] == "MB":
            ks.append("update-octets-half-malformed:" + HALF_HEX[o[3]] if o[3] in HALF_HEX else "update-octets")
        elif o[0] in ("M", "S", "K"):
            ks.append({"2": "as2-record", "4": "as4-record", "12": "as2-et-record", "14": "as4-et-record"}[o[1]])
            if o[0] == "S":
                ks.append("state-change-6-1" if o[3:] == ["6", "1"] else "state-change-other")
            if o[0] == "K":
                ks.append("non-update-message")
        elif o[0] == "N":
            ks.append("foreign-record")
    ks += REPEAT_TAGS.get(case, [])
    ks = sorted(set(ks))
    if any(t.startswith("w:") for t in toks):
        ks.append("withdraw-left-gate")
    if any("#" in t for t in toks):
        ks.append("peer-with-two-ids")
    if any("<" in t for t in toks):
        ks.append("ambiguous-lookup")
    if any(t.startswith("s:") for t in toks):
        ks.append("dump-entries-imported")
    if any(t.startswith("q:") and "=W" in t for t in toks):
        ks.append("query-shows-withdrawn")
    return ks


def corpus():
    return [
        # dump of a v4 and a v6 peer, both families, then queries
        "F p;I 0,3;T 0 5 0:3,1:4;T 1 7 1:9;Q 0 5;Q 1 7",
        # gzip update file: announce, implicit replace + withdraw in one UPDATE
        "F g;M 4 0 0 3 1,2 0 -;M 4 0 0 4 2 0 1;Q 0 1;Q 0 2",
        # the repaired defect: Established->Idle after a dump and an update must withdraw (was: no Withdraw, routes stayed active)
        "F b;I 0;T 0 5 0:3;F p;M 4 0 0 7 6 0 -;S 4 0 6 1;Q 0 5;Q 0 6",
        # AS2 and _ET variants, v6 routes, four-octet AS peer in an AS2 record
        "F p;M 2 5 1 3 1,2 0 -;M 14 3 1 4 2 1 1;Q 1 1;Q 1 2",
        # unreadable files of every kind in front of a good one, one batch
        "X m;X g;X b;X d;F p;M 4 0 0 3 1 0 -;Q 0 1",
        # skipped record kinds between updates
        "F p;K 4 0 o;K 4 0 k;K 4 0 n;K 4 0 g;M 4 1 0 3 1 0 -;N 3;K 4 0 x;M 4 1 0 3 2 0 -;F p;M 4 2 0 1 1 0 -;Q 0 1;Q 0 2",
        # the second repaired defect: a file the parser panics on used to end the queue loop; the file behind it must be imported
        "F p;I 0;T 0 5 -;W;F p;M 4 1 0 1 1 0 -;Q 0 5;Q 0 1",
        "F p;I 0;T 0 5 0:3;N 3;T 0 6 0:3;F p;M 4 1 0 1 1 0 -;Q 0 5;Q 0 6;Q 0 1",
        # known finding C16-2: dump records followed by BGP4MP records in one file
        "F p;I 0;T 0 5 0:3;M 4 0 0 7 6 0 -;F p;M 4 1 0 1 1 0 -;Q 0 5;Q 0 6;Q 0 1",
        # known finding C16-1: one peer, two index entries / two dump files
        "F p;I 0,0;T 0 5 0:3,1:4;F p;M 4 0 0 7 5 0 -;Q 0 5",
        "F p;I 0;T 0 5 0:3;F p;I 0;T 0 5 0:4;F p;M 4 0 0 0 - 0 5;S 4 0 6 1;Q 0 5",
        # the third repaired defect: an UPDATE that cannot be taken apart (here: bgp_msg() accepts it, the last NLRI inside its
        # MP_UNREACH_NLRI / MP_REACH_NLRI has 200 bits) used to end the file; the records behind it must be imported, and
        # nothing of the half that parses may be applied (all or nothing: 10.9.8.0/24 stays as announced first, 10.9.9.0/24 active)
        "F p;MB 4 0 ffffffffffffffffffffffffffffffff003302000000144001010040020602010000fde9400304c0000201180a0908180a0909;MB 4 0 ffffffffffffffffffffffffffffffff003f02000000244001010040020602010000fde9400304c0000201800f0d0002014020010db800000001c8180a0908;MB 4 0 ffffffffffffffffffffffffffffffff004a020004180a0909002f4001010040020602010000fde9800e1f0002011020010db8000000000000000000000001004020010db800000001c8;M 4 0 0 4 1 0 -;QX 0 24/0a0908;QX 0 24/0a0909;Q 0 1",
        # ... and its peer is not registered by it: the state change behind it finds nobody
        "F p;MB 4 0 ffffffffffffffffffffffffffffffff004a020004180a0909002f4001010040020602010000fde9800e1f0002011020010db8000000000000000000000001004020010db800000001c8;S 4 0 6 1;MB 4 1 ffffffffffffffffffffffffffffffff003f02000000244001010040020602010000fde9400304c0000201800f0d0002014020010db800000001c8180a0908;S 4 1 6 1;M 4 2 0 4 1 0 -;S 4 2 6 1;Q 0 1",
        # the same UPDATEs in AS2 / _ET records of other peers, a good UPDATE from the wire (withdraw .9, announce .8) behind them
        "F g;MB 2 0 ffffffffffffffffffffffffffffffff003302000000144001010040020602010000fde9400304c0000201180a0908180a0909;MB 14 3 ffffffffffffffffffffffffffffffff003f02000000244001010040020602010000fde9400304c0000201800f0d0002014020010db800000001c8180a0908;MB 12 2 ffffffffffffffffffffffffffffffff004a020004180a0909002f4001010040020602010000fde9800e1f0002011020010db8000000000000000000000001004020010db800000001c8;MB 4 0 ffffffffffffffffffffffffffffffff003302000000144001010040020602010000fde9400304c0000201180a0908180a0909;MB 4 0 ffffffffffffffffffffffffffffffff0033020004180a090900144001010040020602010000fde9400304c0000201180a0908;QX 0 24/0a0908;QX 0 24/0a0909",
        # the queue holds names and every entry is imported when its turn comes (seed C16-c2: a loop that skips what it has "imported
        # before"): A = announce, B = withdraw; A, B, A ends with the route active - same path again / same octets under another name /
        # one batch / one request after the other / A and B from the configured filename list at start-up
        "F p;M 4 0 0 3 5 0 -;F p;M 4 0 0 0 - 0 5;R 0;Q 0 5",
        "F p;M 4 0 0 3 5 0 -;Q 0 5;F p;M 4 0 0 0 - 0 5;Q 0 5;C 0;Q 0 5",
        "F g;M 4 0 0 3 5 0 -;F b;M 4 0 0 0 - 0 5;B;Q 0 5;R 0 1;Q 0 5;R 1;Q 0 5;R 0;R 1;R 0;Q 0 5",
        # ... with a change of attributes in between; with nothing in between (the Bulk leaves the gate twice)
        "F p;M 14 3 1 3 1,2 1 -;F p;M 14 3 1 4 1,2 1 -;R 0;Q 1 1;Q 1 2",
        "F p;M 4 0 0 3 5 0 -;R 0;C 0;Q 0 5",
        # ... a dump that comes again after its peer went down (fresh ids again: finding C16-1; the entries must arrive again)
        "F b;I 0;T 0 5 0:3;F p;S 4 0 6 1;R 0;Q 0 5",
        "F b;I 0,3;T 0 5 0:3,1:4;W;F p;M 4 0 0 0 - 0 5;W;C 0;Q 0 5",
        # ... an unreadable entry again, the start-up list with a repeat in it
        "X g;F p;M 4 0 0 3 1 0 -;R 0;R 1;X m;R 3;Q 0 1",
        "F p;M 4 0 0 3 5 0 -;F p;M 4 0 0 0 - 0 5;R 0;B;Q 0 5",
        # the file that is imported is the one the request names, every component of it (seed C16-c1: only the last one): equal
        # names in update_path, a/, a/b/ and b/ holding other files; every spelling of the request; a path written again
        "F p - 0;M 4 0 0 1 5 0 -;F p a 0;M 4 0 0 2 5 0 -;F p a.b 0;M 4 0 0 3 5 0 -;F p b 0;M 4 0 0 0 - 0 5;Q 0 5;R 1;Q 0 5;R 2 2;Q 0 5;R 0 1;Q 0 5;R 1 3;Q 0 5;R 3;Q 0 5",
        "F g a 1;M 4 1 0 1 5 0 -;F g b 1;M 4 1 0 2 5 0 -;Q 0 5;R 0 2;Q 0 5;R 1 3;R 0;Q 0 5",
        "F p a 0;M 4 0 0 1 5 0 -;F p - 0;I 2;T 0 5 0:7;B;Q 0 5;R 0;Q 0 5;F p a 0;M 4 0 0 9 5 0 -;R 0 2;Q 0 5",
        # known finding C16-3 (= C03-1): session back up after Established->Idle, re-announcement stays withdrawn
        "F p;M 4 0 0 3 1 0 -;S 4 0 6 1;S 4 0 1 6;M 4 0 0 4 1 0 -;Q 0 1",
    ]


def known_signature(k, engine, case, mo, spec, im):
    """A failing (minimised) case belongs to a recorded finding when the implementation does exactly what the
    faithful model does and the oracle explains every model/spec difference by recorded classes including k's."""
    cls = V.classes_of(mo, spec).split()
    if not cls or "?" in cls or "-" in cls:
        return False
    return V.obs_match(mo, im) and k.get("class") in cls


ENGINES = [{"name": "c16", "gen": gen, "corpus": corpus, "nontrivial": nontrivial, "classify": classify, "shards": 8, "timeout": 1500}]

LEVEL_TEXT = ("Theorems over all files / queues of the model of process_file and the queue loop (after two repairs): a dump's entries leave as "
              "Singles in file order carrying fresh, distinct ids that stand for their index entry's peer, and an empty RIB then holds exactly "
              "those entries; BGP4MP records are applied in file order, each UPDATE as one Bulk attributed to the id that from then on is the "
              "only answer for (unit, address, AS), stable and unambiguous over any queue of update files; queue order; an unreadable file "
              "is as if never queued; the queue holds names and every entry is imported when its turn comes - register and RIB after a queue are the fold of the "
              "per-entry effects over all entries, repeats included, a file that comes again is processed again and each of its UPDATEs leaves the gate "
              "again, the file imported is the one the whole path names; Established->Idle withdraws exactly the found id's routes; an UPDATE is applied all or nothing on the octets of the "
              "record (C04's decoder: undecodable = no update and an untouched register, decodable = one Bulk with every route event) and an undecodable one "
              "is as if it were not in the file, for the update stream, the RIB and the property's reading over any queue; refutations for a peer named by two index "
              "entries and for dump+update records in one file (known findings). Kernel-checked, axiom-free; tied to the real unit by "
              "generated MRT files pushed through the real queue endpoint, queue loop, gate and RIB on every run.")
DESIGN_REF = "DESIGN.md section 6, C16"
LEVEL_NOTE = ("Trusted: Coq kernel, ExtrOcamlBasic extraction + OCaml driver, Rust harness with its MRT/BGP encoders, generators. routecore's byte-level "
              "MRT/BGP parsing is not modelled; which record sequences it survives is recorded in the model from observation. The refinement "
              "'model answer = property's per-peer reading' is proved for single dump files and characterised by the refutations; in general it "
              "is checked differentially (model ||| spec) with every difference classified against the recorded findings.")
TECHNIQUE = "Coq proof by induction over records/files/queues + reuse of the ingress-register and RIB invariants + model/implementation correspondence on generated MRT files"
