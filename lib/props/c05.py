"""C05 - a BMP session follows the RFC 7854 lifecycle for every order of messages."""
from props.pipe_common import *
from gens import bmpwiregen
PROPS_FILE = "Props_C05.v"
TRUSTED_BASE = TRUSTED_BASE + [
    "engine bmpwire (op WB of the pipe engine): BMP frames from the proved encoder of Bmp/BmpWire.v (oracle bmpenc: text AST -> octets, oracle/eng_bmpenc.ml) "
    "and octet-level mutations of them by lib/gens/bmpwiregen.py, cut by the real io.rs bmp_read (hook verif_bmp_read); naming of per-peer headers by FNV-1a on both sides",
]
ASSUMPTIONS = ASSUMPTIONS + [
    "engine bmpwire: the capabilities of the generated OPEN PDUs are in their RFC form (BmpWire.tidy: codes 1, 2, 6, 9, 64, 65, 70 and codes routecore does not know); "
    "routecore takes the value of a known capability apart by that code's grammar whatever its length octet says (C06's findings) - not modelled; ADD-PATH is not generated; "
    "information strings are compared when ASCII",
]
RULE = ("exhaustive message sequences up to a bounded length over {Initiation, Peer Up (EoR-capable or not), Peer Down, "
        "Route Monitoring announce / withdraw / End-of-RIB / unparsable, Statistics, Termination} x 2 peers on one router, plus "
        "random long sequences on 1-2 routers; observable per message = outcome class, phase, canonical downstream update; "
        "a case is non-trivial when it contains at least one invalid and one accepted message. Engine bmpwire: the same state machine "
        "fed with octets - BMP frames from the proved encoder of Bmp/BmpWire.v (16 per-peer headers differing in one compared field each, "
        "OPENs with/without graceful restart and four-octet AS, every Peer Down reason, 0-4 information TLVs, statistics, mirroring, "
        "Route Monitoring around PDUs of C04's encoder) in exhaustive short and random long sessions, two thirds of the random ones with "
        "malformed frames (version, type, length field, cut / extended body, peer type, bit flips in the headers); non-trivial there = "
        "at least one accepted and one invalid / refused frame")
ALPHABET = ["I 0", "T 0", "U 0 0 1", "U 0 5 0", "D 0 0", "D 0 5", "R 0 0 0 1 1,2 0 -", "R 0 5 0 2 - 0 1", "E 0 0 0", "B 0 0", "S 0 5"]


def exhaustive(depth):
    def rec(prefix, d):
        if d == 0:
            yield prefix
            return
        for a in ALPHABET:
            yield from rec(prefix + [a], d - 1)
    for d in range(1, depth + 1):
        for seq in rec([], d):
            yield "C 0;" + ";".join(seq)


def gen(rng, tier):
    # every sequence of length <= 3 (quick) / 4 (thorough) after the connection; an Initiation-first variant of each
    depth = 3 if tier == "quick" else 4
    for c in exhaustive(depth):
        yield c
        yield c.replace("C 0;", "C 0;I 0;", 1)
    n = 1500 if tier == "quick" else 30000
    for i in range(n):
        yield pipegen.gen_case(rng, peers=[0, 1, 5, 8], metrics=(i % 3 == 0), bgp=False, query_ops=False, length=(10, 60 if tier == "quick" else 200))


def nontrivial(case, out):
    t = out.split()
    return any(x.startswith("i/") for x in t) and any(x.startswith(("u:", "o/", "t/", "w:", "W:")) for x in t)


def corpus():
    return ["C 0;I 0;U 0 0 1;R 0 0 0 3 1,2 0 -;E 0 0 0;D 0 0;D 0 0;T 0;I 0",
            "C 0;U 0 0 1;R 0 0 0 1 1 0 -;T 0;I 0;U 0 0 1;U 0 0 1;R 0 5 0 1 1 0 -;D 0 5;T 0;T 0"] + [
            # Peer Down with each kind of reason octet: down means down, a second one is a lifecycle violation, Peer Up is accepted again
            f"C 0;I 0;U 0 0 1;R 0 0 0 3 1 0 -;D 0 0 {r};D 0 0 {r};R 0 0 0 3 2 0 -;U 0 0 1;R 0 0 0 3 2 0 -" for r in (0, 1, 2, 3, 4, 6, 9, 255)]


ENGINES = [{"name": "pipe", "gen": gen, "corpus": corpus, "nontrivial": nontrivial, "classify": pipegen.classify, "shards": 12},
           # BMP on the wire: frames from the proved encoder of Bmp/BmpWire.v and a malformed stream, through the real bmp_read,
           # routecore's parser and the state machine (op WB of the pipe engine)
           {"name": "bmpwire", "gen": bmpwiregen.gen, "corpus": bmpwiregen.corpus, "nontrivial": bmpwiregen.nontrivial,
            "classify": bmpwiregen.classify, "shards": 12}]
known_signature = known_signature_for({"K2"})
LEVEL_TEXT = ("Theorems over all message sequences of the session state-machine model: phases only move forward, Invalid outcomes are exactly the "
              "lifecycle violations and change no state and are counted, routes are only taken from up peers under that peer's id, the downstream "
              "effect is a function of the message and the up set. Kernel-checked, axiom-free; tied to the real BmpState by exhaustive short and "
              "random long message sequences encoded as real BMP bytes. Round x5a: the messages as octets - an RFC 7854 codec in Coq "
              "(round trip, stream framing, malformed classes refused), the state machine's reading of a decoded frame (which fields matter, per "
              "message type; peer identity = routecore's PartialEq), C05's theorems restated over octet streams; tied to the real bmp_read + "
              "routecore parser + BmpState by frames from the proved encoder and a malformed stream.")
DESIGN_REF = "DESIGN.md section 6, C05"
LEVEL_NOTE = ("Trusted: Coq kernel, extraction + OCaml driver, Rust harness; BMP byte encoding by the repository's own test encoders (engine pipe) / "
              "by the proved encoder of Bmp/BmpWire.v plus octet-level mutations of the python generator (engine bmpwire); routecore's BMP parser is "
              "matched by an independent decoder on the generated domain (capabilities of an OPEN in their RFC form), not verified.")
TECHNIQUE = "Coq proof by induction over message sequences (state-machine invariants) + model/implementation correspondence"
