"""C07 - every way a session can end triggers one complete cleanup (BMP connection)."""
from props.bstream_common import *
PROPS_FILE = "Props_C07.v"
RULE = ("valid multi-message BMP streams (Initiation, 2-3 Peer Ups, announcements, withdrawals, End-of-RIB, unparsable UPDATEs, Peer Downs, "
        "optionally a Termination) cut at EVERY byte offset, each cut x {end of file, unit shutdown while the read is pending, a read error of "
        "each io::ErrorKind class} (quick: EOF, shutdown, ConnectionReset, Interrupted, TimedOut, WouldBlock, Other; thorough: all 21 classes, "
        "more streams), bytes handed out in random chunk sizes; observable = what ended the reads, how many read events were consumed, and every "
        "update that left the gate in canonical form; a case is non-trivial when the final WithdrawBulk names at least one peer and the cut is "
        "inside the stream; distinct = distinct case text; the same streams with the receiving end of the gate holding across the end of the "
        "session for one hour of the runtime's (paused) clock - the first or the second update handed over after the reads end, or the k-th of the "
        "stream - then releasing (op H), and with another party holding the ingress register's write lock while the session ends (op L): the "
        "trace must be the trace without them")

QUICK_KINDS = ["connectionreset", "interrupted", "timedout", "wouldblock", "other"]


def cut_cases(rng, descrs, pool, kinds, step=1):
    table = {pool[d]: d for d in descrs}
    whole = Stream()
    for d in descrs:
        whole.add_hex(pool[d])
    n = len(whole.items)
    for off in range(0, n + 1, step):
        head, rest = whole.items[:off], whole.items[off:]
        yield make_case(Stream(head), table, False, rng)                     # connection closed here
        yield make_case(Stream(head), table, True, rng)                      # unit shutdown while waiting here
        for k in kinds:
            yield make_case(Stream(head + [k] + rest), table, False, rng)    # a read fails here


def pressure_cases(rng, descrs, pool, quick):
    """Back-pressure (`H n`) and contention on the ingress register (`L`) across the end of the session: the marker sits where the
    reads end - after a whole frame, inside a header, inside a body, at random offsets - and the session then ends by end of file,
    unit shutdown, a fatal read error or a header with length field 0; `H 0` holds the first update handed over from there (the
    WithdrawBulk of the cleanup, if the session ends there), `H 1` the second (the EndOfStream); with a non-fatal error the stream
    goes on and the hold catches an update of the stream instead. Plus holds on the k-th update of the whole stream."""
    table = {pool[d]: d for d in descrs}
    whole = Stream()
    bounds = []
    for d in descrs:
        whole.add_hex(pool[d])
        bounds.append(len(whole.items))
    n = len(whole.items)
    cuts = set(bounds)
    for b in bounds:
        cuts.update((b - 1, min(n, b + 3)))
    for _ in range(4 if quick else 40):
        cuts.add(rng.below(n + 1))
    lock_cuts = set(bounds) | set(rng_sample(rng, sorted(cuts - set(bounds)), 2 if quick else 30))
    for off in sorted(cuts):
        head, rest = whole.items[:off], whole.items[off:]
        markers = [HOLD(0), HOLD(1)] + ([LOCK] if off in lock_cuts else [])
        for m in markers:
            yield make_case(Stream(head + [m]), table, False, rng)                         # connection closed
            yield make_case(Stream(head + [m]), table, True, rng)                          # unit shutdown
            yield make_case(Stream(head + [m, "connectionreset"]), table, False, rng)      # fatal read error
            if off in bounds and (m != LOCK or not quick or off in bounds[1::3]):
                yield make_case(Stream(head + [m, 3, 0, 0, 0, 0]), table, False, rng)      # header with length field 0
            if m != LOCK:
                # the stream goes on after the error: the hold catches whatever comes next
                yield make_case(Stream(head + [m, rng.choice(sorted(NONFATAL))] + rest), table, rng.chance(30), rng)
    for k in range(6 if quick else 12):
        yield make_case(Stream([HOLD(k)] + whole.items), table, rng.chance(30), rng)


def interleave(main, extra, every):
    """the cases of `extra` spread over `main` (cases are run in contiguous shards)"""
    extra = list(extra)
    i = 0
    for k, c in enumerate(main):
        yield c
        if k % every == every - 1 and i < len(extra):
            yield extra[i]
            i += 1
    yield from extra[i:]


def gen(rng, tier):
    quick = tier == "quick"
    shapes = [(2, 6, False), (3, 5, True)] if quick else [(2, 8, False), (3, 8, True), (3, 12, False), (1, 4, True)]
    streams = [valid_stream_descrs(rng, npeers=a, nmsgs=b, terminate=c) for a, b, c in shapes]
    # a fixed stream, so that the sweep of one well-understood stream is part of every run
    streams.insert(0, ["I", "U.0.1", "U.5.0", "R.0.0.1.1+2.0.-", "R.5.0.2.3.0.-", "E.0.0", "D.5", "R.0.0.0.-.0.1"])
    pool = render(sorted({d for s in streams for d in s}))
    kinds = QUICK_KINDS if quick else KINDS
    pressure = [c for s in streams for c in pressure_cases(rng, s, pool, quick)]
    # the same sweep over REAL octets: sessions whose frames come from the proved BMP encoder (oracle bmpenc); the model's parser
    # is then the decoder of that codec + the state machine's reading (`T *`, C07_wire_cleanup_once)
    wire = []
    for i in range(1 if quick else 4):
        d, pl = wire_stream(rng.fork("wire%d" % i), nmsgs=4 if quick else 7, terminate=(i % 2 == 1), tag="%d." % i)
        pool.update(pl)
        wire += list(cut_cases(rng, d, pool, kinds, step=3 if quick else 1))
        pressure += list(pressure_cases(rng, d, pool, quick))
    yield from interleave(interleave(plain_cases(rng, tier, streams, pool, kinds), pressure, 8), wire, 3)


def plain_cases(rng, tier, streams, pool, kinds):
    quick = tier == "quick"
    for i, s in enumerate(streams):
        yield from cut_cases(rng, s, pool, kinds, step=1 if (i == 0 or not quick) else 3)
    # two cuts / errors in one stream, and error bursts
    m = 600 if quick else 20000
    for _ in range(m):
        s = rng.choice(streams)
        table = {pool[d]: d for d in s}
        whole = Stream()
        for d in s:
            whole.add_hex(pool[d])
        items = list(whole.items)
        for _ in range(rng.range(2, 4)):
            items.insert(rng.below(len(items) + 1), rng.choice(list(NONFATAL)) if rng.chance(75) else rng.choice(KINDS))
        if rng.chance(30):
            items = items[:rng.below(len(items) + 1)]
        yield make_case(Stream(items), table, rng.chance(25), rng)


def nontrivial(case, out):
    return "W:[p" in out and "eos:1" in out.split()


def corpus():
    return [
        # known finding peerup-capability-panic: Initiation, then a Peer Up whose received OPEN has a capability of declared length 1 in 2 bytes
        "B 03000000100400020001720001000164;B 03000000840300000000000000000000000000000000000000000000c00002010000fde9000000016abd85ea00076b170000000000000000000000000a0000012b0b11d7ffffffffffffffffffffffffffffffff001d0104006f00000000000000ffffffffffffffffffffffffffffffff0023010400de00000000000006020440010000",
        # the short-length frame of the design phase (repaired by aa7f1e5): after a Peer Up it must still end in the cleanup
        "B 0300000000",
        "B 030000000604;B 0300000004",
        "E interrupted;E connectionaborted",
        "Z hang",
        "B 0300",
        "B 0300;Z hang",
    ]


def e2e(V, tier, seed):
    """The same connection over a real loopback TCP stream through the real accept_config (unit.rs): after
    every kind of end the router is gone from router_states / router_info (what GET /routers/ lists), and the
    trace ends WithdrawBulk, EndOfStream."""
    import subprocess
    runs = [["close"], ["reset"], ["shutdown"], ["short"]]
    cuts = [0, 3, 5, 16, 17, 100, 148, 200] if tier == "quick" else list(range(0, 250, 3))
    runs += [[m, str(c)] for c in cuts for m in (["close", "reset"] if tier == "quick" else ["close", "reset", "shutdown"])]
    # (a short header only ends the session where a header is expected: it is run at the frame boundary only)
    fails, seen = [], {}
    for r in runs:
        p = subprocess.run([V.VH, "bstream-e2e"] + r, stdout=subprocess.PIPE, stderr=subprocess.PIPE, text=True, timeout=120)
        out = p.stdout.strip()
        head, _, ups = out.partition(" updates:")
        toks, ups = head.split(), ups.split()
        ok = ("listed-before:1,1" in toks and "listed-after:0,0" in toks and len(ups) >= 2
              and ups[-1] == "eos:router" and ups[-2].startswith("W:[") and sum(t.startswith("eos:") for t in ups) == 1)
        seen[" ".join(r)] = out[:160]
        if not ok:
            fails.append({"what": f"end-to-end connection ({' '.join(r)}): expected the router to leave the router list and the trace to end "
                                  f"WithdrawBulk, EndOfStream; observed: {out[:300]!r} {p.stderr[-200:]!r}",
                          "kind": "property", "replay_cmd": f"{V.VH} bstream-e2e {' '.join(r)}"})
    return {"name": "c07-e2e", "evaluations": len(runs), "coverage": {"runs": len(runs), "sample": dict(list(seen.items())[:4])}, "failures": fails[:3]}


def gauge(V, tier, seed):
    """bmp_num_connected_routers as /metrics renders it: 0 before, 1 while the connection is up, 0 after it was lost
    (repaired by 8a86f45; C15-related)."""
    import subprocess
    p = subprocess.run([V.VH, "bstream-gauge"], stdout=subprocess.PIPE, text=True, timeout=120)
    out = p.stdout.strip()
    r = {"name": "c07-connected-routers-gauge", "evaluations": 1, "coverage": {"result": out[:200]}, "failures": []}
    if not all(t in out.split() for t in ["before:0", "up:1", "after-connection-lost:0"]):
        r["failures"].append({"what": f"bmp_num_connected_routers does not return to 0 after the connection was lost: {out[:200]!r}",
                              "kind": "property", "replay_cmd": f"{V.VH} bstream-gauge"})
    return r


def bgp_e2e(V, tier, seed):
    """The BGP session over a real loopback TCP stream through the real handle_connection (routecore's Session, the writer
    task, Processor::process; started as accept_config of bgp_tcp_in/unit.rs starts it): OPEN, KEEPALIVE, an UPDATE with two
    routes, then the session is ended on the wire. After every kind of end handle_connection returns, the peer has left
    live_sessions and the updates that left the gate end with exactly one Withdraw of the session's ingress id."""
    import subprocess
    modes = ["close", "cut", "reset", "garbage", "badtype", "notification", "shutdown", "shutdown-deaf"]
    reps = 1 if tier == "quick" else 5
    fails, seen, n = [], {}, 0
    for m in modes:
        for _ in range(reps if m != "shutdown-deaf" else 1):
            n += 1
            p = subprocess.run([V.VH, "bgpend-e2e", m], stdout=subprocess.PIPE, stderr=subprocess.PIPE, text=True, timeout=120)
            out = p.stdout.strip().splitlines()[-1] if p.stdout.strip() else ""
            head, _, ups = out.partition(" updates:")
            toks, ups = head.split(), ups.split()
            seen[m] = out[:200]
            ok = ("established:1" in toks and "finished:1" in toks and "live-after:-" in toks and len(ups) >= 2
                  and ups[-1] == "w:s" and sum(t.startswith(("w:", "W:")) for t in ups) == 1 and all(t.startswith("u:[") for t in ups[:-1]))
            if not ok:
                what = (f"BGP session over loopback TCP, ended by `{m}`: expected handle_connection to return, the peer to leave live_sessions and "
                        f"the trace to end with exactly one Withdraw of the session's id; observed: {out[:300]!r} {p.stderr[-200:]!r}")
                if m == "shutdown-deaf" and "established:1" in toks and "finished:0" in toks:
                    what = "unit shutdown with a peer that does not close the connection: " + what
                fails.append({"what": what, "kind": "property", "replay_cmd": f"{V.VH} bgpend-e2e {m}"})
    return {"name": "c07-bgp-e2e", "evaluations": n, "coverage": {"runs": n, "modes": seen}, "failures": fails[:4]}


EXTRAS = [e2e, gauge, bgp_e2e]
ENGINES = [{"name": "bstream", "gen": gen, "corpus": corpus, "nontrivial": nontrivial, "classify": classify, "shards": 12}]
from props import bgpend_common
ENGINES.append(bgpend_common.bgpend_engine())   # the BGP session: the real Processor::process loop driven to its end by every exit
_bstream_signature = known_signature


def known_signature(k, engine, case, mo, spec, im):
    return bgpend_common.known_signature(k, engine, case, mo, spec, im) or _bstream_signature(k, engine, case, mo, spec, im)


TRUSTED_BASE = TRUSTED_BASE + [bgpend_common.BGPEND_TRUSTED]
ASSUMPTIONS = ASSUMPTIONS + bgpend_common.BGPEND_ASSUMPTIONS
RULE = RULE + ("; engine bgpend (BGP session): every script of length <= 3 (thorough: 4) over the 13 events the select! loop of Processor::process can "
               "see (tick Ok / negotiated / Err, SessionNegotiated, UPDATE, NOTIFICATION, ConnectionLost, channel closed, Terminate, the four kinds of "
               "Reconfiguring), with and without an earlier session of the same peer in live_sessions, plus random longer sessions ended by each exit; "
               "observable = process returned, events taken, every update that left the gate, live_sessions, Disconnect commands, the RIB read back; "
               "non-trivial = the session's withdrawal was sent and a route of the session reads withdrawn")
LEVEL_TEXT = ("BGP session (Bgp/BgpSessionModel.v): over ALL scripts of the events the loop of Processor::process sees and all live_sessions, the block after the "
              "loop is reached whatever ends the loop; a registered session's trace is Bulks of its own routes then exactly one Withdraw(its ingress id), its key "
              "leaves live_sessions and nothing else changes there; a connection rejected early sends nothing and leaves the earlier session's entry alone; "
              "refuted for a session that ends between the FSM's negotiation and the handling of SessionNegotiated (known finding bgp-window). "
              "BMP connection: theorems over ALL scripts of read events (every cut point, every io::ErrorKind class at every position, end of file or unit shutdown), every "
              "parser and every starting register: the read loop of the BMP connection always reaches the post-loop block, and the updates that left "
              "the gate are pre ++ [WithdrawBulk(all children of the router's ingress id); EndOfStream(router)] with no other EndOfStream, every ingress "
              "id mentioned earlier and every peer still up being in that WithdrawBulk. Under back-pressure (C07_cleanup_under_backpressure): for EVERY schedule of waits at the receiving end - any update, any length of time - "
              "what the receiving end has got when the task returns is that same trace (delayed, never dropped, never repeated) and the task has not returned before the longest "
              "wait was over; C07_time_limit_would_lose_cleanup shows the statement is not blind to a time limit. Kernel-checked, axiom-free. For the code before the repair: "
              "refuted by a short-length header after a Peer Up (task dies, no cleanup), complete cleanup whenever the task survives. Tied to the real "
              "read_from_router by cutting valid streams at every byte offset x error kinds through a scripted reader, the same with the receiving end holding the "
              "cleanup's updates for an hour of a paused clock (op H), and with the ingress register write-locked by another party while the session ends (op L).")
DESIGN_REF = "DESIGN.md section 6, C07"
LEVEL_NOTE = ("Trusted: Coq kernel, extraction + OCaml driver, Rust harness (scripted AsyncRead, capture Link) and generators. PARTIAL: the removal of the "
              "session from router_states/router_info happens in the task spawned by unit.rs accept_config after run() returns; it is not in the model and is "
              "checked on the implementation only (real loopback TCP connections through the real accept_config: close, reset, shutdown, short header, cuts); "
              "back-pressure is modelled as the receiving unit not returning from direct_update for a while (whole updates; tokio's paused clock and the harness's own "
              "executor for the connection's future are trusted); the ingress register is one atomic step per method (C14), its lock is exercised (op L, c14-contend), not modelled; "
              "the BGP session end (bgp_tcp_in router_handler.rs Processor::process) is modelled at the level of the events its select! loop sees - routecore's "
              "Session only as far as tick()/negotiated()/the message channel go (contract bs_wf), the gate as the statuses process() returns - and tied to the real "
              "loop by engine bgpend over a scripted session; the FSM, the TCP halves, the writer task of handle_connection (which turns a Disconnect into "
              "ConnectionLost) and the accept loop's ingress-id registration are not modelled; PARTIAL there: C07_bgp_live_untouched_partial, the rest is known finding "
              "bgp-window; routecore and tokio are exercised, not modelled.")
TECHNIQUE = "Coq proof by induction over read-event scripts with a session invariant + model/implementation correspondence at every cut point"
