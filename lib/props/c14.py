"""C14 — ingress ids unique per live source and stable across reconnects."""
PROPS_FILE = "Props_C14.v"
RULE = ("random histories of Register calls over a small identity pool (so re-lookups, collisions and "
        "re-registrations are frequent); a case is non-trivial when it contains a find-or-register that "
        "re-finds an earlier id or an update of an existing entry; distinct = distinct case text")
TRUSTED_BASE = [
    "Coq 8.16.1 kernel (coqc; coqchk in thorough); no native_compute",
    "extraction with ExtrOcamlBasic only; OCaml driver oracle/{conv,eng_c14,oracle}.ml",
    "Rust harness /verif/harness (engine c14) over rotonda::verif::ingress (feature verif-hooks)",
    "modelled, not verified: src/ingress.rs Register; AtomicU32::fetch_add and RwLock make each method one atomic step",
]
ASSUMPTIONS = [
    "each Register method is atomic (single fetch_add, or whole body under the RwLock), so sequential histories cover all interleavings of calls",
    "HashMap iteration order is arbitrary: list answers are compared as sets, first-match answers against the candidate set",
    "the composite find-or-register of the callers is not atomic; stability is proved for sequential composites",
]


def info(rng, nparents, complete=None, meta=False):
    f = ["-"] * 8
    if meta:
        for i in (0, 5, 6, 7):
            if rng.chance(50):
                f[i] = str(rng.below(4))
        return f
    if complete == "peer":
        f[1] = str(rng.below(max(1, nparents)))
        f[2] = str(rng.below(3))
        f[3] = str(65000 + rng.below(3))
        if rng.chance(70):
            f[4] = str(rng.below(3))
    elif complete == "router":
        f[1] = str(rng.below(max(1, nparents)))
        f[2] = str(rng.below(3))
    else:
        for i in range(8):
            if rng.chance(45):
                f[i] = str(rng.below(3) if i != 3 else 65000 + rng.below(3))
    if rng.chance(30):
        f[6] = str(rng.below(4))
    return f


def gen_case(rng, disciplined):
    n = rng.range(3, 40)
    ops = ["R"]
    nids = 1
    for _ in range(n):
        k = rng.weighted([("R", 10), ("U", 18), ("G", 12), ("C", 12), ("FP", 10), ("FR", 6), ("OP", 22), ("OR", 10)])
        if k == "R":
            ops.append("R")
            nids += 1
        elif k == "U":
            ops.append("U %d %s" % (rng.below(nids + 1), " ".join(info(rng, nids, meta=disciplined))))
        elif k in ("G", "C"):
            ops.append("%s %d" % (k, rng.below(nids + 1)))
        elif k in ("FP", "OP"):
            ops.append("%s %s" % (k, " ".join(info(rng, nids, "peer" if disciplined or rng.chance(80) else None))))
            nids += 1 if k == "OP" else 0
        else:
            ops.append("%s %s" % (k, " ".join(info(rng, nids, "router" if disciplined or rng.chance(80) else None))))
            nids += 1 if k == "OR" else 0
    return ";".join(ops)


def gen(rng, tier):
    n = 3000 if tier == "quick" else 60000
    for i in range(n):
        yield gen_case(rng, disciplined=(i % 2 == 0))


def nontrivial(case, out):
    return "o:<" in out or ("U " in case and "g:" in out and "g:none" not in out.split()[:1])


def classify(case, out):
    ks = []
    toks = out.split()
    ks.append("len<=10" if len(toks) <= 10 else "len<=25" if len(toks) <= 25 else "len>25")
    if any(t.startswith("o:<") for t in toks):
        ks.append("refound")
    if any(t.startswith("f:<") and "|" in t for t in toks):
        ks.append("ambiguous-first-match")
    if "f:none" in toks:
        ks.append("find-none")
    if any(t.startswith("c:[#") for t in toks):
        ks.append("children-nonempty")
    return ks


def corpus():
    return [
        "R;R;U 0 1 - 5 - - - 3 -;U 0 - - - 7 - - - 9;G 0;OP - 0 1 65000 0 - - -;OP - 0 1 65000 0 - - -;C 0;FP - 0 1 65000 0 - - -;G 5",
        "R;OR - 0 1 - - - - -;OP - 1 2 65001 0 - - -;OP - 1 2 65001 1 - - -;OP - 1 2 65001 0 - - -;C 1;C 0",
        "U 3 - - - - - - 1 -;R;R;R;R;G 3;OP - 0 0 65000 - - - -;G 4",
    ]


def race(V, tier, seed):
    import subprocess
    n = 20000 if tier == "quick" else 400000
    p = subprocess.run([V.VH, "c14-race", "16", str(n)], stdout=subprocess.PIPE, text=True, timeout=600)
    out = p.stdout.strip()
    r = {"name": "c14-race", "evaluations": 1, "coverage": {"threads": 16, "registrations": 16 * n, "result": out}, "failures": []}
    if not out.startswith("ok"):
        r["failures"].append({"what": f"concurrent register() handed out a duplicate id: {out}", "kind": "property",
                              "replay_cmd": f"{V.VH} c14-race 16 {n}"})
    return r


ENGINES = [{"name": "c14", "gen": gen, "corpus": corpus, "nontrivial": nontrivial, "classify": classify, "shards": 4}]
from props.e2e_common import e2e_engine, E2E_TRUSTED
ENGINES.append(e2e_engine("C14"))   # a real bmp-tcp-in unit: returning routers keep their ingress id, also across a listener re-bind
TRUSTED_BASE.append(E2E_TRUSTED)
EXTRAS = [race]

LEVEL_TEXT = ("Theorems over all call histories of the Register model (freshness below the u32 bound, wrap-around shown sharp, "
              "lookup stability under the callers' discipline, children-exactness, field-wise merge), kernel-checked, axiom-free; "
              "model tied to src/ingress.rs by differential execution of thousands of generated histories on every run.")
DESIGN_REF = "DESIGN.md section 6, C14"
LEVEL_NOTE = ("Trusted: Coq kernel, ExtrOcamlBasic extraction + OCaml driver, Rust harness and generators; atomicity of each Register method "
              "(fetch_add / RwLock) is assumed, a 16-thread register race is run as supporting exploration only.")
TECHNIQUE = "Coq proof by invariant over operation histories + model/implementation correspondence"
