"""C14 — ingress ids unique per live source and stable across reconnects."""
PROPS_FILE = "Props_C14.v"
RULE = ("random histories of Register calls over a small identity pool (so re-lookups, collisions and "
        "re-registrations are frequent); every second history keeps the callers' discipline incl. the router-level one "
        "(router queries name unit ids as parent, peer queries never do); a case is non-trivial when it contains a find-or-register that "
        "re-finds an earlier id or an update of an existing entry; distinct = distinct case text. Engine c14u: random sequences of the units' "
        "registration / lookup sites on one register (table dumps, update and state-change files through the real mrt-file-in unit, BMP Peer Ups "
        "through the real state machine, router / BGP-session registrations, entries filed directly, descriptive updates) over 5 peers and 3 routers; "
        "3 of 4 cases keep the discipline of C14_site_refound_unique (no re-dump of a peer that has an id); non-trivial when a lookup uses an id handed out earlier")
TRUSTED_BASE = [
    "Coq 8.16.1 kernel (coqc; coqchk in thorough); no native_compute",
    "extraction with ExtrOcamlBasic only; OCaml driver oracle/{conv,eng_c14,oracle}.ml",
    "Rust harness /verif/harness (engine c14) over rotonda::verif::ingress (feature verif-hooks)",
    "modelled, not verified: src/ingress.rs Register; AtomicU32::fetch_add and RwLock make each method one atomic step",
    "Rust harness engine c14u: the real mrt-file-in unit (verif_start: queue, MrtInRunner::run, process_file) on MRT files written by c16's encoders, "
    "the real BMP state machine (rotonda::verif::bmp::Session: Initiation, Peer Up -> add_peer_config); the accept loops' two register calls "
    "(bmp router, bgp session) are made by the harness (the bmp accept loop runs for real in engine e2e)",
    "the table IngressSitesModel.code_sites is read off the code (anchors in the file) and compared with it by engine c14u (ids used, fields stored)",
]
ASSUMPTIONS = [
    "each Register method is atomic (single fetch_add, or whole body under the RwLock), so sequential histories cover all interleavings of calls; "
    "for update_info this is a theorem about a small-step model with per-thread programs (C14_update_is_atomic) whose one-step body is tied to the code by "
    "engine c14 (sequentially) and by the thread stage c14-merge; that the body really runs under one write lock is read off src/ingress.rs",
    "HashMap iteration order is arbitrary: list answers are compared as sets, first-match answers against the candidate set",
    "the composite find-or-register of the callers is not atomic; stability is proved for sequential composites",
]


def info(rng, nparents, complete=None, meta=False, units=None):
    """units (disciplined histories only) = the parent idrefs that stand for unit ids: router queries take their
    parent from it, peer queries from outside it (the discipline disc_r / disc_hist of C14_lookup_stable_router)"""
    f = ["-"] * 8
    if meta:
        for i in (0, 5, 6, 7):
            if rng.chance(50):
                f[i] = str(rng.below(4))
        return f
    if complete == "peer":
        if units is None:
            f[1] = str(rng.below(max(1, nparents)))
        else:
            f[1] = str(rng.choice([k for k in range(max(2, nparents) + 1) if k not in units]))
        f[2] = str(rng.below(3))
        f[3] = str(65000 + rng.below(3))
        if rng.chance(70):
            f[4] = str(rng.below(3))
    elif complete == "router":
        f[1] = str(rng.below(max(1, nparents)) if units is None else rng.choice(units))
        f[2] = str(rng.below(3))
    else:
        for i in range(8):
            if rng.chance(45):
                f[i] = str(rng.below(3) if i != 3 else 65000 + rng.below(3))
    if rng.chance(30):
        f[6] = str(rng.below(4))
    return f


def gen_case(rng, disciplined):
    n = rng.range(3, 40)
    ops = ["R"]
    nids = 1
    units = None
    if disciplined:
        # the unit ids of this history: idref 0 (registered first), sometimes a second one
        units = [0]
        if rng.chance(35):
            ops.append("R")
            nids += 1
            units.append(1)
    for _ in range(n):
        k = rng.weighted([("R", 10), ("U", 18), ("G", 12), ("C", 12), ("FP", 10), ("FR", 6), ("OP", 22), ("OR", 10)])
        if k == "R":
            ops.append("R")
            nids += 1
        elif k == "U":
            ops.append("U %d %s" % (rng.below(nids + 1), " ".join(info(rng, nids, meta=disciplined))))
        elif k in ("G", "C"):
            ops.append("%s %d" % (k, rng.below(nids + 1)))
        elif k in ("FP", "OP"):
            ops.append("%s %s" % (k, " ".join(info(rng, nids, "peer" if disciplined or rng.chance(80) else None, units=units))))
            nids += 1 if k == "OP" else 0
        else:
            ops.append("%s %s" % (k, " ".join(info(rng, nids, "router" if disciplined or rng.chance(80) else None, units=units))))
            nids += 1 if k == "OR" else 0
    return ";".join(ops)


def gen(rng, tier):
    n = 3000 if tier == "quick" else 60000
    for i in range(n):
        yield gen_case(rng, disciplined=(i % 2 == 0))


def nontrivial(case, out):
    return "o:<" in out or ("U " in case and "g:" in out and "g:none" not in out.split()[:1])


def router_disciplined(case):
    """disc_hist of IngressModel.v, read off the case text (idrefs denote distinct ids, so disjoint parent idrefs
    are disjoint parent ids): updates descriptive only, peer queries complete, router queries complete without AS
    number, and no peer query names a parent that a router query names"""
    rp, pp = set(), set()
    for o in case.split(";"):
        t = o.split()
        if t[0] == "U" and any(t[2 + i] != "-" for i in (1, 2, 3, 4)):
            return False
        if t[0] == "OP":
            if "-" in (t[2], t[3], t[4]):
                return False
            pp.add(t[2])
        if t[0] == "OR":
            if "-" in (t[2], t[3]) or t[4] != "-":
                return False
            rp.add(t[2])
    return not (rp & pp)


def classify(case, out):
    ks = []
    toks = out.split()
    if router_disciplined(case):
        ks.append("router-discipline")
        cops = case.split(";")
        refound = [t for o, t in zip(cops, toks) if o.startswith("OR ") and t.startswith("o:<")]
        if refound:
            # C14_lookup_stable_router: exactly one candidate
            ks.append("router-refound-unique" if all("|" not in t for t in refound) else "ROUTER-REFOUND-AMBIGUOUS-UNDER-DISCIPLINE")
    ks.append("len<=10" if len(toks) <= 10 else "len<=25" if len(toks) <= 25 else "len>25")
    if any(t.startswith("o:<") for t in toks):
        ks.append("refound")
    if any(t.startswith("f:<") and "|" in t for t in toks):
        ks.append("ambiguous-first-match")
    if "f:none" in toks:
        ks.append("find-none")
    if any(t.startswith("c:[#") for t in toks):
        ks.append("children-nonempty")
    return ks


def corpus():
    return [
        "R;R;U 0 1 - 5 - - - 3 -;U 0 - - - 7 - - - 9;G 0;OP - 0 1 65000 0 - - -;OP - 0 1 65000 0 - - -;C 0;FP - 0 1 65000 0 - - -;G 5",
        "R;OR - 0 1 - - - - -;OP - 1 2 65001 0 - - -;OP - 1 2 65001 1 - - -;OP - 1 2 65001 0 - - -;C 1;C 0",
        "U 3 - - - - - - 1 -;R;R;R;R;G 3;OP - 0 0 65000 - - - -;G 4",
        # router level, disciplined (unit = idref 0): router, its peers (one with the router's own address), a second router, re-finds
        "R;OR - 0 1 - - - - -;OP - 1 1 65000 0 - - -;OP - 1 2 65001 - - - -;OR - 0 2 - - - - -;U 1 - - - - - - 3 -;OR - 0 1 - - - - -;FR - 0 1 - - - - -;OR - 0 2 - - - - -;C 0",
        # ... and without the separation of parents: a peer under the router query's own (parent, address) answers it too
        "R;OR - 0 1 - - - - -;OP - 0 1 65000 0 - - -;FR - 0 1 - - - - -;OR - 0 1 - - - - -",
    ]


def race(V, tier, seed):
    import subprocess
    n = 20000 if tier == "quick" else 400000
    p = subprocess.run([V.VH, "c14-race", "16", str(n)], stdout=subprocess.PIPE, text=True, timeout=600)
    out = p.stdout.strip()
    r = {"name": "c14-race", "evaluations": 1, "coverage": {"threads": 16, "registrations": 16 * n, "result": out}, "failures": []}
    if not out.startswith("ok"):
        r["failures"].append({"what": f"concurrent register() handed out a duplicate id: {out}", "kind": "property",
                              "replay_cmd": f"{V.VH} c14-race 16 {n}"})
    return r


def contend(V, tier, seed):
    """ids_for_parent (and get) against writers that are INSIDE the register: while a thread holds the write lock (what update_info
    does for the length of its body) the answer does not come, and once it comes it is complete; then a soak of readers against
    update_info callers. Supports the assumption that each Register method is one atomic step; needed by C07 (the WithdrawBulk of a
    BMP session that ends while another connection registers a peer)."""
    import subprocess
    n = 20000 if tier == "quick" else 400000
    p = subprocess.run([V.VH, "c14-contend", "8", str(n)], stdout=subprocess.PIPE, text=True, timeout=600)
    out = p.stdout.strip()
    r = {"name": "c14-contend", "evaluations": 1, "coverage": {"readers": 8, "writers": 4, "result": out}, "failures": []}
    if not out.startswith("ok"):
        r["failures"].append({"what": f"a list answer of the register was incomplete under contention (a read of the register must wait for a writer, "
                                      f"not answer without looking): {out}", "kind": "property", "replay_cmd": f"{V.VH} c14-contend 8 {n}"})
    return r


def merge(V, tier, seed):
    """overlapping update_info calls for the SAME ids that supply DIFFERENT fields (five threads, each the only writer of its fields):
    every thread reads its own field back after each of its calls, identity fields and lookups stay, at the end every entry holds every
    thread's last value. What theorems C14_update_own_field / _reads_own_write / _keeps_set_fields / C14_lookups_stable_under_updates say
    about every interleaving of the one-step update_info; the two-step variant (C14_update_split_refuted) loses within a few rounds."""
    import subprocess
    n = 60000 if tier == "quick" else 1500000
    p = subprocess.run([V.VH, "c14-merge", str(n)], stdout=subprocess.PIPE, text=True, timeout=900)
    out = p.stdout.strip()
    r = {"name": "c14-merge", "evaluations": 1, "coverage": {"threads": 5, "ids": 3, "rounds": n, "result": out}, "failures": []}
    if not out.startswith("ok"):
        r["failures"].append({"what": f"overlapping update_info calls on one id with disjoint fields lost an update (a metadata update must keep every "
                                      f"field it does not supply, also when updates interleave): {out}", "kind": "property",
                              "replay_cmd": f"{V.VH} c14-merge {n}"})
    return r


# ---------------------------------------------------------------- engine c14u: the units' registration / lookup sites
NPEERS = 5


def gen_units_case(rng):
    """one register; the real mrt-file-in unit (dump / update / state-change files), real BMP sessions (Peer Up), the accept loops'
    calls, entries filed directly. `clean` (3 of 4 cases): no peer is handed to a site that files without looking once it has an id
    (the discipline sok_run of C14_site_refound_unique; otherwise known finding C16-1 makes lookups ambiguous)."""
    n = rng.range(3, 16)
    clean = rng.chance(75)
    ops, routers, peerups, nids = [], [], [], 2
    known_mrt = set()     # peers that have an id under the mrt unit
    for _ in range(n):
        k = rng.weighted([("D", 20), ("U", 22), ("S", 12), ("R", 10), ("P", 20), ("G", 4), ("X", 5), ("N", 3), ("C", 4)])
        if k == "D":
            pool = [p for p in range(NPEERS) if not (clean and p in known_mrt)]
            if not pool:
                k = "U"
            else:
                m = min(len(pool), rng.range(1, 3))
                ps = []
                for _ in range(m):
                    c = rng.choice([p for p in pool if p not in ps] if clean else pool)
                    ps.append(c)
                ops.append("D " + ",".join(map(str, ps)))
                known_mrt.update(ps)
                nids += len(ps)
                continue
        if k == "U":
            p = rng.below(NPEERS)
            ops.append(f"U {p}")
            known_mrt.add(p)
            nids += 1
        elif k == "S":
            ops.append(f"S {rng.below(NPEERS)}")
        elif k == "R":
            a = rng.range(1, 3)
            ops.append(f"R {a}")
            routers.append(a)
            nids += 1
        elif k == "P":
            if peerups and rng.chance(50):
                t = rng.choice(peerups)                       # the same peer on a new connection of its router
            else:
                t = (rng.choice(routers) if routers and rng.chance(90) else rng.range(1, 3), rng.below(3), rng.below(3))
                peerups.append(t)
            ops.append("P %d %d %d" % t)
            nids += 1
        elif k == "G":
            ops.append(f"G {rng.below(NPEERS)}")
            nids += 1
        elif k == "X":
            w = rng.choice(["u", "b"] + [str(a) for a in routers])
            p = rng.below(NPEERS)
            if clean:
                # decoys that no site of the parent may find: under the mrt unit WITH a RIB view, under a router WITHOUT
                v = str(rng.below(3)) if w == "u" else "-"
            else:
                v = rng.choice(["-", "0", "1", "2"])
                if w == "u" and v == "-":
                    known_mrt.add(p)
            ops.append(f"X {w} {p} {v}")
            nids += 1
        elif k == "N":
            ops.append(f"N {rng.below(nids)}")
        else:
            ops.append("C " + rng.choice(["u", "b"] + [str(a) for a in routers]))
    return ";".join(ops)


def gen_units(rng, tier):
    for _ in range(500 if tier == "quick" else 12000):
        yield gen_units_case(rng)


def _refinds(out):
    """(kind, token) of every lookup that used an id handed out earlier in the case"""
    seen, res = set(), []
    for t in out.split():
        if ":" not in t or t.startswith("m:") or t.startswith("c:"):
            continue
        kind, ids = t.split(":", 1)
        amb = ids.startswith("<")
        for i in ids.strip("<>").replace("|", ",").split(","):
            if i.startswith("#"):
                if kind in ("u", "s", "p", "r") and i in seen:
                    res.append((kind, amb))
                seen.add(i)
    return res


def nontrivial_units(case, out):
    return bool(_refinds(out))


def classify_units(case, out):
    ks = []
    rf = _refinds(out)
    for kind, name in (("u", "mrt-update-refound"), ("s", "mrt-state-change-refound"), ("p", "bmp-peer-refound"), ("r", "bmp-router-refound")):
        if any(k == kind for k, _ in rf):
            ks.append(name)
    if any(a for _, a in rf):
        ks.append("ambiguous-lookup(C16-1 or direct duplicate)")
    cops = case.split(";")
    if any(o.startswith("D") for o in cops) and any(k == "u" for k, _ in rf):
        ks.append("dump-in-case-with-update-refind")
    if "s:none" in out.split():
        ks.append("state-change-of-unknown-peer")
    if any(o.startswith("X") for o in cops):
        ks.append("direct-entries")
    if any(o.startswith("G") for o in cops):
        ks.append("bgp-session")
    return ks


def corpus_units():
    return [
        # a table dump, then an update and a state change of its peers: the dump's ids (seeded C14-b2: the dump site stored a RIB view
        # that the update / state-change lookup does not ask for - second id for the same peer, nothing withdrawn)
        "D 0,1;U 0;S 0;U 1;S 1;C u",
        # peers first seen in an update file, later updates and state changes; a later dump of ANOTHER peer
        "U 2;S 2;D 0;U 2;S 2;U 0;C u",
        # a BMP peer comes back on a new connection of its router: same id per (router, address, AS, RIB view); other view, other router: other ids
        "R 1;R 2;P 1 0 0;P 1 0 0;P 1 0 1;P 2 0 0;P 1 0 0;P 1 0 1;C 1;C 2;R 1;C b",
        # known finding C16-1: a second dump of the same peer files fresh ids; the update then has two candidates
        "D 0;D 0;U 0;S 0;C u",
        # entries no site of the parent may find (under the mrt unit with a RIB view, under a router without), a BGP session with the
        # peer's address and AS, a descriptive update in between
        "X u 0 0;U 0;D 1;G 1;U 1;S 1;N 3;U 0;S 1;C u",
        "R 1;X 1 0 -;P 1 0 0;G 0;N 4;P 1 0 0;P 1 0 2;C 1",
    ]


ENGINES = [{"name": "c14", "gen": gen, "corpus": corpus, "nontrivial": nontrivial, "classify": classify, "shards": 4},
           {"name": "c14u", "gen": gen_units, "corpus": corpus_units, "nontrivial": nontrivial_units, "classify": classify_units, "shards": 4}]
from props.e2e_common import e2e_engine, E2E_TRUSTED
ENGINES.append(e2e_engine("C14"))


def known_signature(k, engine, case, model, spec, impl):
    """C14-old-task-removes-new-session (engine e2e, class KD): every departing token is the model's, at a RIB answer or a router-list
    count after the old connection of a router that had connected a second time ended."""
    import vcommon as V
    return engine == "e2e" and k.get("class") == "KD" and V.explained_by(model, spec, impl, {"KD"} | set(k.get("also", [])))
   # a real bmp-tcp-in unit: returning routers keep their ingress id, also across a listener re-bind
TRUSTED_BASE.append(E2E_TRUSTED)
EXTRAS = [race, contend, merge]

LEVEL_TEXT = ("Theorems over all call histories of the Register model (freshness below the u32 bound, wrap-around shown sharp, "
              "lookup stability of peers and of routers under the callers' discipline, children-exactness, field-wise merge), over all interleavings of "
              "update_info calls (linearizable, own fields kept; the two-step variant refuted) and over all histories of the units' registration / lookup sites "
              "(a source filed by a site is found by every site of its class; the only candidate at peer level), kernel-checked, axiom-free; "
              "model tied to src/ingress.rs by differential execution of thousands of generated histories on every run.")
DESIGN_REF = "DESIGN.md section 6, C14"
LEVEL_NOTE = ("Trusted: Coq kernel, ExtrOcamlBasic extraction + OCaml driver, Rust harness and generators; atomicity of each Register method "
              "(fetch_add / RwLock) is assumed; a 16-thread register race, readers (ids_for_parent, get) against a held write lock and against concurrent update_info callers, "
              "and five threads updating disjoint fields of the same ids are run as supporting exploration only.")
TECHNIQUE = "Coq proof by invariant over operation histories + model/implementation correspondence"
