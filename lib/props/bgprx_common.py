"""The `bgprx` engine (C06, BGP receiver): hostile bytes on a BGP connection.

The harness plays a BGP peer over a real loopback TCP stream against the REAL `handle_connection` of
bgp_tcp_in/router_handler.rs (routecore's Session FSM, the writer task, `Processor::process`), hooks
`verif_connection::start_with` / `Fixture::finish`. A case is what the peer writes (tagged chunks of octets), a few
synchronisation points, and how the peer ends (FIN, RST, silence). Model: coq/theories/Bgp/BgpRxModel.v (routecore's
framing as written, its parser + FSM as a function argument, the select! loop of BgpSessionModel.v); grammar:
harness/src/engines/bgprx.rs.

Two kinds of case:
 * full mode (`T`): every frame the receiver will cut out of the stream is one the generator made and tagged (handshake,
   UPDATEs of C04's proved encoder, KEEPALIVE, NOTIFICATION, frames routecore refuses ...), the oracle runs the model with the
   reference description of routecore's FSM for these frame classes and the WHOLE update trace is compared;
 * shape mode: anything (mutated, truncated, concatenated, random octets); compared is what the theorems show to be
   independent of the parser and the FSM: no panic, `handle_connection` returns once the peer has ended the connection,
   live_sessions is left as it was found, the trace is Bulks of own routes and then exactly one Withdraw - or empty."""
import os
import sys

sys.path.insert(0, os.path.dirname(os.path.dirname(os.path.abspath(__file__))))
import vcommon as V

BGPRX_TRUSTED = ("Rust harness engine `bgprx`: the real bgp_tcp_in handle_connection (routecore Session over the accepted end of a real loopback TCP "
                 "connection, the writer task, Processor::process with a recording direct-update link on the unit's gate) through the guarded hooks "
                 "router_handler::verif_connection::{start_with, Fixture::finish}; a panic hook records the first panic location of a case; OCaml driver "
                 "oracle/eng_bgprx.ml with the reference description of routecore 0.5.1's FSM for the tagged frame classes (which frames it hands over, "
                 "refuses, answers by letting go of the connection, or panics on) - checked against the real FSM on every full-mode case, not proved")
BGPRX_ASSUMPTIONS = [
    "bgprx: routecore's Session is a function argument of the model: per frame it hands over messages, refuses (tick Err), lets go of the connection "
    "without a word, or panics; the theorems hold for every such function that sends no Message::Attributes (routecore 0.5.1 never constructs one)",
    "bgprx: in full mode the schedule of the select! loop is made deterministic by the harness (it waits until the updates sent so far have left the "
    "gate before it sends what ends the session early); the theorems cover every schedule, the engine compares the drained one",
    "bgprx: no gate event (Terminate / Reconfiguring) happens during a case - those exits are engine bgpend's; timers (hold, keepalive, DelayOpen) do "
    "not fire within the milliseconds of a case",
    "bgprx: a call of session.tick() runs to its end before the loop looks at anything else (rx_sched). VIOLATED by the code under load: select! drops a "
    "tick() future that is suspended half-way - after the frame was cut from the buffer, inside tx.send(), which tokio's cooperative budget suspends about "
    "every 128th time - when the channel branch is ready on the next poll: that UPDATE is lost (known finding bgp-update-loss, reproduced by the extra stage "
    "c06-bgp-burst on every run); the line-protocol cases are far too short to get there",
    "bgprx: dependencies are built as rotonda's release build builds them (overflow-checks off): a length field below 18 wraps in routecore's "
    "parse_frame and the frame is never complete - with overflow checks it would panic there",
]

MARKER = b"\xff" * 16


def frame(ty, body=b""):
    return MARKER + (19 + len(body)).to_bytes(2, "big") + bytes([ty]) + bytes(body)


def open_msg(asn=65001, hold=90, caps=None, four=True, bgp_id=(10, 0, 0, 9)):
    """OPEN: version 4, My AS (AS_TRANS when it does not fit), hold time, id, capabilities as one optional parameter each."""
    if caps is None:
        caps = [(1, bytes([0, 1, 0, 1])), (1, bytes([0, 2, 0, 1])), (1, bytes([0, 1, 0, 2])), (1, bytes([0, 2, 0, 2]))]
    caps = list(caps)
    if four:
        caps.append((65, asn.to_bytes(4, "big")))
    params = b""
    for code, val in caps:
        cap = bytes([code, len(val)]) + val
        params += bytes([2, len(cap)]) + cap
    my = asn if asn < 65536 else 23456
    return frame(1, bytes([4]) + my.to_bytes(2, "big") + hold.to_bytes(2, "big") + bytes(bgp_id) + bytes([len(params)]) + params)


KEEPALIVE = frame(4)
OPEN = open_msg()


def notification(code=6, sub=2, data=b""):
    return frame(3, bytes([code, sub]) + data)


def hx(b):
    return bytes(b).hex() if b else "-"


class Script:
    """ops of a case; knows how many updates the frames sent so far will have produced (full mode)."""

    def __init__(self, full, cfg=None):
        self.ops = (["T"] if full else []) + ([cfg] if cfg else [])
        self.n_updates = 0

    def add(self, tag, b):
        self.ops.append("%s %s" % (tag, hx(b)))
        if tag == "u":
            self.n_updates += 1

    def sync(self):
        self.ops.append("S %d" % self.n_updates)

    def end(self, e):
        self.ops.append(e)
        return ";".join(self.ops)


def refused_frame(rng, updates):
    """a complete frame routecore's Message::from_octets refuses (tick() = Err, error from read_frame)"""
    k = rng.weighted([("type", 30), ("rr", 10), ("len18", 8), ("ka-body", 10), ("upd-trunc", 14), ("open-short", 10), ("marker-type", 10)])
    if k == "type":
        return frame(rng.choice([0, 6, 7, 9, 128, 255]), bytes(rng.below(256) for _ in range(rng.range(0, 12))))
    if k == "rr":
        return frame(5, bytes([0, rng.range(1, 2), 0, 1]))
    if k == "len18":
        return MARKER + bytes([0, 18])
    if k == "ka-body":
        return frame(4, bytes(rng.below(256) for _ in range(rng.range(1, 6))))
    if k == "upd-trunc":
        return frame(2, bytes([0][:rng.below(2)]) if rng.chance(50) else bytes([0, 0, 0, 9, 0x40, 1]))
    if k == "open-short":
        return frame(1, bytes([4, 0xfd, 0xe9, 0, 90][:rng.range(0, 5)]))
    # a frame whose type octet is unknown and whose marker is not all ones
    return bytes(rng.below(255) for _ in range(16)) + bytes([0, 19, rng.choice([0, 7, 200])])


def gen_preopen(rng, updates):
    """a message in front of the OPEN (or instead of it): with DelayOpen the FSM gives up (Idle) and keeps the connection, without it
    it lets go of the connection; an UPDATE is handed over all the same and the loop leaves at once (no NegotiatedConfig)"""
    s = Script(True, "A %s - 0" % rng.choice(["-", "65001"]))
    k = rng.choice("ukn")
    s.add(k, {"u": bytes.fromhex(rng.choice(updates)), "k": KEEPALIVE, "n": notification()}[k])
    if rng.chance(50):
        s.add("o", OPEN)
        s.add("k", KEEPALIVE)
        if rng.chance(60):
            s.add("b", bytes.fromhex(rng.choice(updates)))
    return s.end(rng.choice(["Z 120", "C", "R"]))


def gen_full(rng, updates, want):
    """structurally known streams: the whole update trace is compared"""
    if want == "preopen":
        return gen_preopen(rng, updates)
    dup = rng.chance(6)
    cfg = None
    if dup or rng.chance(30):
        cfg = "A %s - %d" % (rng.choice(["-", "65001"]), 1 if dup else 0)
    s = Script(True, cfg)
    s.add("o", OPEN)
    s.ops.append("L")       # the loop has handled SessionNegotiated (or rejected the connection) before anything can end the session
    s.add("k", KEEPALIVE)
    for _ in range(rng.range(0, 9)):
        k = rng.weighted([("u", 70), ("k", 15), ("n", 5), ("burst", 10)])
        if k == "u":
            s.add("u", bytes.fromhex(rng.choice(updates)))
        elif k == "k":
            s.add("k", KEEPALIVE)
        elif k == "n":
            if rng.chance(75):
                s.add("n", notification(rng.range(1, 6), rng.below(9), bytes(rng.below(256) for _ in range(rng.below(5)))))
            else:
                s.add("n", frame(3, bytes([6][:rng.below(2)])))      # shorter than code + subcode: handed over all the same
        else:
            # several frames in one write
            fs = [bytes.fromhex(rng.choice(updates)) for _ in range(rng.range(2, 6))]
            s.n_updates += len(fs) - 1
            s.add("u", b"".join(fs))
    if want == "valid":
        return s.end(rng.weighted([("C", 80), ("R", 20)]) if False else "C")
    # what comes now ends the session early (or parks it): everything before must have left the gate
    s.sync()
    if want == "refused":
        s.add("x", refused_frame(rng, updates))
    elif want == "short":
        s.add("s", MARKER + bytes([0, rng.below(18)]) + bytes(rng.below(256) for _ in range(rng.below(30))))
    elif want == "partial":
        f = bytes.fromhex(rng.choice(updates)) if rng.chance(70) else frame(rng.below(8), bytes(rng.below(256) for _ in range(rng.range(1, 40))))
        cut = rng.range(1, len(f) - 1)
        if cut >= 18:
            s.add("h", f[:cut])
        else:
            s.add("h", f[:cut])
    elif want == "reset":
        return s.end("R")
    # what follows is never looked at (refused) / swallowed (short length). Nothing follows a partial frame in full mode: octets that
    # complete it make an arbitrary malformed UPDATE, on which C04's decoder and routecore may differ (C04's own findings)
    if want in ("refused", "short"):
        for _ in range(rng.range(0, 3)):
            s.add("b", bytes.fromhex(rng.choice(updates)) if rng.chance(60) else KEEPALIVE)
    return s.end(rng.weighted([("C", 70), ("R", 30)]))


def mutate(rng, items, bounds, lo=0):
    """items: list of octets; bounds: offsets where a frame of the pristine stream starts; octets before lo (the
    handshake) are left alone, and the OPEN is never duplicated (a second OPEN and an OPEN whose capabilities do not tile
    are routecore's recorded panics: they have their own corpus cases)"""
    head, items = list(items[:lo]), list(items[lo:])
    bounds = [b - lo for b in bounds if b >= lo]
    return head + _mutate(rng, items, bounds)


def _mutate(rng, items, bounds):
    items = list(items)
    k = rng.weighted([("len", 24), ("short", 10), ("marker", 8), ("type", 14), ("byte", 18), ("trunc", 10), ("dup", 6), ("ins", 5), ("big", 5)])
    b = rng.choice(bounds) if bounds else 0
    if k == "len" and b + 18 <= len(items):
        cur = (items[b + 16] << 8) | items[b + 17]
        new = [cur + rng.range(-8, 40), rng.below(40), rng.below(1 << 16), 4096 + rng.range(-2, 3)][rng.below(4)]
        items[b + 16:b + 18] = list((max(0, new) & 0xFFFF).to_bytes(2, "big"))
    elif k == "short" and b + 18 <= len(items):
        items[b + 16:b + 18] = [0, rng.below(19)]
    elif k == "marker" and b + 16 <= len(items):
        items[b + rng.below(16)] = rng.below(255)
    elif k == "type" and b + 19 <= len(items):
        items[b + 18] = rng.choice([0, 1, 2, 3, 4, 5, 6, 255, rng.below(256)])
    elif k == "byte" and items:
        for _ in range(rng.range(1, 4)):
            items[rng.below(len(items))] = rng.below(256)
    elif k == "trunc" and items:
        items = items[:rng.below(len(items))]
    elif k == "dup" and bounds:
        e = rng.choice(bounds)
        lo, hi = min(b, e), max(b, e)
        items = items[:hi] + items[lo:hi] + items[hi:]
    elif k == "ins":
        pos = rng.below(len(items) + 1)
        items[pos:pos] = [rng.below(256) for _ in range(rng.range(1, 24))]
    elif k == "big" and b + 18 <= len(items):
        # a length field above 4096 with that many octets behind it
        n = rng.range(4097, 6000)
        items[b + 16:b + 18] = list(n.to_bytes(2, "big"))
        items[b + 19:b + 19] = [rng.below(256) for _ in range(n)]
    return items


def chunks(rng, items):
    """the octets as the peer writes them: a few writes of random sizes"""
    out, i = [], 0
    while i < len(items):
        n = rng.weighted([(len(items), 40), (rng.range(1, 40), 40), (rng.range(1, 400), 20)])
        out.append(bytes(items[i:i + n]))
        i += n
    return out


def gen_shape(rng, updates):
    mode = rng.weighted([("mut", 55), ("typed", 15), ("random", 10), ("hs", 20)])
    s = Script(False, "A %s - 0" % rng.choice(["-", "65001", "65002"]) if rng.chance(30) else None)
    if mode == "mut":
        frames = [open_msg(hold=rng.choice([90, 0, 3, 180, 1])), KEEPALIVE]
        for _ in range(rng.range(0, 6)):
            frames.append(bytes.fromhex(rng.choice(updates)) if rng.chance(75) else rng.choice([KEEPALIVE, notification(), frame(5, bytes([0, 1, 0, 1]))]))
        items, bounds = [], []
        for f in frames:
            bounds.append(len(items))
            items += list(f)
        # the handshake itself is mutated in one case out of seven, and then only its fixed part (header, version, AS, hold time, id)
        lo = len(frames[0]) + len(frames[1])
        for _ in range(rng.range(1, 3)):
            if rng.chance(14):
                items[rng.below(29)] = rng.below(256)
            else:
                items = mutate(rng, items, [b for b in bounds if b < len(items)], lo)
    elif mode == "typed":
        # after a clean handshake: every type code with arbitrary payload, correctly framed
        items = list(OPEN + KEEPALIVE)
        for _ in range(rng.range(1, 5)):
            ty = rng.choice([2, 2, 2, 3, 4, 5, 0, 6, rng.range(2, 255)])
            items += list(frame(ty, bytes(rng.below(256) for _ in range(rng.range(0, 90)))))
    elif mode == "random":
        items = [rng.below(256) for _ in range(rng.range(0, 120))]
        if rng.chance(50):
            items[:16] = [255] * 16
    else:
        # hostile handshakes: OPENs with odd capabilities / versions / hold times, messages before or instead of the OPEN
        k = rng.weighted([("caps", 40), ("first", 30), ("ver", 10), ("as", 10), ("id", 10)])
        if k == "caps":
            # capabilities of every code with arbitrary values; the lengths tile and a four-octet-AS capability has four octets
            # (what does not is routecore's recorded panic, see the corpus)
            caps = []
            for _ in range(rng.range(0, 6)):
                c = rng.weighted([("mp", 25), ("rr", 8), ("em", 6), ("role", 6), ("gr", 10), ("ap", 10), ("err", 5), ("unknown", 30)])
                if c == "mp":
                    caps.append((1, bytes([0, rng.choice([1, 2, 25, 99]), 0, rng.choice([1, 2, 4, 128, 70, 200])])))
                elif c == "rr":
                    caps.append((2, b""))
                elif c == "em":
                    caps.append((6, b""))
                elif c == "role":
                    caps.append((9, bytes([rng.below(6)])))
                elif c == "gr":
                    caps.append((64, bytes([rng.below(256), rng.below(256)]) + b"".join(bytes([0, rng.choice([1, 2]), rng.choice([1, 2]), rng.choice([0, 128])]) for _ in range(rng.below(3)))))
                elif c == "ap":
                    caps.append((69, b"".join(bytes([0, rng.choice([1, 2]), rng.choice([1, 2]), rng.range(1, 3)]) for _ in range(rng.range(1, 3)))))
                elif c == "err":
                    caps.append((70, b""))
                else:
                    caps.append((rng.range(140, 250), bytes(rng.below(256) for _ in range(rng.below(12)))))
            items = list(open_msg(caps=caps, four=rng.chance(60)) + KEEPALIVE)
        elif k == "first":
            first = rng.choice([KEEPALIVE, notification(), bytes.fromhex(rng.choice(updates)), frame(5, bytes([0, 1, 0, 1]))])
            items = list(first + OPEN + KEEPALIVE)
        elif k == "ver":
            o = bytearray(OPEN)
            o[19] = rng.choice([0, 3, 5, 255])
            items = list(bytes(o) + KEEPALIVE)
        elif k == "as":
            items = list(open_msg(asn=rng.choice([0, 23456, 65535, 200000, 4294967295]), four=rng.chance(70)) + KEEPALIVE)
        else:
            items = list(open_msg(bgp_id=rng.choice([(0, 0, 0, 0), (1, 1, 1, 1), (255, 255, 255, 255)]), hold=rng.choice([0, 1, 2, 3, 65535])) + KEEPALIVE)
        if rng.chance(60):
            items += list(bytes.fromhex(rng.choice(updates)))
    for c in chunks(rng, items):
        s.add("b", c)
    return s.end(rng.weighted([("C", 75), ("R", 25)]))


def make_gen(update_pool):
    def gen(rng, tier):
        quick = tier == "quick"
        updates = update_pool(rng.fork("updates"), 200 if quick else 2000)
        n_full, n_shape = (500, 700) if quick else (12000, 20000)
        for _ in range(n_full):
            yield gen_full(rng, updates, rng.weighted([("valid", 38), ("refused", 24), ("short", 10), ("partial", 14), ("reset", 9), ("preopen", 5)]))
        for _ in range(n_shape):
            yield gen_shape(rng, updates)
    return gen


def corpus():
    upd = "ffffffffffffffffffffffffffffffff0033020000001c4001010040020602010000fbf4800e0c000102040a00000100100a01"
    attrs = bytes([0x40, 1, 1, 0, 0x40, 2, 6, 2, 1, 0, 0, 0xfd, 0xe9, 0x40, 3, 4, 10, 0, 0, 1])
    v4 = frame(2, bytes([0, 0]) + len(attrs).to_bytes(2, "big") + attrs + bytes([16, 10, 1, 16, 10, 2])).hex()     # 10.1.0.0/16, 10.2.0.0/16
    hs = "o %s;k %s" % (OPEN.hex(), KEEPALIVE.hex())
    return [
        # a clean session, ended by FIN / RST
        "T;%s;u %s;u %s;C" % (hs, v4, upd),
        "T;%s;u %s;S 1;R" % (hs, v4),
        # known finding bgp-open-after-open: an OPEN on an established session / a second OPEN right after the first
        "T;%s;u %s;S 1;O %s;C" % (hs, v4, OPEN.hex()),
        "T;o %s;L;O %s;C" % (OPEN.hex(), OPEN.hex()),
        # the FSM lets go of the connection without a word (UPDATE in OpenConfirm): repaired wedge
        "T;o %s;u %s;Z 300" % (OPEN.hex(), v4),
        "T;o %s;u %s;C" % (OPEN.hex(), v4),
        # a length field below 18: the frame is never complete, the session sits until the peer closes
        "T;%s;u %s;S 1;s %s0005;C" % (hs, v4, "ff" * 16),
        "T;%s;u %s;S 1;s %s0005;Z 200" % (hs, v4, "ff" * 16),
        # an earlier session of the same peer: rejected, its entry is left alone
        "T;A - - 1;%s;u %s;C" % (hs, v4),
        # an UPDATE / a KEEPALIVE in front of the OPEN: the loop leaves at once (no NegotiatedConfig) / the FSM gives up and waits (DelayOpen)
        "T;A - - 0;u %s;Z 120" % v4, "T;A 65001 - 0;k %s;Z 120" % KEEPALIVE.hex(), "T;A - - 0;k %s;%s;u %s;Z 120" % (KEEPALIVE.hex(), hs, v4),
        # nothing at all
        "T;C", "T;R", "C",
        # known finding bgp-open-parse-panic: an OPEN whose capability runs past its optional parameter (open.rs:616), whose
        # optional parameter runs past the message (open.rs:691), whose four-octet-AS capability has two octets (open.rs:100)
        "b %s;k %s;C" % (frame(1, bytes([4, 0xfd, 0xe9, 0, 90, 10, 0, 0, 9, 4, 2, 2, 65, 4])).hex(), KEEPALIVE.hex()),
        "b %s;k %s;C" % (frame(1, bytes([4, 0xfd, 0xe9, 0, 90, 10, 0, 0, 9, 3, 2, 9, 1])).hex(), KEEPALIVE.hex()),
        "b %s;k %s;C" % (frame(1, bytes([4, 0xfd, 0xe9, 0, 90, 10, 0, 0, 9, 6, 2, 4, 65, 2, 0xfd, 0xe9])).hex(), KEEPALIVE.hex()),
        # known finding bgp-early-reset-panic: RST before the connection task has started (session.rs:1874, peer_addr().unwrap())
        "R0",
    ]


def nontrivial(case, out):
    return " u " in (" " + case.replace(";", " ; ")) or "b " in case


def classify(case, out):
    ks = ["full" if case.startswith("T") else "shape"]
    for tag, name in (("x ", "refused-frame"), ("s ", "short-length"), ("h ", "partial-frame"), ("O ", "second-open")):
        if any(o.startswith(tag) for o in case.split(";")):
            ks.append(name)
    ks.append("end:" + case.split(";")[-1][:1])
    if "fin:w" in out:
        ks.append("withdrawn")
    return ks


def frames_of(case):
    """the complete frames of the octets of a case, cut as RFC 4271 says (length field at offset 16; below 19 nothing more is cut)"""
    data = b""
    for o in case.split(";"):
        t = o.split()
        if len(t) == 2 and len(t[0]) == 1 and t[0] not in "SPZA" and t[1] != "-":
            data += bytes.fromhex(t[1])
    out, i = [], 0
    while i + 19 <= len(data):
        n = int.from_bytes(data[i + 16:i + 18], "big")
        if n < 19 or i + n > len(data):
            break
        out.append(data[i:i + n])
        i += n
    return out


def open_untidy(f):
    """an OPEN (complete frame) whose optional parameters / capabilities do not tile, or whose four-octet-AS capability
    has a length other than 4"""
    if len(f) < 29 or f[18] != 1:
        return False
    plen, params = f[28], f[29:]
    if plen != len(params):
        return True
    i = 0
    while i < len(params):
        if i + 2 > len(params):
            return True
        ty, ln = params[i], params[i + 1]
        val = params[i + 2:i + 2 + ln]
        if len(val) < ln:
            return True
        if ty == 2:
            j = 0
            while j < len(val):
                if j + 2 > len(val) or j + 2 + val[j + 1] > len(val):
                    return True
                if val[j] == 65 and val[j + 1] != 4:
                    return True
                j += 2 + val[j + 1]
        i += 2 + ln
    return False


import re
_PANIC = re.compile(r"^P:routecore-0\.5\.1/src/bgp/(fsm/session|message/open)\.rs:(\d+)$")


def known_signature(k, engine, case, mo, spec, im):
    """routecore 0.5.1 panics inside the connection task. Recognised by where the panic happened AND by what the stream holds:
      bgp-open-after-open   session.rs:1504 / 1679 (todo!() for an OPEN in OpenConfirm / Established) and at least two OPEN frames;
      bgp-open-parse-panic  message/open.rs:100 / 616 / 691 and an OPEN frame whose parameters / capabilities do not tile (or a
                            four-octet-AS capability that is not four octets long);
      bgp-early-reset-panic session.rs:1874 (peer_addr().unwrap()) and a case that ends with a reset.
    Everything but the panic token, end, live and fin may not differ in any other way than the model says (full mode) -
    in shape mode nothing is left behind unless the session was registered (second OPEN)."""
    if engine != "bgprx":
        return False
    toks = im.split()
    m = _PANIC.match(toks[0]) if toks else None
    if not m:
        return False
    where, line = m.group(1), int(m.group(2))
    fs = frames_of(case)
    sig = k.get("id", "").split("-", 1)[-1]
    if sig == "bgp-open-after-open":
        if not (where == "fsm/session" and line in (1504, 1679) and sum(1 for f in fs if f[18] == 1) >= 2):
            return False
        if case.startswith("T"):
            return V.obs_match(mo, im)          # the model (reference FSM) says exactly what is left behind
        return "end:0" in toks
    if sig == "bgp-open-parse-panic":
        return (where == "message/open" and line in (100, 616, 691) and any(open_untidy(f) for f in fs)
                and toks[1:4] == ["end:0", "live:-", "fin:-"])
    if sig == "bgp-early-reset-panic":
        return (where == "fsm/session" and line == 1874 and case.split(";")[-1].strip() in ("R", "R0")
                and toks[1:4] == ["end:0", "live:-", "fin:-"])
    return False


def burst(V, tier, seed):
    """A long run of UPDATEs in one go (what a peer does after the session comes up): every one of them must leave the gate.
    N UPDATEs, each announcing one prefix of its own, are written at once after the handshake, then FIN; counted are the Bulks
    that left the gate and the distinct prefixes in them. Implementation only (the model has no notion of a tick() that is
    abandoned half-way: see the assumptions)."""
    import subprocess
    n = 4000 if tier == "quick" else 60000
    attrs = bytes([0x40, 1, 1, 0, 0x40, 2, 6, 2, 1, 0, 0, 0xfd, 0xe8, 0x40, 3, 4, 10, 0, 0, 1])
    blob = b"".join(frame(2, bytes([0, 0]) + len(attrs).to_bytes(2, "big") + attrs + bytes([24, 10 + (i >> 16), (i >> 8) & 255, i & 255])) for i in range(n))
    case = "T;o %s;L;k %s;u %s;C" % (OPEN.hex(), KEEPALIVE.hex(), blob.hex())
    p = subprocess.run([V.VH, "bgprx"], input=case + "\n", stdout=subprocess.PIPE, stderr=subprocess.PIPE, text=True, timeout=600)
    toks = p.stdout.split()
    bulks = [t for t in toks if t.startswith("u:[")]
    prefixes = {t.split(":")[2] for t in bulks if t.count(":") >= 3}
    head = " ".join(toks[:4])
    r = {"name": "c06-bgp-burst", "evaluations": 1, "coverage": {"updates_sent": n, "bulks_out": len(bulks), "distinct_prefixes": len(prefixes), "head": head}, "failures": []}
    if head != "P:- end:1 live:- fin:w" or toks[-1:] != ["w:s"]:
        r["failures"].append({"what": f"BGP burst of {n} UPDATEs: the session did not end in its clean-up: {head!r} ... {toks[-1:]!r} {p.stderr[-200:]!r}",
                              "kind": "property", "replay_cmd": f"{V.VH} bgprx  (case: handshake, {n} UPDATEs in one write, FIN)"})
    elif len(prefixes) != n:
        r["failures"].append({"what": f"BGP burst: UPDATEs never left the gate: {n - len(prefixes)} of {n} UPDATEs sent in one go on an established session were "
                                      f"dropped without a trace (Bulks out: {len(bulks)}; the session went on and ended normally)",
                              "kind": "property", "replay_cmd": f"{V.VH} bgprx  (case: handshake, {n} UPDATEs of one prefix each in one write, FIN)"})
    return r


def engine(update_pool):
    return {"name": "bgprx", "gen": make_gen(update_pool), "corpus": corpus, "nontrivial": nontrivial, "classify": classify, "shards": 12, "timeout": 1500}
