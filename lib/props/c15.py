"""C15 - gauges and counters always agree with what actually happened (BMP state machine level)."""
from props.pipe_common import *
PROPS_FILE = "Props_C15.v"
RULE = ("random BMP session histories (peer up/down cycles, route traffic, End-of-RIB, invalid and unparsable messages, termination) with the "
        "/metrics exposition of the state machine read at random quiescent points and at the end; non-trivial = at least one metrics read "
        "after a peer went down or after an invalid message; RIB unit: histories of BGP sessions with disjoint prefixes (announce, re-announce, "
        "one withdrawal per route) and arbitrary pipeline histories (shared prefixes, withdrawals of anything, flaps, session ends) with the "
        "RIB unit's own counters read from its rendered /metrics text at random points (op MR: against the model; the last read of an arbitrary history, op MRS: also against the descriptions of the metrics); non-trivial there = a read that shows a count")


def gen(rng, tier):
    n = 2500 if tier == "quick" else 40000
    for i in range(n):
        yield pipegen.gen_case(rng, peers=[0, 3, 5, 6, 8], metrics=True, bgp=False, query_ops=False, length=(8, 50 if tier == "quick" else 150))


def rib_clean_case(rng):
    """BGP sessions with disjoint prefixes; a route is announced (and re-announced), withdrawn at most once while active and never
    announced again, no session ends: the histories on which the RIB unit's counters say what their descriptions say. Read with MR
    (code against model): the shrinker cannot turn a changed bump into an instance of finding C15-6 (which MRS reads show)"""
    ops = ["O 0", "O 1"]
    own = {0: [1, 2, 3], 1: [4, 5, 6]}
    active = {0: set(), 1: set()}
    dead = {0: set(), 1: set()}
    for _ in range(rng.range(3, 14)):
        b = rng.below(2)
        k = rng.weighted([("a", 55), ("w", 25), ("m", 20)])
        if k == "a":
            ps = sorted({rng.choice(own[b]) for _ in range(rng.range(1, 3))} - dead[b])
            if ps:
                ops.append("A %d 0 %d %s 0 -" % (b, rng.below(5), ",".join(map(str, ps))))
                active[b].update(ps)
        elif k == "w" and active[b]:
            p = rng.choice(sorted(active[b]))
            active[b].discard(p)
            dead[b].add(p)
            ops.append("A %d 0 0 - 0 %d" % (b, p))
        else:
            ops.append("MR")
    return ";".join(ops + ["MR"])


def rib_any_case(rng, last="MRS"):
    """any pipeline history (BMP routers and BGP sessions sharing prefixes, withdrawals of anything, flaps), the RIB unit's counters
    read at random points (MR: code against model); the last read also against the descriptions of the metrics if `last` is MRS"""
    ops = pipegen.gen_case(rng, peers=[0, 3, 5, 6, 8], metrics=True, bgp=True, query_ops=False, length=(8, 40)).split(";")
    for _ in range(rng.range(1, 4)):
        ops.insert(rng.below(len(ops) + 1), "MR")
    return ";".join(ops + [last])


# finding C15-6 (RIB unit counters), one history per face; generated last so that they are looked at after everything else
RIB_FINDING_CASES = [
    "O 0;O 1;A 0 0 1 1 0 -;A 1 0 2 1 0 -;MRS",          # two routes stored for one prefix: num_items 1
    "O 0;A 0 0 1 1 0 -;A 0 0 0 - 0 1;A 0 0 0 - 0 1;MRS",  # withdrawn twice: num_routes_announced wraps below zero
    "O 0;A 0 0 1 1 0 -;Z 0;MRS",                          # the session ends: num_routes_announced still 1
    "O 0;A 0 0 0 - 0 1;MRS",                              # withdrawal of a never announced route: a hard insert failure
]


def gen_with_rib(rng, tier):
    yield from gen(rng, tier)
    r2 = rng.fork("rib-unit")
    for _ in range(250 if tier == "quick" else 6000):
        yield rib_clean_case(r2)
    for _ in range(250 if tier == "quick" else 6000):
        yield rib_any_case(r2, "MR")     # code against model on every kind of history: nothing here can be shrunk into the finding
    for _ in range(150 if tier == "quick" else 4000):
        yield rib_any_case(r2)
    yield from RIB_FINDING_CASES


def classify_with_rib(case, out):
    ks = pipegen.classify(case, out)
    reads = [x for x in out.split() if x.startswith("r:")]
    if reads:
        ks.append("rib-unit-counters-read")
        f = [x[2:].split(",") for x in reads]
        if any(v[3] != "0" for v in f):
            ks.append("rib-unit-hard-failure-counted")
        if any(v[6] != "0" for v in f):
            ks.append("rib-unit-withdrawal-counted")
        if any(v[4].startswith("-") for v in f):
            ks.append("rib-unit-announced-below-zero")
        if any(v[5] != "0" for v in f):
            ks.append("rib-unit-modification-counted")
    return ks


def nontrivial(case, out):
    if any(x.startswith("r:") and x != "r:0,0,0,0,0,0,0,0" for x in out.split()):
        return True
    t = out.split()
    seen = False
    for x in t:
        if x.startswith(("w:", "W:", "i/")):
            seen = True
        if seen and x.startswith("m:"):
            return True
    return False


def corpus():
    return [
        # fixed C15-1: the EoR-capable gauge stayed at 1 after the Peer Down
        "C 0;I 0;U 0 0 1;M 0;D 0 0;M 0",
        # fixed C15-2: the pending-EoR gauge counted markers / was not refreshed
        "C 0;I 0;U 0 0 1;U 0 5 1;R 0 0 0 1 1 0 -;R 0 5 0 1 2 0 -;M 0;E 0 0 0;M 0;D 0 5;M 0",
        # fixed C15-3: Termination with peers up left the gauges untouched
        "C 0;I 0;U 0 0 1;R 0 0 0 1 1 0 -;T 0;M 0",
    ]


ENGINES = [{"name": "pipe", "gen": gen_with_rib, "corpus": corpus, "nontrivial": nontrivial, "classify": classify_with_rib, "shards": 12}]
from props.e2e_common import e2e_engine
ENGINES.append(e2e_engine("C15"))   # the same histories against a real pipeline over TCP/HTTP
known_signature = known_signature_for({"KC", "KR"})   # KC: e2e engine, finding C15-4; KR: pipe engine op MR, finding C15-6
# gate part: GateMetrics num_updates / num_dropped_updates (src/comms.rs) against the Gate model (theorems C15_gate_*)
from props.c08 import C15_GATE_ENGINE  # noqa: E402
ENGINES.append(C15_GATE_ENGINE)


# unit level part: the per-router counters of the connection handler (src/units/bmp_tcp_in/metrics.rs RouterMetrics:
# received per RFC 7854 type, processed, invalid, receive io errors) and connection_lost_count, read from the rendered /metrics
# text while the connection is up (op G of the `bstream` engine) and after it ended, against the counters of the read-loop model
# (Bmp/BmpStreamModel.v loopm; theorems C15_unit_counters_*). Every /metrics text goes through the independent exposition-format
# reader of the harness (engines/promtext.rs).
import props.bstream_common as BS  # noqa: E402

UNIT_RULE = ("unit level: BMP streams built for the counters - every RFC 7854 message type incl. Route Mirroring (type 6), messages the state "
             "machine rejects (before the Initiation, after the Termination, for peers that are not up, duplicate Peer Ups, unparsable UPDATEs), "
             "frames the parser rejects (type octets 7..255, wrong version, header-only), read errors of every io::ErrorKind class at and inside "
             "frames, end of file or unit shutdown; the HTTP client reads /metrics (after the router's pages) at random moments between reads and "
             "the text is read again after the session; non-trivial = a read of the counters that shows at least one processed message and at "
             "least one invalid message or receive error")


def junk_frame(rng):
    """a correctly framed message routecore's from_octets rejects whatever else it holds (bstream_common.trivially_unparsable)"""
    k = rng.weighted([("type", 60), ("version", 25), ("header-only", 15)])
    if k == "header-only":
        return [3, 0, 0, 0, 5]
    body = [rng.below(256) for _ in range(rng.range(0, 30))]
    typ = rng.choice([7, 8, 9, 255, rng.range(7, 255)]) if k == "type" else rng.below(7)
    ver = 3 if k == "type" else rng.choice([0, 1, 2, 4, 255])
    return [ver] + list((6 + len(body)).to_bytes(4, "big")) + [typ] + body


def unit_plan(rng):
    """list of steps: a descriptor (str), a raw frame (list of octets), ('err', kind) or BS.GET"""
    peers = BS.rng_sample(rng, list(range(10)), rng.range(1, 3))
    others = [p for p in range(10) if p not in peers]
    plan = []
    if rng.chance(88):
        plan.append("I")
    up = set()
    for p in peers:
        if rng.chance(85):
            plan.append("U.%d.%d" % (p, rng.below(2)))
            up.add(p)
    for _ in range(rng.range(3, 18)):
        p = rng.choice(sorted(up)) if up and rng.chance(85) else rng.choice(peers + others[:2])
        k = rng.weighted([("R", 22), ("W", 6), ("E", 5), ("N", 6), ("S", 9), ("M", 9), ("D", 8), ("U", 8), ("I", 4), ("X", 2),
                          ("junk", 10), ("err", 7), ("get", 14)])
        if k == "R":
            ps = "+".join(str(x) for x in sorted(set(rng.below(6) + 1 for _ in range(rng.range(1, 3)))))
            plan.append("R.%d.0.%d.%s.0.-" % (p, rng.below(4), ps))
        elif k == "W":
            plan.append("R.%d.0.0.-.0.%d" % (p, rng.below(6) + 1))
        elif k == "E":
            plan.append("E.%d.0" % p)
        elif k in ("N", "S", "M", "D"):
            plan.append("%s.%d" % (k, p))
            if k == "D":
                up.discard(p)
        elif k == "U":
            plan.append("U.%d.%d" % (p, rng.below(2)))
            up.add(p)
        elif k in ("I", "X"):
            plan.append(k)
            if k == "X":
                up.clear()
        elif k == "junk":
            plan.append(junk_frame(rng))
        elif k == "err":
            plan.append(("err", rng.choice(sorted(BS.NONFATAL)) if rng.chance(75) else rng.choice(BS.KINDS)))
        else:
            plan.append(BS.GET)
    if rng.chance(90):
        plan.append(BS.GET)
    return plan


def unit_case(rng, plan, pool):
    table = {pool[d]: d for d in plan if isinstance(d, str) and d != BS.GET}
    items = []
    for d in plan:
        if d == BS.GET:
            items.append(BS.GET)
        elif isinstance(d, tuple):
            items.append(d[1])
        elif isinstance(d, list):
            items += d
        else:
            items += list(bytes.fromhex(pool[d]))
    if rng.chance(8):      # a read error inside a frame: the partial frame is lost, framing restarts in the middle of it
        items.insert(rng.below(len(items) + 1), rng.choice(sorted(BS.NONFATAL)))
    return BS.make_case(BS.Stream(items), table, rng.chance(25), rng)


def gen_unit(rng, tier):
    n = 900 if tier == "quick" else 25000
    plans = [unit_plan(rng) for _ in range(n)]
    pool = BS.render(sorted({d for pl in plans for d in pl if isinstance(d, str) and d != BS.GET}))
    for pl in plans:
        yield unit_case(rng, pl, pool)


def corpus_unit():
    fixed = [
        # every type once, a rejected frame of type 9, a read that times out, a Peer Down for a peer that is not up; the counters
        # before anything arrived, in the middle, and after the last message
        [BS.GET, "I", "U.0.1", "M.0", BS.GET, ("err", "timedout"), "S.0", [3, 0, 0, 0, 6, 9], "D.5", "R.0.0.1.1+2.0.-", "X", "D.0", BS.GET],
        # nothing but rejected traffic: no Initiation, so every message is invalid
        ["U.0.1", "S.0", "M.0", BS.GET],
        # type octets at the edge of the seven slots: 6 is counted, 7 and 255 are io errors - never an index out of range
        ["I", "M.3", [3, 0, 0, 0, 6, 7], [3, 0, 0, 0, 7, 255, 0], [3, 0, 0, 0, 6, 6], BS.GET],
        # a fatal read error ends the session between two visits
        ["I", BS.GET, ("err", "connectionreset"), "U.0.1", BS.GET],
    ]
    pool = BS.render(sorted({d for pl in fixed for d in pl if isinstance(d, str) and d != BS.GET}))
    out = []
    for pl in fixed:
        table = {pool[d]: d for d in pl if isinstance(d, str) and d != BS.GET}
        items = []
        for d in pl:
            items += [BS.GET] if d == BS.GET else [d[1]] if isinstance(d, tuple) else d if isinstance(d, list) else list(bytes.fromhex(pool[d]))
        out.append(BS.make_case(BS.Stream(items), table, False, None))
    return out + ["G;Z hang", "B 0300000004", "E interrupted;G;E other;G;E brokenpipe"]


def nontrivial_unit(case, out):
    import re
    for x in out.split():
        m = re.match(r"^k:[\d.]+,p(\d+),i(\d+),e(\d+),", x)
        if m and int(m.group(1)) >= 1 and (int(m.group(2)) >= 1 or int(m.group(3)) >= 1):
            return True
    return False


def classify_unit(case, out):
    import re
    ks = BS.classify(case, out)
    reads = [x for x in out.split() if x.startswith("k:") and x != "k:-"]
    if reads:
        ks.append("unit-counters-read")
    for x in reads:
        m = re.match(r"^k:([\d.]+),p(\d+),i(\d+),e(\d+),", x)
        if not m:
            continue
        recv = [int(v) for v in m.group(1).split(".")]
        for t, v in enumerate(recv):
            if v:
                ks.append(f"type-{t}-counted")
        if int(m.group(3)):
            ks.append("invalid-counted")
        if int(m.group(4)):
            ks.append("io-errors-counted")
        if max(recv) >= 5:
            ks.append("a-type-counted-5-times-or-more")
    return sorted(set(ks))


ENGINES.append({"name": "bstream", "gen": gen_unit, "corpus": corpus_unit, "nontrivial": nontrivial_unit, "classify": classify_unit, "shards": 12})
RULE = RULE + "; " + UNIT_RULE

# bgp-tcp-in unit part: connection_lost_count / disconnect_count of the unit's status reporter (src/units/bgp_tcp_in/status_reporter.rs,
# metrics.rs) on the real Processor::process loop, against BgpSessionModel.bsm_process (theorems C15_bgp_*): engine `bgpend`, C15 profile
from props import bgpend_common  # noqa: E402
ENGINES.append(bgpend_common.bgpend_c15_engine())
RULE = RULE + "; " + bgpend_common.BGPEND_C15_RULE
TRUSTED_BASE = TRUSTED_BASE + [bgpend_common.BGPEND_C15_TRUSTED] + [
    "Rust harness engine `bstream` (see C06/C07): the real RouterHandler::read_from_router over a scripted reader; the unit level counters are "
    "read from the text StreamFixture::metrics_prometheus renders (both metric sources of the unit through the real Target, as /metrics does), "
    "after GET /routers/ and GET /routers/<id> through the real request processors",
    "harness/src/engines/promtext.rs: an independent reader of the Prometheus text format, written from the format's description; every /metrics "
    "text of the bstream engine goes through it (hard rules: line grammar, HELP and TYPE before the first sample of a family, TYPE lines agree, "
    "no label twice, no series twice); the reader itself is exercised on a corpus of well-formed and malformed texts on every run (extra c15-promtext)",
    "OCaml driver oracle/eng_bstream.ml: prints the counters of BmpStreamModel.run_from_m / conn_at; its parser argument is the parse table of the case",
]
ASSUMPTIONS = ASSUMPTIONS + bgpend_common.BGPEND_ASSUMPTIONS[:2] + [
    "bgp-tcp-in unit counters: session.connected_addr() is Some whenever the loop handles Terminate or a de-configuration (the scripted session "
    "always is connected; routecore's session keeps the address until the FSM lets go of the connection, after which the loop only drains the "
    "channel); listener_bound_count and connection_accepted_count belong to the accept loop of unit.rs and are not touched by a session; "
    "established_session_count is never written by the code",
] + [
    "unit level counters: routecore's Message::from_octets accepts no frame whose type octet is above 6 (BmpStreamModel.parse_types_ok; "
    "C15_unit_counters_index_needs_parser_guarantee shows the index panic without it; run on frames of type 7..255 on every check); no roto filter is "
    "configured (every accepted message is handed to the state machine); the router id does not change during a session (format_source_id ignores "
    "the sysName on this tree: C19_metrics_labels_safe); counters are read between two reads of the connection, after the client looked at the "
    "router's pages (which creates the router's zeroed entry: page_visit)",
]


def promtext_selftest(V, tier, seed):
    """The exposition-format reader of the harness on texts whose verdict is known: it must accept the well-formed ones (incl. the
    optional features rotonda never uses) and name the departure of each malformed one."""
    import subprocess
    ok_head = "# HELP a_total help text\n# TYPE a_total counter\n"
    texts = [
        ("", "ok families:0 series:0 strict:ok"),
        (ok_head + 'a_total{x="1"} 1\na_total{x="2"} 2\n', "ok families:1 series:2 strict:ok"),
        (ok_head + 'a_total 1.5e3 1700000000000\n\n# a comment\n', "ok families:1 series:1 strict:ok"),
        (ok_head + 'a_total{x="a\\\\b\\"c\\nd",} +Inf\n', "ok families:1 series:1 strict:ok"),
        ("# HELP h help\n# TYPE h histogram\nh_bucket{le=\"1\"} 1\nh_bucket{le=\"+Inf\"} 2\nh_sum 3\nh_count 2\n", "ok families:1 series:4 strict:ok"),
        (ok_head + 'a_total{x="1"} 1\n' + ok_head + 'a_total{x="2"} 2\n', "ok families:1 series:2 strict:help-repeated,type-repeated,type-after-sample"),
        (ok_head + 'a_total{x="1"} 1\n# HELP b h\n# TYPE b gauge\nb 1\na_total{x="2"} 2\n', "ok families:2 series:3 strict:family-split"),
        (ok_head + "a_total 1", "BAD:no-final-newline@3"),
        (ok_head + 'a_total{x="1"} 1\na_total{x="1"} 2\n', "BAD:series-twice@4"),
        (ok_head + 'a_total{x="1",x="2"} 1\n', "BAD:label-twice@3"),
        (ok_head + 'a_total{x="a"b"} 1\n', "BAD:label-separator@3"),
        (ok_head + 'a_total{x="a\\tb"} 1\n', "BAD:label-value-escape@3"),
        (ok_head + 'a_total{x="a\nb"} 1\n', "BAD:label-value-unterminated@3"),
        (ok_head + 'a_total{x=1} 1\n', "BAD:label-quote@3"),
        (ok_head + 'a_total{1x="1"} 1\n', "BAD:label-name@3"),
        (ok_head + "a_total one\n", "BAD:value@3"),
        (ok_head + "a_total\n", "BAD:value-missing@3"),
        (ok_head + "a_total 1 2 3\n", "BAD:trailing-text@3"),
        (ok_head + "a_total 1 soon\n", "BAD:timestamp@3"),
        (ok_head + "1a 1\n", "BAD:metric-name@3"),
        ("a_total 1\n" + ok_head, "BAD:sample-before-type@1"),
        ("# TYPE a_total counter\na_total 1\n", "BAD:sample-before-help@2"),
        ("# HELP a_total h\na_total 1\n", "BAD:sample-before-type@2"),
        (ok_head + "# TYPE a_total gauge\n", "BAD:type-conflict@3"),
        ("# TYPE a_total meter\n", "BAD:type-unknown@1"),
        ("# HELP a-b h\n", "BAD:header-name@1"),
        (ok_head + "a_total 1\r\n", "BAD:carriage-return@3"),
    ]
    got = V.run_lines(V.VH, "promtext", [t.encode().hex() for t, _ in texts])
    fails = []
    for (t, want), g in zip(texts, got):
        if g != want:
            fails.append({"what": f"the exposition-format reader of the harness answers {g!r} for {t!r}; expected {want!r}", "kind": "correspondence",
                          "suffix": "no-failing-input-found", "replay_cmd": f"echo {t.encode().hex()} | {V.VH} promtext"})
    return {"name": "c15-promtext", "evaluations": len(texts), "coverage": {"texts": len(texts), "rejected_classes": sum(w.startswith("BAD") for _, w in texts)},
            "failures": fails[:3]}


def strict_exposition(V, tier, seed):
    """The /metrics text of the unit while a router is connected, against the STRICT rules of the text format (one HELP and one
    TYPE line per metric name, all lines of a family in one group): known finding C15-5."""
    import subprocess
    p = subprocess.run([V.VH, "bstream-expo"], stdout=subprocess.PIPE, text=True, timeout=120)
    lines = dict(l.split(": ", 1) for l in p.stdout.strip().splitlines() if ": " in l)
    r = {"name": "c15-strict-exposition", "evaluations": 2, "coverage": dict(lines), "failures": []}
    for when in ("up", "after"):
        v = lines.get(when, "missing")
        if not v.startswith("ok "):
            r["failures"].append({"what": f"/metrics text ({when}): the independent reader rejects it: {v!r}", "kind": "property",
                                  "replay_cmd": f"{V.VH} bstream-expo raw"})
        elif not v.endswith("strict:ok"):
            r["failures"].append({"what": f"/metrics text ({when}) is read by a lenient consumer but departs from the strict text format: "
                                          f"per-router series repeat their HELP/TYPE lines: {v!r}", "kind": "property",
                                  "replay_cmd": f"{V.VH} bstream-expo raw"})
    return r


EXTRAS = [promtext_selftest, strict_exposition]

LEVEL_TEXT = ("Theorems over all message histories of the state-machine model: the three peer gauges equal the numbers read off the peer table at every "
              "point, every counter equals the number of matching events, counters are monotone, the state metric follows the phase; over all scripts of "
              "read events of the connection model: every unit level counter equals the number of matching iterations of the read loop, at the end and at "
              "every quiescent point. Kernel-checked, axiom-free; tied to the real code by reading the rendered Prometheus exposition at random quiescent "
              "points of generated histories and byte streams.")
DESIGN_REF = "DESIGN.md section 6, C15"
LEVEL_NOTE = ("Trusted: Coq kernel, extraction + OCaml driver, Rust harness and its independent reader of the Prometheus text. Unit level: the "
              "per-router counters of the connection handler (received per RFC 7854 type, processed, invalid, receive io errors) and connection_lost_count "
              "are modelled on the read loop of C06/C07 (Bmp/BmpStreamModel.v loopm) and proved, for ALL scripts of read events and every parser that "
              "accepts no type above 6, to equal the number of matching loop iterations at the end and at every quiescent point, to be monotone, to satisfy "
              "received = sum over types = processed, invalid = the state machine's unprocessable count, one lost connection per session (theorems "
              "C15_unit_counters_*); tied to the real RouterHandler by the `bstream` engine reading the rendered text. Connected routers and connections "
              "accepted are modelled in E2e/E2eModel.v (accepted = lost + connected for all histories; known finding C15-4) and read from GET /metrics of "
              "a real pipeline by the `e2e` engine; gate counters: engine c15gate over the Gate model of C08, theorems C15_gate_*. The label sets of the "
              "per-router series parse back exactly (C15_unit_counters_labels_parse, with C19_metrics_labels_safe). NOT modelled: the text writer "
              "(Target::append*) beyond its label sets - the text is checked per run by the independent reader, not proved well-formed; the strict text "
              "format (one HELP/TYPE per name) is departed from: known finding C15-5; the roto-filter branch of process_msg (a Reject would make "
              "received > processed); of the RIB unit: num_insert_retries (the store's contention count) and the duration gauges - its eight other counters ARE modelled (Rib/RibModel.v ribm_run, theorems C15_rib_*, pipe op MR, known finding C15-6); of both ingress units: listener_bound_count (the e2e harness waits for its exact value, no theorem); connections accepted ARE modelled (E2eModel uc_accepted / bs_accepted, theorems C15_bmp/bgp_accepted_counts_connections, e2e ops M / BM); of the BGP unit the session's counters (connection lost, disconnects) ARE modelled: BgpSessionModel.bsm_process, theorems C15_bgp_*, engine bgpend op M. See DESIGN.md, design-notes/C15.md and design-notes/E2E.md.")
TECHNIQUE = "Coq proof by invariant over message histories + model/implementation correspondence on rendered metrics"
