"""C15 - gauges and counters always agree with what actually happened (BMP state machine level)."""
from props.pipe_common import *
PROPS_FILE = "Props_C15.v"
RULE = ("random BMP session histories (peer up/down cycles, route traffic, End-of-RIB, invalid and unparsable messages, termination) with the "
        "/metrics exposition of the state machine read at random quiescent points and at the end; non-trivial = at least one metrics read "
        "after a peer went down or after an invalid message")


def gen(rng, tier):
    n = 2500 if tier == "quick" else 40000
    for i in range(n):
        yield pipegen.gen_case(rng, peers=[0, 3, 5, 6, 8], metrics=True, bgp=False, query_ops=False, length=(8, 50 if tier == "quick" else 150))


def nontrivial(case, out):
    t = out.split()
    seen = False
    for x in t:
        if x.startswith(("w:", "W:", "i/")):
            seen = True
        if seen and x.startswith("m:"):
            return True
    return False


def corpus():
    return [
        # fixed C15-1: the EoR-capable gauge stayed at 1 after the Peer Down
        "C 0;I 0;U 0 0 1;M 0;D 0 0;M 0",
        # fixed C15-2: the pending-EoR gauge counted markers / was not refreshed
        "C 0;I 0;U 0 0 1;U 0 5 1;R 0 0 0 1 1 0 -;R 0 5 0 1 2 0 -;M 0;E 0 0 0;M 0;D 0 5;M 0",
        # fixed C15-3: Termination with peers up left the gauges untouched
        "C 0;I 0;U 0 0 1;R 0 0 0 1 1 0 -;T 0;M 0",
    ]


ENGINES = [{"name": "pipe", "gen": gen, "corpus": corpus, "nontrivial": nontrivial, "classify": pipegen.classify, "shards": 12}]
from props.e2e_common import e2e_engine
ENGINES.append(e2e_engine("C15"))   # the same histories against a real pipeline over TCP/HTTP
known_signature = known_signature_for({"KC"})   # KC: e2e engine, finding C15-4
# gate part: GateMetrics num_updates / num_dropped_updates (src/comms.rs) against the Gate model (theorems C15_gate_*)
from props.c08 import C15_GATE_ENGINE  # noqa: E402
ENGINES.append(C15_GATE_ENGINE)
LEVEL_TEXT = ("Theorems over all message histories of the state-machine model: the three peer gauges equal the numbers read off the peer table at every "
              "point, every counter equals the number of matching events, counters are monotone, the state metric follows the phase. Kernel-checked, "
              "axiom-free; tied to the real code by reading the rendered Prometheus exposition at random quiescent points of generated histories.")
DESIGN_REF = "DESIGN.md section 6, C15"
LEVEL_NOTE = ("Trusted: Coq kernel, extraction + OCaml driver, Rust harness and its parser of the Prometheus text. Of the unit level metrics, connected "
              "routers and connections accepted / lost are modelled in E2e/E2eModel.v (accepted = lost + connected for all histories; the rendered gauge "
              "never exceeds it; known finding C15-4) and read from GET /metrics of a real pipeline by the `e2e` engine; gate counters (num_updates / "
              "num_dropped_updates): engine c15gate over the Gate model of C08, theorems C15_gate_*; per-type message counts are NOT modelled; "
              "see DESIGN.md and design-notes/E2E.md.")
TECHNIQUE = "Coq proof by invariant over message histories + model/implementation correspondence on rendered metrics"
