#!/usr/bin/env python3
"""Regenerates the generated blocks of DESIGN.md (between <!-- GEN:name --> and <!-- /GEN:name -->):
   fixes (from /repo's git log + known_findings), known (known_findings), seeded (seeded/*/meta.json)."""
import glob, json, os, re, subprocess
V = os.path.dirname(os.path.dirname(os.path.abspath(__file__)))
def known():
    out = []
    for f in sorted(glob.glob(os.path.join(V, "known_findings", "*.json"))):
        out += json.load(open(f))["findings"]
    return out
def esc(s): return str(s).replace("|", "\\|").replace("\n", " ")
def fixes_table():
    log = subprocess.run(["git", "-C", "/repo", "log", "--reverse", "--format=%h %s"], stdout=subprocess.PIPE, text=True).stdout.splitlines()
    ks = [k for k in known() if k["status"] == "fixed"]
    rows = ["| commit | property | fix | failing case / signature |", "|---|---|---|---|"]
    for l in log:
        h, s = l.split(" ", 1)
        if not s.startswith("fix:"): continue
        k = next((k for k in ks if k.get("commit", "")[:7] == h[:7]), None)
        rows.append(f"| `{h}` | {k['property'] if k else '?'} | {esc(s[4:].strip())} | {esc((k or {}).get('example') or (k or {}).get('signature') or '')[:160]} |")
    return "\n".join(rows)
def known_table():
    rows = ["| id | property | what fails | why not repaired / where |", "|---|---|---|---|"]
    for k in known():
        if k["status"] != "known": continue
        rows.append(f"| {k['id']} | {k['property']} | {esc(k['description'])[:420]} | {esc(k.get('example') or k.get('signature',''))[:160]} |")
    return "\n".join(rows)
def seeded_table():
    rows = ["| seed | property | change (file) | needs | confirmed | caught by | missed by |", "|---|---|---|---|---|---|---|"]
    for f in sorted(glob.glob(os.path.join(V, "seeded", "*", "meta.json"))):
        m = json.load(open(f))
        d = os.path.dirname(f)
        patch = open(os.path.join(d, "patch.diff")).read()
        files = sorted(set(re.findall(r"^\+\+\+ b/(\S+)", patch, re.M)))
        caught = [c for c, r in m.get("checks", {}).items() if r.get("caught")]
        missed = [c for c, r in m.get("checks", {}).items() if not r.get("caught")]
        summary = m.get("summary") or m.get("needs", "").split("\n")[0][:140]
        rows.append(f"| {os.path.basename(d)} | {m['property']} | {', '.join(files)} | {esc(summary)[:200]} | {'yes' if m.get('confirmed') else 'NO'} | {', '.join(caught) or '-'} | {', '.join(missed) or '-'} |")
    return "\n".join(rows)
GEN = {"fixes": fixes_table, "known": known_table, "seeded": seeded_table}
p = os.path.join(V, "DESIGN.md"); s = open(p).read()
for name, fn in GEN.items():
    s = re.sub(rf"(<!-- GEN:{name} -->\n).*?(<!-- /GEN:{name} -->)", lambda m: m.group(1) + fn() + "\n" + m.group(2), s, flags=re.S)
open(p, "w").write(s)
print("ok")
