#!/usr/bin/env python3
"""Regenerates MANIFEST.json from the property plugins present in lib/props."""
import importlib, json, os, subprocess, sys
HERE = os.path.dirname(os.path.abspath(__file__))
sys.path.insert(0, HERE)
VERIF = os.path.dirname(HERE)
ALL = ["C%02d" % i for i in range(1, 21)]
checks, na = [], []
for pid in ALL:
    path = os.path.join(HERE, "props", pid.lower() + ".py")
    if not os.path.exists(path):
        na.append({"property_id": pid, "reason": "no check registered yet: the Coq model, theorems and correspondence engine for this property are not built; see DESIGN.md for the planned treatment"})
        continue
    m = importlib.import_module("props." + pid.lower())
    checks.append({
        "property_id": pid,
        "quick_cmd": f"./check {pid} --tier quick",
        "thorough_cmd": f"./check {pid} --tier thorough",
        "evidence_file": f"/verif/evidence/{pid}.json",
        "replay_cmd_template": f"./check {pid} --replay {{path}}",
        "engine": "coq-model+correspondence",
        "level_claimed": {"category": "proof", "text": m.LEVEL_TEXT, "design_ref": m.DESIGN_REF},
        "level_note": m.LEVEL_NOTE,
        "technique": m.TECHNIQUE,
    })
hooks_commits = subprocess.run(["git", "-C", "/repo", "log", "--format=%h %s", "--grep=^verif-hooks"], stdout=subprocess.PIPE, text=True).stdout.strip().splitlines()
man = {
    "version": 1,
    "setup_cmd": "./check --setup",
    "hooks": {
        "guard": "cargo feature `verif-hooks` (all hook code is under #[cfg(feature = \"verif-hooks\")])",
        "enable": "the harness crate /verif/harness depends on rotonda = { path = \"/repo\", features = [\"verif-hooks\"] }",
        "baseline_off_cmd": "cd /repo && cargo test --workspace --no-fail-fast --offline",
        "source_commits": hooks_commits,
        "add_only": True,
    },
    "engines": [{"name": "coq-model+correspondence", "path": "/verif/check",
                 "serves_properties": [c["property_id"] for c in checks],
                 "kind_free_text": "hand-written Gallina model + Coq theorems (coq/), extracted OCaml oracle (oracle/), Rust harness over /repo (harness/), python driver (check, lib/)"}],
    "checks": checks,
    "not_applicable": na,
    "notes": "Technique family: machine-checked proof in Coq 8.16.1. Each check: (D1) builds the property's theorems and verifies Print Assumptions, (D2) differential correspondence model vs /repo's working tree, (D3) the property's spec judged on implementation observations. See DESIGN.md.",
}
json.dump(man, open(os.path.join(VERIF, "MANIFEST.json"), "w"), indent=1)
print(f"{len(checks)} checks, {len(na)} not_applicable")
