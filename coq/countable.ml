open BinNums
open BinPos
open Base
open Numbers

type 'a coq_Countable = { encode : ('a -> positive);
                          decode : (positive -> 'a option) }

(** val coq_N_countable : coq_N coq_Countable **)

let coq_N_countable =
  { encode = (fun x ->
    match x with
    | N0 -> Coq_xH
    | Npos p -> BinPos.Pos.succ p); decode = (fun p ->
    if decide (decide_rel Pos.eq_dec p Coq_xH)
    then Some N0
    else Some (Npos (BinPos.Pos.pred p))) }
