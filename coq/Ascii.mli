open BinNat
open BinNums

type ascii =
| Ascii of bool * bool * bool * bool * bool * bool * bool * bool

val coq_N_of_digits : bool list -> coq_N

val coq_N_of_ascii : ascii -> coq_N
