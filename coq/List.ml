
(** val map : ('a1 -> 'a2) -> 'a1 list -> 'a2 list **)

let rec map f = function
| [] -> []
| a :: t -> (f a) :: (map f t)
