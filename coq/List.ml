open Datatypes

(** val map : ('a1 -> 'a2) -> 'a1 list -> 'a2 list **)

let rec map f = function
| [] -> []
| a :: t -> (f a) :: (map f t)

(** val flat_map : ('a1 -> 'a2 list) -> 'a1 list -> 'a2 list **)

let rec flat_map f = function
| [] -> []
| x :: t -> app (f x) (flat_map f t)

(** val fold_right : ('a2 -> 'a1 -> 'a1) -> 'a1 -> 'a2 list -> 'a1 **)

let rec fold_right f a0 = function
| [] -> a0
| b :: t -> f b (fold_right f a0 t)

(** val existsb : ('a1 -> bool) -> 'a1 list -> bool **)

let rec existsb f = function
| [] -> false
| a :: l0 -> (||) (f a) (existsb f l0)

(** val forallb : ('a1 -> bool) -> 'a1 list -> bool **)

let rec forallb f = function
| [] -> true
| a :: l0 -> (&&) (f a) (forallb f l0)

(** val filter : ('a1 -> bool) -> 'a1 list -> 'a1 list **)

let rec filter f = function
| [] -> []
| x :: l0 -> if f x then x :: (filter f l0) else filter f l0
