open Datatypes

(** val map : ('a1 -> 'a2) -> 'a1 list -> 'a2 list **)

let rec map f = function
| [] -> []
| a :: t -> (f a) :: (map f t)

(** val forallb : ('a1 -> bool) -> 'a1 list -> bool **)

let rec forallb f = function
| [] -> true
| a :: l0 -> (&&) (f a) (forallb f l0)

(** val filter : ('a1 -> bool) -> 'a1 list -> 'a1 list **)

let rec filter f = function
| [] -> []
| x :: l0 -> if f x then x :: (filter f l0) else filter f l0

(** val find : ('a1 -> bool) -> 'a1 list -> 'a1 option **)

let rec find f = function
| [] -> None
| x :: tl -> if f x then Some x else find f tl

(** val seq : nat -> nat -> nat list **)

let rec seq start = function
| O -> []
| S len0 -> start :: (seq (S start) len0)
