open Datatypes

(** val rev : 'a1 list -> 'a1 list **)

let rec rev = function
| [] -> []
| x :: l' -> app (rev l') (x :: [])

(** val map : ('a1 -> 'a2) -> 'a1 list -> 'a2 list **)

let rec map f = function
| [] -> []
| a :: t -> (f a) :: (map f t)

(** val flat_map : ('a1 -> 'a2 list) -> 'a1 list -> 'a2 list **)

let rec flat_map f = function
| [] -> []
| x :: t -> app (f x) (flat_map f t)

(** val fold_right : ('a2 -> 'a1 -> 'a1) -> 'a1 -> 'a2 list -> 'a1 **)

let rec fold_right f a0 = function
| [] -> a0
| b :: t -> f b (fold_right f a0 t)

(** val filter : ('a1 -> bool) -> 'a1 list -> 'a1 list **)

let rec filter f = function
| [] -> []
| x :: l0 -> if f x then x :: (filter f l0) else filter f l0

(** val firstn : nat -> 'a1 list -> 'a1 list **)

let rec firstn n l =
  match n with
  | O -> []
  | S n0 -> (match l with
             | [] -> []
             | a :: l0 -> a :: (firstn n0 l0))

(** val skipn : nat -> 'a1 list -> 'a1 list **)

let rec skipn n l =
  match n with
  | O -> l
  | S n0 -> (match l with
             | [] -> []
             | _ :: l0 -> skipn n0 l0)
