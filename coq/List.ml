open Datatypes

(** val last : 'a1 list -> 'a1 -> 'a1 **)

let rec last l d =
  match l with
  | [] -> d
  | a :: l0 -> (match l0 with
                | [] -> a
                | _ :: _ -> last l0 d)

(** val map : ('a1 -> 'a2) -> 'a1 list -> 'a2 list **)

let rec map f = function
| [] -> []
| a :: t -> (f a) :: (map f t)

(** val flat_map : ('a1 -> 'a2 list) -> 'a1 list -> 'a2 list **)

let rec flat_map f = function
| [] -> []
| x :: t -> app (f x) (flat_map f t)

(** val forallb : ('a1 -> bool) -> 'a1 list -> bool **)

let rec forallb f = function
| [] -> true
| a :: l0 -> (&&) (f a) (forallb f l0)

(** val filter : ('a1 -> bool) -> 'a1 list -> 'a1 list **)

let rec filter f = function
| [] -> []
| x :: l0 -> if f x then x :: (filter f l0) else filter f l0

(** val combine : 'a1 list -> 'a2 list -> ('a1 * 'a2) list **)

let rec combine l l' =
  match l with
  | [] -> []
  | x :: tl ->
    (match l' with
     | [] -> []
     | y :: tl' -> (x, y) :: (combine tl tl'))

(** val firstn : nat -> 'a1 list -> 'a1 list **)

let rec firstn n l =
  match n with
  | O -> []
  | S n0 -> (match l with
             | [] -> []
             | a :: l0 -> a :: (firstn n0 l0))

(** val skipn : nat -> 'a1 list -> 'a1 list **)

let rec skipn n l =
  match n with
  | O -> l
  | S n0 -> (match l with
             | [] -> []
             | _ :: l0 -> skipn n0 l0)

(** val repeat : 'a1 -> nat -> 'a1 list **)

let rec repeat x = function
| O -> []
| S k -> x :: (repeat x k)
