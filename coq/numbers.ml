open BinNat
open BinNums
open BinPos
open Base

module Pos =
 struct
  (** val eq_dec : (positive, positive) coq_RelDecision **)

  let eq_dec =
    Pos.eq_dec

  (** val reverse_go : positive -> positive -> positive **)

  let rec reverse_go p1 = function
  | Coq_xI p3 -> reverse_go (Coq_xI p1) p3
  | Coq_xO p3 -> reverse_go (Coq_xO p1) p3
  | Coq_xH -> p1

  (** val reverse : positive -> positive **)

  let reverse =
    reverse_go Coq_xH
 end

(** val coq_N_eq_dec : (coq_N, coq_N) coq_RelDecision **)

let coq_N_eq_dec =
  N.eq_dec
