open BinNat
open BinNums
open Datatypes
open List
open Base
open Countable
open Decidable
open Fin_maps
open Gmap
open List0
open Numbers

val two32 : coq_N

type info = { i_unit : coq_N option; i_parent : coq_N option;
              i_addr : coq_N option; i_asn : coq_N option;
              i_rib : coq_N option; i_file : coq_N option;
              i_name : coq_N option; i_desc : coq_N option }

type reg = { serial : coq_N; infos : (coq_N, info) gmap }

val reg_new : reg

val reg_register : reg -> coq_N * reg

val upd_field : 'a1 option -> 'a1 option -> 'a1 option

val info_merge : info -> info -> info

val reg_update_info : reg -> coq_N -> info -> reg

val reg_get : reg -> coq_N -> info option

val optN_eqb : coq_N option -> coq_N option -> bool

val is_some : 'a1 option -> bool

val child_of : coq_N -> info -> bool

val reg_ids_for_parent : reg -> coq_N -> coq_N list

val peer_match : info -> info -> bool

val router_match : info -> info -> bool

val reg_find_all : (info -> info -> bool) -> reg -> info -> coq_N list

val reg_find_peers : reg -> info -> coq_N list

val reg_find_routers : reg -> info -> coq_N list

val find_or_register : (info -> info -> bool) -> reg -> info -> coq_N * reg

type op =
| ORegister
| OUpdate of coq_N * info
| OGet of coq_N
| OChildren of coq_N
| OFindPeer of info
| OFindRouter of info
| OForPeer of info
| OForRouter of info

type out =
| RId of coq_N
| RUnit
| RInfo of info option
| RIds of coq_N list

val step : reg -> op -> reg * out

val fresh : reg -> op -> coq_N option
