open BinNums
open Datatypes
open Base
open Fin_maps
open Numbers
open Option

type 'a coq_Pmap_raw =
| PLeaf
| PNode of 'a option * 'a coq_Pmap_raw * 'a coq_Pmap_raw

val coq_PNode' :
  'a1 option -> 'a1 coq_Pmap_raw -> 'a1 coq_Pmap_raw -> 'a1 coq_Pmap_raw

val coq_Pempty_raw : 'a1 coq_Pmap_raw coq_Empty

val coq_Plookup_raw : (positive, 'a1, 'a1 coq_Pmap_raw) coq_Lookup

val coq_Psingleton_raw : positive -> 'a1 -> 'a1 coq_Pmap_raw

val coq_Ppartial_alter_raw :
  ('a1 option -> 'a1 option) -> positive -> 'a1 coq_Pmap_raw -> 'a1
  coq_Pmap_raw

val coq_Pto_list_raw :
  positive -> 'a1 coq_Pmap_raw -> (positive * 'a1) list -> (positive * 'a1)
  list

type 'a coq_Pmap =
  'a coq_Pmap_raw
  (* singleton inductive, whose constructor was PMap *)

val pmap_car : 'a1 coq_Pmap -> 'a1 coq_Pmap_raw

val coq_Pempty : 'a1 coq_Pmap coq_Empty

val coq_Plookup : (positive, 'a1, 'a1 coq_Pmap) coq_Lookup

val coq_Ppartial_alter : (positive, 'a1, 'a1 coq_Pmap) coq_PartialAlter

val coq_Pto_list : (positive, 'a1, 'a1 coq_Pmap) coq_FinMapToList
