open BinNums
open BinPosDef
open Datatypes
open Nat

module Pos :
 sig
  val succ : positive -> positive

  val add : positive -> positive -> positive

  val add_carry : positive -> positive -> positive

  val pred_double : positive -> positive

  val pred : positive -> positive

  type mask = Pos.mask =
  | IsNul
  | IsPos of positive
  | IsNeg

  val succ_double_mask : mask -> mask

  val double_mask : mask -> mask

  val double_pred_mask : positive -> mask

  val sub_mask : positive -> positive -> mask

  val sub_mask_carry : positive -> positive -> mask

  val compare_cont : comparison -> positive -> positive -> comparison

  val compare : positive -> positive -> comparison

  val eqb : positive -> positive -> bool

  val iter_op : ('a1 -> 'a1 -> 'a1) -> positive -> 'a1 -> 'a1

  val to_nat : positive -> nat

  val of_succ_nat : nat -> positive

  val eq_dec : positive -> positive -> bool
 end
