open BinNums
open BinPosDef
open Datatypes

module Pos :
 sig
  val succ : positive -> positive

  val add : positive -> positive -> positive

  val add_carry : positive -> positive -> positive

  val pred_double : positive -> positive

  val pred : positive -> positive

  type mask = Pos.mask =
  | IsNul
  | IsPos of positive
  | IsNeg

  val succ_double_mask : mask -> mask

  val double_mask : mask -> mask

  val double_pred_mask : positive -> mask

  val sub_mask : positive -> positive -> mask

  val sub_mask_carry : positive -> positive -> mask

  val compare_cont : comparison -> positive -> positive -> comparison

  val compare : positive -> positive -> comparison

  val eqb : positive -> positive -> bool

  val eq_dec : positive -> positive -> bool
 end
