open Datatypes

(** val keep_nat : nat -> nat **)

let keep_nat n =
  S n
