open Base
open Countable
open Fin_maps
open List0
open Option
open Pmap

type ('k, 'a) gmap =
  'a coq_Pmap
  (* singleton inductive, whose constructor was GMap *)

val gmap_lookup :
  ('a1, 'a1) coq_RelDecision -> 'a1 coq_Countable -> ('a1, 'a2, ('a1, 'a2)
  gmap) coq_Lookup

val gmap_empty :
  ('a1, 'a1) coq_RelDecision -> 'a1 coq_Countable -> ('a1, 'a2) gmap coq_Empty

val gmap_partial_alter :
  ('a1, 'a1) coq_RelDecision -> 'a1 coq_Countable -> ('a1, 'a2, ('a1, 'a2)
  gmap) coq_PartialAlter

val gmap_to_list :
  ('a1, 'a1) coq_RelDecision -> 'a1 coq_Countable -> ('a1, 'a2, ('a1, 'a2)
  gmap) coq_FinMapToList
