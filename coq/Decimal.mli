
type uint =
| Nil
| D0 of uint
| D1 of uint
| D2 of uint
| D3 of uint
| D4 of uint
| D5 of uint
| D6 of uint
| D7 of uint
| D8 of uint
| D9 of uint

val revapp : uint -> uint -> uint

val rev : uint -> uint

module Little :
 sig
  val double : uint -> uint

  val succ_double : uint -> uint
 end
