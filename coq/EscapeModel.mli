open BinNat
open BinNums
open Datatypes
open Decimal
open List
open Nat

type str = coq_N list

val str_eqb : str -> str -> bool

val join : str -> str list -> str

val c_dq : coq_N

val c_hash : coq_N

val c_amp : coq_N

val c_sq : coq_N

val c_sl : coq_N

val c_semi : coq_N

val c_lt : coq_N

val c_eq : coq_N

val c_gt : coq_N

val c_nl : coq_N

val is_ws : coq_N -> bool

val esc_safe_char : coq_N -> str

val esc_dq_char : coq_N -> str

val encode_safe : str -> str

val encode_dq_attr : str -> str

val starts_with : str -> str -> bool

val is_digit : coq_N -> bool

val hex_val : coq_N -> coq_N option

val is_alnum : coq_N -> bool

val parse_num : coq_N -> coq_N -> str -> coq_N option

val ent_value : str -> coq_N option

val unesc_step : str option -> coq_N -> str option * str

val unesc_run : str option -> str -> str

val unescape : str -> str

val uint_chars : uint -> str

val dec : coq_N -> str

type kind =
| KRaw
| KSafe
| KDq

type seg =
| Lit of str
| Num of coq_N
| Fld of kind * str

type template = seg list

val apply_kind : kind -> str -> str

val render_seg : seg -> str

val render : template -> str

type mode =
| MData
| MTagName
| MBeforeAttr
| MAttrName
| MBeforeVal
| MAttrDQ
| MAttrSQ
| MAttrUQ

type tst = { t_mode : mode; t_nm : str; t_attrs : (str * str) list;
             t_an : str; t_av : str }

type ev =
| EText of coq_N
| ETag of str * (str * str) list

val t0 : tst

val tok_step : tst -> coq_N -> tst * ev list

val tok_run : tst -> str -> tst * ev list

val tokenise : str -> ev list

type router = { r_id : coq_N;
                r_addr : (((coq_N * coq_N) * coq_N) * coq_N) option;
                r_tlvs : ((str list * str list) * str list) option;
                r_errs : (bool * str) list;
                r_peers : ((((coq_N * coq_N) * coq_N) * coq_N) * coq_N) list }

val bar : str

val sys_name : router -> str

val sys_desc : router -> str

val sys_extra : router -> str

val addr_segs : (((coq_N * coq_N) * coq_N) * coq_N) option -> template

val page_head : str

val max_info_tlv_len : nat

val truncate_tlv : str -> str

val list_header : coq_N -> template

val list_footer : template

val a_open : str

val a_mid : str

val a_close : str

val count_soft : router -> coq_N

val count_hard : router -> coq_N

val count_peers : router -> coq_N

val list_row_gen : kind -> kind -> (str -> str) -> str -> router -> template

val list_row : str -> router -> template

val list_page : str -> router list -> template

val info_head : template

val info_footer : template

val max_recent_parse_errors : nat

val recent_errs : router -> (bool * str) list

val err_seg : kind -> (bool * str) -> template

val peer_key : ((((coq_N * coq_N) * coq_N) * coq_N) * coq_N) -> template

val peer_row :
  kind -> str -> str option -> ((((coq_N * coq_N) * coq_N) * coq_N) * coq_N)
  -> template

val peers_table : kind -> str -> str option -> router -> template

val info_page_gen : kind -> kind -> str -> str option -> router -> template

val find_sub_go : str -> str -> str -> (str * str) option

val split_once : str -> str -> (str * str) option

val replace_go : str -> str -> nat -> str -> str

val replace_all : str -> str -> str -> str

val format_source_id : str -> str -> coq_N -> str

val addr_str : router -> str

val info_route : str -> str -> str -> router -> (str * str option) option

val info_request_gen :
  kind -> kind -> str -> str -> str -> router -> template option

val info_request : str -> str -> str -> router -> template option

val info_request_legacy : str -> str -> str -> router -> template option

val utf8_len : coq_N -> coq_N

val byte_len : str -> coq_N

val take_bytes : coq_N -> str -> str option

val legacy_trunc : str -> str option

val list_row_legacy : str -> router -> template option

val list_rows_legacy : str -> router list -> template option

val list_page_legacy : str -> router list -> template option

val text_of : ev list -> str

val contains : str -> str -> bool

val prom_label : (str * str) -> str

val prom_labels : (str * str) list -> str

val prom_sample : str -> (str * str) list -> str -> str
