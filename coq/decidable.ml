open Base

(** val bool_eq_dec : (bool, bool) coq_RelDecision **)

let bool_eq_dec x y =
  if x then if y then true else false else if y then false else true
