open Base

type __ = Obj.t

val list_filter : ('a1 -> coq_Decision) -> 'a1 list -> 'a1 list

val list_omap : (__ -> __ option) -> __ list -> __ list
