open Datatypes

type __ = Obj.t

val from_option : ('a1 -> 'a2) -> 'a2 -> 'a1 option -> 'a2

val option_fmap : (__ -> __) -> __ option -> __ option
