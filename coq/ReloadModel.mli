open BinNat
open BinNums
open Datatypes
open List

type variant =
| Legacy
| Fixed
| Ideal

val is_legacy : variant -> bool

val track_panics : variant -> bool

type name = coq_N * coq_N option

val optN_eqb : coq_N option -> coq_N option -> bool

val name_eqb : name -> name -> bool

val name_leb : name -> name -> bool

val mem : name -> name list -> bool

val nodupb : name list -> bool

val alookup : name -> (name * 'a1) list -> 'a1 option

val names : (name * 'a1) list -> name list

type kind =
| KUnit
| KTarget

type srcs =
| SNone
| SOne of name
| SMany of name option list
| SBad

type comp = { c_ty : coq_N; c_src : srcs; c_ok : bool; c_vribs : coq_N;
              c_cfg : coq_N; c_up : name option }

type doc = { d_syntax : bool; d_top : bool; d_units : (name * comp) list;
             d_targets : (name * comp) list }

val expands : comp -> bool

val vrib_chain : coq_N -> comp -> name -> coq_N -> nat -> (name * comp) list

val extra_of : (name * comp) -> (name * comp) list

val remap_of : (name * comp) -> (name * name) list

val remap_name : (name * name) list -> name -> name

val remap_srcs : (name * name) list -> srcs -> srcs

val remap_comp : (name * name) list -> (name * comp) -> name * comp

val bad_src : srcs -> bool

val expand : doc -> doc

type cfres =
| CfErr
| CfPanic
| CfOk of doc

val cf_new : variant -> doc -> cfres

type gates = (name * coq_N) list

val all_some : name option list -> name list option

val src_accept : kind -> coq_N -> srcs -> name list option

val known_type : kind -> coq_N -> bool

val has_settings : kind -> coq_N -> bool

val comp_links : kind -> comp -> name list option

val load_link : coq_N -> gates -> name -> (name * coq_N) * gates

val load_links : coq_N -> gates -> name list -> (name * coq_N) list * gates

type lcomp = { lc_ty : coq_N; lc_cfg : coq_N; lc_links : (name * coq_N) list }

val load_comps :
  kind -> coq_N -> gates -> (name * comp) list -> (name * lcomp) list
  option * gates

val insert_sorted : (name * 'a1) -> (name * 'a1) list -> (name * 'a1) list

val sort_by_name : (name * 'a1) list -> (name * 'a1) list

type lconfig = { l_units : (name * lcomp) list;
                 l_targets : (name * lcomp) list }

type rcomp = { r_ty : coq_N; r_gate : coq_N; r_cfg : coq_N;
               r_links : (name * coq_N) list }

type mgr = { m_units : (name * rcomp) list; m_targets : (name * rcomp) list;
             m_pending : gates; m_gates : gates; m_gen : coq_N }

val mgr_new : mgr

val mgr_load : variant -> mgr -> doc -> lconfig option * gates

val prepare_legacy : name list -> gates -> gates -> bool * gates

val prepare : variant -> mgr -> lconfig -> gates -> bool * mgr

type action =
| ASpawn of kind * name
| AReconf of kind * name
| ATerm of kind * name

val gate_for : kind -> gates -> name -> coq_N option

val comp_actions :
  kind -> (name * rcomp) list -> gates -> (name * lcomp) -> action list

val started : kind -> gates -> (name * lcomp) -> (name * rcomp) list

val gone : kind -> name list -> (name * rcomp) list -> action list

val spawned : kind -> action list -> name list

val track_clash : action list -> bool

val kind_actions :
  kind -> (name * rcomp) list -> gates -> (name * lcomp) list -> action list

val spawn : mgr -> lconfig -> action list * mgr

type rres =
| RPanic
| RErr
| ROk of action list

val reload : variant -> mgr -> doc -> rres * mgr

val resolve : mgr -> (name * coq_N) -> name option

val wiring : mgr -> rcomp -> name option list

val all_links : doc -> name list

val doc_ok : doc -> bool
